"""C10 - results are covariant with amplitude and sampling-rate units."""
import warnings
import numpy as np
from core import Result
import proto, gen, implutil

THEOREMS = ['C10_cyclepoints', 'C10_argext', 'C10_midpoints', 'C10_shape', 'C10_burst_features', 'C10_ratio', 'C10_period_consistency', 'C10_rate', 'C10_amplitude']
RULE = ("generated signals of all families x option sets of C01 x both burst methods x both centrings; (a) amplitude: compute_features(a*x) against compute_features(x) for "
        "a = 2^k, k in [-40, 40] (exact in float64; a quarter of the cases on int16 / int32 / int64 signals with k in [1, 4]): every sample index, duration, symmetry, consistency, monotonicity, amplitude fraction, burst fraction and label equal, "
        "every voltage feature and band_amp multiplied by a exactly; (b) rate: compute_features(x, c*fs, c*f_range) against compute_features(x, fs, f_range) for c = 2^k, "
        "k in [-3, 6] (plus slow 0.25-0.38 Hz rhythms sampled at 32 / 64 Hz, band edges below 1 Hz, c = 4..32) and, for 40% of the rate cases, the one or two halvings that make c*fs fractional ( runs that the neurodsp filter validation refuses for its absolute-frequency limits are counted as kernel-refused), filter length in cycles: identical tables; one case in four also through ONE Bycycle object fitted before and after the rescaling (the array rescaled in place / the rate and band changed, settings untouched); distinct = distinct (signal, options, factor); non-trivial = >= 3 cycles and factor != 1")
ASSUMPTIONS = ["exact commutation of float64 arithmetic with power-of-two factors is a runtime fact observed on the implementation (no overflow / subnormals in the tested range)",
               "homogeneity of the neurodsp kernels (filter linear, amp_by_time homogeneous, dual threshold scale free, dependence on fs and f only through ratios) is E5: assumed in the theorems, observed here"]
BATCH = 50
VOLT = ['volt_peak', 'volt_trough', 'volt_decay', 'volt_rise', 'volt_amp', 'band_amp']

def regen_slots():
    import slots
    return slots.regenerate()

def corpus(ctx):
    s = gen.make_signal(np.random.default_rng(41), family='bursty', fs=500, f0=10)
    base = dict(sig=proto.arr2hex(s['sig']), fs=500, f_range=[7.0, 13.0], n_cycles=None, boundary=None, center='peak', method='cycles', th=None, family='bursty')
    return [dict(base, kind='amp', k=3), dict(base, kind='rate', k=1), dict(base, kind='amp', k=-7, center='trough', method='amp')]

def generate(ctx):
    rng = ctx.rng
    cases = []
    for i in range(ctx.scale(180, 1800)):
        s = gen.make_signal(ctx.sub_rng(i), family=gen.FAMILIES[i % len(gen.FAMILIES)])
        method = str(rng.choice(['cycles', 'amp']))
        th = ({'amp_fraction_threshold': float(rng.choice([0.0, 0.3])), 'amp_consistency_threshold': float(rng.choice([0.2, 0.5])),
               'monotonicity_threshold': float(rng.choice([0.4, 0.8])), 'min_n_cycles': int(rng.choice([1, 3]))}
              if method == 'cycles' else {'burst_fraction_threshold': float(rng.choice([0.5, 1.0])), 'min_n_cycles': int(rng.choice([1, 3]))})
        kind = 'amp' if rng.random() < 0.6 else 'rate'
        k = int(rng.integers(-40, 41)) if kind == 'amp' else int(rng.integers(-3, 7))
        if kind == 'rate' and rng.random() < 0.4:      # a FRACTIONAL rate: one or two halvings past the rate's last factor of two
            v2 = 0
            while int(s['fs']) % (2 ** (v2 + 1)) == 0: v2 += 1
            k = -(v2 + 1 + int(rng.integers(2)))
        cases.append(dict(kind=kind, k=k, sig=proto.arr2hex(s['sig']), fs=s['fs'], f_range=list(s['f_range']),
                          n_cycles=(None if rng.random() < 0.5 else int(rng.choice([2, 3, 4]))),
                          boundary=(None if rng.random() < 0.5 else int(rng.choice([0, 5, 30]))),
                          center=str(rng.choice(['peak', 'trough'])), method=method, th=th, family=s['family'], pres=implutil.pick_presentation(rng, 0.3), reuse=bool(rng.random() < 0.25), obj=bool(i % 4 == 1)))
        if kind == 'amp' and rng.random() < 0.25:      # integer-typed recordings (ADC counts): factor 2^k, k in 1..4, stays in range
            cases[-1].update(dtype=str(rng.choice(['int16', 'int32', 'int64', '>i2', '>i4', '<u2', '>u2'])), k=int(rng.integers(1, 5)))     # (byte-swapped recordings included)
    for j in range(ctx.scale(60, 600)):
        # SLOW rhythms (sleep slow oscillations, respiration): a noisy 0.25-0.38 Hz wave sampled at 32 / 64 Hz, band (0.25, 1) Hz - periods of
        # seconds, so anything in the chain that is a fixed number of SECONDS rather than of cycles (a filter length, a pad) shows when the unit changes
        r = ctx.sub_rng(100000 + j)
        fs = float(r.choice([32, 64])); n = int(r.choice([2048, 3072, 4096]))
        x = np.sin(2 * np.pi * r.uniform(0.25, 0.38) * np.arange(n) / fs + r.uniform(0, 6)) + 0.3 * r.standard_normal(n)
        cases.append(dict(kind='rate', k=int(r.integers(2, 6)), sig=proto.arr2hex(x), fs=fs, f_range=[0.25, 1.0], n_cycles=None,
                          boundary=None, center=str(r.choice(['peak', 'trough'])), method='cycles', th=None, family='slow', pres='array', reuse=False, obj=False))
    return cases

_objs = {}
def _run(c, sig, fs, fr):
    from bycycle.features import compute_features
    if _objs.get('owner') is not c:      # identity of the case dict (id() values are reused after garbage collection)
        _objs['owner'] = c       # both runs of one case use the SAME option objects
        fk = None if c['n_cycles'] is None else {'n_cycles': c['n_cycles']}
        _objs['v'] = (dict(c['th']) if c['th'] else {}, implutil.fe_kwargs(fk, c['boundary'], None), (dict({'amp_threshes': (0.5, 1.5)}, **({'fs': 123.0} if c['k'] % 3 == 0 else {'f_range': (3.0, 9.0)} if c['k'] % 3 == 1 else {})) if c['method'] == 'amp' else None))      # (a stale fs / f_range key in the burst options is overwritten by the call's own)
    th, fek, bk = _objs['v']
    return implutil.quiet(compute_features, sig, fs, fr, center_extrema=c['center'], burst_method=c['method'], burst_kwargs=bk, threshold_kwargs=th, find_extrema_kwargs=fek)

def evaluate(ctx, cases):
    out = []
    for c in cases:
        key = hash(repr({k: v for k, v in c.items() if k != 'family'}))
        x = proto.hex2arr(c['sig']); fs = c['fs']; fr = implutil.frange(c)
        f = 2.0 ** c['k']
        if c.get('dtype'):
            m = float(np.max(np.abs(x))) or 1.0
            x = np.round(x * (1900.0 / m)) + (2000 if 'u' in c['dtype'] else 0)
            x = x.astype(c['dtype']); f = int(f)
        res = []
        for j, args in enumerate(((x, fs, fr), ((x * f, fs, fr) if c['kind'] == 'amp' else (x, fs * f, (fr[0] * f, fr[1] * f))))):
            try:
                if j == 1 and c.get('pres') not in (None, 'array'):       # the rescaled run receives its samples in another container / layout
                    args = (implutil.present(np.asarray(args[0]), c['pres']),) + tuple(args[1:])
                if j == 0 and c.get('reuse') and isinstance(args[0], np.ndarray):      # the first run analyses a buffer refilled in place
                    res.append(implutil.reuse_buffer(lambda a: _run(c, a, args[1], args[2]), args[0])); continue
                res.append(_run(c, *args))
            except Exception as e:
                tb = e.__traceback__; files = []
                while tb is not None:
                    files.append(tb.tb_frame.f_code.co_filename); tb = tb.tb_next
                last_own = max([i for i, f in enumerate(files) if '/bycycle/' in f] or [-1])
                in_kernel = any(('/neurodsp/' in f and '/neurodsp/utils/checks' not in f) for f in files[last_own + 1:])
                res.append(('transition band (kernel) ' if in_kernel else '') + type(e).__name__ + ': ' + str(e)[:60])
        info = {}
        if any(isinstance(r, str) and 'HistoryDependence' in r for r in res):
            out.append(Result(c, judge_ok=False, corr_ok=False, sig=key, nontrivial=True, info=dict(judge=[r for r in res if isinstance(r, str)][0]))); continue
        if isinstance(res[0], str) and isinstance(res[1], str):
            ctx.hist('outcome', 'both raised (C01)')
            out.append(Result(c, sig=key, nontrivial=False, info=dict(skipped=res[0]))); continue
        if c['kind'] == 'rate' and any(isinstance(r, str) and 'transition band' in r for r in res):      # (an amplitude rescaling changes neither rate nor band: the kernel cannot refuse one run only)
            ctx.hist('outcome', 'kernel-refused (filter definition)')
            out.append(Result(c, sig=key, nontrivial=False, info=dict(skipped='neurodsp refused the filter definition'))); continue
        if isinstance(res[0], str) or isinstance(res[1], str):
            out.append(Result(c, judge_ok=False, corr_ok=False, sig=key, nontrivial=True, info=dict(judge='only one of the two runs raised: %s' % [r for r in res if isinstance(r, str)][0])))
            continue
        a, b = res
        ok = True
        if c.get('obj') and not c.get('dtype'):
            # the same pair through ONE Bycycle object: fitted on a buffer holding x, the buffer is rescaled IN PLACE (amplitude) or the rate and band
            # are changed (rate), and the object is fitted again with unchanged settings: the second table must be the functional one
            try:
                from bycycle import Bycycle
                th, fek, bk = _objs['v']
                bm = implutil.quiet(Bycycle, center_extrema=c['center'], burst_method=c['method'], burst_kwargs=bk, thresholds=th, find_extrema_kwargs=fek)
                buf = np.array(x, dtype=float)
                implutil.quiet(bm.fit, buf, fs, fr)
                if c['kind'] == 'amp':
                    buf *= f; implutil.quiet(bm.fit, buf, fs, fr)
                else:
                    implutil.quiet(bm.fit, buf, fs * f, (fr[0] * f, fr[1] * f))
                if not bm.df_features.equals(b):
                    ok = False; info['judge'] = 'one Bycycle object fitted before and after the rescaling: the second table is not compute_features of the rescaled input'
            except Exception as e:
                ok = False; info['judge'] = 'Bycycle object route raised %s: %s' % (type(e).__name__, str(e)[:80])
        if not ok:
            pass
        elif len(a) != len(b) or list(a.columns) != list(b.columns):
            ok = False; info['judge'] = 'tables differ in shape: %d vs %d rows' % (len(a), len(b))
        else:
            for col in a.columns:
                u, v = a[col].values, b[col].values
                scale = f if (c['kind'] == 'amp' and col in VOLT) else 1.0
                same = all((p != p and q != q) or (p * scale == q) for p, q in zip(u.tolist(), v.tolist()))
                if not same:
                    ok = False
                    i = next(i for i, (p, q) in enumerate(zip(u.tolist(), v.tolist())) if not ((p != p and q != q) or p * scale == q))
                    info['judge'] = 'column %s row %d: %r (x %g) vs %r' % (col, i, u[i], scale, v[i]); break
        if ok and c['kind'] == 'amp' and c['method'] == 'cycles' and any(col.startswith('sample_') for col in a.columns):
            # the step-by-step route on the same recordings: the feature functions called directly on the (possibly integer-typed) samples give the table's columns,
            # before and after the rescaling
            try:
                from bycycle.features.burst import compute_monotonicity
                for tab, arr in ((a, x), (b, x * f)):
                    mono = implutil.quiet(compute_monotonicity, tab, arr)
                    if not all((u != u and v != v) or u == v for u, v in zip(np.asarray(mono, float).tolist(), tab['monotonicity'].values.tolist())):
                        ok = False; info['judge'] = 'compute_monotonicity called directly on the %s samples differs from the monotonicity column of compute_features' % np.asarray(arr).dtype; break
            except Exception as e:
                ok = False; info['judge'] = 'compute_monotonicity raised %s on the samples compute_features analysed' % type(e).__name__
        ctx.hist('kind', c['kind']); ctx.hist('method', c['method']); ctx.hist('dtype', c.get('dtype', 'float64'))
        out.append(Result(c, judge_ok=ok, corr_ok=ok, sig=key, nontrivial=(len(a) >= 3 and c['k'] != 0), info=info))
    return out
