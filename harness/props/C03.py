"""C03 - find_zerox: flank midpoints at the half-height crossing."""
import itertools, warnings
from fractions import Fraction
import numpy as np
from core import Result
import proto, gen

THEOREMS = ['C03_crossings', 'C03_crossing_rise', 'C03_crossing_decay', 'C03_value', 'C03_crossing_exists_rise', 'C03_crossing_exists_decay',
            'C03_single', 'C03_median', 'C03_centre', 'C03_within_segment', 'C03_count', 'C03_within', 'C03_counts_order', 'C03_routing', 'C03_offset']
RULE = ("(a) EXHAUSTIVE: every flank segment over the values {-1,0,1,2} of length 2..L in both directions (multiple crossings, ties with the half height, "
        "inverted, all-zero and flat-ended flanks), one in four also as an int8 / int16 / int32 array scaled to the limits of its type, one in four also multiplied by 2^-40; (b) EXHAUSTIVE: every strictly alternating peak/trough index sequence on every signal over {-1,0,1} "
        "of length <= M (count / bias / order logic); (c) cyclepoints from find_extrema on generated signals of all families (first_extrema peak/trough/None, "
        "several boundaries); distinct = distinct (signal, peaks, troughs); non-trivial = at least one flank whose answer is not its first sample")
ASSUMPTIONS = ["half heights (a+b)/2 are exact on the integer grids of (a) and (b); on float signals a disagreement is recorded as a float tie only when a "
               "sample lies within 2^-40 (relative) of the exact half height of its flank"]
BATCH = 4000

def regen_slots():
    import slots
    return slots.regenerate()

INT_MUL = {'int8': 50, 'int16': 12000, 'int32': 900000000}

def _impl(sig, peaks, troughs, dt=None):
    from bycycle.cyclepoints import find_zerox
    try:
        with warnings.catch_warnings():
            warnings.simplefilter('ignore')
            # index containers: int64 arrays / plain python lists / tuples / int32 arrays
            mk = [lambda v: np.asarray(v, dtype=int), lambda v: [int(x) for x in v], lambda v: tuple(int(x) for x in v),
                  lambda v: np.asarray(v, dtype=np.int32)][(len(sig) + len(peaks) + 2 * len(troughs)) % 4]
            arr = sig if dt else np.asarray(sig, dtype=float)
            if (len(sig) + len(peaks)) % 3 == 0 and arr.flags.writeable and len(peaks) and len(troughs):
                # a buffer that held other samples a moment ago (refilled in place)
                buf = np.ascontiguousarray(arr[::-1]).copy()
                try: find_zerox(buf, mk(peaks), mk(troughs))
                except Exception: pass
                buf[:] = arr; arr = buf
            if (len(sig) + 2 * len(peaks) + len(troughs)) % 5 == 2 and isinstance(arr, np.ndarray):
                arr = np.ma.MaskedArray(arr.copy(), mask=(np.arange(len(arr)) % 3 == 1))      # flagged samples: the recorded voltages are what is analysed
            r, d = find_zerox(arr, mk(peaks), mk(troughs))
        for nm, a in (('rises', r), ('decays', d)):      # sample indices: integer arrays, also when empty (they are used to index the recording)
            if not (isinstance(a, np.ndarray) and a.dtype.kind in 'iu'):
                return ['err', 'NotAnIntegerIndexArray:' + nm]
        return ['ok', [[str(int(x)) for x in r], [str(int(x)) for x in d]]]
    except Exception as e:
        return ['err', type(e).__name__]

def float_tie(sig, peaks, troughs):
    ext = sorted([int(p) for p in peaks] + [int(t) for t in troughs])
    for a, b in zip(ext[:-1], ext[1:]):
        seg = sig[a:b + 1]
        if len(seg) < 2:
            continue
        h = (Fraction(float(seg[0])) + Fraction(float(seg[-1]))) / 2
        scale = max(abs(Fraction(float(seg[0]))), abs(Fraction(float(seg[-1]))), Fraction(1, 10**300))
        for x in seg:
            if abs(Fraction(float(x)) - h) <= scale / 2**40 and Fraction(float(x)) != h:
                return True
        if Fraction((float(seg[0]) + float(seg[-1])) / 2.0) != h and any(abs(Fraction(float(x)) - h) <= scale / 2**40 for x in seg):
            return True
    return False

def corpus(ctx):
    return [dict(kind='seq', sig=[0, 1, 2, 1, 0, -1, 0, 2], peaks=[2, 7], troughs=[0, 5]),
            dict(kind='seq', sig=[0, 0, 0, 0], peaks=[3], troughs=[0]),
            dict(kind='seq', sig=[2, 1, 1, 1, 2], peaks=[4], troughs=[0]),
            dict(kind='seq', sig=[0, 2, 0, 2, 0, 2, 1], peaks=[5], troughs=[0]),
            dict(kind='seq', sig=[1, 0, 1], peaks=[], troughs=[1]),
            # pre-fix F (052c5d2): the flank midpoint (a + b) / 2 wrapped in the signal's own integer type
            dict(kind='seq', sig=[1, 1, 2, 2, 2], peaks=[4], troughs=[0], dt='int16'),
            # a LOUD stretch (sum of |samples| about 2^30: a single-precision running total no longer resolves 20 counts) before QUIET asymmetric flanks, as ADC counts
            dict(kind='seq', sig=[30000, -30000] * 20000 + [-20, 14, 16, 18, 19, 20, 19, 18, -16, -19, -20], peaks=[40005], troughs=[40000, 40010], raw_dt='int16'),
            # directed: flanks BEYOND sample 2^16 and 2^17 (a minute of a 1250 Hz recording): the midpoints are sample indices of the whole recording
            dict(kind='seq', sig=[0] * 70000 + [-4, 0, 3, 5, 4, 1, -3, -5, -2, 2, 6], peaks=[70003, 70010], troughs=[70000, 70007]),
            dict(kind='seq', sig=[0] * 131080 + [5, 4, 1, -3, -5, -2, 2, 6, 3, -1, -6], peaks=[131080, 131087], troughs=[131084, 131090])]

def generate(ctx):
    cases = []
    L = ctx.scale(7, 9)
    M = ctx.scale(6, 7)
    ctx.notes['exhaustive'] = True
    ctx.notes['exhaustive_scope'] = 'flank segments over {-1,0,1,2} of length 2..%d, both directions; alternating sequences on all signals over {-1,0,1} of length 2..%d' % (L, M)
    nseg = 0
    for n in range(2, L + 1):
        for seg in itertools.product((-1, 0, 1, 2), repeat=n):
            cases.append(dict(kind='seq', sig=list(seg), peaks=[n - 1], troughs=[0]))     # rise
            cases.append(dict(kind='seq', sig=list(seg), peaks=[0], troughs=[n - 1]))     # decay
            nseg += 1
            if nseg % 4 == 2:      # the same flank in a small physical unit (times 2^-40: an absolute tolerance anywhere would call it flat)
                up = nseg % 8 == 2
                cases.append(dict(kind='seq', sig=list(seg), peaks=[n - 1] if up else [0], troughs=[0] if up else [n - 1], scale=-40))
            if nseg % 4 == 0:      # the same flank as an integer-typed recording near the limits of its type
                up = nseg % 8 == 0
                cases.append(dict(kind='seq', sig=list(seg), peaks=[n - 1] if up else [0], troughs=[0] if up else [n - 1], dt=['int8', 'int16', 'int32'][(nseg // 4) % 3]))
    for n in range(2, M + 1):
        seqs = []
        for k in range(2, n + 1):
            for pos in itertools.combinations(range(n), k):
                for first_peak in (True, False):
                    pk = [p for i, p in enumerate(pos) if (i % 2 == 0) == first_peak]
                    tr = [p for i, p in enumerate(pos) if (i % 2 == 0) != first_peak]
                    seqs.append((pk, tr))
        for sig in itertools.product((-1, 0, 1), repeat=n):
            for pk, tr in seqs:
                cases.append(dict(kind='seq', sig=list(sig), peaks=pk, troughs=tr))
    from bycycle.cyclepoints import find_extrema
    rng = ctx.rng
    for i in range(ctx.scale(150, 1500)):
        s = gen.make_signal(ctx.sub_rng(i))
        fe = [None, 'peak', 'trough'][int(rng.integers(3))]
        bd = int(rng.choice([0, 0, 1, 5, 20]))
        try:
            with warnings.catch_warnings():
                warnings.simplefilter('ignore')
                pk, tr = find_extrema(s['sig'], s['fs'], s['f_range'], boundary=bd, first_extrema=fe)
        except Exception:
            continue
        if len(pk) == 0 or len(tr) == 0:
            continue
        cases.append(dict(kind='signal', sig=proto.arr2hex(s['sig']), peaks=[int(x) for x in pk], troughs=[int(x) for x in tr], family=s['family']))
    # DECIMAL grids (recordings stored with one or two decimals): flanks with a sample EXACTLY on the half height, chosen so that the float half height
    # (a + b) / 2 is the exact one (no rounding) while other ways of writing the same formula round differently - no float tie can excuse a disagreement
    from fractions import Fraction as Fr
    made = 0
    for i in range(ctx.scale(4000, 40000)):
        if made >= ctx.scale(300, 3000): break
        q = int(rng.choice([10, 100]))
        a, b = float(rng.integers(-60, 61)) / q, float(rng.integers(-60, 61)) / q
        if a == b: continue
        h = (a + b) / 2.0
        if Fr(h) != (Fr(a) + Fr(b)) / 2 or a + (b - a) / 2.0 == h: continue
        up = a < b
        lo, hi = min(a, b), max(a, b)
        n_in = int(rng.integers(1, 5))
        inner = sorted(float(lo + (hi - lo) * v) for v in rng.random(n_in))
        inner[int(rng.integers(n_in))] = h
        inner = sorted(inner) if up else sorted(inner, reverse=True)
        seg = [a] + inner + [b]
        cases.append(dict(kind='seqf', sig=proto.arr2hex(np.array(seg)), peaks=[len(seg) - 1] if up else [0], troughs=[0] if up else [len(seg) - 1])); made += 1
    return cases

def evaluate(ctx, cases):
    reqs, sigs = [], []
    for c in cases:
        sig = proto.hex2arr(c['sig']) if c['kind'] in ('signal', 'seqf') else np.array(c['sig'], dtype=float)
        if c.get('dt'):
            sig = (np.array(c['sig']) * INT_MUL[c['dt']]).astype(c['dt'])
        if c.get('raw_dt'):
            sig = np.array(c['sig']).astype(c['raw_dt'])
        if c.get('scale'):
            sig = sig * 2.0 ** c['scale']
        sigs.append(sig)
        args = '%s %s %s' % (proto.enc_list(sig.astype(float)), proto.enc_ints(c['peaks']), proto.enc_ints(c['troughs']))
        reqs.append('zerox.model ' + args)
        reqs.append('zerox.spec ' + args)
    ans = proto.run_driver(reqs)
    out = []
    for i, c in enumerate(cases):
        model, spec = ans[2 * i], ans[2 * i + 1]
        impl = _impl(sigs[i], c['peaks'], c['troughs'], c.get('dt') or c.get('raw_dt'))
        corr_ok = impl == model
        judge_ok = True if spec == 'invalid-seq' else impl == spec
        tie = False
        if (not corr_ok or not judge_ok) and c['kind'] == 'signal':
            tie = float_tie(sigs[i], c['peaks'], c['troughs'])
            if tie:
                judge_ok = True
        nt = impl[0] == 'ok' and any(int(m) not in set(c['peaks']) | set(c['troughs']) for m in impl[1][0] + impl[1][1])
        ctx.hist('kind', c['kind'] + ('' if spec != 'invalid-seq' else ':invalid-seq'))
        key = (tuple(c['sig']) if c['kind'] == 'seq' else hash(tuple(c['sig'])), tuple(c['peaks']), tuple(c['troughs']), c.get('dt'), c.get('scale'))
        out.append(Result(c, judge_ok=judge_ok, corr_ok=corr_ok, sig=hash(key), nontrivial=nt, float_tie=tie,
                          info=dict(impl=impl, model=model, spec=spec)))
    return out
