"""C02 - find_extrema: raw-signal extremes of narrow-band half-waves."""
import warnings
import numpy as np
from core import Result
import proto, gen, kernels, implutil

THEOREMS = ['C02_crossing_char_rise', 'C02_crossing_char_decay', 'C02_crossings_sorted', 'C02_alternation', 'C02_halfwave_pos', 'C02_halfwave_neg',
            'C02_first_max', 'C02_first_min', 'C02_exact', 'C02_boundary', 'C02_alternating', 'C02_first', 'C02_full']
RULE = ("generated signals of all families (ties / plateaus make first-occurrence observable) x fs x band x filter length (n_cycles 2..5 or n_seconds) x boundary x "
        "first_extrema in {peak, trough, None, invalid} x pad in {True, False} x (12%) pass_type in {lowpass, highpass} with a one-sided f_range; one case in five after a REFUSED call with the same options (12 samples, unpadded); the harness pads and band-passes as the property defines and ships the raw signal "
        "and the SIGN PATTERN of the filtered signal; plus synthetic sign patterns (random run lengths, degenerate: constant, single crossing) on small integer signals; "
        "distinct = distinct inputs; non-trivial = at least two extrema reported or an exception predicted")
ASSUMPTIONS = ["neurodsp.filt.filter_signal / compute_filter_length are parameters: only (filtered > 0) and ceil(filt_len/2) are used",
               "judged only when the filtered signal has at least one rising and one decaying zero-crossing (the statement's 'closed half-wave' is otherwise vacuous and the code falls back to a len/2 dummy crossing)"]
BATCH = 100

def regen_slots():
    import slots
    return slots.regenerate()

def _bd(c):
    """the boundary handed to the implementation: an integer, or (one case in seven) the NON-INTEGER k + 1/2, e.g. 0.05 s x 250 Hz = 12.5 samples; extrema are
    kept iff boundary < index < len - boundary, which for k + 1/2 is what the integer k gives (the model is asked with k)"""
    return c['boundary'] + 0.5 if c.get('bfrac') else c['boundary']

def _fmt(pk, tr):
    return ['ok', [[str(int(x)) for x in pk], [str(int(x)) for x in tr]]]

def _impl_signal(c):
    from bycycle.cyclepoints import find_extrema
    sig = implutil.present(proto.hex2arr(c['sig']), c.get('pres'))
    try:
        with warnings.catch_warnings():
            warnings.simplefilter('ignore')
            fk = dict(c['fk']) if c['fk'] is not None else None
            ptk = {'pass_type': c['pass_type']} if c.get('pass_type') else {}
            snap = repr(fk)
            if len(c['sig']) % 5 == 0:
                # AFTERMATH of a refused call: the same options on a recording much shorter than the filter, unpadded (neurodsp refuses it); whatever
                # the call did on its way to the exception, the settings dictionary and every later call must be unaffected
                for fkv in (fk, None):
                    try:
                        find_extrema(np.asarray(proto.hex2arr(c['sig']))[:12], c['fs'], implutil.frange(c), filter_kwargs=fkv, pad=False)
                    except Exception:
                        pass
                if repr(fk) != snap: return ['err', 'RefusedCallChangedOptions']
            pk, tr = find_extrema(sig, c['fs'], implutil.frange(c), boundary=_bd(c), first_extrema=c['first'], filter_kwargs=fk, pad=c['pad'], **ptk)
            # the caller keeps using its settings dictionary: a second call must see the same settings
            pk2, tr2 = find_extrema(sig, c['fs'], implutil.frange(c), boundary=_bd(c), first_extrema=c['first'], filter_kwargs=fk, pad=c['pad'], **ptk)
            if repr(fk) != snap or not (np.array_equal(pk, pk2) and np.array_equal(tr, tr2)):
                return ['err', 'SecondCallDiffers']
            if c['first'] == 'peak' and len(pk) >= 1 and len(tr) >= 1 and not c.get('pass_type'):
                # the feature-level route: compute_cyclepoints hands the same options on and builds its table from these arrays
                from bycycle.features import compute_cyclepoints
                try:
                    df = compute_cyclepoints(sig, c['fs'], implutil.frange(c), boundary=_bd(c), filter_kwargs=fk, pad=c['pad'])
                    if not (np.array_equal(df['sample_peak'].values, pk[1:]) and np.array_equal(df['sample_last_trough'].values, tr[:-1])
                            and np.array_equal(df['sample_next_trough'].values, tr[1:])):
                        return ['err', 'CyclepointsRouteDiffers']
                except ValueError as e:
                    if 'same length' not in str(e) and 'All arrays' not in str(e): raise
        return _fmt(pk, tr)
    except Exception as e:
        return ['err', type(e).__name__]

INT_MAP = {'uint8': {-2: 0, -1: 1, 0: 100, 1: 254, 2: 255}, 'int8': {-2: -128, -1: -127, 0: 0, 1: 126, 2: 127}, 'int16': {-2: -32768, -1: -1, 0: 0, 1: 1, 2: 32767}}

def _pattern_sig(c):
    """(array handed to find_extrema, its values as floats): the small-integer pattern as float64, or mapped monotonically onto the
    limits of a fixed-width integer type (arg-extrema only depend on the order)"""
    if c.get('dt'):
        m = INT_MAP[c['dt']]
        a = np.array([m[int(v)] for v in c['sig']], dtype=c['dt'])
        return a, a.astype(float)
    a = np.array(c['sig'], dtype=float)
    return a, a

def _impl_pattern(c):
    """drive find_extrema with a prescribed filtered sign pattern by substituting the filter (harness process only)"""
    import bycycle.cyclepoints.extrema as ex
    sig = _pattern_sig(c)[0]
    b = np.array(proto.dec_bits(c['b']))
    orig_f, orig_l = ex.filter_signal, ex.compute_filter_length
    z = np.array(proto.dec_bits(c['z'])) if c.get('z') else np.zeros(len(b), bool)
    ex.filter_signal = lambda s, *a, **k: np.where(b, 1.0, np.where(z, 0.0, -1.0))     # exact zeros count as non-positive
    ex.compute_filter_length = lambda *a, **k: 2 * c['padlen'] - 1 if c['padlen'] > 0 else 0
    try:
        pk, tr = ex.find_extrema(sig, 100, (8, 12), boundary=_bd(c), first_extrema=c['first'], pad=c['padlen'] > 0)
        return _fmt(pk, tr)
    except Exception as e:
        return ['err', type(e).__name__]
    finally:
        ex.filter_signal, ex.compute_filter_length = orig_f, orig_l

def corpus(ctx):
    return [dict(kind='pattern', sig=[0, 1, 3, 3, 1, -1, -2, -2, 0, 1, 2, 1, -1, -1], b='00111100001110', padlen=0, boundary=0, first='None'),
            dict(kind='pattern', sig=[0, 1, 3, 3, 1, -1, -2, -2, 0, 1, 2, 1, -1, -1], b='00111100001110', padlen=0, boundary=0, first='peak'),
            dict(kind='pattern', sig=[1, 2, 3, 2], b='000011110000', padlen=4, boundary=0, first='None'),
            dict(kind='pattern', sig=[1, 2, 3, 2, 1, 0], b='111000', padlen=0, boundary=0, first='None'),
            dict(kind='pattern', sig=[1, 2, 3, 2, 1, 0], b='111111', padlen=0, boundary=0, first='peak'), _long_case()]

def _long_case():
    """directed: a LONG recording (beyond 2^16 samples) of noise-free bursts separated by an exactly flat zero baseline longer than the filter: the
    narrow-band signal is exactly 0.0 there and nothing may be reported on the baseline (a size-dependent fast path must agree with the direct one)"""
    fs, n = 500, 70000
    t = np.arange(n) / fs
    x = np.sin(2 * np.pi * 10 * t)
    env = np.zeros(n)
    for a in range(2000, n - 3000, 9000):
        env[a:a + 2500] = 1.0
    return dict(kind='signal', sig=proto.arr2hex(x * env), fs=fs, f_range=[8.0, 12.0], fk=None, boundary=0, first='peak', pad=True, family='long-bursts')

def generate(ctx):
    rng = ctx.rng
    cases = []
    for i in range(ctx.scale(260, 2600)):
        s = gen.make_signal(ctx.sub_rng(i))
        u = rng.random()
        if u < 0.35: fk = None
        elif u < 0.75: fk = {'n_cycles': int(rng.choice([2, 3, 4, 5]))}
        else: fk = {'n_seconds': float(rng.choice([0.25, 0.5, 0.75]))}
        first = rng.choice(['peak', 'trough', 'None', 'None', 'bogus'], p=[0.35, 0.3, 0.15, 0.15, 0.05])
        first = None if first == 'None' else str(first)
        cases.append(dict(kind='signal', sig=proto.arr2hex(s['sig']), fs=s['fs'], f_range=list(s['f_range']), fk=fk,
                          boundary=int(rng.choice([0, 0, 1, 3, 10, 50])), first=first, pad=bool(rng.random() < 0.75), bfrac=bool(len(cases) % 7 == 3), family=s['family'], pres=(str(rng.choice(['readonly', 'strided'])) if rng.random() < 0.3 else 'array')))
        if rng.random() < 0.12:      # the rarely used pass_type option: low-pass / high-pass half-waves (several cut-offs: consecutive cases differ only in f_hi)
            pt = str(rng.choice(['lowpass', 'lowpass', 'highpass']))
            cases[-1].update(pass_type=pt, f_range=([None, float(rng.choice([10.0, 15.0, 25.0, 40.0]))] if pt == 'lowpass' else [float(rng.choice([4.0, 8.0])), None]), fk=(None if rng.random() < 0.5 else {'n_cycles': int(rng.choice([3, 5]))}))      # find_extrema documents a 1d ARRAY (lists / Series are only accepted with pad=True)
    for i in range(ctx.scale(1500, 15000)):
        n = int(rng.integers(2, 40))
        padlen = int(rng.choice([0, 0, 1, 3]))
        m = n + 2 * padlen
        b = np.zeros(m, bool); pos = 0; val = bool(rng.integers(2))
        while pos < m:
            ln = int(rng.integers(1, 7)) if rng.random() < 0.9 else m
            b[pos:pos + ln] = val; pos += ln; val = not val
        sig = [int(x) for x in rng.integers(-2, 3, size=n)]
        z = proto.enc_bits((~b) & (rng.random(m) < rng.choice([0.0, 0.5, 1.0])))
        cases.append(dict(kind='pattern', sig=sig, b=proto.enc_bits(b), z=z, padlen=padlen, bfrac=bool(len(cases) % 7 == 3), boundary=int(rng.choice([0, 0, 1, 2, 5])),
                          first=str(rng.choice(['peak', 'trough', 'None']))))
        if rng.random() < 0.2:       # the same pattern as a fixed-width integer array reaching the limits of its type
            cases[-1]['dt'] = str(rng.choice(list(INT_MAP)))
    return cases

def evaluate(ctx, cases):
    reqs, impls, skip = [], [], []
    for c in cases:
        if c['kind'] == 'signal':
            sig = proto.hex2arr(c['sig'])
            try:
                pad, b = kernels.filt_sign(sig, c['fs'], implutil.frange(c), c['fk'], c['pad'], c.get('pass_type', 'bandpass'))
            except Exception as e:
                skip.append(True); impls.append(None); reqs += ['ping', 'ping']; continue
            first = 'None' if c['first'] is None else c['first']
            impls.append(_impl_signal(c))
        else:
            sig = _pattern_sig(c)[1]; pad = c['padlen']; b = proto.dec_bits(c['b']); first = c['first']
            impls.append(_impl_pattern(dict(c, first=None if first == 'None' else first)))
        skip.append(False)
        args = '%s %d %s %d %s' % (proto.enc_list(sig), pad, proto.enc_bits(b), c['boundary'], first)
        reqs += ['extrema.model ' + args, 'extrema.spec ' + args]
    ans = proto.run_driver(reqs)
    out = []
    for i, c in enumerate(cases):
        if skip[i]:
            ctx.hist('outcome', 'kernel-refused')
            out.append(Result(c, sig=i, nontrivial=False, info=dict(note='filter kernel refused this input'))); continue
        model, spec, impl = ans[2 * i], ans[2 * i + 1], impls[i]
        corr_ok = impl == model
        judge_ok = True if spec == 'no-crossings' else impl == spec
        nt = impl[0] == 'err' or len(impl[1][0]) + len(impl[1][1]) >= 2
        ctx.hist('outcome', (impl[1] if impl[0] == 'err' else 'ok') + ('' if spec != 'no-crossings' else ':no-crossings'))
        key = (c['kind'], hash(tuple(c['sig'])), c.get('b'), c.get('padlen'), c['boundary'], c['first'], repr(c.get('fk')), c.get('pad'), c.get('fs'), c.get('dt'), c.get('pass_type'), repr(c.get('f_range')), c.get('bfrac'))
        out.append(Result(c, judge_ok=judge_ok, corr_ok=corr_ok, sig=hash(key), nontrivial=nt, info=dict(impl=impl, model=model, spec=spec)))
    return out
