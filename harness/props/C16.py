"""C16 - recompute_edges touches only burst edges and only grows bursts."""
import warnings
from fractions import Fraction
import numpy as np, pandas as pd
from core import Result
import proto, gen, implutil

THEOREMS = ['C16_known_finding_witness', 'C16_relabel', 'C16_edit', 'C16_frame', 'C16_value', 'C16_grow', 'C16_connected', 'C16_routing']
RULE = ("cycle tables produced by compute_features(burst_method='cycles') on generated signals (bursty / noisy families, both centrings) with a grid of thresholds, then "
        "recompute_edges with the same thresholds, with every *_threshold lowered by r in {0.1, 0.3}, with one threshold set to 0, through the function and through "
        "Bycycle.recompute_edges(reduction) (also on an object with a history: fitted and edge-recomputed on another recording, then loaded), one table in five WITHOUT sample columns (return_samples=False); plus synthetic tables with prescribed burst layouts (bursts at distance 1, at the table ends); judge: input table untouched, only "
        "amp_consistency / period_consistency of cycles immediately outside a burst and is_burst may differ, new values = the one-sided Lean specification (written, not "
        "lost), labels = Lean threshold-and-run rule on the edited table, old bursts stay and every new burst touches an old one when thresholds are unchanged; "
        "distinct = distinct (table, thresholds); non-trivial = the table has at least one burst and one edge value changes")
ASSUMPTIONS = ["finite values compared within 1e-12 relative; NaN pattern exactly"]
BATCH = 60
FE = ['amp_fraction', 'amp_consistency', 'period_consistency', 'monotonicity']
KEYS = [f + '_threshold' for f in FE] + ['min_n_cycles']
DEF = {'amp_fraction_threshold': 0.0, 'amp_consistency_threshold': 0.5, 'period_consistency_threshold': 0.5, 'monotonicity_threshold': 0.8, 'min_n_cycles': 3}

NAN = float('nan')
WITNESS = [[1, 1, 5, 0.5, 1, NAN, NAN, False], [2, 1, 5, 0.5, 1, 0.5, 1, False], [4, 4, 5, 0.5, 1, 1, 1, True], [4, 4, 5, 0.5, 1, 1, 1, True], [4, 2, 5, 0.5, 1, 0.5, 1, False],
           [1, 1, 5, 0.5, 1, NAN, NAN, False]]
WITNESS_TH = {'amp_fraction_threshold': 0.0, 'amp_consistency_threshold': 0.4, 'period_consistency_threshold': 0.5, 'monotonicity_threshold': 0.5, 'min_n_cycles': 2}

def regen_slots():
    import slots
    return slots.regenerate()

def _f(v):
    return proto.enc_rat(float(v))

def _rows(df):
    return '[' + ','.join('[%s,%s,%s,%s,%s,%s,%s,%s]' % (_f(r.volt_rise), _f(r.volt_decay), _f(r.period), _f(r.amp_fraction), _f(r.monotonicity),
                                                         _f(r.amp_consistency), _f(r.period_consistency), 'T' if r.is_burst else 'F')
                          for r in df.itertuples()) + ']'

def _th(th):
    return '[' + ','.join(proto.enc_rat(th.get(k, DEF[k])) for k in KEYS) + ']'

def _close(fl, atom):
    if atom == 'nan': return fl != fl
    if atom in ('inf', '-inf'): return fl == float(atom)
    if fl != fl: return False
    a, b = Fraction(float(fl)), Fraction(atom)
    return abs(a - b) <= Fraction(1, 10**12) * max(abs(a), abs(b), 1)

def corpus(ctx):
    return [dict(kind='signal', seed=21, center='peak', th0={'amp_fraction_threshold': 0.0, 'amp_consistency_threshold': 0.5, 'period_consistency_threshold': 0.5,
                                                               'monotonicity_threshold': 0.4, 'min_n_cycles': 3}, mode='same', via='func'),   # pre-fix C: nothing was written
            # the witness of C16_known_finding_witness, WITH its sample column (the statement holds) and WITHOUT it (the known finding, replayed on the real code)
            dict(kind='table', seed=1, pc=True, nosamp=False, rows=WITNESS, th=WITNESS_TH), dict(kind='table', seed=2, pc=True, nosamp=True, rows=WITNESS, th=WITNESS_TH)]

def generate(ctx):
    rng = ctx.rng
    cases = []
    for i in range(ctx.scale(150, 1500)):
        th0 = {'amp_fraction_threshold': float(rng.choice([0.0, 0.2])), 'amp_consistency_threshold': float(rng.choice([0.3, 0.5, 0.7])),
               'period_consistency_threshold': float(rng.choice([0.4, 0.6])), 'monotonicity_threshold': float(rng.choice([0.4, 0.7])),
               'min_n_cycles': int(rng.choice([1, 2, 3]))}
        cases.append(dict(kind='signal', seed=int(rng.integers(1 << 30)), center=str(rng.choice(['peak', 'trough'])), th0=th0,
                          mode=str(rng.choice(['same', 'same', 'reduce0.1', 'reduce0.3', 'zero_ac'])), via=str(rng.choice(['func', 'func', 'object'])),
                          rs=bool(i % 5 != 2)))          # (one table in five WITHOUT sample columns: return_samples=False)
    for i in range(ctx.scale(200, 2000)):
        n = int(rng.integers(3, 16))
        b = np.zeros(n, bool); pos = 1
        while pos < n - 1:
            ln = int(rng.integers(1, 4)); val = bool(rng.integers(2)); b[pos:min(pos + ln, n - 1)] = val; pos += ln
        cases.append(dict(kind='table', seed=int(rng.integers(1 << 30)), n=n, b=proto.enc_bits(b), pc=bool(rng.integers(2)), nosamp=bool(i % 6 == 4)))
    return cases

def _make_table(c):
    if 'rows' in c:      # an explicit table (the witness of the Lean theorem C16_known_finding_witness)
        rows = c['rows']; n = len(rows)
        df = pd.DataFrame({'volt_rise': [float(r[0]) for r in rows], 'volt_decay': [float(r[1]) for r in rows], 'period': [float(r[2]) for r in rows],
                           'amp_fraction': [float(r[3]) for r in rows], 'monotonicity': [float(r[4]) for r in rows],
                           'amp_consistency': [float(r[5]) for r in rows], 'period_consistency': [float(r[6]) for r in rows]})
        df['volt_amp'] = (df.volt_rise + df.volt_decay) / 2
        if not c.get('nosamp'): df['sample_peak' if c['pc'] else 'sample_trough'] = np.arange(n)
        df['is_burst'] = [bool(r[7]) for r in rows]
        return df, dict(c['th'])
    r = np.random.default_rng(c['seed'])
    n = c['n']; b = np.array(proto.dec_bits(c['b']))
    df = pd.DataFrame({'volt_rise': r.integers(1, 6, n).astype(float), 'volt_decay': r.integers(1, 6, n).astype(float), 'period': r.integers(3, 9, n).astype(float),
                       'amp_fraction': r.random(n), 'monotonicity': r.random(n), 'amp_consistency': r.random(n), 'period_consistency': r.random(n)})
    df.loc[[0, n - 1], ['amp_consistency', 'period_consistency']] = np.nan
    df['volt_amp'] = (df.volt_rise + df.volt_decay) / 2
    if not c.get('nosamp'): df['sample_peak' if c['pc'] else 'sample_trough'] = np.arange(n)
    df['is_burst'] = b
    th = {'amp_fraction_threshold': 0.0, 'amp_consistency_threshold': float(r.choice([0.3, 0.6])), 'period_consistency_threshold': float(r.choice([0.3, 0.6])),
          'monotonicity_threshold': float(r.choice([0.0, 0.5])), 'min_n_cycles': int(r.choice([1, 2, 3]))}
    return df, th

def evaluate(ctx, cases):
    from bycycle.features import compute_features
    from bycycle.burst import recompute_edges
    from bycycle import Bycycle
    reqs, plan = [], []
    for c in cases:
        if c['kind'] == 'signal':
            rr = np.random.default_rng(c['seed'])
            s = gen.make_signal(rr, family=str(rr.choice(['bursty', 'bursty', 'sum', 'noise'])), fs=250, f0=10)
            try:
                if c['via'] == 'object':
                    bm = Bycycle(center_extrema=c['center'], thresholds=dict(c['th0']), return_samples=c.get('rs', True))
                    implutil.quiet(bm.fit, s['sig'], s['fs'], s['f_range']); df = bm.df_features
                else:
                    df = implutil.quiet(compute_features, s['sig'], s['fs'], s['f_range'], center_extrema=c['center'], threshold_kwargs=dict(c['th0']), return_samples=c.get('rs', True))
            except Exception as e:
                plan.append(dict(skip=type(e).__name__)); continue
            th = dict(c['th0'])
            red = None
            if c['mode'].startswith('reduce'):
                red = float(c['mode'][6:]); th = {k: (v - red if k.endswith('threshold') else v) for k, v in th.items()}
            elif c['mode'] == 'zero_ac':
                th['amp_consistency_threshold'] = 0.0
            pc = c['center'] == 'peak'
        else:
            df, th = _make_table(c); pc = c['pc']; red = None
        if c['seed'] % 4 == 1 and not (c['kind'] == 'signal' and c['via'] == 'object'):
            df = implutil.user_columns(df)          # (columns a user added: 'all other columns are unchanged' covers them)
        if c['seed'] % 3 == 0 and not (c['kind'] == 'signal' and c['via'] == 'object'):
            # row labels that are not positions (as after limit_df / boolean filtering)
            df = df.copy(); df.index = np.arange(len(df)) * 2 + 7
        before = df.copy(deep=True)
        try:
            if c['kind'] == 'signal' and c['via'] == 'object' and (c['mode'] == 'same' or red is not None):
                if c['seed'] % 2 == 1:
                    # an object with a HISTORY: fitted on another recording and edge-recomputed with the same reduction, then the table of this case
                    # is loaded into it; the recomputation that follows must be the one of the loaded table
                    s2 = gen.make_signal(np.random.default_rng(c['seed'] + 1), family='bursty', fs=250, f0=10)
                    bm2 = Bycycle(center_extrema=c['center'], thresholds=dict(c['th0']), return_samples=c.get('rs', True))
                    try:
                        implutil.quiet(bm2.fit, s2['sig'], s2['fs'], s2['f_range']); implutil.quiet(bm2.recompute_edges, red)
                    except Exception:
                        pass
                    bm2.load(df, s['sig'], s['fs'], s['f_range']); bm = bm2
                implutil.quiet(bm.recompute_edges, red); out_df = bm.df_features
            else:
                out_df = implutil.quiet(recompute_edges, df, (implutil.np_scalars(th) if len(df) % 3 == 1 else th))       # (a third with numpy-scalar threshold values)
            err = None
        except Exception as e:
            out_df, err = None, type(e).__name__ + ': ' + str(e)[:120]
        # the functions recognise the centring by the presence of a `sample_peak` column: the MODEL of the code follows that (a table without sample
        # columns is paired the trough-centred way), the SPECIFICATION uses the table's true centring
        has_samples = any(col.startswith('sample_') for col in before.columns)
        reqs += ['edges.model %s %s %s' % ('T' if (pc and has_samples) else 'F', _rows(before), _th(th)), 'edges.spec %s %s %s' % ('T' if pc else 'F', _rows(before), _th(th))]
        plan.append(dict(before=before, after_input=df, out=out_df, err=err, th=th, j=len(reqs) - 2, same=(c['kind'] == 'signal' and c['mode'] == 'same')))
        if pc and not has_samples:      # (what the known finding predicts: the trough-centred pairing)
            reqs.append('edges.spec F %s %s' % (_rows(before), _th(th))); plan[-1]['j3'] = len(reqs) - 1
    ans = proto.run_driver(reqs)
    # the label rule is judged on the implementation's OWN output feature values (so that float rounding of a
    # recomputed ratio that lands exactly on a threshold cannot masquerade as a logic error)
    reqs2 = []
    for p in plan:
        if 'skip' not in p and p['err'] is None:
            o = p['out']
            rows = '[' + ','.join('[%s,%s,%s,%s]' % tuple(proto.enc_rat(float(o[f].values[i])) for f in FE) for i in range(len(o))) + ']'
            reqs2.append('cycles.spec %s %s' % (rows, _th(p['th']))); p['j2'] = len(reqs2) - 1
    ans2 = proto.run_driver(reqs2)
    out = []
    for c, p in zip(cases, plan):
        key = repr(sorted(c.items(), key=lambda kv: kv[0]))
        if 'skip' in p:
            out.append(Result(c, sig=key, nontrivial=False, info=dict(skipped=p['skip']))); continue
        model, spec = ans[p['j']], ans[p['j'] + 1]
        info = {}
        def cmp(pred, tag, judge):
            if p['err']:
                ok = pred[0] == 'err'
                if not ok: info[tag] = 'raised ' + p['err']
                return ok
            if pred[0] == 'err':
                info[tag] = 'expected %s, got a table' % pred[1]; return False
            o, b4 = p['out'], p['before']
            if len(o) != len(b4) or len(pred[1]) != len(o):
                info[tag] = 'row count'; return False
            lab2 = ans2[p['j2']]
            if lab2[0] != 'ok' or proto.dec_bits(lab2[1]) != [bool(x) for x in o['is_burst'].values]:
                info[tag] = 'labels are not the threshold-and-run rule applied to the edited table: %s vs %s' % (lab2, proto.enc_bits(o['is_burst'].values)); return False
            for i, (ac, pcv, lab) in enumerate(pred[1]):
                if not _close(float(o['amp_consistency'].values[i]), ac) or not _close(float(o['period_consistency'].values[i]), pcv):
                    info[tag] = 'row %d: implementation (%r, %r, %r) expected (%s, %s, %s)' % (i, o['amp_consistency'].values[i], o['period_consistency'].values[i],
                                                                                             o['is_burst'].values[i], ac, pcv, lab); return False
            if judge:
                if not p['after_input'].equals(b4) and not (c['kind'] == 'signal' and c['via'] == 'object'):
                    info[tag] = 'the input table was modified'; return False
                for col in b4.columns:
                    if col not in ('amp_consistency', 'period_consistency', 'is_burst') and not (o[col].equals(b4[col]) and list(o.index) == list(b4.index)):
                        info[tag] = 'column %s changed' % col; return False
                old = b4['is_burst'].values.astype(bool); new = o['is_burst'].values.astype(bool)
                ch = [i for i in range(len(o)) if not _close(float(o['amp_consistency'].values[i]), proto.enc_rat(float(b4['amp_consistency'].values[i])))
                      or not _close(float(o['period_consistency'].values[i]), proto.enc_rat(float(b4['period_consistency'].values[i])))]
                for i in ch:       # only cycles immediately outside a burst may change
                    if old[i] or not ((i + 1 < len(old) and old[i + 1]) or (i > 0 and old[i - 1])):
                        info[tag] = 'consistency of row %d changed although it is not immediately outside a burst' % i; return False
                if p['same']:
                    if (old & ~new).any():
                        info[tag] = 'a previously bursting cycle lost its label with unchanged thresholds'; return False
                    i = 0
                    while i < len(new):
                        if new[i]:
                            j = i
                            while j < len(new) and new[j]: j += 1
                            if not old[i:j].any():
                                info[tag] = 'new burst %d..%d does not contain an old burst cycle' % (i, j - 1); return False
                            i = j
                        else:
                            i += 1
                info['changed_rows'] = len(ch)
            return True
        judge_ok = cmp(spec, 'judge', True)
        corr_ok = cmp(model, 'model', False)
        fkey = None
        if not judge_ok and 'j3' in p and cmp(ans[p['j3']], 'known', True):
            # KNOWN FINDING (known_findings.json): a PEAK-centred table WITHOUT sample columns is paired the trough-centred way; the output is exactly
            # the specification evaluated with that pairing - anything else on such a table is still reported as a violation
            fkey = 'peak-centred-table-without-sample-columns'; ctx.hist('known_finding', fkey)
        nt = p['err'] is None and bool(p['before']['is_burst'].any()) and info.get('changed_rows', 0) > 0
        ctx.hist('kind', c['kind'] + ':' + c.get('mode', ''))
        out.append(Result(c, judge_ok=judge_ok, corr_ok=corr_ok, sig=key, nontrivial=nt, info=info, finding_key=fkey))
    return out
