"""C19 - invalid settings are rejected (ValueError), valid combinations accepted."""
import itertools, warnings
import numpy as np
from core import Result
import proto, gen, implutil

THEOREMS = ['C19_shape', 'C19_shape_error_type', 'C19_shape_dict', 'C19_group', 'C19_group_error_type', 'C19_param_range', 'C19_thresholds_cycles',
            'C19_min_n_cycles', 'C19_threshold_amp', 'C19_amp_threshes', 'C19_first_extrema', 'C19_options', 'C19_fs']
RULE = ("(a) EXHAUSTIVE grid through check_kwargs_shape: array shapes 2-D (n0 in 1..3) and 3-D (n0, n1 in 1..3) x axis in {None, 0, 1, 2, (0,1)} x option-list shapes "
        "{None, dict, 1-D len 1..4, 2-D (a,b) a,b in 1..3, 3-D}: implementation vs the TRANSLATED chain (model) vs the documented table (Lean spec); "
        "(b) a sample of the same grid end to end through compute_features_2d / compute_features_3d on real signals (accept = returns, reject = ValueError); "
        "(c) every documented parameter at, just inside and just outside its valid range, unknown enumerated options, wrong dimensionality (also singleton axes), ragged option lists, plot before fit: exception type; "
        "distinct = distinct configurations; non-trivial = an ndarray option list or an out-of-range / boundary value")
ASSUMPTIONS = ["fs = 0 passes bycycle's inclusive range check and is rejected by the neurodsp filter design (kernel, not verified); the run observes the ValueError on the implementation"]
BATCH = 5000
AX = {None: 'None', 0: '0', 1: '1', 2: '2', (0, 1): 'a01'}

def regen_slots():
    import slots
    return slots.regenerate()

def _kw(shape):
    """shape: None | 'dict' | tuple of extents"""
    if shape is None: return None
    if shape == 'dict': return {}
    def build(ext):
        return [{} for _ in range(ext[0])] if len(ext) == 1 else [build(ext[1:]) for _ in range(ext[0])]
    return build(list(shape))

def _descr(sh, kwshape, axis):
    d = 'T' if (kwshape is None or kwshape == 'dict') else 'F'
    s1 = str(sh[1]) if len(sh) == 3 else 'None'
    if d == 'T':
        nd, k0, k1 = 1, 0, 'None'
    else:
        nd, k0, k1 = len(kwshape), kwshape[0], (str(kwshape[1]) if len(kwshape) == 2 else 'None')
    return '%s %d %s %d %d %s %s' % (d, sh[0], s1, nd, k0, k1, AX[axis])

def _sig():
    s = gen.make_signal(np.random.default_rng(7), family='sine', fs=200, f0=10, n=400)
    return s['sig'], 200, (7.0, 13.0)

def _param_table():
    from bycycle.features import compute_features, compute_shape_features
    from bycycle.cyclepoints import find_extrema
    from bycycle.burst import detect_bursts_cycles, detect_bursts_amp
    from bycycle.burst.utils import check_min_burst_cycles, recompute_edge
    from bycycle.features.burst import compute_amp_consistency, compute_period_consistency
    from bycycle.group import compute_features_2d, compute_features_3d
    from bycycle.utils import limit_df, limit_signal
    from bycycle import Bycycle, BycycleGroup
    sig, fs, fr = _sig()
    df = implutil.quiet(compute_features, sig, fs, fr, threshold_kwargs={})
    dfa = implutil.quiet(compute_features, sig, fs, fr, burst_method='amp', threshold_kwargs={})
    s2 = np.array([sig, sig * 1.1]); s3 = np.array([[sig, sig * 1.1]])
    eps = 1e-9
    T = []
    def add(name, f, expect): T.append((name, f, expect))
    def variants(v):
        """the same number as a python number and as numpy scalars"""
        return [v, np.float64(v)] + ([np.int64(v)] if isinstance(v, int) else [np.float32(v)] if abs(v) in (0.5, 2.0) else [])
    for fs0, ex in ((fs, 'ok'), (0, 'ValueError'), (-1, 'ValueError'), (-eps, 'ValueError')):
      for fsv in variants(fs0):
        add('Bycycle.fit fs=%r' % fsv, lambda v=fsv: Bycycle(thresholds={}).fit(sig, v, fr), ex)
        add('compute_features fs=%r' % fsv, lambda v=fsv: compute_features(sig, v, fr, threshold_kwargs={}), ex)
        add('find_extrema fs=%r' % fsv, lambda v=fsv: find_extrema(sig, v, fr), ex)
        add('compute_shape_features fs=%r' % fsv, lambda v=fsv: compute_shape_features(sig, v, fr), ex)
    for key in ('amp_fraction_threshold', 'amp_consistency_threshold', 'period_consistency_threshold', 'monotonicity_threshold'):
        for v0, ex in ((0, 'ok'), (1, 'ok'), (0.5, 'ok'), (-eps, 'ValueError'), (1 + eps, 'ValueError'), (-1, 'ValueError'), (2, 'ValueError')):
          for v in variants(v0):
            add('detect_bursts_cycles %s=%r' % (key, v), lambda k=key, v=v: detect_bursts_cycles(df.copy(), **{k: v}), ex)
            add('compute_features %s=%r' % (key, v), lambda k=key, v=v: compute_features(sig, fs, fr, threshold_kwargs={k: v}), ex)
            add('Bycycle(thresholds) %s=%r' % (key, v), lambda k=key, v=v: Bycycle(thresholds={k: v}).fit(sig, fs, fr), ex)
            add('Bycycle(shorthand thresholds) %s=%r' % (key, v), lambda k=key, v=v: Bycycle(thresholds={k[:-len('_threshold')]: v}).fit(sig, fs, fr), ex)
    for v0, ex in ((0, 'ok'), (3, 'ok'), (-1, 'ValueError'), (-eps, 'ValueError')):
      for v in variants(v0):
        add('Bycycle(thresholds) min_n_cycles=%r' % v, lambda v=v: Bycycle(thresholds={'min_n_cycles': v}).fit(sig, fs, fr), ex)
        add('check_min_burst_cycles min_n_cycles=%r' % v, lambda v=v: check_min_burst_cycles(np.array([True, False, True]), v), ex)
        add('compute_features min_n_cycles=%r' % v, lambda v=v: compute_features(sig, fs, fr, threshold_kwargs={'min_n_cycles': v}), ex)
        add('amp min_n_cycles=%r' % v, lambda v=v: detect_bursts_amp(dfa.copy(), min_n_cycles=v), ex)
    for v0, ex in ((0, 'ok'), (1, 'ok'), (-eps, 'ValueError'), (1 + eps, 'ValueError')):
      for v in variants(v0):
        add('Bycycle(amp) burst_fraction_threshold=%r' % v, lambda v=v: Bycycle(burst_method='amp', thresholds={'burst_fraction_threshold': v}).fit(sig, fs, fr), ex)
        add('detect_bursts_amp burst_fraction_threshold=%r' % v, lambda v=v: detect_bursts_amp(dfa.copy(), burst_fraction_threshold=v), ex)
        add('compute_features amp burst_fraction_threshold=%r' % v,
            lambda v=v: compute_features(sig, fs, fr, burst_method='amp', threshold_kwargs={'burst_fraction_threshold': v}), ex)
    for at, ex in (((1, 2), 'ok'), ((1, 1), 'ok'), ((2, 1), 'ValueError'), ((-0.5, 1), 'ValueError'), ((1.5, 1.4999), 'ValueError')):
        add('amp_threshes=%r' % (at,), lambda at=at: compute_features(sig, fs, fr, burst_method='amp', burst_kwargs={'amp_threshes': at}, threshold_kwargs={}), ex)
    for v, ex in (('peak', 'ok'), ('trough', 'ok'), ('bogus', 'ValueError'), (None, 'ValueError')):
        add('center_extrema=%r' % v, lambda v=v: compute_features(sig, fs, fr, center_extrema=v, threshold_kwargs={}), ex)
        add('shape center_extrema=%r' % v, lambda v=v: compute_shape_features(sig, fs, fr, center_extrema=v), ex)
    for v, ex in (('cycles', 'ok'), ('amp', 'ok'), ('bogus', 'ValueError'), (None, 'ValueError')):
        add('burst_method=%r' % v, lambda v=v: compute_features(sig, fs, fr, burst_method=v, threshold_kwargs={}), ex)
    for v, ex in (('peak', 'ok'), ('trough', 'ok'), (None, 'ok'), ('bogus', 'ValueError'), (0, 'ValueError')):
        add('first_extrema=%r' % v, lambda v=v: find_extrema(sig, fs, fr, first_extrema=v), ex)
    # (an unknown value is refused also when nothing is left to align: a boundary that removes every extremum)
    for bd in (0, 40, len(sig) // 2, len(sig)):
        add('first_extrema=bogus boundary=%d' % bd, lambda bd=bd: find_extrema(sig, fs, fr, first_extrema='bogus', boundary=bd), 'ValueError')
    add('first_extrema through compute_features', lambda: compute_features(sig, fs, fr, find_extrema_kwargs={'first_extrema': 'trough'}, threshold_kwargs={}), 'ValueError')
    for v, ex in (('both', 'ok'), ('next', 'ok'), ('last', 'ok'), ('bogus', 'ValueError'), (None, 'ValueError')):
        add('amp_consistency direction=%r' % v, lambda v=v: compute_amp_consistency(df, direction=v), ex)
        add('period_consistency direction=%r' % v, lambda v=v: compute_period_consistency(df, direction=v), ex)
        add('recompute_edge direction=%r' % v, lambda v=v: recompute_edge(df.copy(), 2, v), ex)
    for v, ex in ((0, 'ok'), (None, 'ok'), (1, 'ValueError'), (2, 'ValueError'), ((0, 1), 'ValueError'), ('x', 'ValueError')):
        add('2d axis=%r' % (v,), lambda v=v: compute_features_2d(s2, fs, fr, {'threshold_kwargs': {}}, axis=v, n_jobs=1), ex)
    for v, ex in ((0, 'ok'), (1, 'ok'), ((0, 1), 'ok'), (None, 'ValueError'), (2, 'ValueError'), ('x', 'ValueError')):
        add('3d axis=%r' % (v,), lambda v=v: compute_features_3d(s3, fs, fr, {'threshold_kwargs': {}}, axis=v, n_jobs=1), ex)
    for v, ex in ((None, 'ok'), ('tqdm', 'ok'), ('bogus', 'ValueError'), (1, 'ValueError'), ('tqdm.bogus', 'ValueError'), ('tqdm.', 'ValueError'), ('tqdm2', 'ValueError'),
                  ('TQDM', 'ValueError'), ('', 'ValueError'), ('tqdm.notebook.x', 'ValueError')):
        add('progress=%r' % v, lambda v=v: compute_features_2d(s2, fs, fr, {'threshold_kwargs': {}}, n_jobs=1, progress=v), ex)
    add('Bycycle.fit 1-D', lambda: Bycycle(thresholds={}).fit(sig, fs, fr), 'ok')
    add('Bycycle.fit 2-D', lambda: Bycycle(thresholds={}).fit(s2, fs, fr), 'ValueError')
    add('Bycycle.fit 0-D', lambda: Bycycle(thresholds={}).fit(np.array(1.0), fs, fr), 'ValueError')
    # a 2-D / 3-D array holding ONE recording (singleton axes) is still of the wrong dimensionality for Bycycle, and a 1-D one still for BycycleGroup
    for nm, arr in (('(1, n)', sig[None, :]), ('(n, 1)', sig[:, None]), ('(1, 1, n)', sig[None, None, :])):
        add('Bycycle.fit %s' % nm, lambda a=arr: Bycycle(thresholds={}).fit(a, fs, fr), 'ValueError')
    add('BycycleGroup.fit (1, n)', lambda: BycycleGroup(thresholds={}).fit(sig[None, :], fs, fr, n_jobs=1), 'ok')
    add('BycycleGroup.fit (1, 1, n)', lambda: BycycleGroup(thresholds={}).fit(sig[None, None, :], fs, fr, n_jobs=1), 'ok')
    add('BycycleGroup.fit (1, 1, 1, n)', lambda: BycycleGroup(thresholds={}).fit(sig[None, None, None, :], fs, fr, n_jobs=1), 'ValueError')
    # RAGGED per-signal option lists (rows of unequal length, a dict next to a list of dicts) never match an array, whatever the outer length
    d_ = {'threshold_kwargs': {}}
    s22 = np.array([[sig, sig * 1.1], [sig * 1.2, sig * 1.3]])
    for nm, kw in (('[[d, d], d]', [[d_, d_], d_]), ('[[d, d], [d]]', [[d_, d_], [d_]]), ('[d, [d, d]]', [d_, [d_, d_]])):
        for ax in (0, 1, (0, 1)):
            add('3d ragged options %s axis=%r' % (nm, ax), lambda kw=kw, ax=ax: compute_features_3d(s22, fs, fr, kw, axis=ax, n_jobs=1), 'ValueError')
        add('2d ragged options %s' % nm, lambda kw=kw: compute_features_2d(s2, fs, fr, kw, axis=0, n_jobs=1), 'ValueError')
    add('BycycleGroup.fit 2-D', lambda: BycycleGroup(thresholds={}).fit(s2, fs, fr, n_jobs=1), 'ok')
    add('BycycleGroup.fit 3-D', lambda: BycycleGroup(thresholds={}).fit(s3, fs, fr, n_jobs=1), 'ok')
    add('BycycleGroup.fit 1-D', lambda: BycycleGroup(thresholds={}).fit(sig, fs, fr, n_jobs=1), 'ValueError')
    add('BycycleGroup.fit 4-D', lambda: BycycleGroup(thresholds={}).fit(np.zeros((1, 1, 2, 50)), fs, fr, n_jobs=1), 'ValueError')
    add('Bycycle.plot before fit', lambda: Bycycle(thresholds={}).plot(), 'ValueError')
    def _plot_after_rejected_fit(**bad):
        # a fit that is rejected half-way (sig / fs are already stored) leaves the object unfitted: plot still refuses with ValueError
        bm = Bycycle(**dict(dict(thresholds={}), **bad))
        try:
            bm.fit(sig, fs, fr)
        except ValueError:
            pass
        bm.plot()
    add('Bycycle.plot after a fit rejected for center_extrema', lambda: _plot_after_rejected_fit(center_extrema='bogus'), 'ValueError')
    add('Bycycle.plot after a fit rejected for burst_method', lambda: _plot_after_rejected_fit(burst_method='bogus'), 'ValueError')
    add('Bycycle.plot after a fit rejected for a threshold', lambda: _plot_after_rejected_fit(thresholds={'monotonicity_threshold': 1.5}), 'ValueError')
    add('Bycycle.plot after a fit rejected for min_n_cycles', lambda: _plot_after_rejected_fit(thresholds={'min_n_cycles': -1}), 'ValueError')
    for (a, b), ex in (((0.2, 1.0), 'ok'), ((None, 1.0), 'ok'), ((0.2, None), 'ok'), ((1.0, 0.2), 'ValueError'), ((-0.1, 1.0), 'ValueError')):
        add('limit_df start=%r stop=%r' % (a, b), lambda a=a, b=b: limit_df(df, fs, start=a, stop=b), ex)
        add('limit_signal start=%r stop=%r' % (a, b), lambda a=a, b=b: limit_signal(np.arange(len(sig)) / fs, sig, start=a, stop=b), ex)
    def stale_after_valid():
        bk = {'amp_threshes': (1, 2)}
        compute_features(sig, fs, fr, burst_method='amp', burst_kwargs=bk, threshold_kwargs={'min_n_cycles': 3})       # a valid analysis first
        compute_features(sig, fs, fr, burst_method='amp', burst_kwargs=bk, threshold_kwargs={'min_n_cycles': -2})      # same option object, invalid setting
    add('negative min_n_cycles after a valid call sharing burst_kwargs', stale_after_valid, 'ValueError')
    # which of two given values wins decides what is validated: the burst options' count overrides the thresholds' one, so a negative one there is rejected
    add('amp: negative min_n_cycles in the burst options, a valid one in the thresholds',
        lambda: compute_features(sig, fs, fr, burst_method='amp', burst_kwargs={'min_n_cycles': -1}, threshold_kwargs={'min_n_cycles': 3}), 'ValueError')
    add('amp: negative min_n_cycles in the thresholds, a valid one in the burst options (it wins)',
        lambda: compute_features(sig, fs, fr, burst_method='amp', burst_kwargs={'min_n_cycles': 2}, threshold_kwargs={'min_n_cycles': -1}), 'ok')
    add('Bycycle(amp) negative min_n_cycles in the burst options (default thresholds)', lambda: Bycycle(burst_method='amp', burst_kwargs={'min_n_cycles': -1}).fit(sig, fs, fr), 'ValueError')
    def retry_invalid_list():
        # a rejected call RETRIED with the same option objects is rejected again (nothing was consumed from them on the way to the exception)
        kw = [{'center_extrema': 'middle', 'threshold_kwargs': {}}, {'threshold_kwargs': {}}]
        for _ in range(2):
            try:
                compute_features_2d(s2, fs, fr, kw, axis=None, n_jobs=1)
            except ValueError:
                continue
            return
        raise ValueError('rejected twice')
    add('2d axis=None: an unknown center_extrema in a per-epoch list, call repeated with the same list', retry_invalid_list, 'ValueError')
    def retry_invalid_dict():
        kw = {'burst_method': 'bogus', 'threshold_kwargs': {}}
        for ax in (0, None):
            for _ in range(2):
                try:
                    compute_features_2d(s2, fs, fr, kw, axis=ax, n_jobs=1)
                except ValueError:
                    continue
                return
        raise ValueError('rejected every time')
    add('2d: an unknown burst_method in a shared dict, call repeated with the same dict', retry_invalid_dict, 'ValueError')
    # an EMPTY option list is a list of the wrong length (not 'no options'), and an unknown progress value is refused on every route of the 3-D function
    for ax in (0, None):
        add('2d empty option list axis=%r' % (ax,), lambda ax=ax: compute_features_2d(s2, fs, fr, [], axis=ax, n_jobs=1), 'ValueError')
    for ax in (0, 1, (0, 1)):
        add('3d empty option list axis=%r' % (ax,), lambda ax=ax: compute_features_3d(s22, fs, fr, [], axis=ax, n_jobs=1), 'ValueError')
        add('3d progress=bogus axis=%r' % (ax,), lambda ax=ax: compute_features_3d(s22, fs, fr, {'threshold_kwargs': {}}, axis=ax, n_jobs=1, progress='tdqm'), 'ValueError')
        add('BycycleGroup 3d progress=bogus axis=%r' % (ax,), lambda ax=ax: BycycleGroup(thresholds={}).fit(s22, fs, fr, axis=ax, n_jobs=1, progress='tdqm'), 'ValueError')
    add('2d progress=bogus axis=None', lambda: compute_features_2d(s2, fs, fr, {'threshold_kwargs': {}}, axis=None, n_jobs=1, progress='tdqm'), 'ValueError')
    def refit_invalid_after_plot():
        # an invalid value written into the stored thresholds is still there (and still refused) after the object has drawn its table
        import matplotlib.pyplot as plt
        bm = Bycycle(thresholds={'monotonicity_threshold': 0.5, 'min_n_cycles': 2})
        bm.fit(sig, fs, fr); bm.thresholds['min_n_cycles'] = -2
        try:
            bm.plot(xlim=(0.0, 1.0))
        except Exception:
            pass
        finally:
            plt.close('all')
        bm.fit(sig, fs, fr)
    add('Bycycle re-fit after setting min_n_cycles = -2 and plotting', refit_invalid_after_plot, 'ValueError')
    def refit_invalid():
        bm = Bycycle(burst_method='amp', thresholds={'burst_fraction_threshold': 0.8, 'min_n_cycles': 3})
        bm.fit(sig, fs, fr); bm.thresholds['min_n_cycles'] = -2; bm.fit(sig, fs, fr)
    add('Bycycle re-fit after setting min_n_cycles = -2', refit_invalid, 'ValueError')
    def refit_invalid_cycles():
        bm = Bycycle(thresholds={'monotonicity_threshold': 0.5, 'min_n_cycles': 2})
        bm.fit(sig, fs, fr); bm.thresholds['monotonicity_threshold'] = 1.5; bm.fit(sig, fs, fr)
    add('Bycycle re-fit after setting a threshold to 1.5', refit_invalid_cycles, 'ValueError')
    add('check_min_burst_cycles list input', lambda: check_min_burst_cycles([True, False]), 'ValueError')
    for v, ex in ((3, 'ok'), (0, 'ok'), (-1, 'ValueError')):
        add('compute_shape_features n_cycles=%r' % v, (lambda v=v: compute_shape_features(sig, fs, fr, n_cycles=v)) if v != 0 else (lambda: None), ex)
    return T

def corpus(ctx):
    # pre-fix G: 3-D array, axis 0/1, 2-D option list with matching first extent
    return [dict(kind='grid', sh=[2, 3, 8], kw=[2, 3], axis=0), dict(kind='grid', sh=[2, 3, 8], kw=[3, 2], axis=1),
            dict(kind='e2e', sh=[2, 2, 8], kw=[2, 2], axis=0)]

def generate(ctx):
    cases = []
    shapes = [(n0, 8) for n0 in (1, 2, 3)] + [(n0, n1, 8) for n0 in (1, 2, 3) for n1 in (1, 2, 3)]
    kws = [None, 'dict'] + [(a,) for a in (1, 2, 3, 4)] + [(a, b) for a in (1, 2, 3) for b in (1, 2, 3)] + [(2, 2, 2)]
    for sh in shapes:
        for kw in kws:
            for axis in (None, 0, 1, 2, (0, 1)):
                cases.append(dict(kind='grid', sh=list(sh), kw=(kw if kw in (None, 'dict') else list(kw)), axis=(list(axis) if isinstance(axis, tuple) else axis)))
    ctx.notes['exhaustive'] = True
    ctx.notes['exhaustive_scope'] = '%d (array shape, option shape, axis) configurations of the check_kwargs_shape grid' % len(cases)
    grid = list(cases)
    rng = ctx.rng
    pick = rng.choice(len(grid), size=ctx.scale(90, len(grid)), replace=False)
    for i in pick:
        c = dict(grid[i]); c['kind'] = 'e2e'; cases.append(c)
    for i, (name, f, ex) in enumerate(_param_table()):
        cases.append(dict(kind='param', idx=i, name=name, expect=ex))
    return cases

def _ax(a):
    return tuple(a) if isinstance(a, list) else a

def evaluate(ctx, cases):
    from bycycle.group.utils import check_kwargs_shape
    from bycycle.group import compute_features_2d, compute_features_3d
    table = None
    reqs = []
    for c in cases:
        if c['kind'] in ('grid', 'e2e'):
            kw = c['kw'] if c['kw'] in (None, 'dict') else tuple(c['kw'])
            d = _descr(tuple(c['sh']), kw, _ax(c['axis']))
            reqs += ['kwshape.model ' + d, 'kwshape.spec ' + d]
    ans = iter(proto.run_driver(reqs))
    sig, fs, fr = _sig()
    out = []
    for c in cases:
        if c['kind'] == 'param':
            if table is None: table = _param_table()
            name, f, ex = table[c['idx']]
            try:
                implutil.quiet(f); got = 'ok'
            except Exception as e:
                got = type(e).__name__
            import matplotlib.pyplot as plt; plt.close('all')
            ok = got == ex
            ctx.hist('param_outcome', got)
            out.append(Result(c, judge_ok=ok, corr_ok=True, sig=('param', name), nontrivial=True, info=dict(name=name, expected=ex, got=got)))
            continue
        model, spec = next(ans), next(ans)
        kw = c['kw'] if c['kw'] in (None, 'dict') else tuple(c['kw'])
        sh = tuple(c['sh']); axis = _ax(c['axis'])
        kwv = _kw(kw)
        if c['kind'] == 'grid':
            sigs = np.zeros(sh)
            try:
                check_kwargs_shape(sigs, np.array(kwv) if isinstance(kwv, list) else kwv, axis); got = ['ok', 'unit']
            except Exception as e:
                got = ['err', type(e).__name__]
            j, m = spec[0], model[0]
        else:
            n_sig = int(np.prod(sh[:-1]))
            sigs = np.array([sig[:300] * (1 + 0.1 * i) for i in range(n_sig)]).reshape(sh[:-1] + (300,))
            f = compute_features_2d if len(sh) == 2 else compute_features_3d
            if isinstance(kwv, list):
                def fill(x):
                    return [fill(y) for y in x] if isinstance(x, list) else {'threshold_kwargs': {}}
                kwv = fill(kwv)
            elif kwv == {}:
                kwv = {'threshold_kwargs': {}}
            try:
                implutil.quiet(f, sigs, fs, fr, compute_features_kwargs=kwv, axis=axis, n_jobs=1); got = ['ok', 'unit']
            except Exception as e:
                got = ['err', type(e).__name__]
            j, m = spec[1], model[1]
        ctx.hist(c['kind'] + '_outcome', got[1] if got[0] == 'err' else 'accepted')
        nt = kw not in (None, 'dict')
        out.append(Result(c, judge_ok=(got == j), corr_ok=(got == m), sig=(c['kind'], sh, kw, str(axis)), nontrivial=nt,
                          info=dict(impl=got, model=m, spec=j)))
    return out
