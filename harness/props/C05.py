"""C05 - burst features equal their documented definitions."""
import warnings
from fractions import Fraction
import numpy as np, pandas as pd
from core import Result
import proto, gen, implutil

THEOREMS = ['C05_ampcons', 'C05_ampcons_dir', 'C05_ampcons_dir_both', 'C05_flank_sequence', 'C05_ampcons_range', 'C05_ampcons_clamped', 'C05_empty_table', 'C05_percons', 'C05_percons_dir', 'C05_ratio_range',
            'C05_mono_steps', 'C05_mono_range', 'C05_rank', 'C05_rank_undefined', 'C05_rank_range', 'C05_rank_order', 'C05_routing']
RULE = ("(a) synthetic tables: rise / decay voltages over small integers incl. 0 and negatives (NaN, -inf, clamp, ratios > 1), periods, volt_amp with ties, both "
        "centrings, directions both/next/last, n = 0..12; (b) tables from compute_features(burst_method='cycles') on generated signals (tie-rich quantised / clipped / "
        "plateau families included), both centrings, row labels 0..n-1 / offset (a cut table) / reversed (positions, not labels, define neighbours), one table in three also WITHOUT its sample columns (peak-centred: known finding; trough-centred: judged), the recording and its table cropped at a cycle boundary (first cycle at sample 0): amp_fraction, amp_consistency, period_consistency, monotonicity columns vs the Lean model and the centring-free "
        "Lean specification (flank sequence; strict steps); NaN pattern exact, finite values within 1e-12; distinct = distinct inputs; non-trivial = >= 3 cycles")
ASSUMPTIONS = ["pandas Series.rank(method='average'), np.nanmin, np.mean are transcribed primitives (E6)", "finite values compared within 1e-12 relative"]
BATCH = 300
DIRS = ['both', 'next', 'last']

def regen_slots():
    import slots
    return slots.regenerate()

def _close(fl, atom, tol=Fraction(1, 10**12)):
    if atom == 'nan': return fl != fl
    if atom in ('inf', '-inf'): return fl == float(atom)
    if fl != fl or fl in (float('inf'), float('-inf')): return False
    a, b = Fraction(float(fl)), Fraction(atom)
    return abs(a - b) <= tol * max(abs(a), abs(b), 1)

def _close_list(fls, atoms):
    return len(fls) == len(atoms) and all(_close(float(x), a) for x, a in zip(fls, atoms))

def _wrap(f):
    try:
        with warnings.catch_warnings():
            warnings.simplefilter('ignore')
            a = [float(x) for x in f()]
            with np.errstate(all='raise'):      # the same table / signal again, now inside a caller's strict floating-point error state
                b = [float(x) for x in f()]
            if not all((u != u and v != v) or u == v for u, v in zip(a, b)) or len(a) != len(b):
                return ['err', 'SecondCallDiffers']
            return ['ok', a]
    except Exception as e:
        return ['err', type(e).__name__]

def _same(impl, ans):
    if impl[0] == 'err' or (isinstance(ans, list) and ans and ans[0] == 'err'):
        return impl[0] == 'err' and ans[0] == 'err' and impl[1] == ans[1]
    vals = ans[1] if (isinstance(ans, list) and ans and ans[0] == 'ok') else ans
    return _close_list(impl[1], vals)

def corpus(ctx):
    return [dict(kind='table', pc=True, rises=[1, 2, 0, 0, 3, 1], decays=[2, 1, 0, -1, 3, 2], periods=[5, 5, 7, 3, 5, 5], amps=[1, 2, 2, 3, 1, 1]),
            dict(kind='table', pc=False, rises=[1, 2, 0, 0, 3, 1], decays=[2, 1, 0, -1, 3, 2], periods=[5, 5, 7, 3, 5, 5], amps=[1, 2, 2, 3, 1, 1]),
            dict(kind='table', pc=True, rises=[], decays=[], periods=[], amps=[]),
            dict(kind='table', pc=True, rises=[-2, -2, -1, -2], decays=[-1, -1, -2, -1], periods=[2, 4, 8, 16], amps=[0, 0, 0, 0])]

def generate(ctx):
    rng = ctx.rng
    cases = []
    for i in range(ctx.scale(1500, 15000)):
        n = int(rng.integers(0, 13))
        vals = [0, 0, 1, 1, 2, 3, 5, -1, -2] if rng.random() < 0.5 else [1, 2, 3, 4, 6]
        cases.append(dict(kind='table', pc=bool(rng.integers(2)), rises=[int(x) for x in rng.choice(vals, size=n)],
                          decays=[int(x) for x in rng.choice(vals, size=n)], periods=[int(x) for x in rng.integers(1, 9, size=n)],
                          amps=[int(x) for x in rng.integers(0, 4, size=n)], lab=int(rng.choice([0, 0, 1, 2])),
                          nan=([int(x) for x in rng.choice(n, size=min(n, int(rng.integers(1, 3))), replace=False)] if (n >= 2 and rng.random() < 0.2) else [])))     # rows whose amplitude is undefined
    fams = ['quantised', 'clipped', 'plateau', 'zeroed', 'bursty', 'noise', 'sum', 'asym', 'sine', 'chirp', 'dc', 'scaled']
    for i in range(ctx.scale(100, 1000)):
        s = gen.make_signal(ctx.sub_rng(i), family=fams[i % len(fams)])
        cases.append(dict(kind='signal', sig=proto.arr2hex(s['sig']), fs=s['fs'], f_range=list(s['f_range']),
                          center=str(rng.choice(['peak', 'trough'])), family=s['family'], lab=int(rng.choice([0, 0, 1, 2])),
                          dt=(str(rng.choice(['uint8', 'uint16', 'int16', 'int8'])) if rng.random() < 0.2 else None), reuse=bool(rng.random() < 0.25), nosamp=bool(i % 3 == 1)))
    return cases

def _relabel(df, lab):
    """row labels other than 0..n-1 (a table cut by limit_df / iloc keeps its labels): 1 = offset, 2 = reversed."""
    if lab == 1:
        df = df.copy(); df.index = range(3, 3 + len(df))
    elif lab == 2:
        df = df.copy(); df.index = range(len(df) - 1, -1, -1)
    return df

def evaluate(ctx, cases):
    from bycycle.features.burst import compute_burst_features, compute_amp_consistency, compute_period_consistency, compute_amp_fraction, compute_monotonicity
    from bycycle.features import compute_features
    reqs, plan = [], []
    for c in cases:
        if c['kind'] == 'table':
            df = pd.DataFrame({'volt_rise': np.array(c['rises'], float), 'volt_decay': np.array(c['decays'], float),
                               'period': np.array(c['periods'], float), 'volt_amp': np.array(c['amps'], float),
                               ('sample_peak' if c['pc'] else 'sample_trough'): np.zeros(len(c['rises']), int)})
            for i in c.get('nan', []):
                df.loc[i, 'volt_amp'] = np.nan
            df = _relabel(df, c.get('lab', 0))
            pc, sig, x = c['pc'], None, None
        else:
            x = proto.hex2arr(c['sig'])
            if c.get('dt'):      # an unsigned / narrow integer recording (ADC counts): decreasing steps must not wrap
                lo, hi = {'uint8': (0, 255), 'uint16': (0, 65535), 'int16': (-32768, 32767), 'int8': (-128, 127)}[c['dt']]
                m = float(np.max(np.abs(x))) or 1.0
                x = np.round((x / m + 1) / 2 * (hi - lo) + lo).astype(c['dt'])
            cf = lambda a: implutil.quiet(compute_features, a, c['fs'], implutil.frange(c), center_extrema=c['center'], threshold_kwargs={})
            try:
                df = implutil.reuse_buffer(cf, x) if c.get('reuse') else cf(x)
            except Exception as e:
                plan.append(dict(skip=type(e).__name__)); continue
            xi = x; x = x.astype(float)
            pc = c['center'] == 'peak'
            if c.get('lab', 0):
                df = _relabel(df.iloc[2:] if c['lab'] == 1 else df, c['lab'])
        T = 'T' if pc else 'F'
        r, d = proto.enc_list(df['volt_rise'].values), proto.enc_list(df['volt_decay'].values)
        per, va = proto.enc_list(df['period'].values), proto.enc_list(df['volt_amp'].values)
        j0 = len(reqs)
        items = []
        for dr in DIRS:
            reqs.append('ampcons.model %s %s %s %s' % (T, dr, r, d)); items.append(('ac_' + dr, _wrap(lambda: compute_amp_consistency(df, direction=dr)), 'corr'))
            reqs.append('ampcons.spec %s %s %s %s' % (T, dr, r, d)); items.append(('ac_spec_' + dr, _wrap(lambda: compute_amp_consistency(df, direction=dr)), 'judge'))
            reqs.append('percons.model %s %s' % (dr, per)); items.append(('pc_' + dr, _wrap(lambda: compute_period_consistency(df, direction=dr)), 'both'))      # (C05_percons / C05_percons_dir: the transcription IS the two-pair / one-pair definition)
        reqs.append('ampfrac.model ' + va); items.append(('af', _wrap(lambda: compute_amp_fraction(df)), 'both'))
        if c['kind'] == 'signal':
            side = 'trough' if pc else 'peak'; cen = 'peak' if pc else 'trough'
            rows = '[' + ','.join('[%d,%d,%d]' % (a, b, e) for a, b, e in zip(df['sample_last_' + side].values, df['sample_' + cen].values,
                                                                               df['sample_next_' + side].values)) + ']'
            mono = (lambda: implutil.reuse_buffer(lambda a: compute_monotonicity(df, a), xi)) if c.get('reuse') else (lambda: compute_monotonicity(df, xi))
            reqs.append('mono.model %s %s %s' % (T, proto.enc_list(x), rows)); items.append(('mono', _wrap(mono), 'both'))      # (C05_mono_steps: the transcription counts strict steps; the function called DIRECTLY on the presented samples is judged too)
            reqs.append('mono.spec %s %s %s' % (T, proto.enc_list(x), rows)); items.append(('mono_spec', ['ok', [float(v) for v in df['monotonicity'].values]], 'judge'))
            # the columns of the returned table are these functions' values
            items.append(('cols', None, 'cols'))
            if c.get('lab', 0) == 0 and len(df) >= 3:
                # the recording and its table CROPPED at a cycle boundary (limit_df / limit_signal at the time of a side extremum): the first cycle then starts at
                # sample 0; monotonicity of the remaining cycles is what it was
                side_ = 'trough' if pc else 'peak'
                s0 = int(df['sample_last_' + side_].values[1])
                dfc = df.iloc[1:].copy()
                for col in dfc.columns:
                    if col.startswith('sample_'): dfc[col] = dfc[col] - s0
                dfc = dfc.reset_index(drop=True)
                xc = xi[s0:]
                items.append(('mono_cropped', (_wrap(lambda: compute_monotonicity(dfc, xc)), [float(v) for v in df['monotonicity'].values[1:]]), 'cropped'))
            if (not pc) and c.get('nosamp'):
                # a TROUGH-centred table without its sample columns is analysed as what it is (the code's default when no sample column is there)
                dfn_t = df[[col for col in df.columns if not col.startswith('sample_')]]
                for dr in DIRS:
                    reqs.append('ampcons.spec F %s %s %s' % (dr, r, d)); items.append(('ac_nosamp_trough_' + dr, _wrap(lambda: compute_amp_consistency(dfn_t, direction=dr)), 'judge'))
            if pc and c.get('nosamp'):
                # the same PEAK-centred table WITHOUT its sample columns (compute_features(return_samples=False)): the statement's pairing is the peak-centred
                # one; the code recognises the centring by a `sample_peak` column only (KNOWN FINDING, known_findings.json: it then pairs the trough-centred way)
                dfn = df[[col for col in df.columns if not col.startswith('sample_')]]
                for dr in DIRS:
                    reqs.append('ampcons.spec T %s %s %s' % (dr, r, d)); reqs.append('ampcons.spec F %s %s %s' % (dr, r, d))
                    items.append(('ac_nosamp_' + dr, _wrap(lambda: compute_amp_consistency(dfn, direction=dr)), 'known_ac'))
        plan.append(dict(j0=j0, items=items, df=df, n=len(df)))
        if c['kind'] == 'signal' and not c.get('lab', 0) and len(df):
            # the BURST-FEATURE projection of the composed Lean model (pipelineCycles) against the table of compute_features
            rq = implutil.pipeline_request(x, c['fs'], c['f_range'], c['center'], None, None, None, {})
            if rq is not None: plan[-1]['pipe'] = rq
    ans = proto.run_driver(reqs)
    pidx = [i for i, p in enumerate(plan) if 'pipe' in p]
    for i, a in zip(pidx, proto.run_driver([plan[i]['pipe'] for i in pidx])):
        plan[i]['pipe_ans'] = a
    out = []
    for c, p in zip(cases, plan):
        key = hash(repr({k: v for k, v in c.items() if k != 'family'}))
        if 'skip' in p:
            ctx.hist('outcome', 'compute_features raised (C01): ' + p['skip'])
            out.append(Result(c, sig=key, nontrivial=False, info=dict(skipped=p['skip']))); continue
        judge_ok, corr_ok, info = True, True, {}
        known = False
        j = p['j0']
        for name, impl, role in p['items']:
            if role == 'cols':
                df = p['df']
                fns = (('amp_fraction', lambda: compute_amp_fraction(df)), ('amp_consistency', lambda: compute_amp_consistency(df)),
                       ('period_consistency', lambda: compute_period_consistency(df)))
                if c.get('lab', 0) != 1:          # (a cut table's columns were computed before the cut)
                    for col, f in fns:
                        v = _wrap(f)
                        if v[0] != 'ok' or not all((a != a and b != b) or a == b for a, b in zip(v[1], [float(t) for t in df[col].values])):
                            judge_ok = False; info['column_' + col] = 'table column differs from the feature function'
                if c.get('lab', 0):
                    # compute_burst_features on a table with other row labels: the functions' values, row for row
                    x = proto.hex2arr(c['sig'])
                    try:
                        bf = implutil.quiet(compute_burst_features, df, x)
                        for col, f in fns + (('monotonicity', lambda: compute_monotonicity(df, x)),):
                            u, w = [float(t) for t in bf[col].values], _wrap(f)[1]
                            if len(u) != len(w) or not all((a != a and b != b) or a == b for a, b in zip(u, w)):
                                judge_ok = False; info['relabelled_' + col] = 'compute_burst_features on a table with row labels %s differs row for row' % list(df.index[:3])
                    except Exception as e:
                        judge_ok = False; info['relabelled'] = type(e).__name__ + ': ' + str(e)[:100]
                continue
            if role == 'cropped':
                got, want = impl
                if got[0] != 'ok' or len(got[1]) != len(want) or not all((a != a and b != b) or a == b for a, b in zip(got[1], want)):
                    judge_ok = False; info[name] = dict(impl=(got if got[0] != 'ok' else got[1][:8]), expected=want[:8])
                continue
            if role == 'known_ac':
                a, b = ans[j], ans[j + 1]; j += 2
                if not _same(impl, a):
                    if _same(impl, b): known = True
                    else: judge_ok = False; info[name] = dict(impl=impl, expected=a)
                continue
            a = ans[j]; j += 1
            ok = _same(impl, a)
            if not ok:
                info[name] = dict(impl=impl, expected=a)
                if role in ('corr', 'both'): corr_ok = False
                if role in ('judge', 'both'): judge_ok = False
        if 'pipe_ans' in p and corr_ok:
            pj = implutil.pipeline_projections(p['pipe_ans'], p['df'], c['center'], {})
            if pj['feats'] is not None and not pj['feats'].startswith('tie:'):
                corr_ok = False; info['pipeline'] = pj['feats']
            ctx.hist('pipeline feats', 'agrees' if pj['feats'] is None else ('float tie' if pj['feats'].startswith('tie:') else 'differs'))
        ctx.hist('kind', c['kind'])
        fkey = None
        if judge_ok and known:      # the ONLY thing wrong is what the known finding predicts (exactly the trough-centred pairing)
            judge_ok = False; fkey = 'peak-centred-table-without-sample-columns'; info['known'] = fkey; ctx.hist('known_finding', fkey)
        out.append(Result(c, judge_ok=judge_ok, corr_ok=corr_ok, sig=key, nontrivial=p['n'] >= 3, info=info, finding_key=fkey))
    return out
