"""C18 - limit_df / limit_signal / split / drop / flatten are lossless selections."""
import warnings
from fractions import Fraction
import numpy as np, pandas as pd
from core import Result
import proto, gen, implutil

THEOREMS = ['C18_limit_rule', 'C18_limit_sublist', 'C18_limit_membership', 'C18_limit_outside', 'C18_limit_reset', 'C18_limit_signal', 'C18_split_drop', 'C18_flatten', 'C18_flatten_labels']
RULE = ("cycle tables of generated signals, both centrings x start/stop in {None, exactly 0, random, exactly on a cycle boundary (last/next side extremum / fs), windows containing no cycle} x "
        "reset_indices x row labels 0..n-1 / repeated (flattened channels, half of them with the rows out of temporal order) / offset; limit_signal on the sample grid with the same limits, time axis starting at 0 or before 0; split_samples_df / drop_samples_df on the same tables (half of them with user-added columns whose names only contain 'sample_', object / boolean columns, another column order); flatten_dfs on 1-D and 2-D lists of tables "
        "with labels (and mismatching label counts; default and custom column_name); judge: Lean specifications limitSpec / limitSignalSpec, column partition, order and labels; "
        "distinct = distinct (table, limits, flags); non-trivial = a strict non-empty subset of the rows / samples is kept")
ASSUMPTIONS = ["the window limits are shipped as the equivalent sample thresholds (smallest sample with s/fs >= start, largest with s/fs <= stop, computed in float64 as the implementation compares); the model is about the selection and the shift",
               "fs and limits are chosen so that start*fs is exact in float64 for the boundary cases (fs a power of two or limits on the sample grid with exact quotients)"]
BATCH = 60

def regen_slots():
    import slots
    return slots.regenerate()

def _table(seed, center):
    from bycycle.features import compute_features
    rng = np.random.default_rng(seed)
    fs = int(rng.choice([128, 256, 512, 200, 250]))
    s = gen.make_signal(rng, family=str(rng.choice(['bursty', 'sum', 'asym', 'noise'])), fs=fs, f0=8, n=int(fs * 6))
    df = implutil.quiet(compute_features, s['sig'], fs, s['f_range'], center_extrema=center, threshold_kwargs={})
    return df, s['sig'], fs

def _rows_enc(df, center):
    rows = implutil.sample_rows(df, center)
    return '[' + ','.join('[%d,[%s]]' % (i, ','.join(str(v) for v in r)) for i, r in enumerate(rows)) + ']'

def corpus(ctx):
    return [dict(kind='limit', seed=5, center='trough', a='r0.3', b=None, reset=True),     # pre-fix D: None limit / trough-centred reset
            dict(kind='limit', seed=5, center='peak', a=None, b='r0.6', reset=True),
            dict(kind='limit', seed=5, center='peak', a=None, b=None, reset=False)]

def generate(ctx):
    rng = ctx.rng
    cases = []
    for i in range(ctx.scale(260, 2600)):
        def lim():
            u = rng.random()
            if u < 0.2: return None
            if u < 0.27: return 'z'                                  # exactly 0 (a falsy limit is still a limit)
            if u < 0.5: return 'r%.6f' % rng.random()              # fraction of the duration
            if u < 0.8: return 'b%d:%d' % (int(rng.integers(1 << 20)), int(rng.integers(2)))   # on a cycle boundary (row pick, last/next)
            return 'g%d' % int(rng.integers(1 << 20))               # on the sample grid
        cases.append(dict(kind='limit', seed=int(rng.integers(40)), center=str(rng.choice(['peak', 'trough'])), a=lim(), b=lim(), reset=bool(rng.integers(2)),
                          shift=int(rng.choice([0, 0, 1, 3])), lab=int(rng.choice([0, 0, 1, 2]))))
    for i in range(ctx.scale(40, 400)):
        cases.append(dict(kind='cols', seed=int(rng.integers(40)), center=str(rng.choice(['peak', 'trough'])), method=str(rng.choice(['cycles', 'amp']))))
    for i in range(ctx.scale(60, 600)):
        cases.append(dict(kind='flatten', seed=int(rng.integers(1 << 30)), dims=([int(rng.integers(1, 5))] if rng.random() < 0.5 else [int(rng.integers(1, 4)), int(rng.integers(1, 4))]),
                          bad_labels=bool(rng.random() < 0.15)))
    return cases

_cache = {}
def _get(seed, center):
    if (seed, center) not in _cache:
        _cache[(seed, center)] = _table(seed, center)
    return _cache[(seed, center)]

def _resolve(spec, df, fs, n, center):
    if spec is None: return None
    side = 'trough' if center == 'peak' else 'peak'
    if spec == 'z': return 0.0
    if spec[0] == 'r': return float(spec[1:]) * n / fs
    if spec[0] == 'g': return int(spec[1:]) % n / fs
    k, which = spec[1:].split(':')
    col = df['sample_last_' + side if which == '0' else 'sample_next_' + side].values
    return float(col[int(k) % len(col)]) / fs

def evaluate(ctx, cases):
    from bycycle.utils import limit_df, limit_signal
    from bycycle.utils.dataframes import split_samples_df, drop_samples_df, flatten_dfs
    reqs, plan = [], []
    for c in cases:
        if c['kind'] == 'limit':
            df, sig, fs = _get(c['seed'], c['center'])
            n = len(sig)
            a, b = _resolve(c['a'], df, fs, n, c['center']), _resolve(c['b'], df, fs, n, c['center'])
            if a is not None and b is not None and a > b:
                a, b = b, a
            # the time axis of limit_signal may start before 0 (event-locked axes); row labels may repeat (flattened channels) or be offset
            times = (np.arange(n) - (n * c.get('shift', 0)) // 4) / fs
            if c.get('lab', 0):
                df = df.copy(); df.index = (np.arange(len(df)) % 3) if c['lab'] == 1 else (np.arange(len(df)) + 5)
                if c['lab'] == 1 and c['seed'] % 2 == 1:
                    # flattened channels / epochs (flatten_dfs, pd.concat): the rows are NOT in temporal order - the selection is row by row
                    h = len(df) // 2
                    df = pd.concat([df.iloc[h:], df.iloc[:h]])
            if c['seed'] % 4 == 2: df = implutil.user_columns(df)        # (columns a user added are carried along with their rows, untouched)
            try:
                na, nb = ((None if a is None else np.float64(a)), (None if b is None else np.float64(b))) if c['seed'] % 3 == 0 else (a, b)      # numpy-scalar limits
                got = implutil.twice(lambda: implutil.quiet(limit_df, df, (float(fs) if c['seed'] % 2 else fs), start=na, stop=nb, reset_indices=c['reset']), [df], 'limit_df'); gerr = None
            except Exception as e:
                got, gerr = None, type(e).__name__ + ': ' + str(e)[:100]
            try:
                gs, gt = limit_signal(times, sig, start=a, stop=b); serr = None
            except Exception as e:
                gs, gt, serr = None, None, type(e).__name__
            a0 = 0 if a is None else a
            # the implementation compares sample / fs with the limits (float division); ship the equivalent integer
            # thresholds: smallest sample s with s / fs >= start, largest sample s with s / fs <= stop
            def lower_idx(t):
                k = int(round(t * fs)) - 3
                while not (k / fs >= t): k += 1
                return k
            def upper_idx(t):
                k = int(round(t * fs)) + 3
                while not (k / fs <= t): k -= 1
                return k
            fs_start = float(lower_idx(a0)); fs_stop = None if b is None else float(upper_idx(b))
            # the statement asks for ONE common offset; which one (within a sample of fs*start) is read off the
            # implementation's first kept row and then required of every column and row by the specification
            off = int(round(fs * a0))
            if got is not None and c['reset'] and len(got):
                side_ = 'trough' if c['center'] == 'peak' else 'peak'
                kept0 = df[(df['sample_last_' + side_].values >= fs_start) & ((df['sample_next_' + side_].values <= fs_stop) if fs_stop is not None else True)]
                if len(kept0):
                    cand = int(kept0['sample_last_' + side_].values[0]) - int(got['sample_last_' + side_].values[0])
                    if abs(cand - fs * a0) < 1: off = cand
            args = '%s %s %s %d %s' % (_rows_enc(df, c['center']), proto.enc_rat(fs_start), proto.enc_opt(fs_stop), off, 'T' if c['reset'] else 'F')
            targs = '%s %s %s' % (proto.enc_list(times), proto.enc_opt(a), proto.enc_opt(b))
            reqs += ['limitdf.model ' + args, 'limitdf.spec ' + args, 'limitsig.model ' + targs, 'limitsig.spec ' + targs]
            plan.append(dict(j=len(reqs) - 4, df=df, got=got, gerr=gerr, gs=gs, gt=gt, serr=serr, sig=sig, times=times, a=a, b=b))
        else:
            plan.append({})
    ans = proto.run_driver(reqs)
    out = []
    for c, p in zip(cases, plan):
        key = repr(sorted(c.items(), key=lambda kv: kv[0]))
        info = {}
        judge_ok = corr_ok = True; nt = True
        if c['kind'] == 'limit':
            cols = implutil.PEAK_COLS if c['center'] == 'peak' else implutil.TROUGH_COLS
            def cmp_df(pred, tag):
                if p['gerr']:
                    info[tag] = 'limit_df raised ' + p['gerr']; return False
                got, df = p['got'], p['df']
                rids = [int(r[0]) for r in pred]
                if len(got) != len(rids):
                    info[tag] = 'kept %d rows, expected %d (start=%r stop=%r)' % (len(got), len(rids), p['a'], p['b']); return False
                exp = df.iloc[rids]
                if sorted(got.columns) != sorted(df.columns):
                    info[tag] = 'the returned table has other columns than the given one'; return False
                for col in df.columns:
                    ev = exp[col].values
                    if col in cols:
                        ev = np.array([int(r[1][cols.index(col)]) for r in pred], dtype=ev.dtype) if len(pred) else ev
                    gv = got[col].values
                    if not all((u != u and v != v) or u == v for u, v in zip(gv.tolist(), ev.tolist())):
                        info[tag] = 'column %s differs' % col; return False
                return True
            def cmp_sig(pred, tag):
                if p['serr']:
                    info[tag] = 'limit_signal raised ' + p['serr']; return False
                idx = [int(i) for i in pred]
                if len(p['gs']) != len(idx) or not np.array_equal(p['gs'], p['sig'][idx]) or not np.array_equal(p['gt'], p['times'][idx]):
                    info[tag] = 'limit_signal kept %d samples, expected %d' % (len(p['gs']), len(idx)); return False
                return True
            m_df, s_df, m_sg, s_sg = ans[p['j']:p['j'] + 4]
            judge_ok = cmp_df(s_df, 'judge_df') & cmp_sig(s_sg, 'judge_sig')
            corr_ok = cmp_df(m_df, 'model_df') & cmp_sig(m_sg, 'model_sig')
            nt = 0 < len(s_df) < len(p['df'])
            ctx.hist('limits', '%s/%s' % ('None' if c['a'] is None else c['a'][0], 'None' if c['b'] is None else c['b'][0])); ctx.hist('row labels', ['0..n-1', 'repeated', 'offset'][c.get('lab', 0)])
        elif c['kind'] == 'cols':
            from bycycle.features import compute_features
            df, sig, fs = _get(c['seed'], c['center'])
            if c['method'] == 'amp':
                df = implutil.quiet(compute_features, sig, fs, (5.6, 10.4), center_extrema=c['center'], burst_method='amp', threshold_kwargs={})
            if c['seed'] % 2 == 0:
                # columns a user added: names that merely CONTAIN 'sample' / 'sample_' are not sample columns (only the sample_ PREFIX is), object-typed and
                # boolean columns keep their values and type
                df = df.copy(); n_ = len(df)
                df['resample_factor'] = np.arange(n_) * 0.5; df['n_subsample_pts'] = np.arange(n_); df['samples'] = np.arange(n_)[::-1]
                df['subject'] = ['s%d' % (i % 3) for i in range(n_)]; df['is_sample_ok'] = np.arange(n_) % 2 == 0
                if c['seed'] % 4 == 0: df = df[sorted(df.columns)]          # (columns in another order)
            orig = df.copy()
            d = drop_samples_df(df.copy())
            f, s = split_samples_df(df.copy())
            samp = [col for col in orig.columns if col.startswith('sample_')]
            rest = [col for col in orig.columns if not col.startswith('sample_')]
            ok = list(d.columns) == rest and list(f.columns) == rest and sorted(s.columns) == sorted(samp)
            ok = ok and all(d[col].equals(orig[col]) and f[col].equals(orig[col]) for col in rest) and all(s[col].equals(orig[col]) for col in samp)
            judge_ok = ok
            if not ok: info['judge'] = 'split/drop did not partition the columns without altering values'
        else:
            r = np.random.default_rng(c['seed'])
            dims = c['dims']
            def tab():
                n = int(r.integers(0, 5))
                return pd.DataFrame({'x': r.integers(0, 100, size=n), 'y': r.random(n)})
            if len(dims) == 1:
                tabs = [tab() for _ in range(dims[0])]; flat = tabs
                labels = ['L%d' % i for i in range(dims[0])]
            else:
                tabs = [[tab() for _ in range(dims[1])] for _ in range(dims[0])]; flat = [t for row in tabs for t in row]
                labels = [['L%d_%d' % (i, j) for j in range(dims[1])] for i in range(dims[0])]
            lab_flat = list(np.array(labels).flatten())
            if c['bad_labels']:
                labels = lab_flat + ['extra']
            copies = [t.copy() for t in flat]
            try:
                lv = labels
                if not c['bad_labels']:      # labels as a (nested) list, a C-ordered ndarray or a FORTRAN-ordered ndarray (a transposed label table)
                    lv = [labels, np.array(labels), np.asfortranarray(np.array(labels))][c['seed'] % 3]
                col = [None, 'Label', 'chan', 'Label'][(c['seed'] // 3) % 4]      # the rarely used column_name option (None: the default, 'Label')
                res = implutil.quiet(flatten_dfs, tabs, lv, **({} if col is None else {'column_name': col})); err = None
                col = col or 'Label'
            except Exception as e:
                res, err = None, type(e).__name__
            if c['bad_labels']:
                judge_ok = err == 'ValueError'
            else:
                exp = pd.concat([t.assign(Label=l) for t, l in zip(copies, lab_flat)], axis=0) if flat else None
                judge_ok = err is None and len(res) == len(exp) and list(res['x'].values) == list(exp['x'].values) and col in res.columns and \
                    (col == 'Label' or 'Label' not in res.columns) and list(res[col].values) == list(exp['Label'].values) and list(res['y'].values) == list(exp['y'].values)
            if not judge_ok: info['judge'] = 'flatten_dfs: order / labels / error differ (err=%s)' % err
            nt = len(flat) >= 2
        ctx.hist('kind', c['kind'])
        out.append(Result(c, judge_ok=judge_ok, corr_ok=corr_ok, sig=key, nontrivial=nt, info=info))
    return out
