"""C13 - epoched (axis=None) analysis partitions the flattened analysis."""
import warnings
import numpy as np, pandas as pd
from core import Result
import proto, gen, implutil

THEOREMS = ['C13_epoch_rule', 'C13_unique_epoch', 'C13_membership', 'C13_partition', 'C13_shift_inverse', 'C13_single_labels', 'C13_list_labels']
RULE = ("(a) epoch_df on cycle tables of generated signals (both centrings) with epoch lengths drawn at random AND chosen so that a closing side extremum falls exactly on a "
        "multiple of the epoch length; zeroed stretches give epochs without cycles; (b) compute_features_2d(axis=None) on 2-D arrays with one option set (None / dict) and "
        "with per-epoch option lists (own thresholds per epoch; partial dictionaries for later epochs: omitted keys take the defaults), both burst methods; judge: Lean partition specification (each cycle exactly once, in the epoch containing its "
        "closing side extremum, original order, feature values unchanged, sample indices shifted by the epoch start), labels of the flattened analysis for a single option set, "
        "re-labelling with the epoch's own thresholds for a list; distinct = distinct (signal, epoch length, options); non-trivial = >= 2 non-empty epochs")
ASSUMPTIONS = ["per-epoch re-labelling is judged against the library's own detect_bursts_* applied to the expected epoch table (the detectors are C06/C07)"]
BATCH = 40

def regen_slots():
    import slots
    return slots.regenerate()

def _flat_signal(seed, n):
    rng = np.random.default_rng(seed)
    s = gen.make_signal(rng, family=str(rng.choice(['bursty', 'zeroed', 'sum', 'noise', 'asym', 'bursty'])), fs=250, f0=10, n=n)
    x = s['sig'].copy()
    if rng.random() < 0.5:       # a long silent stretch -> epochs without any cycle
        a = int(rng.integers(0, n // 2)); x[a:a + n // 3] = 0.0
    return x, 250, (7.0, 13.0)

def _rows_enc(df, center):
    rows = implutil.sample_rows(df, center)
    return '[' + ','.join('[%d,[%s]]' % (i, ','.join(str(v) for v in r)) for i, r in enumerate(rows)) + ']'

def corpus(ctx):
    return [dict(kind='e2e', seed=11, n_ep=4, L=500, kw='none', center='peak', method='cycles'),      # pre-fix I: epoch 0 re-labelled in isolation
            dict(kind='e2e', seed=12, n_ep=5, L=400, kw='list', center='peak', method='cycles'),      # pre-fix I: empty epoch -> IndexError
            dict(kind='e2e', seed=13, n_ep=4, L=500, kw='alias', center='peak', method='cycles')]     # pre-fix: [opts] * n re-labelled later epochs with defaults

def generate(ctx):
    rng = ctx.rng
    cases = []
    for i in range(ctx.scale(80, 800)):
        cases.append(dict(kind='epoch', seed=int(rng.integers(1 << 30)), n=int(rng.choice([1500, 2000, 3000])), center=str(rng.choice(['peak', 'trough'])),
                          L_mode=str(rng.choice(['random', 'coincide', 'coincide'])), L_seed=int(rng.integers(1 << 30))))
    for i in range(ctx.scale(50, 500)):
        n_ep = int(rng.integers(2, 7)); L = int(rng.choice([300, 400, 500, 750]))
        cases.append(dict(kind='e2e', seed=int(rng.integers(1 << 30)), n_ep=n_ep, L=L, kw=str(rng.choice(['none', 'dict', 'list', 'list', 'alias'])),
                          center=str(rng.choice(['peak', 'trough'])), method=str(rng.choice(['cycles', 'cycles', 'amp']))))
    return cases

def _opts(c, e):
    """option set of epoch e (deterministic in the case)"""
    r = np.random.default_rng([c['seed'], e])
    if c['method'] == 'cycles':
        th = {'amp_fraction_threshold': float(r.choice([0, 0.3])), 'amp_consistency_threshold': float(r.choice([0.2, 0.5])),
              'period_consistency_threshold': float(r.choice([0.3, 0.6])), 'monotonicity_threshold': float(r.choice([0.4, 0.8])),
              'min_n_cycles': int(r.choice([1, 2, 3]))}
    else:
        th = {'burst_fraction_threshold': float(r.choice([0.5, 0.8, 1.0])), 'min_n_cycles': int(r.choice([1, 3]))}
    if e >= 1 and (c['seed'] + e) % 3 == 0:       # a PARTIAL dictionary for a later epoch: the keys it omits take the documented DEFAULTS (not the first epoch's values)
        keep = list(th)[int(r.integers(len(th))):][:2]
        th = {k: th[k] for k in keep}
    if e >= 1 and (c['seed'] + e) % 5 == 1: th = {}      # (no threshold of its own at all)
    return {'center_extrema': c['center'], 'burst_method': c['method'], 'threshold_kwargs': th}

TH_DEFAULTS = {'amp_fraction_threshold': 0.0, 'amp_consistency_threshold': 0.5, 'period_consistency_threshold': 0.5, 'monotonicity_threshold': 0.8, 'min_n_cycles': 3,
               'burst_fraction_threshold': 1.0}
def _full(th):
    return dict(TH_DEFAULTS, **th)

def _cmp_tables(got, exp, info, tag):
    """list of DataFrames vs list of DataFrames"""
    if len(got) != len(exp):
        info[tag] = 'number of epochs %d vs %d' % (len(got), len(exp)); return False
    for e, (g, x) in enumerate(zip(got, exp)):
        g = g.reset_index(drop=True); x = x.reset_index(drop=True)
        if list(g.columns) != list(x.columns) or len(g) != len(x):
            info[tag] = 'epoch %d: %d rows / columns %s, expected %d rows' % (e, len(g), list(g.columns)[:3], len(x)); return False
        for col in g.columns:
            a, b = g[col].values, x[col].values
            same = all((u != u and v != v) or u == v for u, v in zip(a.tolist(), b.tolist()))
            if not same:
                info[tag] = 'epoch %d column %s differs' % (e, col); return False
            if g[col].dtype != x[col].dtype:      # (also for an epoch without any cycle: the columns keep their types)
                info[tag] = 'epoch %d column %s has dtype %s, the flattened analysis has %s' % (e, col, g[col].dtype, x[col].dtype); return False
    return True

def evaluate(ctx, cases):
    from bycycle.features import compute_features
    from bycycle.utils.dataframes import epoch_df
    from bycycle.group import compute_features_2d
    from bycycle.burst import detect_bursts_cycles, detect_bursts_amp
    reqs, plan = [], []
    for c in cases:
        if c['kind'] == 'epoch':
            x, fs, fr = _flat_signal(c['seed'], c['n'])
            try:
                df = implutil.quiet(compute_features, x, fs, fr, center_extrema=c['center'], threshold_kwargs={})
            except Exception as e:
                plan.append(dict(skip=type(e).__name__)); continue
            side = 'trough' if c['center'] == 'peak' else 'peak'
            nxt = df['sample_next_' + side].values
            r = np.random.default_rng(c['L_seed'])
            if c['L_mode'] == 'coincide' and len(nxt):
                v = int(r.choice(nxt)); divs = [d for d in range(2, 9) if v % d == 0 and v // d >= 20]
                L = v // int(r.choice(divs)) if divs else v
            else:
                L = int(r.integers(50, len(x)))
            df = df.copy(); df['rid'] = np.arange(len(df))
            if c['seed'] % 2 == 0: df = implutil.user_columns(df)          # (columns a user added travel with their cycle, unshifted)
            n_all = len(x)
            if c['L_seed'] % 3 == 0:
                # SUB-epoching: the table of the first epoch (epoch-relative samples; its last cycle may close exactly on sample L, the length of the
                # 'recording' it is now cut from) is epoched again
                try:
                    first = [t for t in implutil.quiet(epoch_df, df, len(x), L) if len(t) >= 2]
                except Exception:
                    first = []
                if first:
                    df = first[0].copy(); df['rid'] = np.arange(len(df)); n_all = L
                    L = max(10, L // int(r.integers(2, 4)))
                    nxt = df['sample_next_' + side].values
            try:
                got = implutil.quiet(epoch_df, df, n_all, L)
                got2 = implutil.quiet(epoch_df, df, n_all, L)            # (the same table again: the caller's table is left as it was)
                if len(got2) != len(got) or not all(a.equals(b) for a, b in zip(got, got2)): got = 'SecondCallDiffers'
            except Exception as e:
                got = type(e).__name__
            reqs += ['epoch.model %s %d %d' % (_rows_enc(df, c['center']), n_all, L), 'epoch.spec %s %d %d' % (_rows_enc(df, c['center']), n_all, L)]
            plan.append(dict(kind='epoch', df=df, got=got, L=L, n=n_all, j=len(reqs) - 2, coincide=bool(len(nxt) and any(v % L == 0 for v in nxt))))
        else:
            x, fs, fr = _flat_signal(c['seed'], c['n_ep'] * c['L'])
            sigs = implutil.layout_nd(x.reshape(c['n_ep'], c['L']), c['seed'])          # C / Fortran / read-only / strided memory layout
            o0 = _opts(c, 0)
            if c['kw'] == 'none':
                kwv = None; o0 = {'center_extrema': 'peak', 'burst_method': 'cycles', 'threshold_kwargs': {}}
            elif c['kw'] == 'dict':
                kwv = dict(o0, threshold_kwargs=dict(o0['threshold_kwargs']))
            elif c['kw'] == 'alias':      # one and the same dict object for every epoch
                d = dict(o0, threshold_kwargs=dict(o0['threshold_kwargs'])); kwv = [d] * c['n_ep']
            else:
                kwv = [dict(_opts(c, e), threshold_kwargs=dict(_opts(c, e)['threshold_kwargs'])) for e in range(c['n_ep'])]
                for e in range(1, c['n_ep']):      # an entry whose threshold dictionary is EMPTY is handed over without the key at all: the defaults apply to that epoch
                    if not kwv[e]['threshold_kwargs'] and (c['seed'] + e) % 2 == 0: del kwv[e]['threshold_kwargs']
            import copy
            snap = copy.deepcopy(kwv)
            try:
                got = implutil.quiet(compute_features_2d, sigs, fs, fr, compute_features_kwargs=kwv, axis=None, n_jobs=1)
                # the same argument objects again: same answer, arguments untouched
                got2 = implutil.quiet(compute_features_2d, sigs, fs, fr, compute_features_kwargs=kwv, axis=None, n_jobs=1)
                if repr(kwv) != repr(snap):
                    got = 'caller option objects were modified'
                elif len(got2) != len(got) or not all(a.equals(b) for a, b in zip(got, got2)):
                    got = 'second call with the same argument objects gives a different result'
            except Exception as e:
                got = type(e).__name__ + ': ' + str(e)[:100]
            try:
                flat = implutil.quiet(compute_features, x, fs, fr, center_extrema=o0['center_extrema'], burst_method=o0['burst_method'],
                                      threshold_kwargs=dict(o0['threshold_kwargs']), return_samples=True)
            except Exception as e:
                plan.append(dict(skip=type(e).__name__)); continue
            nk = 1 if c['kw'] not in ('list', 'alias') else c['n_ep']
            center = o0['center_extrema']
            reqs += ['epoch.spec %s %d %d' % (_rows_enc(flat, center), len(x), c['L']), 'flat.relabel %d %d' % (nk, c['n_ep'])]
            plan.append(dict(kind='e2e', flat=flat, got=got, center=center, j=len(reqs) - 2))
    ans = proto.run_driver(reqs)
    out = []
    for c, p in zip(cases, plan):
        key = repr(sorted(c.items()))
        if 'skip' in p:
            ctx.hist('outcome', 'compute_features raised (C01): ' + p['skip'])
            out.append(Result(c, sig=key, nontrivial=False, info=dict(skipped=p['skip']))); continue
        info = {}
        def build(df, center, epochs):
            """expected tables from a driver answer: list of epochs of [rid, six shifted samples]"""
            cols = implutil.PEAK_COLS if center == 'peak' else implutil.TROUGH_COLS
            tabs = []
            for ep in epochs:
                rids = [int(r[0]) for r in ep]
                t = df.iloc[rids].reset_index(drop=True).copy()
                for k, col in enumerate(cols):
                    t[col] = np.array([int(r[1][k]) for r in ep], dtype=df[col].dtype) if len(ep) else t[col]
                tabs.append(t)
            return tabs
        if p['kind'] == 'epoch':
            model, spec = ans[p['j']], ans[p['j'] + 1]
            if isinstance(p['got'], str):
                judge_ok = corr_ok = False; info['impl'] = 'raised ' + p['got']
            else:
                judge_ok = _cmp_tables(p['got'], build(p['df'], c['center'], spec), info, 'judge')
                corr_ok = _cmp_tables(p['got'], build(p['df'], c['center'], model), info, 'model')
            nonempty = sum(1 for ep in spec if ep)
            ctx.hist('epoch_coincidence', p['coincide']); ctx.hist('empty_epochs', any(not ep for ep in spec))
        else:
            spec, relabel = ans[p['j']], ans[p['j'] + 1]
            if isinstance(p['got'], str):
                judge_ok = corr_ok = False; info['impl'] = 'raised ' + p['got']
            else:
                exp = build(p['flat'], p['center'], spec)
                exp_model = [t.copy() for t in exp]
                for e, t in enumerate(exp):      # statement: single option set keeps the flattened labels; a list re-labels every epoch with its own thresholds
                    if c['kw'] in ('list', 'alias'):
                        th = _opts(c, e if c['kw'] == 'list' else 0)['threshold_kwargs']
                        exp[e] = implutil.quiet(detect_bursts_cycles if c['method'] == 'cycles' else detect_bursts_amp, t.copy(), **th)
                for e, t in enumerate(exp_model):   # model: which option set the transcription re-labels with
                    oid = int(relabel[e]) if e < len(relabel) else 0
                    if oid > 0:
                        th = (_opts(c, oid - 1)['threshold_kwargs'] if c['kw'] == 'list' else (_opts(c, 0)['threshold_kwargs'] if c['kw'] in ('dict', 'alias') else {}))
                        exp_model[e] = implutil.quiet(detect_bursts_cycles if c['method'] == 'cycles' or c['kw'] == 'none' else detect_bursts_amp, t.copy(), **th)
                judge_ok = _cmp_tables(p['got'], exp, info, 'judge')
                corr_ok = _cmp_tables(p['got'], exp_model, info, 'model')
                if judge_ok and c['kw'] in ('list', 'alias') and c['method'] == 'amp':
                    lr = []
                    for e, t in enumerate(p['got']):
                        th = _full(_opts(c, e if c['kw'] == 'list' else 0)['threshold_kwargs'])
                        lr.append('amp.spec %s %s %s' % (proto.enc_list([float(v) for v in t['burst_fraction'].values]), proto.enc_rat(th['burst_fraction_threshold']), proto.enc_rat(th['min_n_cycles'])))
                    for e, (a, t) in enumerate(zip(proto.run_driver(lr), p['got'])):
                        want = a[1] if isinstance(a, list) and a and a[0] == 'ok' else a
                        have = proto.enc_bits(list(t['is_burst'].values.astype(bool)))
                        if want != have:
                            judge_ok = False; info['judge'] = 'epoch %d: labels %s, the amplitude label rule applied to the epoch alone gives %s' % (e, have, want); break
                if judge_ok and c['kw'] in ('list', 'alias') and c['method'] == 'cycles':
                    # the labels of every re-labelled epoch against the Lean specification of the label rule (cyclesSpec), not against the
                    # implementation's own detect_bursts_cycles: each epoch is labelled ON ITS OWN (first and last cycle never burst)
                    FE = ['amp_fraction', 'amp_consistency', 'period_consistency', 'monotonicity']
                    lr = []
                    for e, t in enumerate(p['got']):
                        th = _full(_opts(c, e if c['kw'] == 'list' else 0)['threshold_kwargs'])
                        rows = '[' + ','.join('[' + ','.join(proto.enc_rat(float(t[f].values[i])) for f in FE) + ']' for i in range(len(t))) + ']'
                        lr.append('cycles.spec %s [%s]' % (rows, ','.join(proto.enc_rat(th[k]) for k in [f + '_threshold' for f in FE] + ['min_n_cycles'])))
                    for e, (a, t) in enumerate(zip(proto.run_driver(lr), p['got'])):
                        want = a[1] if isinstance(a, list) and a and a[0] == 'ok' else a
                        have = proto.enc_bits(list(t['is_burst'].values.astype(bool)))
                        if want != have:
                            judge_ok = False; info['judge'] = 'epoch %d: labels %s, the label rule applied to the epoch alone gives %s' % (e, have, want); break
            nonempty = sum(1 for ep in spec if ep)
            ctx.hist('e2e_kw', c['kw']); ctx.hist('empty_epochs', any(not ep for ep in spec))
        out.append(Result(c, judge_ok=judge_ok, corr_ok=corr_ok, sig=key, nontrivial=nonempty >= 2, info=info))
    return out
