"""C09 - peak- and trough-centred analyses are mirror images."""
import warnings
import numpy as np
from core import Result
import proto, gen, implutil

THEOREMS = ['C09_shape', 'C09_neg_involutive', 'C09_mirror_involutive', 'C09_amp_consistency', 'C09_monotonicity', 'C09_burst_fraction', 'C09_labels', 'C09_mirror']
RULE = ("generated signals of all families x option sets of C01 x both burst methods x return_samples True / False: compute_features(x, center_extrema='trough') against compute_features(-x, "
        "center_extrema='peak') (two implementation runs; negation is exact in float64; one case in eight on an integer-typed recording reaching the limits of its type): same number of cycles, same sample indices under the documented renaming, "
        "shape features related by the renaming / negation / 1-x map GENERATED into Lean from rename_extrema_df (applied by the driver), identical burst features (also the one-sided direction='next' / 'last' consistencies) and "
        "identical is_burst; distinct = distinct (signal, options); non-trivial = >= 3 cycles with differing periods")
ASSUMPTIONS = ["the dual-threshold detector and amp_by_time are even in the signal (E5); observed here on the implementation",
               "1 - x on the two symmetry fractions is compared within 1e-12 (the flip is one float subtraction)"]
BATCH = 50
SHAPE = ['period', 'time_peak', 'time_trough', 'volt_peak', 'volt_trough', 'time_decay', 'time_rise', 'volt_decay', 'volt_rise', 'volt_amp',
         'time_rdsym', 'time_ptsym', 'band_amp']
INT = {0, 1, 2, 5, 6}

def regen_slots():
    import slots
    return slots.regenerate()

def corpus(ctx):
    s = gen.make_signal(np.random.default_rng(31), family='asym', fs=500, f0=10)
    return [dict(sig=proto.arr2hex(s['sig']), fs=500, f_range=[7.0, 13.0], fk=None, boundary=None, method='cycles', th=None, bk=None, family='asym')]

def generate(ctx):
    rng = ctx.rng
    cases = []
    for i in range(ctx.scale(150, 1500)):
        s = gen.make_signal(ctx.sub_rng(i), family=gen.FAMILIES[i % len(gen.FAMILIES)])
        u = rng.random()
        fk = None if u < 0.4 else ({'n_cycles': int(rng.choice([2, 3, 4]))} if u < 0.8 else {'n_seconds': float(rng.choice([0.25, 0.5]))})
        method = str(rng.choice(['cycles', 'amp']))
        th = ({'amp_consistency_threshold': float(rng.choice([0.2, 0.5])), 'monotonicity_threshold': float(rng.choice([0.4, 0.8])), 'min_n_cycles': int(rng.choice([1, 3]))}
              if method == 'cycles' else {'burst_fraction_threshold': float(rng.choice([0.5, 1.0])), 'min_n_cycles': int(rng.choice([1, 3]))})
        bk = {'amp_threshes': [0.5, 1.5]} if (method == 'amp' and rng.random() < 0.5) else None
        cases.append(dict(sig=proto.arr2hex(s['sig']), fs=s['fs'], f_range=list(s['f_range']), fk=fk, boundary=(None if rng.random() < 0.5 else int(rng.choice([0, 5, 30]))),
                          method=method, th=th, bk=bk, family=s['family'], rs=bool(rng.random() < 0.65), pres=implutil.pick_presentation(rng, 0.3), reuse=bool(rng.random() < 0.25), strict=bool(rng.random() < 0.3 or s['family'] in ('zeroed', 'plateau', 'quantised', 'clipped')), dt=(str(['int16', 'uint16', 'uint8', 'int32'][i % 4]) if i % 8 == 5 else None)))     # (signals with flat stretches: 0/0 flank ratios)
    return cases

_objs = {}
def _run(c, sig, center):
    from bycycle.features import compute_features
    if _objs.get('owner') is not c:      # identity of the case dict (id() values are reused after garbage collection)
        _objs['owner'] = c       # both mirrored runs of one case use the SAME option objects
        bk = dict(c['bk']) if c['bk'] else None
        if bk and 'amp_threshes' in bk: bk['amp_threshes'] = tuple(bk['amp_threshes'])
        _objs['v'] = (bk, dict(c['th']) if c['th'] else {}, implutil.fe_kwargs(c['fk'], c['boundary'], None))
    bk, th, fek = _objs['v']
    if center == 'trough' and c.get('pres') not in (None, 'array'):      # the trough-centred run receives the samples in another container / layout
        sig = implutil.present(sig, c['pres'])
    if center == 'peak' and c.get('reuse'):                              # the peak-centred run analyses a buffer refilled in place
        return implutil.reuse_buffer(lambda a: implutil.quiet(compute_features, a, c['fs'], implutil.frange(c), center_extrema=center, burst_method=c['method'], burst_kwargs=bk,
                                                             threshold_kwargs=th, find_extrema_kwargs=fek, return_samples=c.get('rs', True)), sig)
    run = implutil.strict_env if c.get('strict') else implutil.quiet      # both runs of some cases inside np.seterr(all='raise')
    return implutil.twice(lambda: run(compute_features, sig, c['fs'], implutil.frange(c), center_extrema=center, burst_method=c['method'], burst_kwargs=bk,
                                                 threshold_kwargs=th, find_extrema_kwargs=fek, return_samples=c.get('rs', True)), [sig, bk, th, fek], 'compute_features')

def _as_int(x, dt):
    m = float(np.max(np.abs(x))) or 1.0
    if dt.startswith('u'):
        hi = np.iinfo(dt).max
        return np.round((x / m + 1) / 2 * hi).astype(dt)
    hi = np.iinfo(dt).max
    xi = np.round(x / m * hi).astype(dt)
    xi[int(np.argmin(xi))] = np.iinfo(dt).min          # the negative rail itself
    return xi

def _shape_rows(df):
    return '[' + ','.join('[' + ','.join((str(int(df[col].values[i])) if k in INT else proto.enc_rat(float(df[col].values[i]))) for k, col in enumerate(SHAPE)) + ']'
                          for i in range(len(df))) + ']'

def evaluate(ctx, cases):
    reqs, plan = [], []
    for c in cases:
        x = proto.hex2arr(c['sig']); xneg = -x
        if c.get('dt'):
            # an INTEGER-typed recording (ADC counts) reaching the limits of its type: the trough-centred run gets the integer array, the mirrored run the
            # negated samples as floats (negating inside a fixed-width type wraps: -(-32768) = -32768, -x = 2^n - x for unsigned types)
            x = _as_int(x, c['dt']); xneg = -(x.astype(float))
        errs = []
        t = p = None
        try:
            t = _run(c, x, 'trough')
        except Exception as e:
            errs.append('trough-centred run raised ' + type(e).__name__ + ': ' + str(e)[:60])
        try:
            p = _run(c, xneg, 'peak')
        except Exception as e:
            errs.append('peak-centred run of -x raised ' + type(e).__name__ + ': ' + str(e)[:60])
        if any('HistoryDependence' in e for e in errs):
            plan.append(dict(asym=[e for e in errs if 'HistoryDependence' in e][0])); continue
        if len(errs) == 2:
            plan.append(dict(skip=errs[0])); continue
        if len(errs) == 1:
            plan.append(dict(asym=errs[0])); continue
        reqs.append('mirror.shape ' + _shape_rows(p))
        plan.append(dict(t=t, p=p, j=len(reqs) - 1))
    ans = proto.run_driver(reqs)
    out = []
    for c, pl in zip(cases, plan):
        key = hash(repr({k: v for k, v in c.items() if k != 'family'}))
        if 'asym' in pl:
            ctx.hist('outcome', 'one run raised')
            out.append(Result(c, judge_ok=False, corr_ok=False, sig=key, nontrivial=True, info=dict(judge='only one of the two mirrored runs raised: ' + pl['asym']))); continue
        if 'skip' in pl:
            ctx.hist('outcome', 'raised (C01): ' + pl['skip'][:30])
            out.append(Result(c, sig=key, nontrivial=False, info=dict(skipped=pl['skip']))); continue
        t, p = pl['t'], pl['p']
        info = {}
        ok = True
        def fail(msg):
            nonlocal ok
            if ok: info['judge'] = msg
            ok = False
        if len(t) != len(p):
            fail('number of cycles %d vs %d' % (len(t), len(p)))
        else:
            if not c.get('rs', True):
                if any(col.startswith('sample_') for col in list(t.columns) + list(p.columns)):
                    fail('return_samples=False but the table carries sample columns')
            elif implutil.sample_rows(t, 'trough') != implutil.sample_rows(p, 'peak'):
                fail('sample indices differ under the documented renaming')
            exp = ans[pl['j']]
            for i, row in enumerate(exp):
                for k, col in enumerate(SHAPE):
                    v = float(t[col].values[i])
                    if k in INT:
                        good = int(v) == int(row[k])
                    elif row[k] in ('nan', 'inf', '-inf'):
                        good = (v != v) if row[k] == 'nan' else v == float(row[k])
                    elif v != v or v in (float('inf'), float('-inf')):
                        good = False
                    else:
                        from fractions import Fraction
                        a, b = Fraction(v), Fraction(row[k]); good = abs(a - b) <= Fraction(1, 10**12) * max(abs(a), abs(b), 1)
                    if not good:
                        fail('row %d column %s: trough-centred run has %r, mirror of the peak-centred run of -x has %s' % (i, col, v, row[k])); break
                if not ok: break
            for col in (['amp_fraction', 'amp_consistency', 'period_consistency', 'monotonicity'] if c['method'] == 'cycles' else ['burst_fraction']) + ['is_burst']:
                a, b = t[col].values, p[col].values
                if not all((u != u and v != v) or u == v for u, v in zip(a.tolist(), b.tolist())):
                    fail('burst feature / label column %s differs between the two runs' % col); break
            if ok and (c.get('pres') not in (None, 'array') or c.get('dt')):
                # the shape stage called directly on the presented samples (the negate-then-rename step works on ITS argument): same shape columns
                # as the full analysis, and the caller's samples are left as they were
                from bycycle.features import compute_shape_features
                xs = _as_int(proto.hex2arr(c['sig']), c['dt']) if c.get('dt') else implutil.present(proto.hex2arr(c['sig']), c['pres'])
                before = np.array(xs, dtype=float).copy()
                try:
                    ts = implutil.quiet(compute_shape_features, xs, c['fs'], implutil.frange(c), center_extrema='trough', find_extrema_kwargs=implutil.fe_kwargs(c['fk'], c['boundary'], None))
                    if not np.array_equal(np.array(xs, dtype=float), before):
                        fail('compute_shape_features(center_extrema=\'trough\') modified the caller\'s samples (%s)' % (c.get('dt') or c['pres']))
                    elif any(not ((ts[col].values == t[col].values) | (np.isnan(ts[col].values.astype(float)) & np.isnan(t[col].values.astype(float)))).all() for col in SHAPE):
                        fail('compute_shape_features on the %s presentation differs from the shape columns of compute_features' % (c.get('dt') or c['pres']))
                except Exception as e:
                    fail('compute_shape_features raised for the %s presentation although compute_features returned: %s' % (c.get('dt') or c['pres'], type(e).__name__))
            if ok and not c.get('rs', True):
                # the renaming utility itself on a table WITHOUT sample columns: the peak-centred table of -x, renamed, is the trough-centred table
                from bycycle.utils import rename_extrema_df
                rn = implutil.quiet(rename_extrema_df, 'trough', p.copy(deep=True), False)
                for col in SHAPE:
                    a_, b_ = rn[col].values.astype(float), t[col].values.astype(float)
                    if not (((a_ == b_) | (np.isnan(a_) & np.isnan(b_)) | (np.abs(a_ - b_) <= 1e-12 * np.maximum(1.0, np.abs(b_)))).all()):
                        fail('rename_extrema_df(\'trough\', table without sample columns): column %s is not the trough-centred one' % col); break
            if ok and c.get('rs', True):
                # the one-sided variants used when burst edges are re-evaluated (direction next / last) mirror as well
                from bycycle.features.burst import compute_amp_consistency, compute_period_consistency
                for d in ('next', 'last'):
                    for f in (compute_amp_consistency, compute_period_consistency):
                        a, b = implutil.quiet(f, t, direction=d), implutil.quiet(f, p, direction=d)
                        if not all((u != u and v != v) or u == v for u, v in zip(np.asarray(a, float).tolist(), np.asarray(b, float).tolist())):
                            fail('%s(direction=%r) differs between the two mirrored tables' % (f.__name__, d)); break
            if ok and c['method'] == 'cycles' and len(t) >= 3 and c.get('rs', True):
                # ... and so does the edge recomputation of the two tables (tables WITH sample columns; without them: known finding of C16)
                from bycycle.burst import recompute_edges
                try:
                    et, ep = implutil.quiet(recompute_edges, t, dict(c['th'] or {})), implutil.quiet(recompute_edges, p, dict(c['th'] or {}))
                    for col in ['amp_consistency', 'period_consistency', 'is_burst']:
                        if not all((u != u and v != v) or u == v for u, v in zip(et[col].values.tolist(), ep[col].values.tolist())):
                            fail('after recompute_edges column %s differs between the two mirrored tables' % col); break
                except Exception as e:
                    fail('recompute_edges raised on one of the mirrored tables: %s' % type(e).__name__)
        ctx.hist('method', c['method']); ctx.hist('return_samples', str(c.get('rs', True)))
        nt = len(t) >= 3 and len(set(t['period'].values)) > 1
        out.append(Result(c, judge_ok=ok, corr_ok=ok, sig=key, nontrivial=nt, info=info))
    return out
