"""C12 - 3-D group results sit at the position of their signal."""
import sys, warnings
import numpy as np
from core import Result
import proto, gen, implutil
from props.C11 import DelayedCF

THEOREMS = ['C12_axis01', 'C12_axis0', 'C12_axis1', 'C12_transpose', 'C12_index_counterexample', 'C12_group_routing']
RULE = ("3-D arrays of pairwise different signals, shapes (n0, n1) in {1,2,3}^2 (n0 != n1 and size-1 dimensions included) x axis in {0, 1, (0,1)} x option argument "
        "None / shared dict / 1-D per-slice list (axis 0, 1) / 2-D per-signal list (axis (0,1)) x n_jobs in {1, 2, n+1} x return_samples, delays injected as in C11; through "
        "compute_features_3d and BycycleGroup.fit; judge: entry [i][j] equals the analysis of signal [i, j] alone (axis (0,1)), epoch j of the flattened-epoch analysis of "
        "sigs[i] (axis 0), epoch i of the flattened-epoch analysis of sigs[:, j] (axis 1), each with the options of its slice; distinct = distinct configurations; "
        "non-trivial = n0 * n1 >= 2")
ASSUMPTIONS = ["the flattened-epoch analysis of one 2-D slice is compute_features on the concatenated rows cut by the Lean epoch rule (as in C13), not compute_features_2d itself",
               "Pool.imap ordering contract (E6)"]
BATCH = 6
OPTS = [
    {'threshold_kwargs': {}},
    {'center_extrema': 'trough', 'threshold_kwargs': {'min_n_cycles': 2}},
    {'threshold_kwargs': {'monotonicity_threshold': 0.3, 'amp_consistency_threshold': 0.2}},
    {'burst_method': 'amp', 'threshold_kwargs': {'burst_fraction_threshold': 0.8}},
]

def regen_slots():
    import slots
    return slots.regenerate()

def _grid(seed, n0, n1):
    sigs = np.zeros((n0, n1, 400))
    for i in range(n0):
        for j in range(n1):
            s = gen.make_signal(np.random.default_rng([seed, i, j]), family=['bursty', 'sum', 'asym', 'noise'][(i * n1 + j) % 4], fs=200, f0=10, n=400)['sig'].copy()
            s[0] = 1000.0 + i * n1 + j
            sigs[i, j] = s
    if seed % 7 == 3 and n0 * n1 >= 3:           # the SAME recording at two positions (with per-signal options the two analyses still differ)
        sigs[n0 - 1, n1 - 1] = sigs[0, 0]
    return sigs, 200, (7.0, 13.0)

def corpus(ctx):
    # pre-fix F: axis=(0,1) on a 2x2 array put signal (0,1) at [1][0]
    return [dict(seed=3, n0=2, n1=2, axis='a01', kw='none', oids=[], n_jobs=1, rs=True, delay='none', via='func'),
            dict(seed=3, n0=2, n1=3, axis='a01', kw='list', oids=[0, 1, 2, 3, 0, 1], n_jobs=2, rs=True, delay='reverse', via='func')] + [
            # directed: ONE shared option dict carrying a popped option (center_extrema) reaches every slice, whatever the
            # number of workers (an in-process map with n_jobs=1 shares the object between slices, a pool pickles copies)
            dict(seed=5 + n0, n0=n0, n1=n1, axis=ax, kw='dict', oids=[1], n_jobs=nj, rs=rs, delay='none', via='func')
            for (n0, n1) in ((3, 2), (2, 3)) for ax in ('0', '1', 'a01') for nj in (1, 2) for rs in (True, False)] + [
            # directed: the same recording at [0][0] and [n0-1][n1-1] (seed % 7 == 3) with different per-signal options
            dict(seed=10, n0=2, n1=3, axis='a01', kw='list', oids=[0, 1, 2, 3, 2, 1], n_jobs=1, rs=True, delay='none', via='func'),
            dict(seed=17, n0=2, n1=2, axis='a01', kw='list', oids=[2, 1, 0, 0], n_jobs=2, rs=True, delay='reverse', via='func'),
            dict(kind='spawn', seed=0, n0=2, n1=2, axis='0', kw='dict', oids=[1], n_jobs=2, rs=True, delay='none', via='func')]

SPAWN_SCRIPT = r'''
import multiprocessing as mp, sys, warnings
import numpy as np
warnings.simplefilter('ignore')
if __name__ == '__main__':
    mp.set_start_method('spawn')
    from bycycle.group import compute_features_3d
    from bycycle.features import compute_features
    rng = np.random.default_rng(7)
    t = np.arange(400) / 200
    sigs = np.array([[np.sin(2 * np.pi * (9 + i + j) * t + i) + 0.3 * rng.standard_normal(400) for j in range(2)] for i in range(2)])
    opts = {'center_extrema': 'trough', 'threshold_kwargs': {'min_n_cycles': 2}}
    for axis in (0, 1, (0, 1)):
        res = compute_features_3d(sigs, 200, (7.0, 13.0), compute_features_kwargs=dict(opts), axis=axis, n_jobs=2)
        for i in range(2):
            for j in range(2):
                if 'sample_trough' not in res[i][j].columns:
                    print('axis=%r: entry [%d][%d] was not analysed with the options given (worker start method spawn)' % (axis, i, j)); sys.exit(1)
        if axis == (0, 1):
            for i in range(2):
                for j in range(2):
                    if not res[i][j].equals(compute_features(sigs[i, j], 200, (7.0, 13.0), **opts)):
                        print('axis=(0, 1): entry [%d][%d] differs from the analysis of its signal' % (i, j)); sys.exit(1)
    print('ok')
'''

def _spawn_case():
    """the group analysis in a process whose multiprocessing START METHOD is 'spawn' (the default outside Linux): workers do not inherit module state"""
    import subprocess, os, tempfile
    env = dict(os.environ)
    with tempfile.NamedTemporaryFile('w', suffix='.py', delete=False) as f:
        f.write(SPAWN_SCRIPT); path = f.name
    try:
        p = subprocess.run([sys.executable, path], capture_output=True, text=True, timeout=300, env=env)
        return None if p.returncode == 0 else (p.stdout.strip().split('\n')[-1] or p.stderr.strip().split('\n')[-1])[:200]
    except Exception as e:
        return 'spawn run failed: ' + type(e).__name__
    finally:
        os.unlink(path)

def generate(ctx):
    rng = ctx.rng
    cases = []
    shapes = [(a, b) for a in (1, 2, 3) for b in (1, 2, 3)]
    for i in range(ctx.scale(40, 400)):
        n0, n1 = shapes[int(rng.integers(len(shapes)))]
        axis = str(rng.choice(['0', '1', 'a01', 'a01']))
        kwk = str(rng.choice(['none', 'dict', 'list', 'list']))
        nl = {'0': n0, '1': n1, 'a01': n0 * n1}[axis]
        oids = [int(x) for x in rng.integers(0, len(OPTS), size=nl)] if kwk == 'list' else ([int(rng.integers(len(OPTS)))] if kwk == 'dict' else [])
        cases.append(dict(seed=int(rng.integers(1 << 30)), n0=n0, n1=n1, axis=axis, kw=kwk, oids=oids,
                          n_jobs=int(rng.choice([1, 2, n0 * n1 + 1])), rs=bool(rng.random() < 0.7),
                          delay=str(rng.choice(['reverse', 'random', 'none'])), via=('object' if (kwk == 'none' and rng.random() < 0.5) else 'func')))
    return cases

def evaluate(ctx, cases):
    import bycycle.group.features as gf
    from bycycle.group import compute_features_3d, compute_features_2d
    from bycycle.features import compute_features
    from bycycle import BycycleGroup
    spawn_results = {}
    for i, c in enumerate(cases):
        if c.get('kind') == 'spawn':
            spawn_results[i] = _spawn_case()
    reqs = []
    for c in cases:
        kw = 'None' if c['kw'] == 'none' else ('[one,%d]' % (c['oids'][0] + 1) if c['kw'] == 'dict' else '[many,%s]' % proto.enc_ints([o + 1 for o in c['oids']]))
        ntask = {'0': c['n0'], '1': c['n1'], 'a01': c['n0'] * c['n1']}[c['axis']]
        sg = list(range(ntask))[::-1] if c['delay'] == 'reverse' else list(np.random.default_rng(c['seed']).permutation(ntask))
        reqs += ['group3d.model %d %d %s %s %s' % (c['n0'], c['n1'], kw, c['axis'], proto.enc_ints(sg)),
                 'group3d.spec %d %d %s %s' % (c['n0'], c['n1'], kw, c['axis'])]
    ans = proto.run_driver(reqs)
    out = []
    for k, c in enumerate(cases):
        if k in spawn_results:
            msg = spawn_results[k]
            ctx.hist('axis', 'spawn start method')
            out.append(Result(c, judge_ok=msg is None, corr_ok=msg is None, sig='spawn', nontrivial=True, info=(dict(judge=msg) if msg else {}))); continue
        model, spec = ans[2 * k], ans[2 * k + 1]
        n0, n1 = c['n0'], c['n1']
        sigs, fs, fr = _grid(c['seed'], n0, n1)
        flat = sigs.reshape(n0 * n1, -1)
        sigs = implutil.layout_nd(sigs, c['seed'])          # C / Fortran / read-only / strided memory layout
        delays = {}
        if c['delay'] == 'reverse':
            delays = {float(flat[i][0]): 0.015 * (n0 * n1 - i) for i in range(n0 * n1)}
        elif c['delay'] == 'random':
            r = np.random.default_rng(c['seed'])
            delays = {float(flat[i][0]): float(r.choice([0.0, 0.02, 0.05])) for i in range(n0 * n1)}
        axis = {'0': 0, '1': 1, 'a01': (0, 1)}[c['axis']]
        if c['kw'] == 'none': kwv = None
        elif c['kw'] == 'dict': kwv = dict(OPTS[c['oids'][0]])
        elif c['axis'] == 'a01': kwv = [[dict(OPTS[c['oids'][i * n1 + j]]) for j in range(n1)] for i in range(n0)]
        else: kwv = [dict(OPTS[o]) for o in c['oids']]
        orig = gf.compute_features
        gf.compute_features = DelayedCF(orig, delays)
        try:
            if c['via'] == 'func':
                res = implutil.quiet(compute_features_3d, sigs, fs, fr, compute_features_kwargs=kwv, axis=axis, return_samples=c['rs'], n_jobs=c['n_jobs'])
                models = None
            else:
                bg = BycycleGroup(thresholds={}, return_samples=c['rs'])
                target = sigs
                if c['seed'] % 3 == 0:      # a buffer history: fitted on a buffer holding the signals in reverse order (both dimensions), refilled IN PLACE, fitted again
                    target = np.array(sigs[::-1, ::-1])
                    implutil.quiet(bg.fit, target, fs, fr, axis=axis, n_jobs=1)
                    target[:] = sigs
                elif c['seed'] % 3 == 1:    # a shape history: the same object was fitted before on a grid with the same number of rows and MORE or FEWER columns
                    arr = np.asarray(sigs)  # (and, every other time, on one with another number of rows too)
                    wide = np.concatenate([arr[:, ::-1], arr[:, :1] * 0.5], axis=1)
                    prev = [wide, wide[:, :max(1, n1 - 1)], np.concatenate([wide, wide[:1]], axis=0)][(c['seed'] // 3) % 3]
                    implutil.quiet(bg.fit, np.array(prev), fs, fr, axis=axis, n_jobs=1)
                    if (c['seed'] // 9) % 2 == 0:
                        implutil.quiet(bg.fit, np.array(wide[:, :1]), fs, fr, axis=axis, n_jobs=1)
                implutil.quiet(bg.fit, target, fs, fr, axis=axis, n_jobs=c['n_jobs'])
                res, models = bg.df_features, bg.models
            err = None
        except Exception as e:
            res, models, err = None, None, type(e).__name__ + ': ' + str(e)[:120]
        finally:
            gf.compute_features = orig
        cache = {}
        def expected(tag):
            ids, oid, e = [int(x) for x in tag[0]], int(tag[1]), int(tag[2])
            if c['via'] == 'object':
                opts = {'center_extrema': 'peak', 'burst_method': 'cycles', 'burst_kwargs': {}, 'threshold_kwargs': {},
                        'find_extrema_kwargs': {'filter_kwargs': {'n_cycles': 3}}}
            else:
                opts = {} if oid == 0 else dict(OPTS[oid - 1])
            key = (tuple(ids), oid)
            if key not in cache:
                if c['axis'] == 'a01':
                    cache[key] = [implutil.quiet(compute_features, flat[ids[0]], fs, fr, return_samples=c['rs'], **opts)]
                else:
                    # the flattened-epoch analysis of the slice, INDEPENDENTLY of compute_features_2d / epoch_df: compute_features on the
                    # concatenated rows, cut into epochs by the Lean specification of the epoch rule (C13_epoch_rule) with its sample shift
                    x = flat[ids].flatten(); L = flat.shape[1]
                    o = dict(opts); cen = o.get('center_extrema', 'peak')
                    dfl = implutil.quiet(compute_features, x, fs, fr, return_samples=True, **o)
                    ep = proto.run_driver(['epoch.spec %s %d %d' % (implutil.epoch_rows_enc(dfl, cen), len(x), L)])[0]
                    cache[key] = implutil.epoch_tables(dfl, cen, ep)      # (the flattened-epoch route keeps the sample columns whatever return_samples says)
            return cache[key][e]
        def check(pred):
            if err: return 'raised ' + err
            if len(res) != n0 or any(len(r) != n1 for r in res): return 'result is not an %d x %d nested list' % (n0, n1)
            if not isinstance(pred, list) or len(pred) != n0 or any(not isinstance(r, list) or len(r) != n1 for r in pred):
                return 'the prediction is not an %d x %d nested list: %r' % (n0, n1, pred if not isinstance(pred, list) else [len(r) if isinstance(r, list) else r for r in pred])
            for i in range(n0):
                for j in range(n1):
                    if not res[i][j].equals(expected(pred[i][j])):
                        return 'entry [%d][%d] is not the analysis its position prescribes (%s)' % (i, j, pred[i][j])
                    if models is not None and (len(models) != n0 or any(len(r) != n1 for r in models)):
                        return 'models is not an %d x %d nested list: row lengths %r' % (n0, n1, [len(r) for r in models])
                    if models is not None and (not models[i][j].df_features.equals(res[i][j]) or not np.array_equal(models[i][j].sig, sigs[i, j])):
                        return 'models[%d][%d] does not mirror df_features / sigs' % (i, j)
            return None
        if c['via'] == 'object':
            spec = [[[t[0], '0', t[2]] for t in row] for row in ans[2 * k + 1]] if c['kw'] == 'none' else spec
            model = [[[t[0], '0', t[2]] for t in row] for row in ans[2 * k]] if c['kw'] == 'none' else model
        dj = check(spec)
        dm = dj if model == spec else check(model)
        info = {}
        if dj: info['judge'] = dj
        if dm: info['model'] = dm
        ctx.hist('axis', c['axis']); ctx.hist('shape', '%dx%d' % (n0, n1)); ctx.hist('kw', c['kw'])
        out.append(Result(c, judge_ok=dj is None, corr_ok=dm is None, sig=repr(sorted(c.items())), nontrivial=n0 * n1 >= 2, info=info))
    return out

def generate_object_guard(c):
    return c
