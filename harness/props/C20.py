"""C20 - plots draw the analysis they are given."""
import warnings
import numpy as np, pandas as pd
from core import Result
import proto, gen, implutil

THEOREMS = ['C20_offset', 'C20_markers_sound', 'C20_markers_complete', 'C20_mask_sound', 'C20_mask_complete', 'C20_truncation_counterexample', 'C20_routing', 'C20_panel', 'C20_panel_steps']
RULE = ("cycle tables of both centrings from generated signals (fs in {100, 128, 250, 1000}) x x-limits None or on the sample grid: random windows, window edges exactly on a "
        "side extremum / centre extremum, windows without a complete cycle, grid times whose product with fs is not exact in float64 (0.29 s at 100 Hz) x plot_only_result x interp x "
        "the cyclepoint-kind switches; plot_cyclepoints_df, plot_burst_detect_summary (also through Bycycle.plot, half of those on an object that has drawn before and whose edges were recomputed since) and plot_burst_detect_param under the Agg backend, observed "
        "through Line2D data; judge: every marker is (sample / fs, plotted value at that sample) of a genuine cyclepoint of its kind and every cyclepoint strictly inside the view "
        "is drawn; the highlighted trace contains only samples of burst cycles and all samples of burst cycles entirely inside the view; each parameter panel shows the "
        "per-cycle values (at the centres for interp) of the cycles inside the view and the threshold line; distinct = distinct (table, window, switches); "
        "non-trivial = a window is given and at least one marker is drawn")
ASSUMPTIONS = ["rendering is not modelled; observation is through the data of the Line2D objects created under the Agg backend",
               "neurodsp.plts.plot_time_series / plot_bursts draw exactly the arrays they are given (kernel, not verified)"]
BATCH = 10
TOL = 1e-9

def regen_slots():
    import slots
    return slots.regenerate()

_tab = {}
def _table(seed, center, fs):
    from bycycle.features import compute_features
    key = (seed, center, fs)
    if key not in _tab:
        rng = np.random.default_rng(seed)
        s = gen.make_signal(rng, family=str(rng.choice(['bursty', 'bursty', 'sum', 'asym'])), fs=fs, f0=8, n=int(fs * 6))
        th = {'amp_fraction_threshold': 0.0, 'amp_consistency_threshold': 0.4, 'period_consistency_threshold': 0.4, 'monotonicity_threshold': 0.5, 'min_n_cycles': 2}
        df = implutil.quiet(compute_features, s['sig'], fs, s['f_range'], center_extrema=center, threshold_kwargs=th)
        _tab[key] = (df, s['sig'], th)
    return _tab[key]

def _window(c, df, fs, n):
    """resolve the window spec to sample indices (a, b) -> xlim = (a / fs, b / fs); None = no limits"""
    if c['win'] is None: return None
    kind = c['win'][0]
    side = 'trough' if c['center'] == 'peak' else 'peak'; cen = 'peak' if c['center'] == 'peak' else 'trough'
    r = np.random.default_rng(c['win'][1])
    if kind == 'rand':
        a = int(r.integers(0, n - 60)); b = int(r.integers(a + 40, n))
    elif kind == 'side':
        col = np.concatenate([df['sample_last_' + side].values, df['sample_next_' + side].values]); a, b = sorted(int(x) for x in r.choice(col, 2, replace=False))
    elif kind == 'centre':
        col = df['sample_' + cen].values; a, b = sorted(int(x) for x in r.choice(col, 2, replace=False))
    elif kind == 'tiny':
        a = int(r.integers(0, n - 30)); b = a + int(r.integers(3, 12))
    elif kind == 'burststart':      # the view starts exactly on the first sample of a burst cycle, preferably where (a / fs) * fs > a in float64
        bl = df['sample_last_' + side].values[df['is_burst'].values]
        pref = [int(x) for x in bl if (int(x) / fs) * fs > int(x)] or [int(x) for x in bl] or [int(df['sample_last_' + side].values[0])]
        a = int(r.choice(pref)); b = int(r.integers(min(a + 40, n - 1), n))
    else:      # 'inexact': indices i with int(fs * (i / fs)) != i
        bad = [i for i in range(1, n - 50) if int(fs * (i / fs)) != i or int((i / fs) * fs) != i]
        a = int(r.choice(bad)) if bad else int(r.integers(0, n - 60)); b = int(r.integers(a + 40, n))
    if b <= a: b = a + 5
    return (a, min(b, n - 1))

def corpus(ctx):
    return [dict(seed=1, center='peak', fs=100, win=['inexact', 7], what='cyclepoints', switches=[True, True, True], only=False, interp=True),
            dict(seed=1, center='trough', fs=100, win=['side', 3], what='summary', switches=[True, True, True], only=False, interp=True),
            dict(seed=1, center='peak', fs=100, win=['side', 4], what='param', switches=[True, True, True], only=False, interp=False),
            dict(seed=2, center='trough', fs=100, win=['inexact', 9], what='summary', switches=[True, True, True], only=True, interp=True),
            # pre-fix: a burst cycle starting exactly on the lower limit (2.24 s at 100 Hz) was dropped by limit_df and not highlighted
            dict(seed=0, center='trough', fs=100, win=['side', 381916], what='summary', switches=[True, True, True], only=True, interp=True),
            dict(seed=3, center='peak', fs=100, win=['burststart', 5], what='summary', switches=[True, True, True], only=False, interp=True),
            dict(seed=4, center='trough', fs=250, win=['burststart', 6], what='object', switches=[True, True, True], only=True, interp=True)]

def generate(ctx):
    rng = ctx.rng
    cases = []
    for i in range(ctx.scale(70, 700)):
        cases.append(dict(seed=int(rng.integers(8)), center=str(rng.choice(['peak', 'trough'])), fs=int(rng.choice([100, 100, 128, 250, 1000])),
                          win=(None if rng.random() < 0.12 else [str(rng.choice(['rand', 'side', 'side', 'centre', 'tiny', 'inexact', 'burststart'])), int(rng.integers(1 << 20))]),
                          what=str(rng.choice(['cyclepoints', 'summary', 'param', 'object'])),
                          switches=[bool(rng.random() < 0.8), bool(rng.random() < 0.8), bool(rng.random() < 0.7)],
                          only=bool(rng.random() < 0.4), interp=bool(rng.random() < 0.6)))
    return cases

def _lines(ax):
    out = []
    for ln in ax.get_lines():
        x = np.asarray(ln.get_xdata(), dtype=float); y = np.asarray(np.ma.filled(np.ma.asarray(ln.get_ydata(), dtype=float), np.nan), dtype=float)
        out.append(dict(x=x, y=y, marker=ln.get_marker(), ls=ln.get_linestyle(), color=ln.get_color()))
    return out

def _check_markers(line, genuine, plotted, fs, lo, hi, label, complete=True):
    """sound + complete for one marker line; genuine: sample indices of that kind; view = samples lo..hi inclusive"""
    drawn = []
    for x, y in zip(line['x'], line['y']):
        s = int(round(x * fs))
        if abs(x - s / fs) > TOL: return '%s marker at x=%r is not a sample time' % (label, x)
        if s not in genuine: return '%s marker at sample %d is not a %s of the table' % (label, s, label)
        if not (0 <= s < len(plotted)) or abs(y - plotted[s]) > 1e-9 * max(1.0, abs(plotted[s])): return '%s marker at sample %d has y=%r but the plotted signal there is %r' % (label, s, y, plotted[s])
        drawn.append(s)
    for s in (genuine if complete else []):
        if lo < s < hi and s not in drawn: return '%s at sample %d lies strictly inside the view (%d, %d) but is not drawn' % (label, s, lo, hi)
    return None

def evaluate(ctx, cases):
    import matplotlib
    matplotlib.use('Agg')
    import matplotlib.pyplot as plt
    from scipy.stats import zscore
    from bycycle.plts import plot_cyclepoints_df, plot_burst_detect_summary, plot_burst_detect_param
    from bycycle import Bycycle
    out = []
    reqs, pend = [], []
    for c in cases:
        df, sig, th = _table(c['seed'], c['center'], c['fs'])
        fs = c['fs']; n = len(sig)
        corr_items = []
        side = 'trough' if c['center'] == 'peak' else 'peak'; cen = 'peak' if c['center'] == 'peak' else 'trough'
        w = _window(c, df, fs, n)
        xlim = None if w is None else (w[0] / fs, w[1] / fs)
        if xlim is not None and (w[0] + w[1]) % 3 == 0: xlim = [np.float64(xlim[0]), np.float64(xlim[1])]       # (a list of numpy floats instead of a tuple of python floats)
        times = np.arange(0, n / fs, 1 / fs)
        if w is None: lo, hi = 0, n - 1
        else:
            keep = np.flatnonzero((times >= xlim[0]) & (times < xlim[1])); lo, hi = (int(keep[0]), int(keep[-1])) if len(keep) else (0, -1)
        centres = [int(x) for x in df['sample_' + cen].values]
        sides = sorted(set(int(x) for x in df['sample_last_' + side].values) | set(int(x) for x in df['sample_next_' + side].values))
        rises = [int(x) for x in df['sample_zerox_rise'].values]; decays = [int(x) for x in df['sample_zerox_decay'].values]
        msg = None
        try:
            if c['what'] == 'cyclepoints':
                ps, pe, pz = c['switches']
                hsh = c['seed'] + (0 if c['win'] is None else c['win'][1])
                if hsh % 4 == 1 and len(df) >= 6:
                    # a ROW SUBSET of the table (the bursting cycles only, or every other cycle): its rows are no longer neighbours, every one of
                    # its cyclepoints is still to be drawn
                    sub = df[df['is_burst'].values] if int(df['is_burst'].sum()) >= 3 and int(np.sum(np.diff(np.flatnonzero(df['is_burst'].values)) > 1)) >= 1 else df.iloc[::2]
                    df = sub
                    centres = [int(x) for x in df['sample_' + cen].values]
                    sides = sorted(set(int(x) for x in df['sample_last_' + side].values) | set(int(x) for x in df['sample_next_' + side].values))
                    rises = [int(x) for x in df['sample_zerox_rise'].values]; decays = [int(x) for x in df['sample_zerox_decay'].values]
                if hsh % 4 == 2:
                    # no axes given while ANOTHER figure is open (an earlier plot of the session): the function draws into a figure of its own
                    decoy = plt.figure().add_subplot(111); decoy.plot([0, 1], [5, 5])
                    implutil.quiet(plot_cyclepoints_df, df, sig, fs, plot_sig=ps, plot_extrema=pe, plot_zerox=pz, xlim=xlim)
                    ax = plt.gca()
                    if len(decoy.get_lines()) != 1 or ax is decoy: msg = 'with ax=None the cyclepoints were drawn into a figure that was already open'
                else:
                    fig, ax = plt.subplots()
                    implutil.quiet(plot_cyclepoints_df, df, sig, fs, plot_sig=ps, plot_extrema=pe, plot_zerox=pz, xlim=xlim, ax=ax)
                L = _lines(ax)
                if ps:
                    sl, L = L[0], L[1:]
                    if len(sl['x']) != hi - lo + 1 or (len(sl['x']) and (abs(sl['x'][0] - lo / fs) > TOL or not np.array_equal(sl['y'], sig[lo:hi + 1]))):
                        msg = 'the signal trace is not the samples %d..%d of the signal' % (lo, hi)
                kinds = ([('centre extremum', centres), ('side extremum', sides)] if pe else []) + ([('rise midpoint', rises), ('decay midpoint', decays)] if pz else [])
                if msg is None and len(L) != len(kinds): msg = '%d marker lines for %d requested kinds' % (len(L), len(kinds))
                for ln, (lab, gen_) in zip(L, kinds):
                    if msg: break
                    msg = _check_markers(ln, gen_, sig, fs, lo, hi, lab)
                if hi >= lo:
                    x = float(times[lo] * fs)          # the product plot_cyclepoints_array converts to its offset
                    for ln, (lab, gen_) in zip(L, kinds):
                        # the model answers with indices into the limited arrays; the drawn x are times[lo + index]
                        corr_items.append(('plot.markers %d %d %s %s' % (lo, hi - lo + 1, proto.enc_rat(x), proto.enc_ints(gen_ if lab != 'side extremum' else sides)),
                                           sorted(int(round(v * fs)) - lo for v in ln['x'])))
                nt = w is not None and any(len(ln['x']) for ln in L)
            elif c['what'] in ('summary', 'object'):
                if c['what'] == 'object':
                    bm = Bycycle(center_extrema=c['center'], thresholds=dict(th)); bm.load(df, sig, fs, (5.6, 10.4))
                    if c['seed'] % 2 == 0 and c['center'] in ('peak', 'trough'):
                        # an object with a HISTORY: it has already drawn its table once, then its burst edges were recomputed with lowered thresholds
                        # (labels change, sample columns do not): the plot that follows must draw the CURRENT table
                        try:
                            implutil.quiet(bm.plot, xlim=xlim, plot_only_results=c['only'], interp=c['interp']); plt.close('all')
                            for red in (0.3, 0.1, None):
                                try:
                                    implutil.quiet(bm.recompute_edges, red); break
                                except ValueError:       # (a reduction that takes a threshold below 0 is refused)
                                    continue
                            df = bm.df_features
                        except Exception as e:
                            msg = 'plot / recompute_edges history raised %s' % type(e).__name__
                    implutil.quiet(bm.plot, xlim=xlim, plot_only_results=c['only'], interp=c['interp'])
                else:
                    # (a third of the summaries receive the recording as a pandas Series with a 1-based index: markers are positions, not labels)
                    sarg = pd.Series(sig, index=np.arange(1, len(sig) + 1)) if (w is not None and (w[0] + 2 * w[1]) % 3 == 1) or (w is None and len(df) % 3 == 1) else sig
                    # (the thresholds in the documented order, or with min_n_cycles FIRST - as after the shorthand renaming of a Bycycle object)
                    tharg = dict(th) if (c['seed'] + len(df)) % 2 == 0 else dict([(k, v) for k, v in th.items() if k == 'min_n_cycles'] + [(k, v) for k, v in th.items() if k != 'min_n_cycles'])
                    implutil.quiet(plot_burst_detect_summary, df, sarg, fs, tharg, xlim=xlim, plot_only_result=c['only'], interp=c['interp'])
                axes = plt.gcf().get_axes()
                z = zscore(sig)
                L = _lines(axes[0])
                trace, burst, marks = L[0], L[1], L[2:]
                if len(trace['x']) != hi - lo + 1: msg = 'the trace has %d samples, the view %d' % (len(trace['x']), hi - lo + 1)
                if msg is None:
                    hl = [lo + i for i in np.flatnonzero(~np.isnan(burst['y']))]
                    bl = df['sample_last_' + side].values[df['is_burst'].values]; bn = df['sample_next_' + side].values[df['is_burst'].values]
                    allowed = set()
                    for a, b in zip(bl, bn): allowed.update(range(int(a), int(b) + 1))
                    if hi >= lo and w is not None:
                        x = float(fs * xlim[0])
                        lim = [(int(a), int(b)) for a, b, l_, n_ in zip(bl, bn, bl, bn) if l_ / fs >= xlim[0] and n_ / fs <= xlim[1]]
                        corr_items.append(('plot.mask %d %s %s' % (hi - lo + 1, proto.enc_rat(x), '[' + ','.join('[%d,%d]' % ab for ab in lim) + ']'),
                                           proto.enc_bits(~np.isnan(burst['y']))))
                    bad = [s for s in hl if s not in allowed]
                    if bad: msg = 'highlighted sample %d does not belong to a cycle labelled is_burst' % bad[0]
                    for a, b in zip(bl, bn):
                        if msg: break
                        if lo <= a and b <= hi:
                            miss = [s for s in range(int(a), int(b) + 1) if s not in hl]
                            if miss: msg = 'burst cycle %d..%d lies entirely inside the view but sample %d is not highlighted' % (a, b, miss[0])
                for ln, (lab, gen_) in zip(marks, [('centre extremum', centres), ('side extremum', sides)]):
                    if msg: break
                    # the summary hands the window-limited table to the cyclepoint plot: soundness only
                    msg = _check_markers(ln, gen_, z, fs, lo, hi, lab, complete=False)
                if msg is None and not c['only']:
                    keys = [k for k in th if k != 'min_n_cycles']
                    if len(axes) != len(keys) + 1: msg = '%d axes for %d thresholds' % (len(axes), len(keys))
                    for ax, k in zip(axes[1:], keys):
                        if msg: break
                        msg = _check_panel(_lines(ax), df, k.replace('_threshold', ''), th[k], fs, lo, hi, side, cen, c['interp'])
                nt = w is not None
            else:
                fig, ax = plt.subplots()
                implutil.quiet(plot_burst_detect_param, df, sig, fs, 'monotonicity', 0.5, xlim=xlim, interp=c['interp'], ax=ax)
                msg = _check_panel(_lines(ax), df, 'monotonicity', 0.5, fs, lo, hi, side, cen, c['interp'])
                nt = w is not None
                if msg is None:
                    # the Lean model of the panel (Plots.lean panelCycles / panelPoints / panelSpans, theorems C20_panel, C20_panel_steps) against what was drawn
                    if w is None: stop_incl = n
                    else:
                        stop_incl = int(round(xlim[1] * fs)) + 3
                        while not (stop_incl / fs <= xlim[1]): stop_incl -= 1
                    cyc = '[' + ','.join('[%d,%d,%d,%s]' % (a, cc, b, proto.enc_rat(float(v))) for a, cc, b, v in
                                         zip(df['sample_last_' + side].values, df['sample_' + cen].values, df['sample_next_' + side].values, df['monotonicity'].values)) + ']'
                    L_ = _lines(ax)[0]
                    drawn_pts = [[str(int(round(x * fs))), proto.enc_rat(float(y))] for x, y in zip(L_['x'], L_['y'])]
                    def _xext(p_):       # (axvspan: a Rectangle in current matplotlib, a Polygon in older ones)
                        if hasattr(p_, 'get_width'): return p_.get_x(), p_.get_x() + p_.get_width()
                        xs_ = [v[0] for v in p_.get_xy()]; return min(xs_), max(xs_)
                    spans = sorted([int(round(_xext(p_)[0] * fs)), int(round(_xext(p_)[1] * fs))] for p_ in ax.patches)
                    corr_items.append(('plot.panel %s %d %d %d %s 1/2' % (proto.enc_bool(c['interp']), lo, max(hi - lo + 1, 0), stop_incl, cyc), ('panel', drawn_pts, [[str(a), str(b)] for a, b in spans])))
        except Exception as e:
            msg = 'raised %s: %s' % (type(e).__name__, str(e)[:100]); nt = True
        finally:
            plt.close('all')
        ctx.hist('what', c['what']); ctx.hist('window', 'None' if c['win'] is None else c['win'][0])
        for rq, _ in corr_items: reqs.append(rq)
        pend.append((c, msg, nt, xlim, lo, hi, corr_items))
    ans = iter(proto.run_driver(reqs))
    for c, msg, nt, xlim, lo, hi, corr_items in pend:
        cm = None
        for rq, got in corr_items:
            a = next(ans)
            if isinstance(got, tuple) and got[0] == 'panel':
                ok_ = isinstance(a, list) and len(a) == 2 and a[0] == got[1] and sorted(a[1]) == sorted(got[2])
                if not ok_ and cm is None: cm = 'model plot.panel predicts %s, drawn %s' % (str(a)[:160], str(list(got[1:]))[:160])
                continue
            pred = sorted(int(v) for v in a) if isinstance(a, list) else a
            if isinstance(pred, list):
                # a cyclepoint exactly ON the first / last sample of the view is selected through a float product
                # (points >= times[0]*fs, points < times[-1]*fs) whose rounding the integer model does not mirror
                edge = {0, hi - lo}
                pred = [v for v in pred if v not in edge]; got = [v for v in got if v not in edge]
            if pred != got and cm is None:
                cm = 'model %s predicts %s, drawn %s' % (rq.split(' ')[0], str(pred)[:120], str(got)[:120])
        info = {}
        if msg is not None: info.update(judge=msg, xlim=xlim, view=[lo, hi])
        if cm is not None: info['model'] = cm
        raised = msg is not None and msg.startswith('raised')
        out.append(Result(c, judge_ok=msg is None, corr_ok=(cm is None and not raised), sig=repr(sorted(c.items(), key=lambda kv: kv[0])), nontrivial=bool(nt), info=info))
    return out

def _check_panel(L, df, col, thresh, fs, lo, hi, side, cen, interp):
    """parameter panel: marker line with the per-cycle values, dashed threshold line"""
    if len(L) < 2: return 'parameter panel has %d lines' % len(L)
    vals, thr = L[0], L[1]
    if not (len(thr['y']) == 2 and abs(thr['y'][0] - thresh) < 1e-12 and abs(thr['y'][1] - thresh) < 1e-12): return 'threshold line is not at %r' % thresh
    last = df['sample_last_' + side].values; nxt = df['sample_next_' + side].values; ctr = df['sample_' + cen].values; v = df[col].values
    pts = [(int(round(x * fs)), y) for x, y in zip(vals['x'], vals['y'])]
    for (s, y), x in zip(pts, vals['x']):
        if abs(x - s / fs) > TOL: return 'panel point at x=%r is not a sample time' % x
    if interp:
        lookup = {int(c_): float(val) for c_, val in zip(ctr, v)}
        for s, y in pts:
            if s not in lookup or not ((y != y and lookup[s] != lookup[s]) or abs(y - lookup[s]) < 1e-12): return 'panel point (%d, %r) is not (cycle centre, %s value) of a cycle' % (s, y, col)
        for a, b, c_ in zip(last, nxt, ctr):
            if lo < a and b < hi and int(c_) not in [s for s, _ in pts]: return 'cycle %d..%d lies strictly inside the view but its %s value is not shown' % (a, b, col)
    else:
        want = set()
        for a, b, val in zip(last, nxt, v): want.add((int(a), float(val))); want.add((int(b), float(val)))
        for s, y in pts:
            if not any(s == a and ((y != y and val != val) or abs(y - val) < 1e-12) for a, val in want): return 'panel step point (%d, %r) is not (side extremum, %s value) of a cycle' % (s, y, col)
        for a, b in zip(last, nxt):
            if lo < a and b < hi and (int(a) not in [s for s, _ in pts] or int(b) not in [s for s, _ in pts]): return 'cycle %d..%d lies strictly inside the view but is not shown' % (a, b)
    return None
