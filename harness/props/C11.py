"""C11 - 2-D group analysis equals per-signal analysis, in order, for every completion order."""
import sys, time, warnings
import numpy as np
from core import Result
import proto, gen, implutil

THEOREMS = ['C11_positional', 'C11_length', 'C11_schedule_independent', 'C11_imap_ordered', 'C11_unordered_counterexample', 'C11_routing', 'C11_group_routing']
RULE = ("2-D arrays with pairwise different rows (2..6 rows) x shared option set / None / per-row option lists (centre, burst method, thresholds, return_samples inside "
        "the dicts) x n_jobs in {1, 2, 3, rows+2, -1} x progress in {None, 'tqdm'} x return_samples, with worker completion orders perturbed by injected per-row delays "
        "(a picklable wrapper bound to bycycle.group.features.compute_features in the harness process before the pool forks; nothing in /repo changes); "
        "through compute_features_2d(axis=0) and BycycleGroup.fit; judge: the table at position i equals compute_features(row i, options of row i) "
        "(DataFrame.equals), models[i] mirrors df_features[i] and sigs[i]; distinct = distinct configurations; non-trivial = >= 2 rows and delays that invert the completion order")
ASSUMPTIONS = ["multiprocessing.Pool.imap returns results in submission order for every completion order (Python stdlib contract, E6)",
               "real process interleavings cannot be exhibited by the theorem; they are exercised by injected delays"]
BATCH = 8

def regen_slots():
    import slots
    return slots.regenerate()

class DelayedCF:
    """compute_features with a per-signal sleep keyed on the first sample (picklable; inherited by forked workers)"""
    def __init__(self, orig, delays):
        self.orig = orig; self.delays = delays
    def __call__(self, sig, *a, **k):
        d = self.delays.get(float(np.asarray(sig).ravel()[0]), 0.0)
        if d:
            time.sleep(d)
        return self.orig(sig, *a, **k)

TH_OBJ = {'amp_fraction_threshold': .2, 'amp_consistency_threshold': .4, 'period_consistency_threshold': .45, 'monotonicity_threshold': .7, 'min_n_cycles': 2}      # (tutorial-like settings of a group object)
OPTS = [
    {'threshold_kwargs': {}},
    {'center_extrema': 'trough', 'threshold_kwargs': {'min_n_cycles': 2}},
    {'burst_method': 'amp', 'threshold_kwargs': {'burst_fraction_threshold': 0.8}},
    {'threshold_kwargs': {'monotonicity_threshold': 0.3, 'amp_consistency_threshold': 0.2}},
    {'center_extrema': 'trough', 'burst_method': 'amp', 'burst_kwargs': {'amp_threshes': (0.5, 1.5)}, 'threshold_kwargs': {}},
    {'find_extrema_kwargs': {'filter_kwargs': {'n_cycles': 4}, 'boundary': 10}, 'threshold_kwargs': {}},
    {'threshold_kwargs': {}, 'return_samples': False},
    {'find_extrema_kwargs': {'filter_kwargs': {'n_seconds': 0.3}}, 'threshold_kwargs': {}},       # two option sets that differ only in the
    {'find_extrema_kwargs': {'filter_kwargs': {'n_seconds': 0.6}}, 'threshold_kwargs': {}},       # filter length given in seconds
]

def _rows(seed, n):
    rng = np.random.default_rng(seed)
    base = gen.make_signal(rng, family='bursty', fs=250, f0=10, n=500)
    out = []
    for i in range(n):
        s = gen.make_signal(np.random.default_rng([seed, i]), family=['bursty', 'sum', 'asym', 'noise'][i % 4], fs=250, f0=10, n=500)['sig']
        s = s.copy(); s[0] = 1000.0 + i          # distinct key for the delay plan (first sample is never an extremum of interest)
        out.append(s)
    if seed % 7 == 3 and n >= 3:                 # the SAME recording at two positions (with per-row options the two analyses still differ)
        out[n - 1] = out[0].copy()
    return np.array(out), 250, (7.0, 13.0)

def corpus(ctx):
    return [dict(seed=1, n=3, kw='list', oids=[0, 1, 2], n_jobs=2, progress=None, rs=True, delay='reverse', via='func'),
            dict(seed=5, n=3, kw='shared_nested', oids=[], n_jobs=1, progress=None, rs=True, delay='none', via='func'),
            # directed: rows whose option sets differ only in the filter length in seconds, handled by ONE worker; references from pristine processes
            dict(seed=8, n=3, kw='list', oids=[7, 8, 7], n_jobs=1, progress=None, rs=True, delay='none', via='func'),
            dict(seed=12, n=4, kw='list', oids=[8, 7, 0, 5], n_jobs=1, progress=None, rs=True, delay='none', via='func'),
            dict(seed=14, n=2, kw='list', oids=[7, 8], n_jobs=2, progress=None, rs=True, delay='reverse', via='object'),
            # directed: many more rows than workers (chunked dispatch), identical rows with different per-row options, and a progress bar that
            # is really drawn (a stand-in tqdm module is installed for the call when the real one is absent)
            dict(seed=16, n=9, kw='list', oids=[0, 1, 2, 3, 4, 5, 6, 0, 1], n_jobs=1, progress=None, rs=True, delay='none', via='func'),
            dict(seed=18, n=17, kw='dict', oids=[1], n_jobs=2, progress=None, rs=True, delay='reverse', via='object'),
            dict(seed=10, n=4, kw='list', oids=[3, 0, 1, 5], n_jobs=1, progress=None, rs=True, delay='none', via='func'),      # (seed % 7 == 3: rows 0 and 3 identical)
            dict(seed=20, n=4, kw='list', oids=[0, 1, 3, 2], n_jobs=3, progress='tqdm', rs=True, delay='reverse', via='func', stub_tqdm=True),
            dict(seed=22, n=3, kw='dict', oids=[2], n_jobs=2, progress='tqdm', rs=True, delay='random', via='func', stub_tqdm=True)]

def generate(ctx):
    rng = ctx.rng
    cases = []
    for i in range(ctx.scale(36, 300)):
        n = int(rng.integers(2, 7)) if rng.random() < 0.9 else int(rng.choice([8, 9, 16, 17]))      # (a tenth with many more rows than workers)
        kwk = str(rng.choice(['none', 'dict', 'list', 'list', 'shared_nested']))
        oids = [int(x) for x in rng.integers(0, len(OPTS), size=n)] if kwk == 'list' else ([int(rng.integers(0, len(OPTS)))] if kwk == 'dict' else [])
        cases.append(dict(seed=int(rng.integers(1 << 30)), n=n, kw=kwk, oids=oids, n_jobs=int(rng.choice([1, 2, 3, n + 2, -1])),
                          progress=(None if rng.random() < 0.7 else 'tqdm'), rs=bool(rng.random() < 0.7),
                          delay=str(rng.choice(['reverse', 'random', 'none'])), via=str(rng.choice(['func', 'func', 'object']))))
        if cases[-1]['progress'] == 'tqdm' and rng.random() < 0.5: cases[-1]['stub_tqdm'] = True
        if kwk == 'shared_nested':
            cases[-1]['via'] = 'func'; cases[-1]['n_jobs'] = int(rng.choice([1, 1, 2]))
    return cases

def _expect(sigs, fs, fr, i, opts, rs, fresh=False):
    from bycycle.features import compute_features
    o = dict(opts); o.pop('return_samples', None)
    if fresh:       # the analysis of row i ALONE in a pristine process: nothing an earlier row left behind in module state can agree with it by accident
        st, r = implutil.pristine('bycycle.features', 'compute_features', np.array(sigs[i]), fs, fr, return_samples=rs, **o)
        if st != 'ok': raise RuntimeError(r)
        return r
    return implutil.quiet(compute_features, sigs[i], fs, fr, return_samples=rs, **o)

def evaluate(ctx, cases):
    import bycycle.group.features as gf
    from bycycle.group import compute_features_2d
    from bycycle import BycycleGroup
    reqs = []
    for c in cases:
        kw = 'None' if c['kw'] == 'none' else ('[one,%d]' % (c['oids'][0] + 1) if c['kw'] == 'dict' else '[many,%s]' % proto.enc_ints([o + 1 for o in c['oids']] if c['kw'] != 'shared_nested' else list(range(1, c['n'] + 1))))
        sg = list(range(c['n']))[::-1] if c['delay'] == 'reverse' else list(np.random.default_rng(c['seed']).permutation(c['n']))
        reqs += ['group2d.model %d %s %s' % (c['n'], kw, proto.enc_ints(sg)), 'group2d.spec %d %s' % (c['n'], kw)]
    ans = proto.run_driver(reqs)
    out = []
    for k, c in enumerate(cases):
        model, spec = ans[2 * k], ans[2 * k + 1]
        sigs, fs, fr = _rows(c['seed'], c['n'])
        if c['seed'] % 4 == 2: fs = fs + 0.5          # a NON-INTEGER sampling rate (a decimated recording): the group hands it on as it is
        sigs = implutil.layout_nd(sigs, c['seed'])          # C / Fortran / read-only / strided memory layout
        if c['seed'] % 5 == 1: sigs = sigs.astype(np.float32)      # single-precision recordings: every row is analysed in ITS OWN precision
        delays = {}
        if c['delay'] == 'reverse':
            delays = {float(sigs[i][0]): 0.02 * (c['n'] - i) for i in range(c['n'])}
        elif c['delay'] == 'random':
            r = np.random.default_rng(c['seed'])
            delays = {float(sigs[i][0]): float(r.choice([0.0, 0.03, 0.06])) for i in range(c['n'])}
        if c['kw'] == 'none': kwv = None
        elif c['kw'] == 'dict': kwv = dict(OPTS[c['oids'][0]])
        elif c['kw'] == 'shared_nested':
            shared_bk = {'amp_threshes': (0.5, 1.5)}            # ONE object referenced by every row's option set
            kwv = [{'burst_method': 'amp', 'burst_kwargs': shared_bk, 'threshold_kwargs': {'burst_fraction_threshold': 0.8, 'min_n_cycles': 1 + 2 * i}} for i in range(c['n'])]
        else: kwv = [dict(OPTS[o]) for o in c['oids']]
        orig = gf.compute_features
        gf.compute_features = DelayedCF(orig, delays)
        info = {}
        stub = None
        if c.get('stub_tqdm') and 'tqdm' not in sys.modules:
            # the optional dependency is PRESENT for this call: a stand-in module whose tqdm(iterable, ...) just iterates (forked workers inherit it)
            import types
            stub = types.ModuleType('tqdm'); stub.tqdm = lambda it=None, *a, **k: it
            nb = types.ModuleType('tqdm.notebook'); nb.tqdm = stub.tqdm; stub.notebook = nb
            sys.modules['tqdm'] = stub; sys.modules['tqdm.notebook'] = nb
        try:
            if c['via'] == 'func':
                if isinstance(kwv, list) and c['seed'] % 3 == 0:
                    # a call history on the caller's OWN option list: the same list object went through the flattened-epoch route (and a per-row route with the
                    # other sample switch) before; "the options given for row i" are the ones the caller wrote, whatever earlier calls did with their copies
                    for ax, rs_ in ((None, True), (0, not c['rs'])):
                        try: implutil.quiet(compute_features_2d, sigs, fs, fr, compute_features_kwargs=kwv, axis=ax, return_samples=rs_, n_jobs=1)
                        except Exception: pass
                    info['history'] = 'option list reused'
                res = implutil.quiet(compute_features_2d, sigs, fs, fr, compute_features_kwargs=kwv, axis=0, return_samples=c['rs'],
                                     n_jobs=c['n_jobs'], progress=c['progress'])
                models = None
            else:
                o = dict(OPTS[c['oids'][0]]) if c['kw'] == 'dict' else {'threshold_kwargs': (dict(TH_OBJ) if c['seed'] % 5 < 3 else {})}
                if c['seed'] % 2 == 0:
                    bg = BycycleGroup(center_extrema=o.get('center_extrema', 'peak'), burst_method=o.get('burst_method', 'cycles'),
                                      burst_kwargs=o.get('burst_kwargs'), thresholds=o.get('threshold_kwargs'),
                                      find_extrema_kwargs=o.get('find_extrema_kwargs'), return_samples=c['rs'])
                else:       # settings rebound after construction (and after a first fit with other settings) must be the ones used
                    bg = BycycleGroup(thresholds={'monotonicity_threshold': 0.9}, center_extrema='trough' if o.get('center_extrema', 'peak') == 'peak' else 'peak')
                    if c['seed'] % 4 == 1:
                        implutil.quiet(bg.fit, sigs[:2], fs, fr, axis=0, n_jobs=1)
                    bg.center_extrema = o.get('center_extrema', 'peak'); bg.burst_method = o.get('burst_method', 'cycles')
                    bg.burst_kwargs = {} if o.get('burst_kwargs') is None else o.get('burst_kwargs'); bg.thresholds = o.get('threshold_kwargs')
                    bg.find_extrema_kwargs = o.get('find_extrema_kwargs') or {'filter_kwargs': {'n_cycles': 3}}; bg.return_samples = c['rs']
                target = sigs
                if c['seed'] % 3 == 0:      # a buffer history: fitted on a buffer holding the rows in reverse order, the buffer is refilled IN PLACE, fitted again (same settings)
                    target = np.array(sigs[::-1])
                    implutil.quiet(bg.fit, target, fs, fr, axis=0, n_jobs=1)
                    try:
                        implutil.quiet(bg.recompute_edges, 0.0625)          # (a reduction is for that call only: the fit that follows uses the group's own thresholds)
                    except Exception:
                        pass
                    target[:] = sigs
                elif c['seed'] % 3 == 1:    # a session history: fitted, edges recomputed with a reduction (for that call only), fitted again - the second fit
                    try:                    # runs with the thresholds the user stored
                        implutil.quiet(bg.fit, sigs, fs, fr, axis=0, n_jobs=1)
                        implutil.quiet(bg.recompute_edges, 0.0625)
                    except Exception:
                        pass
                implutil.quiet(bg.fit, target, fs, fr, axis=0, n_jobs=c['n_jobs'], progress=c['progress'])
                res, models = bg.df_features, bg.models
            err = None
        except Exception as e:
            res, models, err = None, None, type(e).__name__ + ': ' + str(e)[:120]
        finally:
            gf.compute_features = orig
            if stub is not None:
                sys.modules.pop('tqdm', None); sys.modules.pop('tqdm.notebook', None)
        def check(pred):
            """pred: list of tags [[sid], oid, 0]; returns first disagreement or None"""
            if err: return 'raised ' + err
            if len(res) != len(pred): return 'length %d vs %d' % (len(res), len(pred))
            for i, tag in enumerate(pred):
                sid, oid = int(tag[0][0]), int(tag[1])
                if c['via'] == 'object':
                    opts = dict(OPTS[c['oids'][0]]) if c['kw'] == 'dict' else {'threshold_kwargs': (dict(TH_OBJ) if c['seed'] % 5 < 3 else {})}
                    if opts.get('find_extrema_kwargs') is None: opts.pop('find_extrema_kwargs', None)
                elif c['kw'] == 'shared_nested':
                    opts = {'burst_method': 'amp', 'burst_kwargs': {'amp_threshes': (0.5, 1.5)}, 'threshold_kwargs': {'burst_fraction_threshold': 0.8, 'min_n_cycles': 1 + 2 * sid}}
                else:
                    opts = {} if oid == 0 else OPTS[oid - 1]
                exp = _expect(sigs, fs, fr, sid, opts, c['rs'], fresh=(c['seed'] % 2 == 0))
                if not res[i].equals(exp):
                    return 'position %d is not the analysis of row %d with option set %d' % (i, sid, oid)
            if models is not None:
                for i in range(len(res)):
                    if not (models[i].df_features is res[i] or models[i].df_features.equals(res[i])) or not np.array_equal(models[i].sig, sigs[i]):
                        return 'models[%d] does not mirror df_features[%d] / sigs[%d]' % (i, i, i)
            return None
        if c['via'] == 'object' and c['kw'] != 'dict':
            # the object always passes one dict built from its own settings
            spec_pred = [[[str(i)], '0', '0'] for i in range(c['n'])]; model_pred = spec_pred
        elif c['via'] == 'object':
            spec_pred = [[[str(i)], str(c['oids'][0] + 1), '0'] for i in range(c['n'])]; model_pred = spec_pred
        else:
            spec_pred, model_pred = spec, model
        dj = check(spec_pred)
        dm = dj if model_pred == spec_pred else check(model_pred)
        if dj: info['judge'] = dj
        if dm: info['model'] = dm
        ctx.hist('n_jobs', c['n_jobs']); ctx.hist('delay', c['delay']); ctx.hist('kw', c['kw']); ctx.hist('via', c['via'])
        out.append(Result(c, judge_ok=dj is None, corr_ok=dm is None, sig=repr(sorted(c.items())), nontrivial=(c['n'] >= 2 and c['delay'] != 'none'), info=info))
    return out
