"""C07 - amplitude burst labels: burst_fraction over [last, next] inclusive, >= rule, one min_n_cycles."""
import warnings
import numpy as np, pandas as pd
from fractions import Fraction
from core import Result
import proto, gen, implutil

THEOREMS = ['C07_detector_args', 'C07_fraction', 'C07_fraction_inside', 'C07_fraction_range', 'C07_rule', 'C07_pointwise', 'C07_one_minN',
            'C07_antitone', 'C07_rejects_threshold', 'C07_rejects_amp_threshes', 'C07_pipeline', 'C07_filter_fixed_point']
RULE = ("(a) synthetic burst_fraction columns (values k/n, NaN, on/next to the threshold) x thresholds (grid, observed values, out of range) x min_n_cycles; "
        "(b) compute_features(burst_method='amp') on generated partially bursting signals, both centrings, amp_threshes grid (incl. reversed), "
        "min_n_cycles supplied via thresholds / burst options / both / neither: the harness recomputes the dual-threshold mask with neurodsp for the "
        "min_n_cycles the SPEC says must reach the detector and compares burst_fraction (exact k/n within 1e-12) and is_burst; the whole table is also handed to the composed Lean model pipelineAmp (C07_pipeline); "
        "distinct = distinct inputs; non-trivial = labels contain both values or fractions strictly between 0 and 1 or the call must raise")
ASSUMPTIONS = ["neurodsp.burst.detect_bursts_dual_threshold is a parameter (mask recorded by the harness for the arguments the Lean spec prescribes)"]
BATCH = 300
TOL = Fraction(1, 10**12)

def regen_slots():
    import slots
    return slots.regenerate()

def _impl_table(fracs, th):
    from bycycle.burst import detect_bursts_amp
    df = pd.DataFrame({'burst_fraction': np.array(fracs, dtype=float)})
    if len(fracs) % 3 == 1:       # row labels that are not positions (a window of a larger table, filtered rows)
        df.index = np.arange(len(fracs))[::-1] * 2 + 5
    try:
        with warnings.catch_warnings():
            warnings.simplefilter('ignore')
            if len(fracs) % 4 == 2:       # option values as numpy scalars
                th = implutil.np_scalars(th)
            out = detect_bursts_amp(df, **th)
        return ['ok', proto.enc_bits(list(np.asarray(out['is_burst'].values).astype(bool)))]
    except Exception as e:
        return ['err', type(e).__name__]

def _opt(d, k):
    return proto.enc_rat(d[k]) if k in d else 'None'

def _signal_case(c):
    """run the implementation end to end; returns dict with fractions, labels, sides or error"""
    from bycycle.features import compute_features
    sig = proto.hex2arr(c['sig'])
    bk = {k: (tuple(v) if k == 'amp_threshes' else v) for k, v in c['bk'].items()} if c['bk'] is not None else None
    th = dict(c['th']) if c['th'] is not None else None
    try:
        with warnings.catch_warnings():
            warnings.simplefilter('ignore')
            df = implutil.twice(lambda: compute_features(sig, c['fs'], implutil.frange(c), center_extrema=c['center'], burst_method='amp',
                                                         burst_kwargs=bk, threshold_kwargs=th), [sig, bk, th], 'compute_features')
            if th is not None and c.get('route') in (0, 1):
                # the same settings through a Bycycle object with a history: a first fit with a LARGER min_n_cycles in the thresholds, then the
                # requested value is written into the stored dictionary and the object is fitted again on the same array
                # (route 1: only the VALUES inside the stored thresholds differ between the two fits, nothing is rebound and the array is the same object)
                dfo = implutil.object_route(sig, c['fs'], implutil.frange(c), c['center'], 'amp', bk, th, None, True,
                                            **(dict(variant=2, which=0) if c.get('route') == 1 and 'min_n_cycles' in th else {}))
                if not (dfo['is_burst'].equals(df['is_burst']) and dfo['burst_fraction'].equals(df['burst_fraction'])):
                    return dict(err='ObjectRouteDiffers', msg='Bycycle object with a history gives other burst fractions / labels than compute_features')
    except Exception as e:
        return dict(err=type(e).__name__, msg=str(e)[:200])
    side = 'trough' if c['center'] == 'peak' else 'peak'
    sides = [[int(a), int(b)] for a, b in zip(df['sample_last_' + side].values, df['sample_next_' + side].values)]
    return dict(fracs=[float(x) for x in df['burst_fraction'].values], labels=proto.enc_bits(list(df['is_burst'].values.astype(bool))),
                sides=sides, n=len(sig))

def _num(a):
    """decode an Option Rat atom into None / int / float"""
    if a == 'None':
        return None
    f = Fraction(a)
    return int(f) if f.denominator == 1 else float(f)

def _dual(c, args):
    """args = [min_n_cycles atom, min_burst_duration atom] as answered by the driver"""
    from neurodsp.burst import detect_bursts_dual_threshold
    sig = proto.hex2arr(c['sig'])
    bk = c['bk'] or {}
    at = tuple(bk.get('amp_threshes', (1, 2)))
    with warnings.catch_warnings():
        warnings.simplefilter('ignore')
        m = detect_bursts_dual_threshold(sig, c['fs'], at, implutil.frange(c), min_n_cycles=_num(args[0]),
                                         min_burst_duration=_num(args[1]))
    return list(np.asarray(m).astype(bool))

def corpus(ctx):
    return [dict(kind='table', fracs=[1.0, 1.0, 0.5, 1.0, 1.0, 1.0], th={'burst_fraction_threshold': 1, 'min_n_cycles': 3}),
            dict(kind='table', fracs=[0.8, 0.8, 0.8, 0.79], th={'burst_fraction_threshold': 0.8, 'min_n_cycles': 3}),
            dict(kind='table', fracs=[1.0, float('nan'), 1.0], th={'burst_fraction_threshold': 0.5, 'min_n_cycles': 1}),
            dict(kind='table', fracs=[1.0] * 4, th={'burst_fraction_threshold': 1.1}),
            dict(kind='table', fracs=[1.0] * 4, th={}),
            dict(kind='table', fracs=[], th={'min_n_cycles': -2})]

def generate(ctx):
    rng = ctx.rng
    cases = []
    for i in range(ctx.scale(1200, 12000)):
        n = int(rng.integers(0, 40))
        den = int(rng.integers(2, 60))
        thr = float(rng.choice([0, 0.25, 0.5, 0.8, 1.0, 1.0, rng.random()])) if rng.random() < 0.93 else float(rng.choice([-0.01, 1.01, 2]))
        fr = []
        for j in range(n):
            u = rng.random()
            if u < 0.45: v = 1.0
            elif u < 0.6: v = thr if 0 <= thr <= 1 else 0.5
            elif u < 0.7: v = float(np.nextafter(thr, -1)) if 0 < thr <= 1 else 0.0
            elif u < 0.75: v = float('nan')
            else: v = int(rng.integers(0, den + 1)) / den
            fr.append(v)
        th = {'burst_fraction_threshold': thr}
        if rng.random() < 0.8:
            th['min_n_cycles'] = int(rng.choice([0, 1, 2, 3, 4, 6])) if rng.random() < 0.95 else -1
        if rng.random() < 0.1:
            del th['burst_fraction_threshold']
        cases.append(dict(kind='table', fracs=fr, th=th))
    fams = ['bursty', 'bursty', 'sum', 'noise', 'zeroed', 'asym', 'quantised', 'scaled', 'dc', 'clipped']
    for i in range(ctx.scale(250, 2500)):
        r = ctx.sub_rng(i)
        s = gen.make_signal(r, family=fams[i % len(fams)])
        bk = {}
        u = rng.random()
        if u < 0.7:
            bk['amp_threshes'] = [float(x) for x in rng.choice([[1, 2], [0.5, 1.5], [1, 1], [0.8, 1.2], [0, 1], [0.25, 3]])]
        elif u < 0.76:
            bk['amp_threshes'] = [2.0, 1.0]      # reversed -> ValueError
        elif u < 0.8:
            bk['amp_threshes'] = [-1.0, 1.0]
        th = {'burst_fraction_threshold': float(rng.choice([0, 0.25, 0.5, 0.8, 1.0, 1.0]))}
        route = int(rng.integers(4))
        if route == 3:      # both given, far apart so that the choice is visible in the labels
            lo_, hi_ = int(rng.choice([0, 1, 2])), int(rng.choice([5, 7, 10]))      # (0 is a valid count: it must not be mistaken for 'not given')
            th['min_n_cycles'], bk['min_n_cycles'] = (lo_, hi_) if rng.random() < 0.5 else (hi_, lo_)
        elif route == 1: th['min_n_cycles'] = int(rng.choice([0, 1, 2, 5, 8]))
        elif route == 2: bk['min_n_cycles'] = int(rng.choice([0, 1, 2, 5, 8]))
        if rng.random() < 0.3:
            bk['min_burst_duration'] = float(rng.choice([0.0, 0.0, 0.05, 0.2, 0.5]))
        if len(cases) % 6 == 2:      # burst options written for compute_burst_features carry their own fs / f_range: the CALL's rate and band are the ones used
            bk.update([('fs', 123.0), ('f_range', (3.0, 9.0))][:1 + len(cases) % 2] if len(cases) % 4 else [('f_range', (15.0, 25.0))])
        bkv = bk if (bk or rng.random() < 0.7) else None
        thv = th if rng.random() < 0.95 else None
        cases.append(dict(kind='signal', sig=proto.arr2hex(s['sig']), fs=s['fs'], f_range=list(s['f_range']),
                          center=str(rng.choice(['peak', 'trough'])), bk=bkv, th=thv, family=s['family'], route=route))
    return cases

def evaluate(ctx, cases):
    out = []
    # pass 1: implementation + first driver round (min_n reconciliation, table cases)
    reqs, meta = [], []
    for c in cases:
        if c['kind'] == 'table':
            th = c['th']
            thr = th.get('burst_fraction_threshold', 1); k = th.get('min_n_cycles', 3)
            f = proto.enc_list(c['fracs'])
            # model defaults come from the slots (via amp.model taking explicit values): use slot defaults through minn? detect_bursts_amp's own defaults
            reqs.append('amp.model %s %s %s' % (f, proto.enc_rat(thr), proto.enc_rat(k)))
            reqs.append('amp.spec %s %s %s' % (f, proto.enc_rat(thr), proto.enc_rat(k)))
            meta.append(None)
        else:
            bk = c['bk'] or {}; th = c['th'] or {}
            reqs.append('minn.model %s %s' % (_opt(bk, 'min_n_cycles'), _opt(th, 'min_n_cycles')))
            reqs.append('minn.spec %s %s' % (_opt(bk, 'min_n_cycles'), _opt(th, 'min_n_cycles')))
            meta.append(_signal_case(c))
    ans = proto.run_driver(reqs)
    # round 1b: which (min_n_cycles, min_burst_duration) reach the detector
    reqs1b = []
    for i, c in enumerate(cases):
        if c['kind'] != 'table':
            bk = c['bk'] or {}
            reqs1b.append('detargs.model %s %s' % (ans[2 * i][0], _opt(bk, 'min_burst_duration')))
            reqs1b.append('detargs.spec %s %s' % (ans[2 * i + 1][0], _opt(bk, 'min_burst_duration')))
    ans1b = iter(proto.run_driver(reqs1b))
    # pass 2: for signal cases compute masks and ask fraction / label questions
    reqs2, plan, e2e = [], [], []
    for i, c in enumerate(cases):
        a, b = ans[2 * i], ans[2 * i + 1]
        if c['kind'] == 'table':
            plan.append(('table', a, b)); continue
        im = meta[i]
        bk = c['bk'] or {}; th = c['th'] or {}
        at = bk.get('amp_threshes', [1, 2])
        expect_err = at[0] < 0 or at[1] < at[0] or at[0] > at[1]
        det_m, run_m = Fraction(a[0]), Fraction(a[1]); det_s, run_s = Fraction(b[0]), Fraction(b[1])
        args_m, args_s = next(ans1b), next(ans1b)
        kernel_err = None
        if not expect_err:
            try:
                mask_s = _dual(c, args_s)
            except Exception as e:      # the neurodsp kernel itself fails on this input (not bycycle code)
                kernel_err = type(e).__name__
        if 'err' in im or expect_err or kernel_err:
            plan.append(('sigerr', im, expect_err, kernel_err)); continue
        try:
            mask_m = mask_s if args_m == args_s else _dual(c, args_m)
        except Exception:
            mask_m = []
        sides = '[' + ','.join('[%d,%d]' % (x, y) for x, y in im['sides']) + ']'
        thr = th.get('burst_fraction_threshold', 1)
        fr = proto.enc_list(im['fracs'])
        reqs2 += ['bfrac.model %s %s' % (proto.enc_bits(mask_m), sides), 'bfrac.spec %s %s' % (proto.enc_bits(mask_s), sides),
                  'amp.model %s %s %s' % (fr, proto.enc_rat(thr), proto.enc_rat(run_m)),
                  'amp.spec %s %s %s' % (fr, proto.enc_rat(thr), proto.enc_rat(run_s))]
        plan.append(('sig', im, len(reqs2) - 4, (det_m, run_m, det_s, run_s, args_m, args_s)))
        # END TO END: the composed Lean model pipelineAmp (PipelineAmp.lean, C07_pipeline) on the original samples and the kernels' answers (filter sign pattern, band
        # amplitude, the detector's mask for the arguments the MODEL hands it): burst fractions and labels of the whole table
        try:
            import kernels
            x = proto.hex2arr(c['sig']); s2 = x if c['center'] == 'peak' else -x
            padn, bsign = kernels.filt_sign(s2, c['fs'], tuple(c['f_range']), None, True)
            ampk = kernels.band_amp(s2, c['fs'], tuple(c['f_range']), n_cycles=3)
            e2e.append((len(plan) - 1, 'pipelineamp.model %s %s %d %s %s 0 %s %s %s %s %s' % (
                c['center'], proto.enc_list(x), padn, proto.enc_bits(bsign), proto.enc_list(ampk), _opt(bk, 'min_n_cycles'), _opt(th, 'min_n_cycles'),
                _opt(bk, 'min_burst_duration'), proto.enc_bits(mask_m), proto.enc_rat(thr))))
        except Exception:
            pass
    ans2 = proto.run_driver(reqs2)
    e2e_ans = dict(zip([k for k, _ in e2e], proto.run_driver([r for _, r in e2e])))
    for pi, (c, p) in enumerate(zip(cases, plan)):
        info = {}
        if p[0] == 'table':
            impl = _impl_table(c['fracs'], dict(c['th']))
            model, spec = p[1], p[2]
            judge_ok, corr_ok = impl == spec, impl == model
            info = dict(impl=impl, model=model, spec=spec)
            nt = impl[0] == 'err' or ('1' in impl[1] and '0' in impl[1])
        elif p[0] == 'sigerr':
            im, expect_err, kernel_err = p[1], p[2], p[3]
            if expect_err:
                judge_ok = 'err' in im and im['err'] == 'ValueError'
            elif kernel_err:
                judge_ok = im.get('err') == kernel_err     # the kernel's own exception propagates; nothing to judge
                ctx.hist('kernel_error', kernel_err)
            else:
                judge_ok = False
            corr_ok = judge_ok
            info = dict(impl=im, expect_error=expect_err, kernel_error=kernel_err)
            nt = True
        else:
            im, j, mn = p[1], p[2], p[3]
            fm, fs_, lm, ls = ans2[j], ans2[j + 1], ans2[j + 2], ans2[j + 3]
            def close(fl, v):
                if v == 'nan': return fl != fl
                return fl == fl and abs(Fraction(fl) - Fraction(v)) <= TOL
            frac_j = all(close(x, v) for x, v in zip(im['fracs'], fs_)) and len(fs_) == len(im['fracs'])
            frac_c = all(close(x, v) for x, v in zip(im['fracs'], fm)) and len(fm) == len(im['fracs'])
            judge_ok = frac_j and ['ok', im['labels']] == ls
            corr_ok = frac_c and ['ok', im['labels']] == lm
            info = dict(impl_fracs=im['fracs'][:50], spec_fracs=fs_[:50], impl_labels=im['labels'], spec_labels=ls, model_labels=lm,
                        min_n=[str(x) for x in mn], frac_ok=frac_j)
            nt = ('1' in im['labels'] and '0' in im['labels']) or any(0 < x < 1 for x in im['fracs'])
            ctx.hist('route', c.get('route'))
            if pi in e2e_ans and corr_ok:
                ea = e2e_ans[pi]
                if not (isinstance(ea, list) and ea and ea[0] == 'ok'):
                    d = 'the composed model answers %r although the implementation returned a table' % (ea,)
                elif len(ea[3]) != len(im['fracs']) or not all(close(x, v) for x, v in zip(im['fracs'], ea[3])):
                    d = 'burst fractions differ from the composed model'
                elif ea[4] != im['labels']:
                    thr_ = float((c['th'] or {}).get('burst_fraction_threshold', 1))
                    d = ('tie: a burst fraction within 1e-9 of the threshold' if any(x == x and abs(x - thr_) <= 1e-9 for x in im['fracs']) else
                         'labels: implementation %s, composed model %s' % (im['labels'], ea[4]))
                else: d = None
                if d is not None and not d.startswith('tie:'):
                    corr_ok = False; info['pipeline'] = d
                ctx.hist('pipeline (amp) fractions + labels', 'agrees' if d is None else ('float tie' if d.startswith('tie:') else 'differs'))
        ctx.hist('kind', p[0])
        key = repr({k: v for k, v in c.items() if k != 'family'})
        out.append(Result(c, judge_ok=judge_ok, corr_ok=corr_ok, sig=hash(key), nontrivial=nt, info=info))
    return out
