"""C04 - shape features equal their documented definitions (both centrings)."""
import warnings
from fractions import Fraction
import numpy as np
from core import Result
import proto, gen, kernels, implutil

THEOREMS = ['C04_equals_spec_peak', 'C04_equals_spec_trough', 'C04_identities_peak', 'C04_identities_trough', 'C04_band_amp_window', 'C04_generated', 'C04_generated_row', 'C04_routing']
RULE = ("generated signals of all families x option sets of C01 (plus compute_shape_features' own n_cycles) x both centre extrema x with/without sample columns x signal dtype (float64; 15% int16 / int32 / int64 / uint16 / uint8 spanning most of the type's range); every shape column of the implementation's table is "
        "compared with the Lean specification (documented definition read against the ORIGINAL signal with the centring's own column names): integer columns exactly, "
        "real columns within 1e-9 relative; band_amp once with the real amp_by_time and once with an integer-valued amplitude stub (harness process only) so that the "
        "half-open window [last side, next side) is observable exactly; distinct = distinct (signal, options); non-trivial = a table with >= 2 rows whose cycles differ")
ASSUMPTIONS = ["amp_by_time is a parameter; amp(-x) = amp(x) (E5) is used for the trough-centred band_amp clause and validated here against neurodsp",
               "real-valued columns are compared within 1e-9 relative (float64 rounding is outside the theorems)"]
BATCH = 40
COLS = ['period', 'time_peak', 'time_trough', 'volt_peak', 'volt_trough', 'time_decay', 'time_rise', 'volt_decay', 'volt_rise', 'volt_amp',
        'time_rdsym', 'time_ptsym', 'band_amp']
INT_COLS = {0, 1, 2, 5, 6}

def regen_slots():
    import slots
    return slots.regenerate()

def _stub_amp(n):
    i = np.arange(n)
    return ((i * 7 + 3) % 11).astype(float)

INT_RANGE = {'int16': (0, 30000), 'int32': (0, 2000000000), 'int64': (0, 1000), 'uint16': (32768, 30000), 'uint8': (128, 120),
             '>i2': (0, 30000), '>u2': (32768, 30000), '>i4': (0, 2000000000)}       # byte-swapped recordings (np.fromfile(dtype='>i2'))

def _signal(c):
    """(array handed to the implementation, its exact values as float64): integer-typed recordings use most of their type's range."""
    x = proto.hex2arr(c['sig'])
    if not c.get('dtype'):
        return implutil.present(x, c.get('pres')), x
    off, amp = INT_RANGE[c['dtype']]
    m = float(np.max(np.abs(x))) or 1.0
    xi = (np.round(x * (amp / m)) + off).astype(c['dtype'])
    return xi, xi.astype(float)

def _impl(c):
    import bycycle.features.shape as sh
    from bycycle.features import compute_shape_features, compute_features
    sig = _signal(c)[0]
    fek = implutil.fe_kwargs(c['fk'], c['boundary'], None)
    orig = sh.amp_by_time
    if c['stub']:
        sh.amp_by_time = lambda s, *a, **k: _stub_amp(len(s))
    try:
        if c['via'] == 'shape':
            kw = {} if c.get('n_cycles') is None else {'n_cycles': c['n_cycles']}
            if c.get('n_cycles') is not None:      # another filter length for the same signal first: no state may leak into the next call
                implutil.quiet(compute_shape_features, sig, c['fs'], implutil.frange(c), center_extrema=c['center'], find_extrema_kwargs=fek, n_cycles=3)
            sf = lambda a: implutil.quiet(compute_shape_features, a, c['fs'], implutil.frange(c), center_extrema=c['center'], find_extrema_kwargs=fek, **kw)
            if isinstance(sig, np.ndarray) and sig.flags.writeable and len(sig) % 3 == 1:
                df = implutil.reuse_buffer(sf, sig)
            else:
                df = implutil.twice(lambda: sf(sig), [sig, fek], 'compute_shape_features')
        elif c['via'] == 'object':
            # through a Bycycle object with a history (other settings and a first fit on the same array, then rebound and refitted)
            df = implutil.object_route(np.asarray(sig), c['fs'], implutil.frange(c), c['center'], 'cycles', None, None, fek, True)
        else:
            cf = lambda a: implutil.quiet(compute_features, a, c['fs'], implutil.frange(c), center_extrema=c['center'], find_extrema_kwargs=fek,
                                          threshold_kwargs={}, return_samples=True)
            # one case in three: the array is a buffer that held other samples when it was analysed a moment ago
            df = implutil.reuse_buffer(cf, sig) if (isinstance(sig, np.ndarray) and sig.flags.writeable and len(sig) % 3 == 0) else cf(sig)
            df2 = implutil.quiet(compute_features, sig, c['fs'], implutil.frange(c), center_extrema=c['center'], find_extrema_kwargs=fek,
                                 threshold_kwargs={}, return_samples=False)
            for col in df2.columns:      # dropping the sample columns leaves every other column unchanged
                if not df2[col].equals(df[col]):
                    raise AssertionError('return_samples=False changed column ' + col)
            if any(col.startswith('sample_') for col in df2.columns):
                raise AssertionError('return_samples=False kept a sample column')
        return df
    finally:
        sh.amp_by_time = orig

def _long_recording():
    r = np.random.default_rng(3); n = 72000
    env = 0.6 + 0.4 * np.sin(2 * np.pi * 0.13 * np.arange(n) / 1000.0)
    return np.round((env * np.sin(2 * np.pi * 10 * np.arange(n) / 1000.0) + 0.3 * r.standard_normal(n)) * 200) / 200

def corpus(ctx):
    s = gen.make_signal(np.random.default_rng(11), family='asym', fs=500, f0=10)
    base = dict(sig=proto.arr2hex(s['sig']), fs=500, f_range=[7.0, 13.0], fk=None, boundary=None, family='asym')
    return [dict(base, center='peak', stub=False, via='shape'), dict(base, center='trough', stub=True, via='shape'),
            dict(base, center='trough', stub=False, via='features'),
            # pre-fix F (052c5d2): int16 arithmetic wrapped volt_rise / volt_decay / volt_amp and the flank midpoints
            dict(base, center='peak', stub=True, via='features', dtype='int16'), dict(base, center='trough', stub=True, via='shape', dtype='uint16'),
            # directed: a LONG recording (72 s at 1000 Hz, sample indices beyond 2^16; the one of C01's corpus): durations and voltages of the late cycles
            dict(sig=proto.arr2hex(_long_recording()), fs=1000, f_range=[7.0, 13.0], fk=None, boundary=None, family='long', center='trough', stub=False, via='features')]

def generate(ctx):
    rng = ctx.rng
    cases = []
    for i in range(ctx.scale(160, 1600)):
        s = gen.make_signal(ctx.sub_rng(i), family=gen.FAMILIES[i % len(gen.FAMILIES)])
        u = rng.random()
        fk = None if u < 0.4 else ({'n_cycles': int(rng.choice([2, 3, 4]))} if u < 0.8 else {'n_seconds': float(rng.choice([0.25, 0.5]))})
        cases.append(dict(sig=proto.arr2hex(s['sig']), fs=s['fs'], f_range=list(s['f_range']), fk=fk,
                          boundary=(None if rng.random() < 0.5 else int(rng.choice([0, 3, 30]))),
                          center=str(rng.choice(['peak', 'trough'])), stub=bool(rng.random() < 0.5),
                          via=str(rng.choice(['shape', 'features', 'features', 'object'])), family=s['family']))
        if cases[-1]['via'] == 'shape' and rng.random() < 0.5:      # the function's own n_cycles (band amplitude filter length)
            cases[-1]['n_cycles'] = int(rng.choice([2, 4, 5, 7]))
        cases[-1]['pres'] = implutil.pick_presentation(rng, 0.25)
        if rng.random() < 0.15:      # integer-typed recording (ADC counts) spanning most of its type's range
            cases[-1]['dtype'] = str(rng.choice(list(INT_RANGE)))
    return cases

def _close(fl, atom, tol=Fraction(1, 10**9)):
    if atom in ('nan', 'inf', '-inf'):
        return (fl != fl) if atom == 'nan' else (fl == float(atom))
    if fl != fl or fl in (float('inf'), float('-inf')):
        return False
    a, b = Fraction(float(fl)), Fraction(atom)
    return abs(a - b) <= tol * max(abs(a), abs(b), Fraction(1, 10**6))

def evaluate(ctx, cases):
    reqs, pre = [], []
    for c in cases:
        x = _signal(c)[1]
        try:
            df = _impl(c)
        except Exception as e:
            msg = type(e).__name__ + ': ' + str(e)[:150]
            if c.get('pres') not in (None, 'array'):       # does the same recording as a plain array raise as well?
                try:
                    _impl(dict(c, pres='array')); msg = 'AssertionError: raises only when the samples arrive as %s (%s)' % (c['pres'], msg)
                except Exception:
                    pass
            pre.append(dict(err=msg)); continue
        used = x if c['center'] == 'peak' else -x
        try:
            nc = c.get('n_cycles') or 3
            amp_used = _stub_amp(len(x)) if c['stub'] else kernels.band_amp(used, c['fs'], implutil.frange(c), n_cycles=nc)
            amp_x = _stub_amp(len(x)) if c['stub'] else kernels.band_amp(x, c['fs'], implutil.frange(c), n_cycles=nc)
        except Exception as e:
            pre.append(dict(err='kernel: ' + type(e).__name__)); continue
        rows = implutil.sample_rows(df, c['center'])
        r = implutil.enc_rows(rows)
        reqs.append('shape.model %s %s %s %s' % (c['center'], proto.enc_list(used), proto.enc_list(amp_used), r))
        reqs.append('shape.spec %s %s %s %s' % (c['center'], proto.enc_list(x), proto.enc_list(amp_x), r))
        pre.append(dict(df=df, n=len(df), j=len(reqs) - 2))
        if c['via'] in ('features', 'object') and not c['stub'] and len(df):
            # the SHAPE projection of the composed Lean model (pipelineCycles) against the table of compute_features
            rq = implutil.pipeline_request(x, c['fs'], c['f_range'], c['center'], c['fk'], c['boundary'], None, {})
            if rq is not None: pre[-1]['pipe'] = rq
    ans = proto.run_driver(reqs)
    pidx = [i for i, p in enumerate(pre) if 'pipe' in p]
    for i, a in zip(pidx, proto.run_driver([pre[i]['pipe'] for i in pidx])):
        pre[i]['pipe_ans'] = a
    out = []
    for c, p in zip(cases, pre):
        key = hash(repr({k: v for k, v in c.items() if k != 'family'}))
        if 'err' in p:
            bad = not p['err'].startswith('kernel')
            ctx.hist('outcome', 'raises' if bad else 'kernel-refused')
            # a raise is C01's subject unless it is the return_samples assertion of this module
            out.append(Result(c, judge_ok=not (p['err'].startswith('AssertionError') or p['err'].startswith('HistoryDependence')), corr_ok=True, sig=key, nontrivial=False, info=dict(impl_error=p['err'])))
            continue
        model, spec = ans[p['j']], ans[p['j'] + 1]
        df = p['df']
        info = {}
        def cmp(table):
            if not (isinstance(table, list) and table and table[0] != 'err'):
                return 'no table: %r' % (table,)
            rowsv = table[1] if table[0] == 'ok' else table
            if len(rowsv) != len(df):
                return 'row count %d vs %d' % (len(rowsv), len(df))
            for i, row in enumerate(rowsv):
                for k, col in enumerate(COLS):
                    v = df[col].values[i]
                    ok = (int(v) == int(row[k]) and float(v) == int(v)) if k in INT_COLS else _close(float(v), row[k])
                    if not ok:
                        return 'row %d column %s: implementation %r, expected %s' % (i, col, float(v), row[k])
            return None
        dm, ds = cmp(model), cmp(spec)
        if dm is None and 'pipe_ans' in p:
            pj = implutil.pipeline_projections(p['pipe_ans'], df, c['center'], {})
            if pj['shape'] is not None: dm = 'composed model (pipelineCycles): ' + pj['shape']
            ctx.hist('pipeline shape', 'agrees' if pj['shape'] is None else 'differs')
        if dm: info['model_diff'] = dm
        if ds: info['spec_diff'] = ds
        ctx.hist('outcome', 'table')
        ctx.hist('options', '%s/%s/%s' % (c['center'], 'stub' if c['stub'] else 'amp', c['via'])); ctx.hist('dtype', c.get('dtype', 'float64')); ctx.hist('presentation', c.get('pres') or 'array')
        nt = p['n'] >= 2 and len(set(df['period'].values)) > 1
        out.append(Result(c, judge_ok=ds is None, corr_ok=dm is None, sig=key, nontrivial=nt, info=info))
    return out
