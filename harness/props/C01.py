"""C01 - compute_features returns a complete, ordered, gap-free segmentation."""
import warnings
import numpy as np
from core import Result
import proto, gen, kernels, implutil
from props.C03 import float_tie

THEOREMS = ['C01_structure', 'C01_row', 'C01_total', 'C01_rows', 'C01_degenerate', 'C01_labelling_total', 'C01_three_oscillations', 'C01_pipeline', 'C01_routing']
RULE = ("generated signals of all families (sinusoidal, asymmetric, bursty, 1/f, sums, chirps, quantised, clipped, plateaus, zeroed stretches, DC offsets, 6 decades of scale) x "
        "fs x band x filter length (default / n_cycles 2..5 / n_seconds) x boundary x pad x centre extremum x burst method (with valid threshold / burst options) x return_samples, "
        "through compute_features and Bycycle.fit; for the consistency method the WHOLE table is also handed to the composed Lean model pipelineCycles: its sample columns are C01's correspondence, the agreement of its shape / burst-feature / label projections (the correspondence of C04 / C05 / C06) is recorded; judge: the Lean predicate wellFormed on the implementation's sample columns, row count = kept peaks - 1 from the Lean "
        "specification, and 'did not raise' whenever the specification keeps >= 2 peaks; distinct = distinct (signal, option set); non-trivial = a table with >= 2 rows")
ASSUMPTIONS = ["the band-pass filter is recomputed by the harness with neurodsp as the property defines (zero padding of ceil(filt_len/2)); only its sign pattern is shipped",
               "inputs the neurodsp filter refuses (filter longer than signal) are skipped and counted"]
BATCH = 60

def regen_slots():
    import slots
    return slots.regenerate()

_shared = {}
def _objects(c):
    """one set of option objects per case, shared by all calls made for that case (a session reusing its settings)"""
    key = 'case'
    if _shared.get('owner') is not c:      # (identity of the case dict itself: id() values are reused after garbage collection)
        _shared.clear(); _shared['owner'] = c
        fek = implutil.fe_kwargs(c['fk'], c['boundary'], c['pad'])
        bk = dict(c['bk']) if c['bk'] is not None else None
        if bk and 'amp_threshes' in bk:
            bk['amp_threshes'] = tuple(bk['amp_threshes'])
        th = dict(c['th']) if c['th'] is not None else None
        if c.get('npopt'):       # option values as numpy scalars instead of python numbers
            fek, th = implutil.np_scalars(fek), implutil.np_scalars(th)
        import copy
        _shared[key] = (fek, bk, th, copy.deepcopy((fek, bk, th)))
    return _shared[key]

def _call(c, return_samples=True, via_object=False):
    from bycycle.features import compute_features
    from bycycle import Bycycle
    sig = implutil.present(proto.hex2arr(c['sig']), c.get('pres'))
    fs = np.float64(c['fs']) if c.get('npopt') else c['fs']
    fek, bk, th, _ = _objects(c)
    if via_object:
        # (Bycycle.fit documents a 1d array: it reads sig.ndim.) The object has a HISTORY: other settings, a first fit on the same array
        return implutil.object_route(np.asarray(sig), fs, implutil.frange(c), c['center'], c['method'], bk, th, fek, return_samples)
    if c.get('reuse') and isinstance(sig, np.ndarray) and sig.flags.writeable:
        return implutil.reuse_buffer(lambda b: implutil.quiet(compute_features, b, fs, implutil.frange(c), center_extrema=c['center'], burst_method=c['method'],
                                                               burst_kwargs=bk, threshold_kwargs=th, find_extrema_kwargs=fek, return_samples=return_samples), sig)
    # (three cases in ten run inside a strict floating-point error state of the caller: np.seterr(all='raise'))
    return (implutil.strict_env if c.get('strict') else implutil.quiet)(compute_features, sig, fs, (implutil.frange(c) if not c.get('npopt') else [np.float64(v) for v in c['f_range']]), center_extrema=c['center'], burst_method=c['method'],
                          burst_kwargs=bk, threshold_kwargs=th, find_extrema_kwargs=fek, return_samples=return_samples)

def _long_recording():
    r = np.random.default_rng(3); n = 72000
    env = 0.6 + 0.4 * np.sin(2 * np.pi * 0.13 * np.arange(n) / 1000.0)          # slowly waxing and waning rhythm on noise, quantised like an ADC
    return np.round((env * np.sin(2 * np.pi * 10 * np.arange(n) / 1000.0) + 0.3 * r.standard_normal(n)) * 200) / 200

def corpus(ctx):
    s = gen.make_signal(np.random.default_rng(5), family='bursty', fs=500, f0=10)
    base = dict(kind='signal', sig=proto.arr2hex(s['sig']), fs=500, f_range=[7.0, 13.0], boundary=None, pad=None, bk=None, th=None, family='bursty')
    return [dict(base, fk=None, center='peak', method='cycles'),                       # pre-fix A: read-only mask
            dict(base, fk={'n_seconds': 0.5}, center='peak', method='cycles'),         # pre-fix B: n_seconds + n_cycles=3
            dict(base, fk={'n_seconds': 0.5}, center='trough', method='amp'),
            dict(base, fk={'n_cycles': 4}, center='trough', method='cycles', boundary=20),
            # directed: a LONG recording (72 s at 1000 Hz, about 720 cycles, sample indices beyond 2^16) through the whole chain and the composed model
            dict(kind='signal', sig=proto.arr2hex(_long_recording()), fs=1000, f_range=[7.0, 13.0], boundary=None, pad=None, bk=None, fk=None, center='peak', method='cycles',
                 th={'amp_fraction_threshold': 0.2, 'amp_consistency_threshold': 0.4, 'period_consistency_threshold': 0.45, 'monotonicity_threshold': 0.6, 'min_n_cycles': 2},
                 family='long')]

def generate(ctx):
    rng = ctx.rng
    cases = []
    for i in range(ctx.scale(220, 2200)):
        s = gen.make_signal(ctx.sub_rng(i), family=gen.FAMILIES[i % len(gen.FAMILIES)])
        if i % 9 == 4:      # a SHORT recording: barely longer than the filters, so that the table has zero to three cycles
            fs_, f0_ = int(rng.choice([100, 128, 250])), float(rng.choice([8, 10]))
            s = gen.make_signal(ctx.sub_rng(i), family=str(rng.choice(['sine', 'asym', 'sum', 'noise'])), fs=fs_, f0=f0_, n=int((4.4 + 3.5 * rng.random()) * fs_ / f0_))
        u = rng.random()
        fk = None if u < 0.35 else ({'n_cycles': int(rng.choice([2, 3, 4, 5]))} if u < 0.75 else {'n_seconds': float(rng.choice([0.25, 0.5, 0.75]))})
        if i % 11 == 6:      # the keys PRESENT with value None (what a wrapper / config front-end forwards for 'not set'): the same as absent
            fk = [{'n_cycles': None}, {'n_cycles': None, 'n_seconds': None}, {'n_cycles': None, 'n_seconds': 0.5}, {'n_seconds': None, 'n_cycles': 4}][(i // 11) % 4]
        method = str(rng.choice(['cycles', 'amp']))
        th = None
        if rng.random() < 0.7:
            th = ({'amp_fraction_threshold': float(rng.choice([0, 0.2])), 'amp_consistency_threshold': float(rng.choice([0, 0.4, 0.6])),
                   'period_consistency_threshold': float(rng.choice([0.3, 0.6])), 'monotonicity_threshold': float(rng.choice([0.5, 0.8])),
                   'min_n_cycles': int(rng.choice([0, 2, 3]))} if method == 'cycles'
                  else {'burst_fraction_threshold': float(rng.choice([0.25, 0.5, 0.8, 1.0])), 'min_n_cycles': int(rng.choice([1, 3, 6]))})
        bk = None
        if method == 'amp' and rng.random() < 0.6:
            bk = {'amp_threshes': [float(x) for x in rng.choice([[1, 2], [0.5, 1.5], [1, 1], [0.8, 1.2], [0, 1], [0.25, 3]])]}     # (so that short runs of bursting cycles occur and are cleared)
        if method == 'amp' and s['family'] in ('blips', 'bursty') and rng.random() < 0.75:
            # strong stretches barely long enough for the detector that cover fewer WHOLE cycles than min_n_cycles: the run rule of the
            # labelling has to clear them
            th = {'burst_fraction_threshold': 1.0, 'min_n_cycles': 3}
            bk = None if rng.random() < 0.5 else {'min_burst_duration': float(rng.choice([0.1, 0.2]))}
        cases.append(dict(kind='signal', sig=proto.arr2hex(s['sig']), fs=s['fs'], f_range=list(s['f_range']), fk=fk,
                          boundary=(None if rng.random() < 0.4 else int(rng.choice([0, 1, 5, 25, 60]))),
                          pad=(None if rng.random() < 0.7 else bool(rng.integers(2))),
                          center=str(rng.choice(['peak', 'trough'])), method=method, bk=bk, th=th, family=s['family'],
                          pres=implutil.pick_presentation(rng), npopt=bool(rng.random() < 0.25), reuse=bool(rng.random() < 0.25), strict=bool(rng.random() < 0.3)))
    return cases

def evaluate(ctx, cases):
    reqs, pre = [], []
    for c in cases:
        sig = proto.hex2arr(c['sig'])
        s2 = sig if c['center'] == 'peak' else -sig
        bd = 0 if c['boundary'] is None else c['boundary']
        try:
            pad, b = kernels.filt_sign(s2, c['fs'], implutil.frange(c), c['fk'], True if c['pad'] is None else c['pad'])
        except Exception as e:
            pre.append(None); reqs += ['ping', 'ping']; continue
        args = '%s %d %s %d' % (proto.enc_list(s2), pad, proto.enc_bits(b), bd)
        reqs += ['cyclepoints.model ' + args, 'extrema.spec ' + args + ' peak']
        pre.append((s2, bd))
    ans = proto.run_driver(reqs)
    # implementation
    impl = []
    for c, p in zip(cases, pre):
        if p is None:
            impl.append(None); continue
        r = {}
        try:
            df = _call(c)
            r['df'] = df
            r['rows'] = implutil.sample_rows(df, c['center'])
            r['n'] = len(df)
            r['has_burst'] = 'is_burst' in df.columns
            try:
                df2 = _call(c, return_samples=False)
                r['nosamples_ok'] = (len(df2) == len(df)) and not any(col.startswith('sample_') for col in df2.columns)
                df3 = _call(c, via_object=True)
                r['object_ok'] = bool(df3.equals(df))
                df4 = _call(c)                      # the first call again, with the same option objects
                fek, bk, th, snap = _objects(c)
                r['repeat_ok'] = bool(df4.equals(df)) and repr((fek, bk, th)) == repr(snap)
            except Exception as e:
                r['second_call_error'] = type(e).__name__ + ': ' + str(e)[:100]
        except Exception as e:
            r['err'] = type(e).__name__; r['msg'] = str(e)[:200]; r['kernel'] = implutil.raised_in_kernel(e)
            if r['kernel'] and implutil.last_own_function(e) == 'find_extrema':
                # the extrema filter: the harness has just run the SAME kernel with the arguments the property defines (filt_sign above) and it accepted them,
                # so an exception from inside neurodsp at this stage is the library's doing (wrong arguments handed on), not a refusal of the input
                r['kernel'] = False
        impl.append(r)
    wf_reqs, idx = [], []
    for i, (c, p, r) in enumerate(zip(cases, pre, impl)):
        if p is not None and 'rows' in r:
            wf_reqs.append('cyclepoints.wf %s %d %d' % (implutil.enc_rows(r['rows']), len(p[0]), p[1])); idx.append(i)
    wf = dict(zip(idx, proto.run_driver(wf_reqs)))
    # END TO END: the COMPOSED model (Pipeline.lean, `pipelineCycles`: cyclepoints -> shape -> burst features -> labels; the object of C01_pipeline, C09_mirror,
    # C10_amplitude, C14_fit_is_pipeline) against the whole table of compute_features(burst_method='cycles')
    pipe_reqs, pidx = [], []
    for i, (c, p, r) in enumerate(zip(cases, pre, impl)):
        if p is None or 'df' not in r or r['n'] == 0: continue
        rq = implutil.pipeline_request(proto.hex2arr(c['sig']), c['fs'], c['f_range'], c['center'], c['fk'], c['boundary'], c['pad'], c['th'] if c['method'] == 'cycles' else {})
        if rq is None: continue
        if c['method'] == 'amp':
            # the amplitude method's composed model (pipelineAmp): its SAMPLE columns do not depend on the detector, which is given an empty mask here
            parts = rq.split(' ')
            rq = 'pipelineamp.model ' + ' '.join(parts[1:7]) + ' None None None %s 1' % proto.enc_bits([False] * len(proto.hex2arr(c['sig'])))
        pipe_reqs.append(rq); pidx.append(i)
    pipe = dict(zip(pidx, proto.run_driver(pipe_reqs)))
    out = []
    for i, (c, p, r) in enumerate(zip(cases, pre, impl)):
        key = hash(repr({k: v for k, v in c.items() if k != 'family'}))
        if p is None:
            ctx.hist('outcome', 'kernel-refused')
            out.append(Result(c, sig=key, nontrivial=False, info=dict(note='filter kernel refused input'))); continue
        model, spec = ans[2 * i], ans[2 * i + 1]
        info = dict(model=(model if model[0] == 'err' else ['ok', len(model[1])]), spec_peaks=(len(spec[1][0]) if isinstance(spec, list) and spec[0] == 'ok' else spec))
        judge_ok, corr_ok, tie = True, True, False
        must_return = isinstance(spec, list) and spec[0] == 'ok' and len(spec[1][0]) >= 2
        if 'err' in r and (r.get('kernel') or ('designed filter' in r.get('msg', '') and 'longer than the signal' in r.get('msg', ''))):
            # raised INSIDE neurodsp: a LATER filter of the pipeline (band amplitude, dual threshold) does not fit the recording although
            # the extrema filter did, or the dual-threshold detector's own TypeError for a lower threshold of 0: kernel-refused
            ctx.hist('outcome', 'kernel-refused (raised inside neurodsp: %s)' % r['err'])
            out.append(Result(c, sig=key, nontrivial=False, info=dict(note='band filter kernel refused input'))); continue
        if 'err' in r:
            info['impl'] = r
            if must_return:
                judge_ok = False; info['why'] = 'raised although the specification keeps %d peaks' % len(spec[1][0])
            # (a table with NO row makes the shape stage raise IndexError on its first row: compute_band_amp reads troughs[0];
            # the cyclepoint model, which stops before that stage, returns the empty table)
            corr_ok = (model[0] == 'err') or (model[0] == 'ok' and len(model[1]) == 0 and r['err'] == 'IndexError')
            ctx.hist('outcome', 'raises:' + r['err'])
        else:
            rows = [[str(v) for v in row] for row in r['rows']]
            info['impl_rows'] = r['n']
            if wf[i] != 'T':
                judge_ok = False; info['why'] = 'table is not well-formed'; info['rows'] = r['rows'][:40]
            if must_return and r['n'] != len(spec[1][0]) - 1:
                judge_ok = False; info['why'] = 'row count %d but specification keeps %d peaks' % (r['n'], len(spec[1][0]))
            if not r['has_burst']:
                judge_ok = False; info['why'] = 'no is_burst column'
            if 'second_call_error' in r or not r.get('nosamples_ok', True) or not r.get('object_ok', True) or not r.get('repeat_ok', True):
                judge_ok = False; info['why'] = 'return_samples=False / Bycycle.fit / a repeated call with the same option objects disagree: %r' % {k: r.get(k) for k in ('second_call_error', 'nosamples_ok', 'object_ok', 'repeat_ok')}
            corr_ok = (model[0] == 'ok' and model[1] == rows)
            if not corr_ok and model[0] == 'ok':
                pk = [row[0] for row in r['rows']]; tr = [row[4] for row in r['rows']] + ([r['rows'][-1][5]] if r['rows'] else [])
                tie = float_tie(p[0], pk, tr)
            if i in pipe and corr_ok:
                # C01's projection of the composed model is the SAMPLE columns (a break there is a correspondence break of C01); how the other projections fare is
                # recorded in the evidence - they are the correspondence of C04 (shape), C05 (burst features), C06 (labels), whose checks make the same comparison
                if c['method'] == 'amp':
                    pa = pipe[i]
                    same = isinstance(pa, list) and pa and pa[0] == 'ok' and pa[1] == [[str(v) for v in row] for row in r['rows']]
                    if not same: corr_ok = False; info['pipeline'] = 'sample columns differ from the composed model (pipelineAmp): %r' % (pa[:1] if isinstance(pa, list) else pa,)
                    ctx.hist('pipeline samples (amp)', 'agrees' if same else 'differs')
                else:
                    pj = implutil.pipeline_projections(pipe[i], r['df'], c['center'], c['th'])
                    if pj['samples'] is not None:
                        corr_ok = False; info['pipeline'] = pj['samples']
                    for k_, v_ in pj.items():
                        ctx.hist('pipeline ' + k_, 'agrees' if v_ is None else ('float tie' if v_.startswith('tie:') else 'differs'))
            ctx.hist('outcome', 'table')
        ctx.hist('options', '%s/%s/%s' % (c['center'], c['method'], 'n_seconds' if c['fk'] and 'n_seconds' in c['fk'] else 'n_cycles')); ctx.hist('presentation', (c.get('pres') or 'array') + ('+numpy scalar options' if c.get('npopt') else ''))
        out.append(Result(c, judge_ok=judge_ok, corr_ok=corr_ok, sig=key, nontrivial=('rows' in r and r['n'] >= 2), float_tie=tie, info=info))
    return out
