"""C15 - analysis functions are pure: no input mutation, no call-history dependence."""
import copy, pickle, warnings
import numpy as np, pandas as pd
from core import Result
import proto, gen, implutil

THEOREMS = ['Eff.C15_sound', 'Eff.C15_static', 'Eff.C15_frame', 'Eff.C15_summaries', 'Eff.C15_frame_full', 'Eff.C15_sound_full', 'Eff.C15_translated_static', 'Eff.C15_translated_frame', 'Eff.C15_no_module_state']
RULE = ("random sequences (length 3..8) of public API calls that SHARE their argument objects (one signal array, one set of option dictionaries incl. nested dicts, "
        "one cycle table per centring): compute_features (both burst methods, both centrings), compute_shape_features, compute_cyclepoints, compute_burst_features, the four "
        "burst-feature functions, find_extrema / find_zerox, compute_features_2d / 3d (shared dict, per-row lists, aliased lists, axis 0 / None / (0,1)), recompute_edges, "
        "limit_df, epoch_df, drop_samples_df, the plotting functions, and calls that RAISE part-way (a filter longer than the signal, both centrings), calls on a recording with NaN / inf samples; after every call a deep snapshot of every shared object is compared with the one taken before (arrays "
        "bytewise and their writeable flag, dicts recursively, tables with DataFrame.equals), and every call is repeated at the end of the sequence and must return an "
        "identical result; two calls per sequence are also compared with the same call executed in a PRISTINE process (forked from a server that imported bycycle and never called it: no module-level state of the session can agree with it by accident); distinct = distinct call sequences; non-trivial = the sequence contains at least two calls sharing an option dictionary or a table")
ASSUMPTIONS = ["deep snapshots use pickle round-trips of the argument objects; object identity of nested containers is not part of the statement",
               "plot functions are run under the Agg backend and figures closed after each call"]
BATCH = 12

def regen_slots():
    import slots
    return slots.regenerate()

OPS = ['cf_cycles', 'cf_amp', 'cf_cycles_trough', 'cf_amp_trough', 'shape', 'shape_trough', 'cyclepoints', 'burstfeat_cycles', 'burstfeat_amp', 'ampfrac', 'ampcons', 'percons', 'mono',
       'extrema', 'zerox', 'cf2d_dict', 'cf2d_list', 'cf2d_alias', 'cf2d_none_axis', 'cf3d', 'edges', 'limit', 'limit_all', 'epoch', 'drop', 'plot_summary', 'plot_cyclepoints', 'plot_param',
       'cf2d_amp_list', 'cf_trough_raises', 'shape_trough_raises', 'cf_amp_raises',
       'shape_trough_sub', 'cf_trough_sub', 'cyclepoints_sub', 'mono_sub', 'shape_trough_series',
       'extrema_nsec_a', 'extrema_nsec_b', 'cf_nsec_a', 'cf_nsec_b', 'cf_ncyc5', 'user_refill', 'user_refill',
       'cf_empty_fk', 'extrema_empty_fk', 'shape_empty_fk', 'edges_nobursts', 'edges_nobursts_t',
       'shape_ncyc7_default', 'shape_default', 'obj_default_fit', 'group_default_fit',
       'cf_nan', 'shape_nan', 'mono_nan', 'zerox_nan', 'cf_amp_empty_bk', 'cf_amp_empty_th', 'cf_cycles_empty_th']

class World:
    """the shared argument objects of one session"""
    def __init__(self, seed):
        from bycycle.features import compute_features
        rng = np.random.default_rng(seed)
        s = gen.make_signal(rng, family=str(rng.choice(['bursty', 'sum', 'asym'])), fs=250, f0=10, n=1000)
        self.sig = s['sig']; self.fs = 250; self.fr = (7.0, 13.0)
        self.th_c = {'amp_fraction_threshold': 0.1, 'amp_consistency_threshold': 0.4, 'period_consistency_threshold': 0.4, 'monotonicity_threshold': 0.6, 'min_n_cycles': 2}
        self.th_a = {'burst_fraction_threshold': 0.8}
        self.bk = {'amp_threshes': (0.5, 1.5), 'filter_kwargs': {'n_cycles': 3}}
        self.bk_min = {'min_n_cycles': 2}
        self.fek = {'filter_kwargs': {'n_cycles': 4}, 'boundary': 5}
        self.opts = {'center_extrema': 'trough', 'burst_method': 'cycles', 'threshold_kwargs': self.th_c, 'find_extrema_kwargs': self.fek}
        self.opt_list = [{'threshold_kwargs': self.th_c}, {'center_extrema': 'trough', 'threshold_kwargs': {'min_n_cycles': 1}}]
        self.bk_min6 = {'min_n_cycles': 6}
        self.opt_list_amp = [{'burst_method': 'amp', 'burst_kwargs': self.bk_min6, 'threshold_kwargs': self.th_a},
                             {'burst_method': 'amp', 'burst_kwargs': self.bk_min6, 'threshold_kwargs': self.th_a}]
        self.fek_empty = {'filter_kwargs': {}}                      # a filter dictionary that fixes neither n_cycles nor n_seconds
        self.fk_empty = {}
        self.bk_empty = {}; self.th_empty = {}           # explicitly EMPTY option dictionaries are the caller's objects like any other
        self.th_strict = {'amp_fraction_threshold': 0.99, 'amp_consistency_threshold': 0.99, 'period_consistency_threshold': 0.99, 'monotonicity_threshold': 0.99, 'min_n_cycles': 3}
        self.sig_sub = implutil.present(self.sig, 'subclass')      # an ndarray subclass: np.asarray(sig_sub) is a new object on the same memory
        self.sig_series = pd.Series(self.sig.copy())
        # a recording with a dropout (NaN) and a saturated sample (inf): whether a function analyses it or refuses it, the caller's samples stay as they are
        self.sig_nan = self.sig.copy(); self.sig_nan[[300, 301, 302, 800]] = [np.nan, np.nan, np.nan, np.inf]
        self.sigs2 = np.array([self.sig[:500], self.sig[500:]])
        self.sigs3 = np.array([[self.sig[:500], self.sig[500:]]])
        self.df = implutil.quiet(compute_features, self.sig.copy(), self.fs, self.fr, threshold_kwargs=dict(self.th_c))
        self.df_t = implutil.quiet(compute_features, self.sig.copy(), self.fs, self.fr, center_extrema='trough', threshold_kwargs=dict(self.th_c))
        # tables WITHOUT any burst (strict thresholds): edge recomputation has no edge to work on
        self.df_nob = implutil.quiet(compute_features, self.sig.copy(), self.fs, self.fr, threshold_kwargs=dict(self.th_strict))
        self.df_nob_t = implutil.quiet(compute_features, self.sig.copy(), self.fs, self.fr, center_extrema='trough', threshold_kwargs=dict(self.th_strict))
        # the tables of the REFILLED buffer (the samples reversed) are prepared now, so that a refill later involves no library call
        rev = np.ascontiguousarray(self.sig[::-1])
        self._alt = (implutil.quiet(compute_features, rev.copy(), self.fs, self.fr, threshold_kwargs=dict(self.th_c)),
                     implutil.quiet(compute_features, rev.copy(), self.fs, self.fr, center_extrema='trough', threshold_kwargs=dict(self.th_c)))
        self.shared = ['sig', 'th_c', 'th_a', 'bk', 'bk_min', 'fek', 'opts', 'opt_list', 'sigs2', 'sigs3', 'df', 'df_t', 'bk_min6', 'opt_list_amp', 'sig_sub', 'sig_series', 'fek_empty', 'fk_empty', 'th_strict', 'df_nob', 'df_nob_t', 'sig_nan', 'bk_empty', 'th_empty']
    def snapshot(self):
        out = {}
        for k in self.shared:
            v = getattr(self, k)
            out[k] = (pickle.dumps(v, protocol=4) if not isinstance(v, pd.DataFrame) else v.copy(deep=True),
                      getattr(v, 'flags', None) and getattr(v.flags, 'writeable', None) if isinstance(v, np.ndarray) else None)
        return out
    def diff(self, snap):
        for k in self.shared:
            v = getattr(self, k); old, wr = snap[k]
            if isinstance(v, pd.DataFrame):
                if not (list(v.columns) == list(old.columns) and v.equals(old)):
                    return k
            else:
                if pickle.dumps(v, protocol=4) != old:
                    return k
                if isinstance(v, np.ndarray) and v.flags.writeable != wr:
                    return k
        return None

def _call(w, op):
    from bycycle.features import compute_features, compute_shape_features, compute_burst_features, compute_cyclepoints
    from bycycle.features.burst import compute_amp_fraction, compute_amp_consistency, compute_period_consistency, compute_monotonicity
    from bycycle.cyclepoints import find_extrema, find_zerox
    from bycycle.group import compute_features_2d, compute_features_3d
    from bycycle.burst import recompute_edges
    from bycycle.utils import limit_df, epoch_df, drop_samples_df
    from bycycle.plts import plot_burst_detect_summary, plot_cyclepoints_df, plot_burst_detect_param
    import matplotlib.pyplot as plt
    q = implutil.quiet
    try:
        if op == 'cf_cycles': return q(compute_features, w.sig, w.fs, w.fr, threshold_kwargs=w.th_c, find_extrema_kwargs=w.fek)
        if op == 'cf_amp': return q(compute_features, w.sig, w.fs, w.fr, burst_method='amp', burst_kwargs=w.bk, threshold_kwargs=w.th_a)
        if op == 'cf_cycles_trough': return q(compute_features, w.sig, w.fs, w.fr, center_extrema='trough', threshold_kwargs=w.th_c)
        if op == 'cf_amp_trough': return q(compute_features, w.sig, w.fs, w.fr, center_extrema='trough', burst_method='amp', burst_kwargs=w.bk_min, threshold_kwargs=w.th_a)
        if op == 'shape': return q(compute_shape_features, w.sig, w.fs, w.fr, find_extrema_kwargs=w.fek)
        if op == 'shape_trough': return q(compute_shape_features, w.sig, w.fs, w.fr, center_extrema='trough', find_extrema_kwargs=w.fek)
        if op == 'cyclepoints': return q(compute_cyclepoints, w.sig, w.fs, w.fr, **w.fek)
        if op == 'burstfeat_cycles': return q(compute_burst_features, w.df, w.sig)
        if op == 'burstfeat_amp': return q(compute_burst_features, w.df_t, w.sig, burst_method='amp', burst_kwargs=dict(w.bk, fs=w.fs, f_range=w.fr) if False else w._bk_full())
        if op == 'ampfrac': return q(compute_amp_fraction, w.df)
        if op == 'ampcons': return q(compute_amp_consistency, w.df_t)
        if op == 'percons': return q(compute_period_consistency, w.df)
        if op == 'mono': return q(compute_monotonicity, w.df_t, w.sig)
        if op == 'extrema': return q(find_extrema, w.sig, w.fs, w.fr, filter_kwargs=w.fek['filter_kwargs'])
        if op == 'zerox':
            pk, tr = q(find_extrema, w.sig, w.fs, w.fr); return q(find_zerox, w.sig, pk, tr)
        if op == 'cf2d_dict': return q(compute_features_2d, w.sigs2, w.fs, w.fr, compute_features_kwargs=w.opts, axis=0, n_jobs=1)
        if op == 'cf2d_list': return q(compute_features_2d, w.sigs2, w.fs, w.fr, compute_features_kwargs=w.opt_list, axis=0, n_jobs=2)
        if op == 'cf2d_alias': return q(compute_features_2d, w.sigs2, w.fs, w.fr, compute_features_kwargs=[w.opts] * 2, axis=None, n_jobs=1)
        if op == 'cf2d_none_axis': return q(compute_features_2d, w.sigs2, w.fs, w.fr, compute_features_kwargs=w.opt_list, axis=None, n_jobs=1)
        if op == 'cf2d_amp_list': return q(compute_features_2d, w.sigs2, w.fs, w.fr, compute_features_kwargs=w.opt_list_amp, axis=None, n_jobs=1)
        if op == 'cf_trough_raises': return q(compute_features, w.sig[:100], w.fs, w.fr, center_extrema='trough', threshold_kwargs=w.th_c)      # a view of the shared array, too short for the filter
        if op == 'shape_trough_raises': return q(compute_shape_features, w.sig, w.fs, w.fr, center_extrema='trough', find_extrema_kwargs=w.fek, n_cycles=100)   # the band-amplitude filter is longer than the signal
        if op == 'cf_amp_raises': return q(compute_features, w.sig[:20], w.fs, w.fr, center_extrema='trough', burst_method='amp', burst_kwargs=w.bk_min6, threshold_kwargs=w.th_a)
        if op == 'shape_trough_sub': return q(compute_shape_features, w.sig_sub, w.fs, w.fr, center_extrema='trough', find_extrema_kwargs=w.fek)
        if op == 'cf_trough_sub': return q(compute_features, w.sig_sub, w.fs, w.fr, center_extrema='trough', threshold_kwargs=w.th_c)
        if op == 'cyclepoints_sub': return q(compute_cyclepoints, w.sig_sub, w.fs, w.fr, **w.fek)
        if op == 'mono_sub': return q(compute_monotonicity, w.df_t, w.sig_sub)
        if op == 'shape_trough_series': return q(compute_shape_features, w.sig_series, w.fs, w.fr, center_extrema='trough', find_extrema_kwargs=w.fek)
        if op == 'extrema_nsec_a': return q(find_extrema, w.sig, w.fs, w.fr, filter_kwargs={'n_seconds': 0.3})
        if op == 'extrema_nsec_b': return q(find_extrema, w.sig, w.fs, w.fr, filter_kwargs={'n_seconds': 0.6})
        if op == 'cf_nsec_a': return q(compute_features, w.sig, w.fs, w.fr, threshold_kwargs=w.th_c, find_extrema_kwargs={'filter_kwargs': {'n_seconds': 0.3}})
        if op == 'cf_nsec_b': return q(compute_features, w.sig, w.fs, w.fr, threshold_kwargs=w.th_c, find_extrema_kwargs={'filter_kwargs': {'n_seconds': 0.6}})
        if op == 'cf_ncyc5': return q(compute_features, w.sig, w.fs, w.fr, center_extrema='trough', threshold_kwargs=w.th_c, find_extrema_kwargs={'filter_kwargs': {'n_cycles': 5}})
        if op == 'cf_amp_empty_bk': return q(compute_features, w.sig, w.fs, w.fr, burst_method='amp', burst_kwargs=w.bk_empty, threshold_kwargs=w.th_a)
        if op == 'cf_amp_empty_th': return q(compute_features, w.sig, w.fs, w.fr, burst_method='amp', burst_kwargs=w.bk_min6, threshold_kwargs=w.th_empty)
        if op == 'cf_cycles_empty_th': return q(compute_features, w.sig, w.fs, w.fr, burst_kwargs=w.bk_empty, threshold_kwargs=w.th_empty)
        if op == 'cf_nan': return q(compute_features, w.sig_nan, w.fs, w.fr, threshold_kwargs=w.th_c)
        if op == 'shape_nan': return q(compute_shape_features, w.sig_nan, w.fs, w.fr, center_extrema='trough')
        if op == 'mono_nan': return q(compute_monotonicity, w.df, w.sig_nan)
        if op == 'zerox_nan':
            pk, tr = q(find_extrema, w.sig, w.fs, w.fr); return q(find_zerox, w.sig_nan, pk, tr)
        if op == 'user_refill':      # the CALLER refills its own signal buffer in place (an acquisition buffer): no library call is involved
            _refill(w)
            return 'refilled'
        if op == 'cf_empty_fk': return q(compute_features, w.sig, w.fs, w.fr, threshold_kwargs=w.th_c, find_extrema_kwargs=w.fek_empty)
        if op == 'extrema_empty_fk': return q(find_extrema, w.sig, w.fs, w.fr, filter_kwargs=w.fk_empty)
        if op == 'shape_empty_fk': return q(compute_shape_features, w.sig, w.fs, w.fr, center_extrema='trough', find_extrema_kwargs=w.fek_empty)
        if op == 'edges_nobursts': return q(recompute_edges, w.df_nob, w.th_c)
        if op == 'edges_nobursts_t': return q(recompute_edges, w.df_nob_t, w.th_c)
        if op == 'shape_ncyc7_default': return q(compute_shape_features, w.sig, w.fs, w.fr, n_cycles=7)             # every option left at its default but the filter length
        if op == 'shape_default': return q(compute_shape_features, w.sig, w.fs, w.fr)
        if op == 'obj_default_fit':      # an object constructed with default options (whatever default objects the library keeps must still be pristine)
            from bycycle import Bycycle
            bm = q(Bycycle, thresholds=w.th_c); q(bm.fit, w.sig, w.fs, w.fr); return bm.df_features
        if op == 'group_default_fit':
            from bycycle import BycycleGroup
            bg = q(BycycleGroup, thresholds=w.th_c); q(bg.fit, w.sigs2, w.fs, w.fr, n_jobs=1); return list(bg.df_features)
        if op == 'cf3d': return q(compute_features_3d, w.sigs3, w.fs, w.fr, compute_features_kwargs=w.opts, axis=(0, 1), n_jobs=1)
        if op == 'edges': return q(recompute_edges, w.df, w.th_c)
        if op == 'limit': return q(limit_df, w.df_t, w.fs, start=0.5, stop=3.0)
        if op == 'limit_all':      # limits that keep every cycle, with a non-zero shift
            first = int(w.df['sample_last_trough'].values[0])
            return q(limit_df, w.df, w.fs, start=first / w.fs, stop=None)
        if op == 'epoch': return q(epoch_df, w.df, len(w.sig), 250)
        if op == 'drop': return q(drop_samples_df, w.df)
        if op == 'plot_summary':
            q(plot_burst_detect_summary, w.df, w.sig, w.fs, w.th_c, xlim=(0.5, 3.0)); plt.close('all'); return 'drawn'
        if op == 'plot_cyclepoints':
            q(plot_cyclepoints_df, w.df_t, w.sig, w.fs, xlim=(0.5, 3.0)); plt.close('all'); return 'drawn'
        if op == 'plot_param':
            q(plot_burst_detect_param, w.df, w.sig, w.fs, 'monotonicity', 0.6, xlim=(0.5, 3.0)); plt.close('all'); return 'drawn'
    except Exception as e:
        return 'raised ' + type(e).__name__
    raise KeyError(op)

def _bk_full(self):
    if not hasattr(self, 'bk_full'):
        self.bk_full = {'fs': self.fs, 'f_range': self.fr, 'amp_threshes': (0.5, 1.5)}
        self.shared.append('bk_full')
    return self.bk_full
World._bk_full = _bk_full

def _refill(w):
    w.sig[:] = np.ascontiguousarray(w.sig[::-1]); w.sigs2[:] = np.array([w.sig[:500], w.sig[500:]]); w.sigs3[:] = w.sigs2[None]
    w.sig_sub[:] = w.sig; w.sig_series = pd.Series(w.sig.copy())
    (w.df, w.df_t), w._alt = w._alt, (w.df, w.df_t)

def _pristine_op(seed, op, refills=0):
    """the call `op` on a freshly built world (after the caller's own refills of its buffer), executed in a pristine process: no earlier
    library call of any session can have influenced it (beyond the construction of the world itself)"""
    w = World(seed); w._bk_full()
    for _ in range(refills % 2):          # (two refills restore the original samples)
        _refill(w)
    return _call(w, op)

def _same(a, b):
    if isinstance(a, pd.DataFrame): return isinstance(b, pd.DataFrame) and list(a.columns) == list(b.columns) and a.equals(b)
    if isinstance(a, (list, tuple)): return isinstance(b, (list, tuple)) and len(a) == len(b) and all(_same(x, y) for x, y in zip(a, b))
    if isinstance(a, np.ndarray): return isinstance(b, np.ndarray) and a.shape == b.shape and bool(np.array_equal(a, b, equal_nan=True))
    if isinstance(a, pd.Series): return a.equals(b)
    return a == b

def corpus(ctx):
    return [dict(seed=3, ops=['cf_amp', 'cf_amp', 'burstfeat_amp', 'burstfeat_amp']),      # pre-fix E: fs / f_range / min_n_cycles written into / popped from caller dicts
            dict(seed=4, ops=['cf2d_alias', 'cf2d_alias', 'edges', 'cf_cycles']),
            # directed: the caller refills its signal buffer in place between two identical calls (caches keyed on object identity), and two calls
            # that differ only in the filter length given in seconds (memoised kernels keyed without it)
            dict(seed=5, ops=['cf_cycles', 'user_refill', 'cf_cycles', 'burstfeat_cycles']),
            dict(seed=6, ops=['shape_trough', 'mono', 'user_refill', 'shape_trough', 'mono']),
            dict(seed=7, ops=['cf_cycles_trough', 'user_refill', 'cf_cycles_trough', 'extrema', 'zerox']),
            dict(seed=8, ops=['cf2d_dict', 'user_refill', 'cf2d_dict', 'cf3d']),
            dict(seed=9, ops=['extrema_nsec_a', 'extrema_nsec_b', 'cf_nsec_b', 'cf_nsec_a']),
            dict(seed=10, ops=['cf_nsec_a', 'cf_nsec_b', 'cf_ncyc5', 'cf_cycles']),
            dict(seed=11, ops=['shape_ncyc7_default', 'obj_default_fit', 'shape_default', 'group_default_fit']),
            dict(seed=12, ops=['obj_default_fit', 'shape_ncyc7_default', 'obj_default_fit', 'cf_cycles'])]

def generate(ctx):
    rng = ctx.rng
    return [dict(seed=int(rng.integers(1 << 30)), ops=[str(o) for o in rng.choice(OPS, size=int(rng.integers(3, 9)))]) for _ in range(ctx.scale(56, 400))]

def evaluate(ctx, cases):
    out = []
    for c in cases:
        w = World(c['seed'])
        w._bk_full()
        results = []
        info = {}
        ok = True
        refills = []
        for i, op in enumerate(c['ops']):
            refills.append(sum(1 for o in c['ops'][:i] if o == 'user_refill'))
            if op == 'user_refill':
                results.append(_call(w, op)); continue
            snap = w.snapshot()
            r = _call(w, op)
            results.append(r)
            d = w.diff(snap)
            ctx.hist('op', op)
            if d is not None:
                ok = False; info['judge'] = 'call %d (%s) modified the caller-owned object %r' % (i, op, d); break
        if ok:
            for i, op in enumerate(c['ops']):      # history independence: the same call with the same argument objects again
                if op == 'user_refill' or refills[i] != refills[-1] + (c['ops'][-1] == 'user_refill'): continue     # (the caller changed its buffer since)
                r2 = _call(w, op)
                if not _same(results[i], r2):
                    ok = False; info['judge'] = 'repeating call %d (%s) after the rest of the sequence gives a different result' % (i, op); break
        if ok:
            # no call-history dependence through MODULE state either (memoised kernels, caches keyed on object identity, leaked settings): three
            # calls of the sequence, chosen by the case's seed, must give what the same call gives in a pristine process on a freshly built world
            lib = [i for i, o in enumerate(c['ops']) if o != 'user_refill']
            after = [i for i in lib if refills[i] > 0][:2]          # (calls made after the caller refilled its buffer come first)
            for i in sorted(set(after + [lib[int(v) % len(lib)] for v in (c['seed'], c['seed'] // 7)][:3 - len(after)])) if lib else []:
                st, ref = implutil.pristine('props.C15', '_pristine_op', c['seed'], c['ops'][i], refills[i])
                if st != 'ok' or not _same(results[i], ref):
                    ok = False; info['judge'] = 'call %d (%s) inside the sequence differs from the same call in a pristine process%s' % (i, c['ops'][i], '' if st == 'ok' else ' (' + str(ref) + ')'); break
        if ok and any(isinstance(r, str) and r.startswith('raised') for r in results):
            info['raised'] = [r for r in results if isinstance(r, str) and r.startswith('raised')][:3]
            ctx.hist('raised', info['raised'][0])
        out.append(Result(c, judge_ok=ok, corr_ok=ok, sig=repr(c['ops']) + str(c['seed']), nontrivial=len(c['ops']) >= 2, info=info))
    return out
