"""C14 - Bycycle objects reproduce the functional API and hold no stale state."""
import copy, warnings
from fractions import Fraction
import numpy as np, pandas as pd
from core import Result
import proto, gen, implutil

THEOREMS = ['C14_fit_no_stale_state', 'C14_shorthand', 'C14_reduce']
RULE = ("random histories (4..10 operations) on one Bycycle object: construct (both burst methods, both centrings, thresholds given with full or SHORTHAND names or None, "
        "find_extrema_kwargs, return_samples) / fit on one of three signals / recompute_edges(reduction) / load / in-place threshold edit / threshold rebinding / burst option edit / "
        "attribute access; after every fit df_features must equal compute_features called on FRESH copies of the object's current settings (shorthand expanded), after "
        "recompute_edges(r) the functional recompute_edges with every *_threshold lowered by r, attribute access must return the table's columns, and the dictionaries held by "
        "the object must be unchanged by fit / recompute; the driver's Lean expandShorthand / reduceThresholds are compared with the object's; "
        "distinct = distinct histories; non-trivial = at least two fits or a fit after an edit")
ASSUMPTIONS = ["BycycleGroup.models positions are covered by C11 / C12"]
BATCH = 15
FULL_C = ['amp_fraction_threshold', 'amp_consistency_threshold', 'period_consistency_threshold', 'monotonicity_threshold']

def regen_slots():
    import slots
    return slots.regenerate()

def _signals(seed):
    return [gen.make_signal(np.random.default_rng([seed, i]), family=['bursty', 'sum', 'asym'][i], fs=250, f0=10, n=1200)['sig'] for i in range(3)]

def _kv(d):
    return '[' + ','.join('[%s,%s]' % (k, proto.enc_rat(v)) for k, v in d.items()) + ']'

def corpus(ctx):
    # pre-fix E: a re-fit after thresholds['min_n_cycles'] = 6 used the stale value (amp method)
    return [dict(seed=2, method='amp', center='peak', th={'burst_fraction_threshold': 0.8, 'min_n_cycles': 3}, fek=None, rs=True,
                 ops=[['fit', 0], ['edit', 'min_n_cycles', 6], ['fit', 0], ['fit', 1]])]

def generate(ctx):
    rng = ctx.rng
    cases = []
    for i in range(ctx.scale(50, 500)):
        method = str(rng.choice(['cycles', 'cycles', 'amp']))
        u = rng.random()
        if method == 'cycles':
            th = None if u < 0.15 else {('monotonicity' if rng.random() < 0.5 else 'monotonicity_threshold'): float(rng.choice([0.4, 0.7])),
                                         ('amp_consistency' if rng.random() < 0.5 else 'amp_consistency_threshold'): float(rng.choice([0.3, 0.6])),
                                         'period_consistency_threshold': 0.5, 'amp_fraction_threshold': float(rng.choice([0.0, 0.2])), 'min_n_cycles': int(rng.choice([1, 2, 3]))}
        else:
            th = None if u < 0.15 else {('burst_fraction' if rng.random() < 0.5 else 'burst_fraction_threshold'): float(rng.choice([0.5, 0.8, 1.0])), 'min_n_cycles': int(rng.choice([1, 3]))}
        ops = []
        for _ in range(int(rng.integers(4, 11))):
            k = str(rng.choice(['fit', 'fit', 'fit', 'edges', 'edit', 'rebind', 'editbk', 'attr', 'load']))
            if k == 'fit': ops.append(['fit', int(rng.integers(3))])
            elif k == 'edges': ops.append(['edges', [None, 0.1, 0.3][int(rng.integers(3))]])
            elif k == 'edit':
                key = str(rng.choice(FULL_C + ['min_n_cycles'])) if method == 'cycles' else str(rng.choice(['burst_fraction_threshold', 'min_n_cycles']))
                ops.append(['edit', key, (int(rng.choice([1, 2, 4, 6])) if key == 'min_n_cycles' else float(rng.choice([0.2, 0.5, 0.9])))])
            elif k == 'rebind': ops.append(['rebind', int(rng.integers(1 << 20))])
            elif k == 'editbk': ops.append(['editbk', int(rng.choice([1, 2, 5]))])
            elif k == 'attr': ops.append(['attr'])
            else: ops.append(['load', int(rng.integers(3))])
        cases.append(dict(seed=int(rng.integers(1 << 30)), method=method, center=str(rng.choice(['peak', 'trough'])), th=th,
                          fek=(None if rng.random() < 0.6 else {'filter_kwargs': {'n_cycles': 4}, 'boundary': 5}), rs=bool(rng.random() < 0.8), ops=ops))
    return cases

def evaluate(ctx, cases):
    from bycycle import Bycycle
    from bycycle.features import compute_features
    from bycycle.burst import recompute_edges as rc_edges
    out = []
    reqs, marks = [], []
    results = []
    for c in cases:
        sigs = _signals(c['seed']); fs, fr = 250, (7.0, 13.0)
        info = {}; ok = True; corr = True
        def fail(msg):
            nonlocal ok
            if ok: info['judge'] = msg
            ok = False
        th_in = copy.deepcopy(c['th'])
        try:
            bm = implutil.quiet(Bycycle, center_extrema=c['center'], burst_method=c['method'], thresholds=th_in,
                                find_extrema_kwargs=copy.deepcopy(c['fek']), return_samples=c['rs'])
        except Exception as e:
            results.append((False, False, dict(judge='constructor raised ' + type(e).__name__), None)); continue
        # shorthand expansion vs the Lean function
        exp_req = None
        if c['th'] is not None:
            exp_req = ('objs.expand ' + _kv(c['th']), dict(bm.thresholds))
        nfit = 0; edited_before_fit = False; last_sig = None
        def attr_check(where):
            if bm.df_features is not None:
                for col in list(bm.df_features.columns)[:4] + list(bm.df_features.columns)[-2:]:
                    if not np.array_equal(np.asarray(getattr(bm, col)), bm.df_features[col].values, equal_nan=True):
                        fail('after %s attribute %s is not the column of the current table' % (where, col)); return
        for op in c['ops']:
            if not ok: break
            if op[0] in ('fit', 'edges', 'load'):
                attr_check('the operations before ' + repr(op))      # read (and possibly cache) before the table is replaced
            try:
                if op[0] == 'fit':
                    held = copy.deepcopy((bm.thresholds, bm.burst_kwargs, bm.find_extrema_kwargs))
                    implutil.quiet(bm.fit, sigs[op[1]], fs, fr); nfit += 1; last_sig = op[1]
                    if copy.deepcopy((bm.thresholds, bm.burst_kwargs, bm.find_extrema_kwargs)) != held and repr((bm.thresholds, bm.burst_kwargs, bm.find_extrema_kwargs)) != repr(held):
                        fail('fit modified the option dictionaries held by the object')
                    exp = implutil.quiet(compute_features, sigs[op[1]], fs, fr, center_extrema=bm.center_extrema, burst_method=bm.burst_method,
                                         burst_kwargs=copy.deepcopy(bm.burst_kwargs), threshold_kwargs=copy.deepcopy(bm.thresholds),
                                         find_extrema_kwargs=copy.deepcopy(bm.find_extrema_kwargs), return_samples=bm.return_samples)
                    if not bm.df_features.equals(exp):
                        fail('after %r the fit does not equal compute_features with the current settings' % (c['ops'][:c['ops'].index(op) + 1],))
                elif op[0] == 'edges':
                    if bm.df_features is None or bm.burst_method != 'cycles' or not bm.return_samples: continue
                    prev = bm.df_features.copy(deep=True); th_before = copy.deepcopy(bm.thresholds)
                    red = bm.reduce_thresholds(op[1])
                    reqs.append('objs.reduce %s %s' % (_kv(th_before), proto.enc_opt(op[1]))); marks.append((len(results), dict(red)))
                    want = {k: (v - (op[1] or 0) if k.endswith('_threshold') else v) for k, v in th_before.items()}
                    try:
                        exp = implutil.quiet(rc_edges, prev.copy(deep=True), want); exp_err = None
                    except Exception as e:
                        exp, exp_err = None, type(e).__name__
                    try:
                        implutil.quiet(bm.recompute_edges, op[1]); got_err = None
                    except Exception as e:
                        got_err = type(e).__name__
                    if exp_err != got_err:
                        fail('recompute_edges(%r): object %s, functional API %s' % (op[1], got_err or 'returned', exp_err or 'returned'))
                    elif exp_err is None and not bm.df_features.equals(exp):
                        fail('recompute_edges(%r) differs from the functional edge recomputation with lowered thresholds' % op[1])
                    if bm.thresholds != th_before: fail('recompute_edges modified the stored thresholds')
                elif op[0] == 'edit':
                    if isinstance(bm.thresholds, dict): bm.thresholds[op[1]] = op[2]
                elif op[0] == 'rebind':
                    r = np.random.default_rng(op[1])
                    bm.thresholds = ({k: float(r.choice([0.1, 0.4, 0.6])) for k in FULL_C} | {'min_n_cycles': int(r.choice([1, 3]))}) if bm.burst_method == 'cycles' \
                        else {'burst_fraction_threshold': float(r.choice([0.5, 1.0])), 'min_n_cycles': int(r.choice([1, 3]))}
                elif op[0] == 'editbk':
                    if bm.burst_method == 'amp': bm.burst_kwargs['min_n_cycles'] = op[1]
                elif op[0] == 'attr':
                    if bm.df_features is not None:
                        for col in list(bm.df_features.columns)[:6]:
                            if not np.array_equal(getattr(bm, col), bm.df_features[col].values, equal_nan=True): fail('attribute %s is not the table column' % col)
                elif op[0] == 'load':
                    df = implutil.quiet(compute_features, sigs[op[1]], fs, fr, threshold_kwargs={})
                    bm.load(df, sigs[op[1]], fs, fr)
                    if bm.df_features is not df: fail('load did not store the given table')
            except Exception as e:
                fail('operation %r raised %s: %s' % (op, type(e).__name__, str(e)[:80]))
            if ok and op[0] in ('fit', 'edges', 'load'):
                attr_check(repr(op))
        results.append((ok, corr, info, exp_req))
        ctx.hist('fits', min(nfit, 4))
    # driver comparisons
    reqs2 = [r[3][0] for r in results if r[3] is not None]
    ans = proto.run_driver(reqs + reqs2)
    a1, a2 = ans[:len(reqs)], ans[len(reqs):]
    bad = {}
    for (idx, red), a in zip(marks, a1):
        got = {k: Fraction(v) for k, v in a}
        if {k: Fraction(float(v)) if isinstance(v, float) else Fraction(v) for k, v in red.items()} != got and \
           not all(abs(Fraction(float(red[k])) - got.get(k, 10**9)) < Fraction(1, 10**12) for k in red):
            bad[idx] = 'reduce_thresholds differs from the Lean reduceThresholds: %r vs %r' % (red, a)
    j = 0
    for i, r in enumerate(results):
        if r[3] is not None:
            a = a2[j]; j += 1
            want = {k: Fraction(v) for k, v in a}
            have = {k: Fraction(float(v)) if isinstance(v, float) else Fraction(v) for k, v in r[3][1].items()}
            if want != have: bad[i] = 'shorthand expansion differs from the Lean expandShorthand: %r vs %r' % (r[3][1], a)
    for i, (c, r) in enumerate(zip(cases, results)):
        ok, corr, info, _ = r
        if i in bad:
            corr = False; ok = False; info.setdefault('judge', bad[i]); info['model'] = bad[i]
        nfit = sum(1 for o in c['ops'] if o[0] == 'fit')
        out.append(Result(c, judge_ok=ok, corr_ok=corr and ok, sig=repr(c), nontrivial=nfit >= 2, info=info))
    return out
