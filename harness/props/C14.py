"""C14 - Bycycle objects reproduce the functional API and hold no stale state."""
import copy, warnings
from fractions import Fraction
import numpy as np, pandas as pd
from core import Result
import proto, gen, implutil

THEOREMS = ['C14_fit_no_stale_state', 'C14_shorthand', 'C14_reduce', 'C14_history_independence', 'C14_settings_history', 'C14_edges', 'C14_attr', 'C14_failed_fit', 'C14_table_kept', 'C14_plot', 'C14_translated_methods', 'C14_rebound_slots', 'C14_group_mirror', 'C14_group_model_refit', 'C14_group_settings', 'C14_routing', 'C14_group_routing', 'C14_fit_is_pipeline', 'C14_edges_on_pipeline', 'C14_group_fit_per_signal']
RULE = ("random histories (4..10 operations) on one Bycycle object: construct (both burst methods, both centrings, thresholds given with full or SHORTHAND names or None, "
        "find_extrema_kwargs, return_samples) / fit on one of three signals / recompute_edges(reduction) / load / in-place threshold edit / threshold rebinding / burst option edit / "
        "attribute access / plot; after every fit df_features must equal compute_features called on FRESH copies of the object's current settings (shorthand expanded), after "
        "recompute_edges(r) the functional recompute_edges with every *_threshold lowered by r, attribute access must return the table's columns, and the dictionaries held by "
        "the object must be unchanged by fit / recompute; the driver's Lean expandShorthand / reduceThresholds are compared with the object's; the whole history is also run through the Lean object machine (obj.trace): outcome, stored dictionaries, stored signal after every operation, and the table must equal the model's provenance term (cf / rc / loaded) evaluated with the functional API (histories include 2-D fits, reads of absent attributes, edge recomputation without a table, rebinding to shorthand names); "
        "BycycleGroup: fits (and refits on arrays of another shape) of 2-D / 3-D arrays of pairwise different signals, models[i][j] against sigs[i, j] and df_features[i][j]; distinct = distinct histories; non-trivial = at least two fits or a fit after an edit")
ASSUMPTIONS = ["that df_features of a group sit at the position of their signal is C11 / C12; here models are compared with df_features and sigs position by position"]
BATCH = 15
FULL_C = ['amp_fraction_threshold', 'amp_consistency_threshold', 'period_consistency_threshold', 'monotonicity_threshold']

def regen_slots():
    import slots
    return slots.regenerate()

def _signals(seed):
    sg = [gen.make_signal(np.random.default_rng([seed, i]), family=['bursty', 'sum', 'asym'][i], fs=250, f0=10, n=1200)['sig'] for i in range(3)]
    if seed % 3 == 0: sg[1] = sg[1].astype(np.float32)          # a single-precision recording: the object analyses it as the functional API does (in its own precision)
    if seed % 3 == 1: sg[2] = np.round(sg[2] * 1000).astype(np.int16)      # ADC counts
    return sg

def _kv(d):
    return '[' + ','.join('[%s,%s]' % (k, proto.enc_rat(v)) for k, v in d.items()) + ']'


FEKS = {0: {'filter_kwargs': {'n_cycles': 3}}, 1: {'filter_kwargs': {'n_cycles': 4}, 'boundary': 5}}

def _dec_kv(v):
    return {k: Fraction(q) for k, q in v}

def _same_kv(model, real):
    m = _dec_kv(model)
    try:
        return set(m) == set(real) and all(abs(m[k] - Fraction(float(real[k]))) <= Fraction(1, 10**12) for k in m)     # (0.8 the float vs 4/5 the literal)
    except (ValueError, TypeError, OverflowError):      # a NaN / None / non-numeric stored setting is not the model's
        return False

def _num(k, q):
    return int(q) if (k == 'min_n_cycles' and q.denominator == 1) else float(q)

def _model_trace(c, obs, loaded, sigs, fs, fr, init_th=None):
    """the Lean object machine (BycycleModel/ObjMachine.lean, symbolic instance ObjTrace.lean) run on the same history: outcome, stored
    dictionaries, stored signal and table after every operation; the table is the model's provenance term evaluated with the functional API."""
    from bycycle.features import compute_features
    from bycycle.burst import recompute_edges as rc_edges
    if not obs: return None
    memo = {}
    # the functional reference receives its threshold values in the NUMERIC TYPE the object holds them in (np.float32 thresholds make numpy
    # compare in single precision): the type of every key is read off the object's own dictionary as it was before the operation
    held = {}
    for snap_th in [init_th or {}] + [o[2][0] for o in obs]:
        for k, v in (snap_th or {}).items():
            held.setdefault((k, Fraction(float(v)) if isinstance(v, (float, np.floating)) else Fraction(int(v))), type(v))
    def typed(k, q):
        t = held.get((k, Fraction(q)))
        v = _num(k, Fraction(q))
        return t(v) if t in (np.float32, np.float64, np.int64, np.int32) else v
    def cf(st, x):
        key = ('cf', repr(st), x)
        if key not in memo:
            peak, cyc, bk, th, fek, rs = st
            try:
                memo[key] = implutil.quiet(compute_features, sigs[int(x)], fs, fr, center_extrema='peak' if peak == 'T' else 'trough', burst_method='cycles' if cyc == 'T' else 'amp',
                                           burst_kwargs={k: _num(k, Fraction(q)) for k, q in bk}, threshold_kwargs={k: typed(k, q) for k, q in th},
                                           find_extrema_kwargs=copy.deepcopy(FEKS[int(fek)]), return_samples=(rs == 'T'))
            except Exception as e:
                memo[key] = e
        return memo[key]
    def ev(t):
        if t == 'None': return None
        key = repr(t)
        if key in memo: return memo[key]
        if t[0] == 'cf': r = cf(t[1], t[2])
        elif t[0] == 'loaded': r = loaded[int(t[1])]
        else:
            base = ev(t[1])
            try:
                r = implutil.quiet(rc_edges, base.copy(deep=True), {k: typed(k, q) for k, q in t[2]})
            except Exception as e:
                r = e
        memo[key] = r
        return r
    th0 = 'None' if c['th'] is None else _kv(c['th'])
    head = 'obj.trace %s %s None %s %s %s ' % (proto.enc_bool(c['center'] == 'peak'), proto.enc_bool(c['method'] == 'cycles'), th0,
                                              'None' if c['fek'] is None else '1', proto.enc_bool(c['rs']))
    flags = [True] * len(obs)
    for _ in range(len(obs) + 1):
        tr = proto.run_driver([head + '[' + ','.join('[%s,%s]' % (m, proto.enc_bool(f)) for (m, _, _), f in zip(obs, flags)) + ']'])[0]
        if not isinstance(tr, list) or (tr and tr[0] == 'bad-request'): return 'driver refused the history: %r' % (tr,)
        changed = False
        for i, (m, outcome, _) in enumerate(obs):
            pre = tr[i]                      # state before operation i (entry 0 = constructed)
            want = True
            if m.startswith('[fit,') and m != '[fit,100]':
                want = not isinstance(cf(pre[1], m[5:-1]), Exception)
            elif m.startswith('[edges,') and pre[3] != 'None':
                want = flags[i] and not isinstance(ev(tr[i + 1][3]), Exception)      # (the rc term carries the MODEL's lowered thresholds)
            elif m.startswith('[attr,') and pre[3] != 'None':
                t = ev(pre[3]); want = (not isinstance(t, Exception)) and m[6:-1] in t.columns
            if want != flags[i]:
                flags[i] = want; changed = True; break
        if not changed: break
    for i, (m, outcome, (th, bk, j, has_sig, df)) in enumerate(obs):
        out, st, sg, term = tr[i + 1]
        if out != outcome: return 'operation %d %s: object %s, model %s' % (i, m, outcome, out)
        if not _same_kv(st[3], th): return 'after operation %d %s the stored thresholds are %r, model %r' % (i, m, th, st[3])
        if not _same_kv(st[2], bk): return 'after operation %d %s the stored burst_kwargs are %r, model %r' % (i, m, bk, st[2])
        if (sg == 'None') != (not has_sig) or (sg not in ('None', '100') and j is not None and int(sg) != j): return 'after operation %d %s the stored signal is %r, model %s' % (i, m, j, sg)
        exp = ev(term)
        if (exp is None) != (df is None) or (df is not None and (isinstance(exp, Exception) or not df.equals(exp))):
            return 'after operation %d %s the table is not the model\'s %s evaluated with the functional API' % (i, m, proto_render(term)[:160])
    return None

def proto_render(t):
    return t if isinstance(t, str) else '[' + ','.join(proto_render(x) for x in t) + ']'

def corpus(ctx):
    # pre-fix E: a re-fit after thresholds['min_n_cycles'] = 6 used the stale value (amp method)
    return [dict(seed=2, method='amp', center='peak', th={'burst_fraction_threshold': 0.8, 'min_n_cycles': 3}, fek=None, rs=True,
                 ops=[['fit', 0], ['edit', 'min_n_cycles', 6], ['fit', 0], ['fit', 1]])]

def generate(ctx):
    rng = ctx.rng
    cases = []
    for i in range(ctx.scale(100, 600)):
        method = str(rng.choice(['cycles', 'cycles', 'amp']))
        u = rng.random()
        if method == 'cycles':
            th = None if u < 0.15 else {('monotonicity' if rng.random() < 0.5 else 'monotonicity_threshold'): float(rng.choice([0.4, 0.7, 1.0])),      # (1.0: no cycle qualifies - a table without any burst)
                                         ('amp_consistency' if rng.random() < 0.5 else 'amp_consistency_threshold'): float(rng.choice([0.3, 0.6])),
                                         'period_consistency_threshold': 0.5, 'amp_fraction_threshold': float(rng.choice([0.0, 0.2])), 'min_n_cycles': int(rng.choice([1, 2, 3]))}
        else:
            th = None if u < 0.15 else {('burst_fraction' if rng.random() < 0.5 else 'burst_fraction_threshold'): float(rng.choice([0.5, 0.8, 1.0])), 'min_n_cycles': int(rng.choice([1, 3]))}
        ops = []
        for _ in range(int(rng.integers(4, 11))):
            k = str(rng.choice(['fit', 'fit', 'fit', 'edges', 'edges', 'edit', 'rebind', 'editbk', 'attr', 'attrkey', 'load', 'fit2d', 'rebind_short', 'plot']))
            if k == 'fit': ops.append(['fit', int(rng.integers(3))])
            elif k == 'edges': ops.append(['edges', [None, 0.1, 0.3][int(rng.integers(3))]])
            elif k == 'edit':
                key = str(rng.choice(FULL_C + ['min_n_cycles'])) if method == 'cycles' else str(rng.choice(['burst_fraction_threshold', 'min_n_cycles']))
                ops.append(['edit', key, (int(rng.choice([1, 2, 4, 6])) if key == 'min_n_cycles' else float(rng.choice([0.2, 0.5, 0.9])))])
            elif k == 'rebind': ops.append(['rebind', int(rng.integers(1 << 20))])
            elif k == 'editbk': ops.append(['editbk', int(rng.choice([1, 2, 5]))])
            elif k == 'attr': ops.append(['attr'])
            elif k == 'attrkey': ops.append(['attrkey', str(rng.choice(['period', 'is_burst', 'sample_peak', 'sample_trough', 'volt_amp', 'burst_fraction', 'monotonicity', 'no_such_column']))])
            elif k == 'fit2d': ops.append(['fit2d'])
            elif k == 'plot': ops.append(['plot'])
            elif k == 'rebind_short': ops.append(['rebind_short', float(rng.choice([0.3, 0.6]))])
            else: ops.append(['load', int(rng.integers(3))])
        cases.append(dict(seed=int(rng.integers(1 << 30)), method=method, center=str(rng.choice(['peak', 'trough'])), th=th,
                          fek=(None if rng.random() < 0.6 else {'filter_kwargs': {'n_cycles': 4}, 'boundary': 5}), rs=bool(rng.random() < 0.8), ops=ops))
    # BycycleGroup: models mirror df_features and sigs position by position (pairwise different signals, refits on other shapes)
    for i in range(ctx.scale(14, 60)):
        fits = [dict(shape=[int(rng.integers(1, 4))] if rng.random() < 0.35 else [int(rng.integers(1, 4)), int(rng.integers(1, 4))], n_jobs=int(rng.choice([1, 2])))
                for _ in range(int(rng.integers(1, 3)))]
        for f in fits:
            f['axis'] = (str(rng.choice(['0', 'None'])) if len(f['shape']) == 1 else str(rng.choice(['0', '1', 'a01', 'a01'])))
        cases.append(dict(kind='group', seed=int(rng.integers(1 << 30)), center=str(rng.choice(['peak', 'trough'])), fits=fits))
    return cases

def _group(c):
    """BycycleGroup.fit (possibly repeated on another array): models[i](/[j]) holds sigs[i](/[i, j]) and the table at the same position of df_features."""
    from bycycle import BycycleGroup
    bg = implutil.quiet(BycycleGroup, center_extrema=c['center'], thresholds={'min_n_cycles': 2, 'amp_fraction_threshold': 0.25})      # (every *_threshold >= 0.25: a reduction is possible)
    for k, f in enumerate(c['fits']):
        shp = f['shape']
        sigs = np.zeros(tuple(shp) + (500,))
        for idx in np.ndindex(*shp):
            sigs[idx] = gen.make_signal(np.random.default_rng([c['seed'], k] + list(idx)), family=['bursty', 'sum', 'asym'][sum(idx) % 3], fs=250, f0=10, n=500)['sig']
        if (c['seed'] + k) % 4 == 3: sigs = sigs.astype(np.float32)       # single-precision recordings
        axis = {'0': 0, '1': 1, 'a01': (0, 1), 'None': None}[f['axis']]
        if (c['seed'] + k) % 2 == 0:
            # a fit that is REJECTED half-way first (an axis the array's dimension does not allow, on the same array): whatever it leaves behind, the
            # successful fit that follows must rebuild everything
            try:
                implutil.quiet(bg.fit, sigs, 250, (7.0, 13.0), axis=(1 if len(shp) == 1 else None), n_jobs=1)
                return 'fit %d: an axis the array does not allow was accepted' % k
            except ValueError:
                pass
            except Exception as e:
                return 'fit %d: rejected fit raised %s instead of ValueError' % (k, type(e).__name__)
        try:
            implutil.quiet(bg.fit, sigs, 250, (7.0, 13.0), axis=axis, n_jobs=f['n_jobs'])
        except Exception as e:
            return 'BycycleGroup.fit raised %s: %s' % (type(e).__name__, str(e)[:80])
        if len(bg.models) != shp[0] or len(bg.df_features) != shp[0]: return 'fit %d: models / df_features do not have one entry per signal' % k
        if len(bg) != shp[0] or [id(m) for m in bg] != [id(m) for m in bg.models]: return 'fit %d: len() / iteration of the group do not run over its models' % k
        if len(shp) == 2 and any(len(r) != shp[1] for r in list(bg.models) + list(bg.df_features)): return 'fit %d: a row of models / df_features does not have one entry per signal' % k
        if np.shape(bg.sigs) != tuple(shp) + (500,) or not np.array_equal(bg.sigs, sigs): return 'fit %d: the group does not hold the array it was fitted on' % k
        for idx in np.ndindex(*shp):
            m = bg.models[idx[0]] if len(shp) == 1 else bg.models[idx[0]][idx[1]]
            t = bg.df_features[idx[0]] if len(shp) == 1 else bg.df_features[idx[0]][idx[1]]
            if not np.array_equal(m.sig, sigs[idx]): return 'fit %d: models%s.sig is not sigs%s' % (k, list(idx), list(idx))
            if m.df_features is not t and not m.df_features.equals(t): return 'fit %d: models%s.df_features is not df_features%s' % (k, list(idx), list(idx))
            if bg[idx[0]] is not bg.models[idx[0]]: return 'fit %d: indexing the group does not return its models' % k
            if (m.fs, tuple(m.f_range), m.center_extrema) != (250, (7.0, 13.0), c['center']): return 'fit %d: models%s does not carry the settings of the group' % (k, list(idx))
    # a reduction is for ONE call: after a group recomputation with a reduction, a refit gives compute_features with the group's own thresholds again
    if f['axis'] in ('0', 'a01') and len(c['fits'][-1]['shape']) == (1 if f['axis'] == '0' else 2) and c['seed'] % 3 == 0:
        from bycycle.features import compute_features as _cf
        try:
            implutil.quiet(bg.recompute_edges, 0.125)
        except Exception:
            pass
        try:
            implutil.quiet(bg.fit, sigs, 250, (7.0, 13.0), axis=axis, n_jobs=1)
        except Exception as e:
            return 'refit after a group recompute_edges raised %s' % type(e).__name__
        for idx in np.ndindex(*c['fits'][-1]['shape']):
            t = bg.df_features[idx[0]] if len(idx) == 1 else bg.df_features[idx[0]][idx[1]]
            exp = implutil.quiet(_cf, sigs[idx], 250, (7.0, 13.0), center_extrema=c['center'], threshold_kwargs={'min_n_cycles': 2, 'amp_fraction_threshold': 0.25})
            if not t.equals(exp): return 'a refit after recompute_edges(0.125) is not compute_features with the group\'s thresholds at %s (thresholds now %r)' % (list(idx), bg.thresholds)
    # ... and still do after an edge recomputation of the whole group, in which every model uses ITS OWN thresholds: the first model gets looser
    # thresholds of its own and is refitted before
    from bycycle.burst import recompute_edges as rc_edges
    import copy as _copy
    shp = c['fits'][-1]['shape']
    red = 0.125 if c['seed'] % 2 == 1 else None          # (half of the group recomputations with a reduction: every model lowers ITS OWN thresholds by it)
    lower = lambda th: th if red is None else {k_: (v_ - red if k_.endswith('threshold') else v_) for k_, v_ in th.items()}
    if not (f['axis'] in ('0', 'a01') or len(shp) == 1 and f['axis'] == '0'):
        # epochs of a flattened analysis (2-D axis None, 3-D axis 0 / 1): the group recomputation works whatever containers the rows are, and models and
        # df_features still mirror each other afterwards
        get = (lambda idx: bg.models[idx[0]]) if len(shp) == 1 else (lambda idx: bg.models[idx[0]][idx[1]])
        try:
            before = {idx: (get(idx).df_features.copy(deep=True), _copy.deepcopy(get(idx).thresholds)) for idx in np.ndindex(*shp)}
            implutil.quiet(bg.recompute_edges, red)
        except Exception as e:
            return 'group recompute_edges (axis %s) raised %s: %s' % (f['axis'], type(e).__name__, str(e)[:80])
        for idx in np.ndindex(*shp):
            t = bg.df_features[idx[0]] if len(shp) == 1 else bg.df_features[idx[0]][idx[1]]
            if not get(idx).df_features.equals(t): return 'after the group recompute_edges (axis %s) models%s.df_features is no longer df_features%s' % (f['axis'], list(idx), list(idx))
            try:
                exp = implutil.quiet(rc_edges, before[idx][0], lower(before[idx][1]))
            except Exception:
                continue
            if not t.equals(exp): return 'after the group recompute_edges (axis %s) the table at %s is not the edge recomputation of the table it held' % (f['axis'], list(idx))
        return None
    if f['axis'] in ('0', 'a01') or len(shp) == 1 and f['axis'] == '0':
        get = (lambda idx: bg.models[idx[0]]) if len(shp) == 1 else (lambda idx: bg.models[idx[0]][idx[1]])
        first = tuple([0] * len(shp))
        m0 = get(first)
        m0.thresholds = {'amp_fraction_threshold': 0.125, 'amp_consistency_threshold': 0.25, 'period_consistency_threshold': 0.25, 'monotonicity_threshold': 0.375, 'min_n_cycles': 2}
        try:
            implutil.quiet(m0.fit, m0.sig, 250, (7.0, 13.0))
            before = {idx: (get(idx).df_features.copy(deep=True), _copy.deepcopy(get(idx).thresholds)) for idx in np.ndindex(*shp)}
            implutil.quiet(bg.recompute_edges, red)
        except Exception as e:
            return 'group recompute_edges raised %s: %s' % (type(e).__name__, str(e)[:80])
        for idx in np.ndindex(*shp):
            t0, th0 = before[idx]
            try:
                exp = implutil.quiet(rc_edges, t0, lower(th0))
            except Exception:
                continue
            if not get(idx).df_features.equals(exp): return 'after the group recompute_edges models%s is not the edge recomputation of its table with ITS thresholds' % list(idx)
            t = bg.df_features[idx[0]] if len(shp) == 1 else bg.df_features[idx[0]][idx[1]]
            if idx != first and not get(idx).df_features.equals(t): return 'after the group recompute_edges models%s.df_features is no longer df_features%s' % (list(idx), list(idx))
        if not ((len(shp) == 1 and f['axis'] == '0') or (len(shp) == 2 and f['axis'] == 'a01')):
            return None          # (with epochs - 2-D axis None, 3-D axis 0 / 1 - the tables are epochs of a flattened analysis, not single-signal analyses)
        # the same history through the Lean group machine (BycycleModel/GroupMachine.lean, driver command group.trace): positions in row-major
        # order; the provenance terms of the models' tables and of the group's own tables, evaluated with the functional API
        from bycycle.features import compute_features
        pos = list(np.ndindex(*shp)); n = len(pos)
        th_m0 = m0.thresholds
        memo = {}
        def ev(t):
            key = proto_render(t)
            if key in memo: return memo[key]
            if t[0] == 'cf':
                peak, cyc, bk, th, fek, rs = t[1]
                try:
                    r = implutil.quiet(compute_features, sigs[pos[int(t[2])]], 250, (7.0, 13.0), center_extrema='peak' if peak == 'T' else 'trough', burst_method='cycles',
                                       burst_kwargs={}, threshold_kwargs={k: _num(k, Fraction(q)) for k, q in th}, find_extrema_kwargs={'filter_kwargs': {'n_cycles': 3}}, return_samples=True)
                except Exception as e:
                    r = e
            else:
                base = ev(t[1])
                try:
                    r = implutil.quiet(rc_edges, base.copy(deep=True), {k: _num(k, Fraction(q)) for k, q in t[2]})
                except Exception as e:
                    r = e
            memo[key] = r
            return r
        head = 'group.trace %s T [[min_n_cycles,2],[amp_fraction_threshold,1/4]] ' % proto.enc_bool(c['center'] == 'peak')
        ops = lambda flags: '[' + ','.join(['[[gfit,%s],[T]]' % proto.enc_ints(range(n)), '[[mrebind,0,%s],[T]]' % _kv(th_m0), '[[mfit,0,0],[T]]',
                                            '[[gedges,%s],[%s]]' % ('None' if red is None else '1/8', ','.join(proto.enc_bool(f_) for f_ in flags))]) + ']'
        flags = [True] * n
        for _ in range(n + 1):
            tr = proto.run_driver([head + ops(flags)])[0]
            if not isinstance(tr, list) or (tr and tr[0] == 'bad-request'): return 'driver refused the group history: %r' % (tr,)
            pre = tr[2][1]          # state before the group recomputation
            want = list(flags)
            for i in range(n):
                if not flags[i]: break
                mt = pre[3][i][2]
                if mt == 'None' or isinstance(ev(['rc', mt, [[k, str(Fraction(v))] for k, v in (pre[3][i][0][3])]]), Exception): want[i] = False; break
            if want == flags: break
            flags = want
        out, gst = tr[3]
        for i, idx in enumerate(pos):
            m = get(idx); t = bg.df_features[idx[0]] if len(shp) == 1 else bg.df_features[idx[0]][idx[1]]
            mst, msig, mdf = gst[3][i]
            if msig != str(i): return 'group machine: model %d holds signal %s' % (i, msig)
            e1, e2 = ev(mdf), ev(gst[2][i])
            if isinstance(e1, Exception) or not m.df_features.equals(e1): return 'group machine: models%s.df_features is not the model\'s %s' % (list(idx), proto_render(mdf)[:120])
            if isinstance(e2, Exception) or not t.equals(e2): return 'group machine: df_features%s is not the model\'s %s' % (list(idx), proto_render(gst[2][i])[:120])
    return None

def evaluate(ctx, cases):
    from bycycle import Bycycle
    from bycycle.features import compute_features
    from bycycle.burst import recompute_edges as rc_edges
    out = []
    reqs, marks = [], []
    results = []
    for c in cases:
        if c.get('kind') == 'group':
            msg = _group(c)
            results.append((msg is None, True, dict(judge=msg) if msg else {}, None)); ctx.hist('fits', 'group'); continue
        sigs = _signals(c['seed']); fs, fr = 250, (7.0, 13.0)
        info = {}; ok = True; corr = True
        def fail(msg):
            nonlocal ok
            if ok: info['judge'] = msg
            ok = False
        th_in = copy.deepcopy(c['th'])
        if th_in is not None and c['seed'] % 3 == 0:       # threshold values as numpy scalars (a float32 parameter grid, numpy integers)
            # (values on the 1/8 grid and reductions of 1/8, 1/4 below: exact in single precision, so that no comparison depends on rounding)
            th_in = {k: (np.int64(v) if k == 'min_n_cycles' else np.float32(round(float(v) * 8) / 8)) for k, v in th_in.items()}
        c_eff = dict(c, th=(None if th_in is None else {k: (int(v) if k == 'min_n_cycles' else float(v)) for k, v in th_in.items()}))     # (exact values held)
        try:
            bm = implutil.quiet(Bycycle, center_extrema=c['center'], burst_method=c['method'], thresholds=th_in,
                                find_extrema_kwargs=copy.deepcopy(c['fek']), return_samples=c['rs'])
        except Exception as e:
            results.append((False, False, dict(judge='constructor raised ' + type(e).__name__), None)); continue
        # shorthand expansion vs the Lean function
        exp_req = None
        if c['th'] is not None:
            exp_req = ('objs.expand ' + _kv(c_eff['th']), dict(bm.thresholds))
        nfit = 0; edited_before_fit = False; last_sig = None
        init_th = copy.deepcopy(bm.thresholds)
        obs = []; loaded = {}                 # per executed operation: (model op, outcome, snapshot of the object)
        def snap():
            j = next((k for k in range(3) if bm.sig is sigs[k]), None) if bm.sig is not None else None
            return (copy.deepcopy(bm.thresholds), copy.deepcopy(bm.burst_kwargs), j, bm.sig is not None, None if bm.df_features is None else bm.df_features.copy(deep=True))
        def attr_check(where):
            if bm.df_features is not None:
                for col in list(bm.df_features.columns)[:4] + list(bm.df_features.columns)[-2:]:
                    if not np.array_equal(np.asarray(getattr(bm, col)), bm.df_features[col].values, equal_nan=True):
                        fail('after %s attribute %s is not the column of the current table' % (where, col)); return
        f32 = th_in is not None and any(isinstance(v, np.float32) for v in th_in.values())
        for opi, op in enumerate(c['ops']):
            if not ok: break
            if f32 and op[0] == 'edges' and op[1] is not None: op = ['edges', {0.1: 0.125, 0.3: 0.25}.get(op[1], op[1])]
            mop, outcome = None, 'done'
            if op[0] in ('fit', 'edges', 'load'):
                attr_check('the operations before ' + repr(op))      # read (and possibly cache) before the table is replaced
            try:
                if op[0] == 'fit':
                    held = copy.deepcopy((bm.thresholds, bm.burst_kwargs, bm.find_extrema_kwargs))
                    mop = '[fit,%d]' % op[1]
                    try:
                        implutil.quiet(bm.fit, sigs[op[1]], fs, fr); nfit += 1; last_sig = op[1]
                    except Exception:
                        if all(str(k).endswith('_threshold') or k == 'min_n_cycles' for k in bm.thresholds): raise
                        outcome = 'raised'; obs.append((mop, outcome, snap())); continue     # (unknown threshold names after a shorthand rebinding)
                    if copy.deepcopy((bm.thresholds, bm.burst_kwargs, bm.find_extrema_kwargs)) != held and repr((bm.thresholds, bm.burst_kwargs, bm.find_extrema_kwargs)) != repr(held):
                        fail('fit modified the option dictionaries held by the object')
                    exp = implutil.quiet(compute_features, sigs[op[1]], fs, fr, center_extrema=bm.center_extrema, burst_method=bm.burst_method,
                                         burst_kwargs=copy.deepcopy(bm.burst_kwargs), threshold_kwargs=copy.deepcopy(bm.thresholds),
                                         find_extrema_kwargs=copy.deepcopy(bm.find_extrema_kwargs), return_samples=bm.return_samples)
                    if not bm.df_features.equals(exp):
                        fail('after %r the fit does not equal compute_features with the current settings' % (c['ops'][:c['ops'].index(op) + 1],))
                elif op[0] == 'edges':
                    mop = '[edges,%s]' % proto.enc_opt(op[1])
                    if bm.df_features is None or bm.burst_method != 'cycles' or not bm.return_samples or 'is_burst' not in bm.df_features.columns \
                            or not all(str(k).endswith('_threshold') or k == 'min_n_cycles' for k in bm.thresholds):
                        try:
                            implutil.quiet(bm.recompute_edges, op[1])
                        except Exception:
                            outcome = 'raised'
                        obs.append((mop, outcome, snap())); continue
                    prev = bm.df_features.copy(deep=True); th_before = copy.deepcopy(bm.thresholds)
                    red = bm.reduce_thresholds(op[1])
                    reqs.append('objs.reduce %s %s' % (_kv({k: (float(v) if isinstance(v, (float, np.floating)) else int(v)) for k, v in th_before.items()}), proto.enc_opt(op[1]))); marks.append((len(results), dict(red)))
                    want = {k: (v - (op[1] or 0) if k.endswith('_threshold') else v) for k, v in th_before.items()}
                    try:
                        exp = implutil.quiet(rc_edges, prev.copy(deep=True), want); exp_err = None
                    except Exception as e:
                        exp, exp_err = None, type(e).__name__
                    try:
                        implutil.quiet(bm.recompute_edges, op[1]); got_err = None
                    except Exception as e:
                        got_err = type(e).__name__
                    if exp_err != got_err:
                        fail('recompute_edges(%r): object %s, functional API %s' % (op[1], got_err or 'returned', exp_err or 'returned'))
                    elif exp_err is None and not bm.df_features.equals(exp):
                        fail('recompute_edges(%r) differs from the functional edge recomputation with lowered thresholds' % op[1])
                    if bm.thresholds != th_before: fail('recompute_edges modified the stored thresholds')
                    if got_err and not bm.df_features.equals(prev): fail('a recompute_edges(%r) that raised left a half-updated table on the object' % op[1])
                    outcome = 'raised' if got_err else 'done'
                elif op[0] == 'edit':
                    if isinstance(bm.thresholds, dict): bm.thresholds[op[1]] = op[2]
                    mop = '[edit,%s,%s]' % (op[1], proto.enc_rat(op[2]))
                elif op[0] == 'rebind_short':
                    bm.thresholds = {'monotonicity': op[1], 'min_n_cycles': 2} if bm.burst_method == 'cycles' else {'burst_fraction': op[1], 'min_n_cycles': 2}
                    mop = '[rebind,%s]' % _kv(bm.thresholds)
                elif op[0] == 'fit2d':
                    mop = '[fit,100]'
                    try:
                        implutil.quiet(bm.fit, np.vstack([sigs[0], sigs[1]]), fs, fr); fail('fit accepted a 2-D array')
                    except ValueError:
                        outcome = 'raised'
                elif op[0] == 'plot':
                    mop = '[plot]'
                    import matplotlib.pyplot as _plt
                    held = copy.deepcopy((bm.thresholds, bm.burst_kwargs, bm.find_extrema_kwargs))
                    held_df = None if bm.df_features is None else bm.df_features.copy(deep=True)
                    try:
                        implutil.quiet(bm.plot, xlim=(0.0, 2.0), plot_only_results=bool(opi % 2))
                    except ValueError:
                        outcome = 'raised'
                    except Exception:
                        outcome = 'done' if (bm.df_features is not None and bm.sig is not None) else 'raised'       # (a drawing error of its own is C20's subject)
                    finally:
                        _plt.close('all')
                    # drawing is not a settings assignment: the next fit / edge recomputation must still run with the settings the user stored
                    if repr((bm.thresholds, bm.burst_kwargs, bm.find_extrema_kwargs)) != repr(held):
                        fail('plot modified the settings held by the object: %r -> %r' % (held[0], bm.thresholds))
                    elif held_df is not None and not bm.df_features.equals(held_df):
                        fail('plot modified the table held by the object')
                elif op[0] == 'attrkey':
                    mop = '[attr,%s]' % op[1]
                    try:
                        v = getattr(bm, op[1]); outcome = 'column'
                        if not np.array_equal(np.asarray(v), bm.df_features[op[1]].values, equal_nan=True): fail('attribute %s is not the column of the current table' % op[1])
                    except AttributeError:
                        outcome = 'raised'
                elif op[0] == 'rebind':
                    r = np.random.default_rng(op[1])
                    bm.thresholds = ({k: float(r.choice([0.1, 0.4, 0.6])) for k in FULL_C} | {'min_n_cycles': int(r.choice([1, 3]))}) if bm.burst_method == 'cycles' \
                        else {'burst_fraction_threshold': float(r.choice([0.5, 1.0])), 'min_n_cycles': int(r.choice([1, 3]))}
                    mop = '[rebind,%s]' % _kv(bm.thresholds)
                elif op[0] == 'editbk':
                    if bm.burst_method == 'amp':
                        bm.burst_kwargs['min_n_cycles'] = op[1]; mop = '[editbk,min_n_cycles,%d]' % op[1]
                elif op[0] == 'attr':
                    if bm.df_features is not None:
                        for col in list(bm.df_features.columns)[:6]:
                            if not np.array_equal(getattr(bm, col), bm.df_features[col].values, equal_nan=True): fail('attribute %s is not the table column' % col)
                elif op[0] == 'load':
                    df = implutil.quiet(compute_features, sigs[op[1]], fs, fr, threshold_kwargs={})
                    if opi % 2 == 1:      # an externally cut table keeps its row labels (limit_df(reset_indices=False), a filtered selection)
                        df = df.iloc[2:].copy()
                    bm.load(df, sigs[op[1]], fs, fr)
                    if bm.df_features is not df: fail('load did not store the given table')
                    loaded[opi] = df.copy(deep=True); mop = '[load,%d,%d]' % (opi, op[1])
            except Exception as e:
                fail('operation %r raised %s: %s' % (op, type(e).__name__, str(e)[:80]))
            if ok and mop is not None:
                obs.append((mop, outcome, snap()))
            if ok and op[0] in ('fit', 'edges', 'load'):
                attr_check(repr(op))
        if ok:
            # whatever this object went through, a FRESHLY constructed default object starts from the documented defaults (nothing of the defaults is shared
            # between objects) and its fit is compute_features with them
            try:
                fresh = implutil.quiet(Bycycle, burst_method=c['method'])
                doc = ({'amp_fraction_threshold': 0., 'amp_consistency_threshold': .5, 'period_consistency_threshold': .5, 'monotonicity_threshold': .8, 'min_n_cycles': 3}
                       if c['method'] == 'cycles' else {'burst_fraction_threshold': 1, 'min_n_cycles': 3})
                if dict(fresh.thresholds) != doc or fresh.burst_kwargs != {} or fresh.find_extrema_kwargs != {'filter_kwargs': {'n_cycles': 3}} or fresh.center_extrema != 'peak':
                    fail('a freshly constructed default object does not hold the documented defaults: %r / %r / %r' % (fresh.thresholds, fresh.burst_kwargs, fresh.find_extrema_kwargs))
                elif fresh.thresholds is bm.thresholds or fresh.burst_kwargs is bm.burst_kwargs or fresh.find_extrema_kwargs is bm.find_extrema_kwargs:
                    fail('a freshly constructed object shares an option dictionary with an earlier object')
            except Exception as e:
                fail('constructing a default object raised %s' % type(e).__name__)
        if ok:
            md = _model_trace(c_eff, obs, loaded, sigs, fs, fr, init_th=init_th)
            if md:
                corr = False; info['model'] = md
        results.append((ok, corr, info, exp_req))
        ctx.hist('fits', min(nfit, 4))
    # driver comparisons
    reqs2 = [r[3][0] for r in results if r[3] is not None]
    ans = proto.run_driver(reqs + reqs2)
    a1, a2 = ans[:len(reqs)], ans[len(reqs):]
    bad = {}
    for (idx, red), a in zip(marks, a1):
        got = {k: Fraction(v) for k, v in a}
        # EXACT: the object's float subtraction must be the correctly rounded value of the exact difference (IEEE), i.e. float(v - r) of the Lean
        # rational - no rounding 'to kill float noise' (0.3 - 0.1 is 0.19999999999999998, not 0.2); float32 values are lowered in float32
        def same(k):
            v = red[k]
            if k not in got: return False
            if isinstance(v, np.float32): return abs(Fraction(float(v)) - got[k]) < Fraction(1, 10**6)
            if isinstance(v, (float, np.floating)): return float(v) == float(got[k])
            return Fraction(int(v)) == got[k]
        if set(red) != set(got) or not all(same(k) for k in red):
            bad[idx] = 'reduce_thresholds differs from the Lean reduceThresholds: %r vs %r' % (red, a)
    j = 0
    for i, r in enumerate(results):
        if r[3] is not None:
            a = a2[j]; j += 1
            want = {k: Fraction(v) for k, v in a}
            have = {k: Fraction(float(v)) if isinstance(v, (float, np.floating)) else Fraction(int(v)) for k, v in r[3][1].items()}
            if want != have: bad[i] = 'shorthand expansion differs from the Lean expandShorthand: %r vs %r' % (r[3][1], a)
    for i, (c, r) in enumerate(zip(cases, results)):
        ok, corr, info, _ = r
        if i in bad:
            corr = False; ok = False; info.setdefault('judge', bad[i]); info['model'] = bad[i]
        nfit = 2 if c.get('kind') == 'group' else sum(1 for o in c['ops'] if o[0] == 'fit')
        out.append(Result(c, judge_ok=ok, corr_ok=corr and ok, sig=repr(c), nontrivial=nfit >= 2, info=info))
    return out
