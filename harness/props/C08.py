"""C08 - check_min_burst_cycles: minimum-run filter."""
import itertools
from fractions import Fraction
import numpy as np
from core import Result
import proto

THEOREMS = ['C08_length', 'C08_pointwise', 'C08_kept_entirely', 'C08_cleared_entirely', 'C08_runLen_const',
            'C08_no_new_true', 'C08_idempotent', 'C08_edges', 'C08_antitone_k', 'C08_monotone_mask',
            'C08_guard', 'C08_small_k']
RULE = ("every boolean array up to a length bound x every min_n_cycles in {0..n+1} plus half-integers (exhaustive), each as a contiguous array and as a strided "
        "view of a larger buffer (every other element / reversed / matrix column), "
        "then random arrays (several run-length distributions) up to length 2000 and guard cases (empty array, negative k); the same masks (every one up to length 8, a third "
        "of the random ones) through detect_bursts_amp and detect_bursts_cycles on a table whose criterion is exactly the mask; "
        "distinct = distinct (array, k, layout); non-trivial = the array contains at least one True")
ASSUMPTIONS = ["min_n_cycles is shipped exactly (int or dyadic float)",
               "in-place mutation of the caller's array is recorded but not judged (not part of the statement)"]
BATCH = 20000

LAYOUTS = ['s2', 'rev', 'col']

def _layout(m, lay):
    """the same boolean values as a contiguous array ('c') or as a strided view of a larger buffer."""
    arr = np.array(m, dtype=bool)
    if lay == 's2':
        buf = np.ones(2 * len(arr) + 1, dtype=bool); buf[::2][:len(arr)] = arr; return buf[::2][:len(arr)]
    if lay == 'rev':
        return arr[::-1].copy()[::-1]
    if lay == 'col':
        mat = np.ones((len(arr), 3), dtype=bool); mat[:, 1] = arr; return mat[:, 1]
    return arr

def _impl(m, k, lay='c', raw=None):
    from bycycle.burst.utils import check_min_burst_cycles
    kk = Fraction(k)
    kv = int(kk) if kk.denominator == 1 else float(kk)
    if lay in ('amp', 'cyc'):
        # the filter AS ITS CALLERS USE IT (it is the foundation of C06 / C07): the labels a detector returns for a table whose criterion is exactly the
        # mask are the filter's answer for the mask - whatever the filter does with its argument (in place or on a copy) and whatever else the detector does
        import pandas as pd, warnings
        from bycycle.burst import detect_bursts_amp, detect_bursts_cycles
        try:
            with warnings.catch_warnings():
                warnings.simplefilter('ignore')
                if lay == 'amp':
                    df = detect_bursts_amp(pd.DataFrame({'burst_fraction': np.asarray(m, dtype=float)}), burst_fraction_threshold=.5, min_n_cycles=kv)      # (criterion values 0 and 1 well away from the threshold: only the filter decides)
                else:       # (detect_bursts_cycles never labels the first and the last cycle: the filter sees the criterion with a False at both ends,
                    v = np.asarray(m if raw is None else raw, dtype=float)      #  `m`; the table's criterion itself, `raw`, may hold there)
                    df = detect_bursts_cycles(pd.DataFrame({c: v for c in ('amp_fraction', 'amp_consistency', 'period_consistency', 'monotonicity')}),
                                              amp_fraction_threshold=.5, amp_consistency_threshold=.5, period_consistency_threshold=.5, monotonicity_threshold=.5,
                                              min_n_cycles=kv)
            return ['ok', proto.enc_bits(list(np.asarray(df['is_burst'].values).astype(bool)))]
        except Exception as e:
            return ['err', type(e).__name__]
    arr = _layout(m, lay)
    try:
        if (len(m) + sum(m)) % 3 == 0:
            # a session: the same mask was filtered a moment ago and the caller went on WRITING into the array it got back
            # (a result memoised on the contents and handed out without a copy would now be contaminated)
            try:
                prev = check_min_burst_cycles(_layout(m, lay), min_n_cycles=kv)
                prev[...] = ~np.asarray(prev, dtype=bool)
            except Exception:
                pass
        out = check_min_burst_cycles(arr, min_n_cycles=kv)
        return ['ok', proto.enc_bits(list(np.asarray(out).astype(bool)))]
    except Exception as e:
        return ['err', type(e).__name__]

def corpus(ctx):
    return [dict(m='011011110', k='3'), dict(m='e', k='-1'), dict(m='0110', k='-1'), dict(m='1101', k='2'),
            dict(m='111', k='3'), dict(m='111', k='4'), dict(m='10101', k='1'), dict(m='10101', k='3/2'),
            # directed: runs longer than 2^15 and 2^16 cycles (an hour of an almost uninterrupted rhythm) next to a short one
            dict(m='0110' + '1' * 33000 + '0' + '1' * 66000 + '011', k='3'), dict(m='1' * 40000 + '0101', k='2', lay='s2')]

def generate(ctx):
    L = ctx.scale(11, 15)
    ctx.notes['exhaustive'] = True
    ctx.notes['exhaustive_scope'] = 'all boolean arrays of length 1..%d x k in {0..n+1} and {1/2, 3/2, 5/2}' % L
    cases = []
    for n in range(1, L + 1):
        ks = [str(k) for k in range(0, n + 2)] + ['1/2', '3/2', '5/2']
        for bits in itertools.product('01', repeat=n):
            m = ''.join(bits)
            for k in ks:
                cases.append(dict(m=m, k=k))
                cases.append(dict(m=m, k=k, lay=LAYOUTS[len(cases) % 3]))
    # random long arrays
    rng = ctx.rng
    for i in range(ctx.scale(300, 3000)):
        n = int(rng.integers(16, 2000))
        p = rng.choice([0.1, 0.5, 0.9])
        if rng.random() < 0.5:
            m = rng.random(n) < p
        else:  # run structured
            m = np.zeros(n, bool); pos = 0; val = bool(rng.integers(2))
            while pos < n:
                ln = int(rng.integers(1, 12)); m[pos:pos + ln] = val; pos += ln; val = not val
        k = rng.choice(['0', '1', '2', '3', '4', '5', '8', '11', '7/2', str(n), str(n + 1)])
        cases.append(dict(m=proto.enc_bits(m), k=str(k), lay=str(rng.choice(['c', 'c'] + LAYOUTS))))
        if i % 3 == 0 and '/' not in str(k):      # the same mask through the two detectors that call the filter
            cases.append(dict(m=proto.enc_bits(m), k=str(k), lay='amp'))
            m2 = m.copy(); m2[0] = False; m2[-1] = False
            cases.append(dict(m=proto.enc_bits(m2), k=str(k), lay='cyc', raw=proto.enc_bits(m)))
    for n in range(2, 9):      # and exhaustively for short tables
        for bits in itertools.product('01', repeat=n):
            m = ''.join(bits)
            for k in range(0, n + 1):
                cases.append(dict(m=m, k=str(k), lay='amp'))
                cases.append(dict(m='0' + m[1:-1] + '0', k=str(k), lay='cyc', raw=m))
    for k in ['-1', '-1/2', '0']:
        cases.append(dict(m='e', k=k)); cases.append(dict(m='0110', k=k))
    return cases

def evaluate(ctx, cases):
    reqs = []
    for c in cases:
        reqs.append('minrun.model %s %s' % (c['m'], c['k']))
        # (the declarative specification is quadratic in the run length: for masks beyond 5000 cycles the transcription, PROVED equal to it for
        # every input by C08_pointwise, answers for both)
        reqs.append(('minrun.spec %s %s' if len(c['m']) <= 5000 else 'minrun.model %s %s') % (c['m'], c['k']))
    ans = proto.run_driver(reqs)
    out = []
    for i, c in enumerate(cases):
        model, spec = ans[2 * i], ans[2 * i + 1]
        m = proto.dec_bits(c['m'])
        impl = _impl(m, c['k'], c.get('lay', 'c'), raw=(proto.dec_bits(c['raw']) if c.get('raw') else None))
        judge_ok = impl == spec
        corr_ok = impl == model
        ctx.hist('outcome', impl[0] if impl[0] == 'ok' else impl[1]); ctx.hist('layout', c.get('lay', 'c'))
        out.append(Result(c, judge_ok=judge_ok, corr_ok=corr_ok, sig=(c['m'], c['k'], c.get('lay', 'c'), c.get('raw')),
                          nontrivial=('1' in c['m']),
                          info=dict(impl=impl, model=model, spec=spec)))
    return out

def shrink(ctx, case):
    """drop samples while the judge still fails"""
    cur = dict(case)
    if len(cur['m']) > 300: return cur          # (long masks are replayed as they are)
    changed = True
    while changed and len(cur['m']) > 1 and cur['m'] != 'e':
        changed = False
        for i in range(len(cur['m'])):
            cand = dict(cur); cand['m'] = cur['m'][:i] + cur['m'][i + 1:] or 'e'
            if cur.get('raw'):      # (the detector route: the table's criterion shrinks with the mask; its ends stay forced to False in the mask)
                cand['raw'] = cur['raw'][:i] + cur['raw'][i + 1:]
                if len(cand['raw']) < 2: continue
                cand['m'] = '0' + cand['raw'][1:-1] + '0'
            if evaluate(ctx, [cand])[0].judge_ok is False:
                cur = cand; changed = True; break
    return cur
