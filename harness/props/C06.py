"""C06 - detect_bursts_cycles: threshold-and-run rule."""
import warnings
import numpy as np, pandas as pd
from fractions import Fraction
from core import Result
import proto, gen, implutil

THEOREMS = ['C06_rule', 'C06_length', 'C06_pointwise', 'C06_sound', 'C06_complete', 'C06_ends', 'C06_strict',
            'C06_antitone', 'C06_rejects_threshold', 'C06_rejects_minN', 'C06_pipeline', 'C06_filter_fixed_point']
RULE = ("synthetic tables (n = 0..60; feature values on, one ulp beside and far from the thresholds; NaNs anywhere) x threshold vectors "
        "(grid of [0,1]^4, feature values, out-of-range values) x min_n_cycles 0..8 / negative / partial dicts (defaults), plus tables from "
        "compute_features(burst_method='cycles') on generated signals (kwarg routing), plus antitonicity pairs judged on the implementation; "
        "distinct = distinct (table, thresholds); non-trivial = interior rows contain both qualifying and non-qualifying cycles, or the call must raise")
ASSUMPTIONS = ["feature values and thresholds are compared exactly (order on float64 = order on the rationals)"]
FEATS = ['amp_fraction', 'amp_consistency', 'period_consistency', 'monotonicity']
KEYS = [f + '_threshold' for f in FEATS] + ['min_n_cycles']
DOC_DEFAULTS = {'amp_fraction_threshold': 0.0, 'amp_consistency_threshold': 0.5, 'period_consistency_threshold': 0.5,
                'monotonicity_threshold': 0.8, 'min_n_cycles': 3}
BATCH = 400

def regen_slots():
    import slots
    return slots.regenerate()

def _enc_rows(rows):
    return '[' + ','.join('[' + ','.join(proto.enc_rat(v) for v in r) + ']' for r in rows) + ']'

def _enc_th(th):
    return '[' + ','.join(proto.enc_rat(th[k]) for k in KEYS) + ']'

def _slot_defaults():
    import slots
    S = slots.Slots()
    out = {}
    slots.detect_slots(S)
    import ast
    d = slots._defaults(slots._func('bycycle/burst/cycle.py', 'detect_bursts_cycles'))
    return {k: d.get(k, DOC_DEFAULTS[k]) for k in KEYS}

def _impl_table(rows, th):
    from bycycle.burst import detect_bursts_cycles
    df = pd.DataFrame({f: np.array([r[i] for r in rows], dtype=float) for i, f in enumerate(FEATS)})
    if len(rows) % 3 == 1:       # row labels that are not positions (a window of a larger table, filtered rows)
        df.index = np.arange(len(rows))[::-1] * 2 + 5
    try:
        with warnings.catch_warnings():
            warnings.simplefilter('ignore')
            if len(rows) % 4 == 2:       # option values as numpy scalars
                import implutil as _iu; th = _iu.np_scalars(th)
            if len(rows) % 5 == 3 and len(rows) >= 2:
                # a RE-LABELLING history with the same thresholds: the table was labelled before, then its feature values were edited in place
                # (here: it first held the rows in reverse order), or it is a window cut out of a longer labelled table; the labels are those of the
                # values the table holds NOW
                if len(rows) % 2 == 1:
                    vals = {f: df[f].values.copy() for f in FEATS}
                    for f in FEATS: df[f] = vals[f][::-1]
                    df = detect_bursts_cycles(df, **th)
                    for f in FEATS: df[f] = vals[f]
                else:
                    one = pd.DataFrame({f: [1.0] for f in FEATS})
                    long = pd.concat([one, one, df, one, one], ignore_index=True)
                    long = detect_bursts_cycles(long, **th)
                    df = long.iloc[2:-2]
            out = detect_bursts_cycles(df, **th)
        return ['ok', proto.enc_bits(list(np.asarray(out['is_burst'].values).astype(bool)))]
    except Exception as e:
        return ['err', type(e).__name__]

def _impl_signal(c):
    from bycycle.features import compute_features
    with warnings.catch_warnings():
        warnings.simplefilter('ignore')
        th = dict(c['th']); snap = repr(th)
        # (a settings dictionary shared with the amplitude method may carry its own min_n_cycles in burst_kwargs: the consistency method ignores it)
        bkx = {'min_n_cycles': 7, 'amp_threshes': (1, 2)} if len(c['sig']) % 3 == 0 else None
        df0 = compute_features(proto.hex2arr(c['sig']), c['fs'], implutil.frange(c), center_extrema=c['center'], burst_method='cycles', burst_kwargs=bkx, threshold_kwargs=th)
        # the same thresholds dictionary again (a session / an object re-using its settings)
        df = compute_features(proto.hex2arr(c['sig']), c['fs'], implutil.frange(c), center_extrema=c['center'], burst_method='cycles', threshold_kwargs=th)
        if repr(th) != snap or not df.equals(df0):
            raise AssertionError('second call with the same thresholds dictionary differs')
        # the same thresholds through a Bycycle object with a history, given to the constructor under their documented SHORT names
        dfo = implutil.object_route(proto.hex2arr(c['sig']), c['fs'], implutil.frange(c), c['center'], 'cycles', None, dict(c['th']), None,
                                    True, shorthand=(len(c['sig']) % 2 == 0))
        if not dfo['is_burst'].equals(df['is_burst']):
            raise AssertionError('Bycycle object (history, shorthand threshold names) labels differ from compute_features')
    rows = [[float(df[f].values[i]) for f in FEATS] for i in range(len(df))]
    _impl_signal.df = df
    return rows, ['ok', proto.enc_bits(list(df['is_burst'].values.astype(bool)))]

def _rand_th(rng, vals):
    th = {}
    for k in KEYS[:4]:
        r = rng.random()
        if r < 0.45:
            th[k] = float(rng.choice([0.0, 0.25, 0.5, 0.75, 0.8, 1.0]))
        elif r < 0.85 and len(vals):
            th[k] = float(min(1.0, max(0.0, rng.choice(vals))))
        elif r < 0.93:
            th[k] = float(rng.random())
        else:
            th[k] = float(rng.choice([-0.1, 1.5, -1e-9, 1.0000001]))
    th['min_n_cycles'] = int(rng.choice([0, 1, 2, 3, 3, 4, 5, 8])) if rng.random() < 0.93 else float(rng.choice([-1, -0.5, 2.5]))
    if rng.random() < 0.25:   # partial dictionary: defaults apply
        for k in list(th):
            if rng.random() < 0.4:
                del th[k]
    return th

def _rand_rows(rng, n):
    base = rng.choice([0.0, 0.25, 0.5, 0.75, 0.8, 1.0], size=4)
    rows = []
    for i in range(n):
        r = []
        for j in range(4):
            u = rng.random()
            if u < 0.5:
                v = 1.0 if rng.random() < 0.8 else float(rng.random())
            elif u < 0.7:
                v = float(base[j])
            elif u < 0.8:
                v = float(np.nextafter(base[j], 2.0))
            elif u < 0.88:
                v = float(np.nextafter(base[j], -1.0))
            elif u < 0.94:
                v = float('nan')
            else:
                v = float(rng.random())
            r.append(v)
        rows.append(r)
    return rows, base

def corpus(ctx):
    one = [1.0, 1.0, 1.0, 1.0]
    return [dict(kind='table', rows=[one] * 5, th=dict(DOC_DEFAULTS)),
            dict(kind='table', rows=[], th=dict(DOC_DEFAULTS)),
            dict(kind='table', rows=[], th={'min_n_cycles': -1}),
            dict(kind='table', rows=[one] * 7, th={'amp_consistency_threshold': 1.0}),
            dict(kind='table', rows=[one] * 4 + [[1.0, float('nan'), 1.0, 1.0]] + [one] * 4, th={'min_n_cycles': 3}),
            dict(kind='table', rows=[one] * 7, th={'monotonicity_threshold': 1.2}),
            dict(kind='table', rows=[one] * 7, th={'min_n_cycles': -1})]

def generate(ctx):
    rng = ctx.rng
    cases = []
    for i in range(ctx.scale(1500, 15000)):
        n = int(rng.integers(0, 61)) if rng.random() < 0.9 else int(rng.integers(0, 4))
        rows, base = _rand_rows(rng, n)
        th = _rand_th(rng, base)
        cases.append(dict(kind='table', rows=rows, th=th))
        if rng.random() < 0.3:   # antitonicity pair: raise one threshold
            th2 = dict(th); k = KEYS[int(rng.integers(5))]
            cur = th2.get(k, DOC_DEFAULTS[k])
            th2[k] = (min(1.0, cur + float(rng.choice([0.0, 1e-9, 0.1, 0.3]))) if k != 'min_n_cycles' else cur + int(rng.integers(0, 3)))
            cases.append(dict(kind='antitone', rows=rows, th=th, th2=th2))
    for i in range(ctx.scale(60, 600)):
        s = gen.make_signal(ctx.sub_rng(i))
        th = _rand_th(rng, [0.2, 0.4, 0.6])
        for k in KEYS[:4]:
            if k in th: th[k] = float(min(1.0, max(0.0, th[k])))
        if 'min_n_cycles' in th and th['min_n_cycles'] < 0: th['min_n_cycles'] = 2
        cases.append(dict(kind='signal', sig=proto.arr2hex(s['sig']), fs=s['fs'], f_range=list(s['f_range']),
                          center=str(rng.choice(['peak', 'trough'])), th=th, family=s['family']))
    return cases

def _full(th, defaults):
    return {k: th.get(k, defaults[k]) for k in KEYS}

def evaluate(ctx, cases):
    sd = ctx.notes.get('_slot_defaults')
    if sd is None:
        sd = ctx.notes['_slot_defaults'] = _slot_defaults()
    pre = []; pipes = {}
    for c in cases:
        if c['kind'] == 'signal':
            _impl_signal.df = None
            try:
                rows, impl = _impl_signal(c)
            except Exception as e:
                rows, impl = [], ['err', type(e).__name__]
            pre.append((rows, impl))
            if _impl_signal.df is not None and len(_impl_signal.df):
                # the LABEL projection of the composed Lean model (pipelineCycles) against the table of compute_features
                rq = implutil.pipeline_request(proto.hex2arr(c['sig']), c['fs'], c['f_range'], c['center'], None, None, None, c['th'])
                if rq is not None: pipes[id(c)] = (rq, _impl_signal.df)
        else:
            pre.append((c['rows'], _impl_table(c['rows'], dict(c['th']))))
    reqs = []
    for c, (rows, impl) in zip(cases, pre):
        r = _enc_rows(rows)
        reqs.append('cycles.model %s %s' % (r, _enc_th(_full(c['th'], sd))))
        reqs.append('cycles.spec %s %s' % (r, _enc_th(_full(c['th'], DOC_DEFAULTS))))
        if c['kind'] == 'antitone':
            reqs.append('cycles.spec %s %s' % (r, _enc_th(_full(c['th2'], DOC_DEFAULTS))))
    ans = proto.run_driver(reqs)
    pkeys = list(pipes)
    pipe_ans = dict(zip(pkeys, proto.run_driver([pipes[k][0] for k in pkeys])))
    out = []; j = 0
    for c, (rows, impl) in zip(cases, pre):
        model, spec = ans[j], ans[j + 1]; j += 2
        info = dict(impl=impl, model=model, spec=spec)
        judge_ok = impl == spec
        corr_ok = impl == model
        if c['kind'] == 'antitone':
            spec2 = ans[j]; j += 1
            impl2 = _impl_table(rows, dict(c['th2']))
            info.update(impl2=impl2, spec2=spec2)
            judge_ok = judge_ok and impl2 == spec2
            if impl[0] == 'ok' and impl2[0] == 'ok':   # raising a threshold never adds a label (on the implementation)
                a, b = proto.dec_bits(impl[1]), proto.dec_bits(impl2[1])
                if any(y and not x for x, y in zip(a, b)):
                    judge_ok = False; info['antitone_violated'] = True
        if c['kind'] == 'signal' and impl[0] == 'err':
            judge_ok = False     # valid options on a generated signal must not raise
        if id(c) in pipe_ans and corr_ok:
            pj = implutil.pipeline_projections(pipe_ans[id(c)], pipes[id(c)][1], c['center'], c['th'])
            if pj['labels'] is not None and not pj['labels'].startswith('tie:'):
                corr_ok = False; info['pipeline'] = pj['labels']
            ctx.hist('pipeline labels', 'agrees' if pj['labels'] is None else ('float tie' if pj['labels'].startswith('tie:') else 'differs'))
        nt = impl[0] == 'err' or (impl[0] == 'ok' and '1' in impl[1] and '0' in impl[1][1:-1])
        ctx.hist('kind', c['kind']); ctx.hist('outcome', impl[1] if impl[0] == 'err' else 'ok')
        key = (c['kind'], repr(rows), repr(sorted(c['th'].items())), repr(sorted(c.get('th2', {}).items())))
        out.append(Result(c, judge_ok=judge_ok, corr_ok=corr_ok, sig=hash(key), nontrivial=nt, info=info))
    return out
