"""C17 - interpolated phase is anchored at cyclepoints and monotone between them."""
import itertools, math, warnings
from fractions import Fraction
import numpy as np
from core import Result
import proto, gen, implutil

THEOREMS = ['C17_array', 'C17_anchors', 'C17_range', 'C17_span', 'C17_monotone', 'C17_interp', 'C17_no_cyclepoints']
RULE = ("(a) EXHAUSTIVE: every alternating peak / decay-midpoint / trough / rise-midpoint placement on arrays of length <= N (consecutive extrema >= 2 samples apart, midpoints "
        "inclusively inside their flank, with and without midpoints, cyclepoints on the first / last samples); (a') four directed VERY long arrays (cyclepoints around sample 2^20 and beyond 2^24), judged by a vectorised restatement of the predicate (and against the transcription up to 2^21 samples); results handed out by earlier calls must stay what they were; (b) cyclepoints produced by find_extrema / find_zerox on "
        "generated signals with boundary in {0, 1, 5} (extrema on the last samples, midpoints coinciding with extrema); judge: the Lean predicate phaseJudge (anchors, "
        "range, monotone except the wrap at troughs, finite exactly on the anchor span) on the implementation's output divided by pi/2, tolerance 1e-9; model values within 1e-9; "
        "distinct = distinct cyclepoint sets; non-trivial = at least one peak and one trough")
ASSUMPTIONS = ["phase values are compared in units of pi/2 within 1e-9 (np.interp float arithmetic is outside the theorems)"]
BATCH = 3000
EPS = '1/1000000000'

def regen_slots():
    import slots
    return slots.regenerate()

_KEPT = []

def _judge_long(n, pk, tr, ri, de, pha):
    """the statement on a VERY long array, vectorised (the Lean judge walks lists; beyond 2^21 samples the Lean model is not run either): anchors, range, finite
    exactly on the span, monotone except the wrap at troughs"""
    P = math.pi
    if len(pha) != n: return 'length %d' % len(pha)
    pts = sorted(set(list(pk) + list(tr) + list(ri or []) + list(de or [])))
    first, last = pts[0], pts[-1]
    if not (np.isnan(pha[:first]).all() and np.isnan(pha[last + 1:]).all()): return 'finite outside the span'
    seg = pha[first:last + 1]
    if np.isnan(seg).any(): return 'NaN inside the span'
    if (np.abs(seg) > P + 1e-9).any(): return 'outside [-pi, pi]'
    ext = set(pk) | set(tr)
    for x in (ri or []):
        if x not in ext and abs(pha[x] + P / 2) > 1e-9: return 'rise midpoint %d has phase %r' % (x, pha[x])
    for x in (de or []):
        if x not in ext and abs(pha[x] - P / 2) > 1e-9: return 'decay midpoint %d has phase %r' % (x, pha[x])
    for x in pk:
        if abs(pha[x]) > 1e-9: return 'peak %d has phase %r' % (x, pha[x])
    for x in tr:
        if abs(abs(pha[x]) - P) > 1e-9: return 'trough %d has phase %r' % (x, pha[x])
    trs = set(tr)
    for i in (np.flatnonzero(np.diff(seg) < -1e-9) + first).tolist():
        if not (i in trs or (i + 1) in trs): return 'phase decreases after sample %d, which is not a trough' % i
    return None

def _impl(n, pk, tr, ri, de):
    from bycycle.cyclepoints import extrema_interpolated_phase
    try:
        with warnings.catch_warnings():
            warnings.simplefilter('ignore')
            # index containers as int64 arrays, int32 arrays or plain python lists
            mk = [lambda v: np.array(v, dtype=int), lambda v: np.array(v, dtype=np.int32), lambda v: [int(x) for x in v]][(n + len(pk) + len(tr)) % 3]
            # the recording itself (only its length matters): float64 / int16 / float32 array or a python list of ints
            sig = [np.zeros(n), np.zeros(n, dtype=np.int16), np.zeros(n, dtype=np.float32), [0] * n][(n + 3 * len(pk) + len(tr)) % 4]
            h = (2 * n + len(pk) + 5 * len(tr)) % 5
            if h == 0:
                # a call on a recording of the same length that RAISES half-way came just before (a cyclepoint beyond the recording): whatever work
                # arrays it had started to fill, nothing of it may show up in this call
                try:
                    extrema_interpolated_phase(np.zeros(n), np.array([1, n // 2]), np.array([n // 3, n + 3]), np.array([2]), np.array([n // 4]))
                except Exception:
                    pass
            if h == 1 and len(pk) + len(tr) >= 3:
                # the same cyclepoints handed over OUT OF temporal order (e.g. built from the columns of a cycle table): anchors are assigned by index
                pk, tr = list(pk)[::-1], list(tr[1:]) + list(tr[:1])
                ri = None if ri is None else list(ri)[::-1]; de = None if de is None else list(de[1:]) + list(de[:1])
            pha = extrema_interpolated_phase(sig, mk(pk), mk(tr), None if ri is None else mk(ri), None if de is None else mk(de))
            # results handed out EARLIER stay what they were (a caller collecting the phases of several channels / epochs of one length)
            for old_arr, old_copy in _KEPT:
                if not np.array_equal(old_arr, old_copy, equal_nan=True):
                    return ['err', 'EarlierResultChanged']
            if n <= 200000: _KEPT.append((pha, pha.copy()))
            if len(_KEPT) > 3: _KEPT.pop(0)
        if n > 200000: return ['okarr', pha]
        return ['ok', [float(x) / (math.pi / 2) for x in pha]]
    except Exception as e:
        return ['err', type(e).__name__]

def _placements(n):
    """all alternating extrema sequences (>= 2 extrema, gaps >= 2) with midpoints inclusively inside flanks"""
    out = []
    for k in range(2, n // 2 + 2):
        for pos in itertools.combinations(range(n), k):
            if any(b - a < 2 for a, b in zip(pos[:-1], pos[1:])):
                continue
            for first_peak in (True, False):
                pk = [p for i, p in enumerate(pos) if (i % 2 == 0) == first_peak]
                tr = [p for i, p in enumerate(pos) if (i % 2 == 0) != first_peak]
                out.append((list(pk), list(tr), list(pos), first_peak))
    return out

def corpus(ctx):
    # pre-fix H: last cyclepoint 1-2 samples from the end -> all-NaN phase
    return [dict(n=12, pk=[2, 8], tr=[5, 10], ri=[7], de=[3, 9]), dict(n=12, pk=[2, 8], tr=[5, 11], ri=None, de=None),
            dict(n=10, pk=[0, 6], tr=[3, 9], ri=[4], de=[1, 7])]

def generate(ctx):
    rng = ctx.rng
    cases = []
    N = ctx.scale(9, 11)
    ctx.notes['exhaustive'] = True
    cnt = 0
    for n in range(3, N + 1):
        for pk, tr, pos, fp in _placements(n):
            cases.append(dict(n=n, pk=pk, tr=tr, ri=None, de=None)); cnt += 1
            # midpoints: one choice per flank from {start, middle, end} patterns, all flanks alike, plus a random one
            for mode in ('start', 'end', 'mid', 'rand'):
                ri, de = [], []
                for j, (a, b) in enumerate(zip(pos[:-1], pos[1:])):
                    m = a if mode == 'start' else b if mode == 'end' else (a + b) // 2 if mode == 'mid' else int(rng.integers(a, b + 1))
                    is_rise = ((j % 2 == 0) != fp)      # flank starts at a trough
                    (ri if is_rise else de).append(m)
                cases.append(dict(n=n, pk=pk, tr=tr, ri=ri, de=de)); cnt += 1
                if mode in ('mid', 'rand') and (pos[0] >= 1 or pos[-1] <= n - 2):
                    # the supplied cyclepoints START and / or END with a midpoint (a segment cut at its zero-crossings): a rise midpoint before a leading peak
                    # (a decay midpoint before a leading trough), and the matching kind after the last extremum; the span runs from the first to the last of them
                    ri2, de2 = list(ri), list(de)
                    last_is_peak = (pos[-1] in pk)
                    if pos[0] >= 1 and (mode == 'mid' or pos[-1] > n - 2):
                        m = (pos[0] - 1) if mode == 'mid' else int(rng.integers(0, pos[0]))
                        (ri2 if fp else de2).insert(0, m)
                    if pos[-1] <= n - 2 and (mode == 'mid' or pos[0] < 1 or rng.random() < 0.5):
                        m = (pos[-1] + 1) if mode == 'mid' else int(rng.integers(pos[-1] + 1, n))
                        (de2 if last_is_peak else ri2).append(m)
                    if (ri2, de2) != (ri, de):
                        cases.append(dict(n=n, pk=pk, tr=tr, ri=ri2, de=de2)); cnt += 1
                if mode == 'rand':      # only ONE kind of midpoint supplied
                    cases.append(dict(n=n, pk=pk, tr=tr, ri=ri, de=None)); cases.append(dict(n=n, pk=pk, tr=tr, ri=None, de=de)); cnt += 2
    ctx.notes['exhaustive_scope'] = 'all alternating extrema placements with gaps >= 2 on arrays of length 3..%d x midpoint patterns {none, start, end, middle, random, leading / trailing midpoints outside the outermost extrema} (%d cases)' % (N, cnt)
    # VERY long recordings (directed): cyclepoints around sample 2^20 (about 17 min at 1 kHz) and beyond 2^24 (index arithmetic in blocks or in single precision)
    for base in (2 ** 20, 2 ** 24):
        cases.append(dict(n=base + 40, pk=[base - 40, base - 6, base + 21], tr=[base - 25, base + 5, base + 33], ri=[base - 12, base + 13], de=[base - 33, base - 1, base + 27], long=True))
        cases.append(dict(n=base + 40, pk=[base - 41, base - 5, base + 20], tr=[base - 24, base + 6, base + 32], ri=None, de=None, long=True))
    from bycycle.cyclepoints import find_extrema, find_zerox
    for i in range(ctx.scale(150, 1500)):
        s = gen.make_signal(ctx.sub_rng(i))
        try:
            pk, tr = implutil.quiet(find_extrema, s['sig'], s['fs'], s['f_range'], boundary=int(rng.choice([0, 0, 1, 5])),
                                    first_extrema=[None, 'peak', 'trough'][int(rng.integers(3))])
            ri, de = find_zerox(s['sig'], pk, tr)
        except Exception:
            continue
        if len(pk) == 0 or len(tr) == 0:
            continue
        use_mid = rng.random() < 0.8
        cases.append(dict(n=len(s['sig']), pk=[int(x) for x in pk], tr=[int(x) for x in tr],
                          ri=[int(x) for x in ri] if use_mid else None, de=[int(x) for x in de] if use_mid else None))
    return cases

def _opt(l):
    return 'None' if l is None else proto.enc_ints(l)

def evaluate(ctx, cases):
    reqs, impls = [], []
    for c in cases:
        impl = _impl(c['n'], c['pk'], c['tr'], c['ri'], c['de'])
        impls.append(impl)
        args = '%d %s %s %s %s' % (c['n'], proto.enc_ints(c['pk']), proto.enc_ints(c['tr']), _opt(c['ri']), _opt(c['de']))
        if c.get('long'):
            reqs += ['phase.model ' + args if c['n'] <= 2 ** 21 else 'ping', 'ping']; continue
        reqs.append('phase.model ' + args)
        if impl[0] == 'ok':
            reqs.append('phase.judge %s %s %s' % (args, proto.enc_list(impl[1]), EPS))
        else:
            reqs.append('ping')
    ans = proto.run_driver(reqs)
    out = []
    tol = Fraction(1, 10**9)
    for i, c in enumerate(cases):
        model, verdict, impl = ans[2 * i], ans[2 * i + 1], impls[i]
        if c.get('long'):
            if impl[0] != 'okarr':
                judge_ok = corr_ok = False; info = dict(impl=impl)
            else:
                pha = impl[1]
                why = _judge_long(c['n'], c['pk'], c['tr'], c['ri'], c['de'], pha)
                judge_ok = why is None; corr_ok = True; info = {} if why is None else dict(judge=why)
                if isinstance(model, list) and model and model[0] == 'ok':       # (up to 2^21 samples the transcription is evaluated as well)
                    pts = sorted(set(c['pk'] + c['tr'] + (c['ri'] or []) + (c['de'] or [])))
                    lo_, hi_ = pts[0] - 3, pts[-1] + 4
                    corr_ok = len(model[1]) == len(pha) and all((a == 'nan' and b != b) or (a != 'nan' and b == b and abs(Fraction(a) - Fraction(float(b) / (math.pi / 2))) <= tol)
                                                               for a, b in zip(model[1][lo_:hi_], pha[lo_:hi_].tolist()))
                    if not corr_ok: info['model'] = 'differs from the transcription around the cyclepoints'
            ctx.hist('midpoints', 'long array')
            out.append(Result(c, judge_ok=judge_ok, corr_ok=corr_ok, sig=repr(sorted(c.items())), nontrivial=True, info=info)); continue
        if impl[0] == 'err':
            judge_ok = False; corr_ok = model[0] == 'err'
            info = dict(impl=impl, model=model[:1])
        else:
            judge_ok = verdict == 'T'
            corr_ok = model[0] == 'ok' and len(model[1]) == len(impl[1]) and all(
                (a == 'nan' and b != b) or (a != 'nan' and b == b and abs(Fraction(a) - Fraction(float(b))) <= tol) for a, b in zip(model[1], impl[1]))
            info = {} if (judge_ok and corr_ok) else dict(impl=impl[1][:40], model=(model[1][:40] if model[0] == 'ok' else model))
        ctx.hist('midpoints', 'both' if (c['ri'] is not None and c['de'] is not None) else 'none' if (c['ri'] is None and c['de'] is None) else 'one kind only')
        ctx.hist('last_point_distance_from_end', min(3, c['n'] - 1 - max(c['pk'] + c['tr'] + (c['ri'] or []) + (c['de'] or []))))
        out.append(Result(c, judge_ok=judge_ok, corr_ok=corr_ok, sig=repr(sorted(c.items())), nontrivial=bool(c['pk'] and c['tr']), info=info))
    return out
