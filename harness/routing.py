"""Call-routing translator (glue code): for every call from one bycycle function / method to another bycycle FUNCTION, which value
reaches which PARAMETER of the callee.  Output: lean/BycycleModel/Generated/SlotsRouting.lean,

    def routes : List (String × String × List (String × String))        -- (caller, callee, [(callee parameter, canonical source)])

re-extracted from /repo's AST on every run.  `BycycleModel/Routing.lean` holds the wiring the hand-written model ASSUMES (which settings
and which intermediate results the composed model functions receive), and `Props/Cxx.lean` prove, by kernel evaluation, that every assumed
route is present in the table read off the source.

Canonical source of an argument expression inside caller F (value-level: copies are the identity):
  constant                          its literal ('next', True, None, 0)
  a parameter of F                  its name (whether or not F rebinds it: `sig = check_sig_dtype(sig)`)
  self.attr                         "self.attr"
  a local assigned exactly once     the canonical source of what it was assigned:  y = x -> x;  y = x.copy() / deepcopy(x) / dict(x) -> x;
                                    y = g(...) -> "<g>";  a, b = g(...) -> "<g>.0", "<g>.1"
  x[c] with a constant c            canon(x) + "[c]"
  y = x.method(...)                 "<x.method>" when x is canonical
  anything else                     "?"   (NOT EXTRACTABLE: a wildcard, the assumed route is then not contradicted; listed in the status)
positional arguments are mapped to the callee's parameter names through its signature, `**d` is recorded as parameter "**".
A caller that no longer calls a callee at all contributes nothing (the Lean side treats an absent (caller, callee) pair as not extractable)."""
import ast, os

REPO = os.environ.get('BYCYCLE_REPO', '/repo')
HERE = os.path.dirname(os.path.abspath(__file__))
LEAN_GEN = os.path.join(os.path.dirname(HERE), 'lean', 'BycycleModel', 'Generated')
MODULES = ['bycycle/objs/fit.py', 'bycycle/features/features.py', 'bycycle/features/shape.py', 'bycycle/features/burst.py', 'bycycle/features/cyclepoints.py',
           'bycycle/cyclepoints/extrema.py', 'bycycle/cyclepoints/zerox.py', 'bycycle/cyclepoints/phase.py',
           'bycycle/burst/cycle.py', 'bycycle/burst/amp.py', 'bycycle/burst/utils.py', 'bycycle/group/features.py', 'bycycle/group/utils.py',
           'bycycle/utils/dataframes.py', 'bycycle/utils/timeseries.py', 'bycycle/utils/checks.py',
           'bycycle/plts/burst.py', 'bycycle/plts/cyclepoints.py', 'bycycle/plts/features.py']
COPY_FUNCS = {'deepcopy', 'copy', 'dict', 'list'}
COPY_METHODS = {'copy'}

def load():
    funcs, methods = {}, {}
    for m in MODULES:
        tree = ast.parse(open(os.path.join(REPO, m)).read())
        for n in tree.body:
            if isinstance(n, ast.FunctionDef):
                funcs[n.name] = n
            elif isinstance(n, ast.ClassDef):
                for k in n.body:
                    if isinstance(k, ast.FunctionDef):
                        methods[n.name + '.' + k.name] = k
    return funcs, methods

def _params(fn):
    a = fn.args
    return [x.arg for x in a.posonlyargs + a.args] + [x.arg for x in a.kwonlyargs]

class Canon:
    def __init__(self, fn):
        self.fn = fn
        self.params = set(_params(fn)) | ({fn.args.kwarg.arg} if fn.args.kwarg else set()) | ({fn.args.vararg.arg} if fn.args.vararg else set())
        self.assigned = {}          # local name -> list of ('val', node) / ('elt', node, i) / ('other',)
        for n in ast.walk(fn):
            if isinstance(n, ast.Assign):
                for t in n.targets:
                    self._target(t, n.value)
            elif isinstance(n, ast.AnnAssign) and n.value is not None:
                self._target(n.target, n.value)
            elif isinstance(n, (ast.AugAssign,)):
                self._other(n.target)
            elif isinstance(n, (ast.For, ast.comprehension)):
                self._other(n.target)
            elif isinstance(n, ast.With):
                for it in n.items:
                    if it.optional_vars is not None: self._other(it.optional_vars)
            elif isinstance(n, ast.NamedExpr):
                self._other(n.target)
    def _other(self, t):
        for x in ast.walk(t):
            if isinstance(x, ast.Name): self.assigned.setdefault(x.id, []).append(('other',))
    def _target(self, t, v):
        if isinstance(t, ast.Name):
            self.assigned.setdefault(t.id, []).append(('val', v))
        elif isinstance(t, (ast.Tuple, ast.List)) and all(isinstance(e, ast.Name) for e in t.elts):
            for i, e in enumerate(t.elts):
                self.assigned.setdefault(e.id, []).append(('elt', v, i))
        else:
            self._other(t)          # (stores into x[k] / x.attr bind no name)
    def of(self, e, depth=0):
        if depth > 6: return '?'
        if isinstance(e, ast.Constant):
            return repr(e.value)
        if isinstance(e, ast.UnaryOp) and isinstance(e.op, ast.USub) and isinstance(e.operand, ast.Constant) and isinstance(e.operand.value, (int, float)):
            return repr(-e.operand.value)
        if isinstance(e, ast.Name):
            if e.id in self.params: return e.id
            a = self.assigned.get(e.id, [])
            if len(a) != 1 or a[0][0] == 'other': return '?'
            if a[0][0] == 'val': return self.of(a[0][1], depth + 1)
            src = self.of(a[0][1], depth + 1)
            return '?' if src == '?' else '%s.%d' % (src, a[0][2])
        if isinstance(e, ast.Attribute):
            if isinstance(e.value, ast.Name) and e.value.id == 'self': return 'self.' + e.attr
            return '?'
        if isinstance(e, ast.Subscript):
            b = self.of(e.value, depth + 1)
            if b != '?' and isinstance(e.slice, ast.Constant): return '%s[%r]' % (b, e.slice.value)
            return '?'
        if isinstance(e, ast.Call):
            f = e.func
            if isinstance(f, ast.Name) and f.id in COPY_FUNCS and len(e.args) == 1 and not e.keywords: return self.of(e.args[0], depth + 1)
            if isinstance(f, ast.Attribute) and f.attr in COPY_FUNCS | COPY_METHODS and isinstance(f.value, ast.Name) and f.value.id in ('copy',) and len(e.args) == 1:
                return self.of(e.args[0], depth + 1)
            if isinstance(f, ast.Attribute) and f.attr in COPY_METHODS and not e.args:
                return self.of(f.value, depth + 1)
            if isinstance(f, ast.Name): return '<%s>' % f.id
            if isinstance(f, ast.Attribute):
                r = self.of(f.value, depth + 1)
                if r != '?' and not r.startswith('<'): return '<%s.%s>' % (r, f.attr)
            return '?'
        return '?'

def extract():
    funcs, methods = load()
    routes, opaque = [], []
    for cname, fn in list(funcs.items()) + list(methods.items()):
        cn = Canon(fn)
        calls = []
        for c in ast.walk(fn):
            if not (isinstance(c, ast.Call) and isinstance(c.func, ast.Name)): continue
            if c.func.id in funcs and c.func.id != cname.split('.')[-1]:
                calls.append((c, c.func.id, list(c.args)))
            elif c.func.id == 'partial' and c.args and isinstance(c.args[0], ast.Name) and c.args[0].id in funcs:
                calls.append((c, c.args[0].id, list(c.args[1:])))          # partial(g, ...): the arguments fixed here reach g
        calls.sort(key=lambda t: (t[0].lineno, t[0].col_offset))
        for c, gname, cargs in calls:
            callee = funcs[gname]
            pos = [x.arg for x in callee.args.posonlyargs + callee.args.args]
            args = []
            for i, a in enumerate(cargs):
                if isinstance(a, ast.Starred): args.append(('*', '?')); continue
                args.append((pos[i] if i < len(pos) else '*%d' % i, cn.of(a)))
            for k in c.keywords:
                args.append((k.arg or '**', cn.of(k.value)))
            for p, v in args:
                if v == '?': opaque.append('%s->%s.%s' % (cname, gname, p))
            routes.append((cname, gname, args))
    return routes, opaque

def lean_str(s): return '"' + s.replace('\\', '\\\\').replace('"', '\\"') + '"'

def render(routes):
    rows = ['  (%s, %s, [%s])' % (lean_str(a), lean_str(b), ', '.join('(%s, %s)' % (lean_str(p), lean_str(v)) for p, v in args)) for a, b, args in routes]
    return ("/- GENERATED by harness/routing.py from /repo (every call from a bycycle function / method to a bycycle function). Do not edit. -/\n"
            "namespace Bycycle.Slots\n\n"
            "/-- (caller, callee, [(callee parameter, canonical source of the argument in the caller)]); \"?\" = not extractable. -/\n"
            "def routes : List (String × String × List (String × String)) := [\n" + ',\n'.join(rows) + "]\n\nend Bycycle.Slots\n")

def regenerate(write_file=True):
    routes, opaque = extract()
    text = render(routes)
    path = os.path.join(LEAN_GEN, 'SlotsRouting.lean')
    rewritten = False
    if write_file:
        try:
            same = open(path).read() == text
        except FileNotFoundError:
            same = False
        if not same:
            with open(path, 'w') as f: f.write(text)
            rewritten = True
    return dict(routes=len(routes), opaque=opaque, rewritten=rewritten)

if __name__ == '__main__':
    rs, op = extract()
    for r in rs: print(r)
    print('opaque:', op)
