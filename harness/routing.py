"""Call-routing translator (glue code): for every call from one bycycle function / method to another bycycle FUNCTION, which value
reaches which PARAMETER of the callee.  Output: lean/BycycleModel/Generated/SlotsRouting.lean,

    def routes : List (String × String × List (String × String))        -- (caller, callee, [(callee parameter, canonical source)])

re-extracted from /repo's AST on every run.  `BycycleModel/Routing.lean` holds the wiring the hand-written model ASSUMES (which settings
and which intermediate results the composed model functions receive), and `Props/Cxx.lean` prove, by kernel evaluation, that every assumed
route is present in the table read off the source.

Canonical source of an argument expression inside caller F (value-level: copies are the identity):
  constant                          its literal ('next', True, None, 0)
  a parameter of F                  its name (whether or not F rebinds it: `sig = check_sig_dtype(sig)`)
  self.attr                         "self.attr"; when the method itself assigns it exactly once (`self.fs = fs`), the canonical source of that value
  a local assigned exactly once     the canonical source of what it was assigned:  y = x -> x;  y = x.copy() / deepcopy(x) / dict(x) -> x;
                                    y = g(...) -> "<g>";  a, b = g(...) -> "<g>.0", "<g>.1"
  x[c] with a constant c            canon(x) + "[c]"
  y = x.method(...)                 "<x.method>" when x is canonical; `self.helper()` (no arguments, one `return`) is the canonical source of what it returns
  anything else                     "?"   (NOT EXTRACTABLE: a wildcard, the assumed route is then not contradicted; listed in the status)
a dict literal with constant keys     "{k1: canon(v1), k2: canon(v2)}" (keys sorted), "?" as soon as one value is
callees: module-level functions (also under an import alias: `from m import f as g`), `partial(g, ...)`, a function-valued local
(`f = g if cond else h`: one route per alternative), constructors of bycycle classes (callee = the class name, parameters of its `__init__`
through the bases), methods on `self` (looked up through the bases; callee "Class.method") and on another receiver when exactly one other bycycle
method has that name.
positional arguments are mapped to the callee's parameter names through its signature, `**d` is recorded as parameter "**".
A caller that no longer calls a callee at all contributes nothing (the Lean side treats an absent (caller, callee) pair as not extractable)."""
import ast, os

REPO = os.environ.get('BYCYCLE_REPO', '/repo')
HERE = os.path.dirname(os.path.abspath(__file__))
LEAN_GEN = os.path.join(os.path.dirname(HERE), 'lean', 'BycycleModel', 'Generated')
MODULES = ['bycycle/objs/fit.py', 'bycycle/features/features.py', 'bycycle/features/shape.py', 'bycycle/features/burst.py', 'bycycle/features/cyclepoints.py',
           'bycycle/cyclepoints/extrema.py', 'bycycle/cyclepoints/zerox.py', 'bycycle/cyclepoints/phase.py',
           'bycycle/burst/cycle.py', 'bycycle/burst/amp.py', 'bycycle/burst/utils.py', 'bycycle/group/features.py', 'bycycle/group/utils.py',
           'bycycle/utils/dataframes.py', 'bycycle/utils/timeseries.py', 'bycycle/utils/checks.py',
           'bycycle/plts/burst.py', 'bycycle/plts/cyclepoints.py', 'bycycle/plts/features.py']
COPY_FUNCS = {'deepcopy', 'copy', 'dict', 'list'}
COPY_METHODS = {'copy'}

CLASSES, ALIASES, MODULE_OF = {}, {}, {}

def load():
    funcs, methods = {}, {}
    CLASSES.clear(); ALIASES.clear(); MODULE_OF.clear()
    for m in MODULES:
        tree = ast.parse(open(os.path.join(REPO, m)).read())
        ALIASES[m] = {}
        for n in tree.body:
            if isinstance(n, ast.FunctionDef):
                funcs[n.name] = n; MODULE_OF[n.name] = m
            elif isinstance(n, ast.ClassDef):
                CLASSES[n.name] = [b.id for b in n.bases if isinstance(b, ast.Name)]
                for k in n.body:
                    if isinstance(k, ast.FunctionDef):
                        methods[n.name + '.' + k.name] = k; MODULE_OF[n.name + '.' + k.name] = m
            elif isinstance(n, ast.ImportFrom):
                for al in n.names:
                    if al.asname and al.asname != al.name: ALIASES[m][al.asname] = al.name        # `from m import f as g`: g IS f
    return funcs, methods

def _resolve_method(methods, cls, name):
    """Class.name looked up through the bases (single inheritance inside bycycle)"""
    seen = set()
    while cls is not None and cls not in seen:
        seen.add(cls)
        if cls + '.' + name in methods: return cls + '.' + name
        bases = CLASSES.get(cls, [])
        cls = bases[0] if bases else None
    return None

def _params(fn):
    a = fn.args
    return [x.arg for x in a.posonlyargs + a.args] + [x.arg for x in a.kwonlyargs]

METHODS = {}

class Canon:
    def __init__(self, fn, cls=None):
        self.fn = fn
        self.cls = cls
        self.params = set(_params(fn)) | ({fn.args.kwarg.arg} if fn.args.kwarg else set()) | ({fn.args.vararg.arg} if fn.args.vararg else set())
        self.assigned = {}          # local name -> list of ('val', node) / ('elt', node, i) / ('other',)
        self.self_assigned = {}     # attribute of self -> list of value nodes assigned to it in this method (plain `self.a = v` statements)
        for n in ast.walk(fn):
            if isinstance(n, ast.Assign):
                for t in n.targets:
                    if isinstance(t, ast.Attribute) and isinstance(t.value, ast.Name) and t.value.id == 'self':
                        self.self_assigned.setdefault(t.attr, []).append(n.value)
            elif isinstance(n, (ast.AugAssign, ast.AnnAssign)) and isinstance(n.target, ast.Attribute) and isinstance(n.target.value, ast.Name) and n.target.value.id == 'self':
                self.self_assigned.setdefault(n.target.attr, []).extend([n.value, n.value])      # (counted twice: not a single plain assignment)
        for n in ast.walk(fn):
            if isinstance(n, ast.Assign):
                for t in n.targets:
                    self._target(t, n.value)
            elif isinstance(n, ast.AnnAssign) and n.value is not None:
                self._target(n.target, n.value)
            elif isinstance(n, (ast.AugAssign,)):
                self._other(n.target)
            elif isinstance(n, (ast.For, ast.comprehension)):
                self._other(n.target)
            elif isinstance(n, ast.With):
                for it in n.items:
                    if it.optional_vars is not None: self._other(it.optional_vars)
            elif isinstance(n, ast.NamedExpr):
                self._other(n.target)
    def _other(self, t):
        for x in ast.walk(t):
            if isinstance(x, ast.Name): self.assigned.setdefault(x.id, []).append(('other',))
    def _target(self, t, v):
        if isinstance(t, ast.Name):
            self.assigned.setdefault(t.id, []).append(('val', v))
        elif isinstance(t, (ast.Tuple, ast.List)) and all(isinstance(e, ast.Name) for e in t.elts):
            for i, e in enumerate(t.elts):
                self.assigned.setdefault(e.id, []).append(('elt', v, i))
        else:
            self._other(t)          # (stores into x[k] / x.attr bind no name)
    def of(self, e, depth=0):
        if depth > 6: return '?'
        if isinstance(e, ast.Constant):
            return repr(e.value)
        if isinstance(e, ast.UnaryOp) and isinstance(e.op, ast.USub) and isinstance(e.operand, ast.Constant) and isinstance(e.operand.value, (int, float)):
            return repr(-e.operand.value)
        if isinstance(e, ast.Name):
            if e.id in self.params: return e.id
            a = self.assigned.get(e.id, [])
            if len(a) != 1 or a[0][0] == 'other': return '?'
            if a[0][0] == 'val': return self.of(a[0][1], depth + 1)
            src = self.of(a[0][1], depth + 1)
            return '?' if src == '?' else '%s.%d' % (src, a[0][2])
        if isinstance(e, ast.Attribute):
            if isinstance(e.value, ast.Name) and e.value.id == 'self':
                # an attribute this very method assigns exactly once (`self.fs = fs` ... `f(self.fs)`) is the value it was assigned: `f(self.fs)` and `f(fs)` are one route
                a = self.self_assigned.get(e.attr, [])
                if len(a) == 1 and depth < 6:
                    v = self.of(a[0], depth + 1)
                    if v != '?' and not v.startswith('<'): return v
                return 'self.' + e.attr
            return '?'
        if isinstance(e, ast.Subscript):
            b = self.of(e.value, depth + 1)
            if b != '?' and isinstance(e.slice, ast.Constant): return '%s[%r]' % (b, e.slice.value)
            return '?'
        if isinstance(e, ast.Dict):
            if not all(isinstance(k, ast.Constant) and isinstance(k.value, str) for k in e.keys): return '?'
            items = sorted((k.value, self.of(v, depth + 1)) for k, v in zip(e.keys, e.values))
            if any(v == '?' for _, v in items): return '?'
            return '{' + ', '.join('%s: %s' % kv for kv in items) + '}'
        if isinstance(e, ast.Call):
            f = e.func
            if isinstance(f, ast.Name) and f.id in COPY_FUNCS and len(e.args) == 1 and not e.keywords: return self.of(e.args[0], depth + 1)
            if isinstance(f, ast.Attribute) and f.attr in COPY_FUNCS | COPY_METHODS and isinstance(f.value, ast.Name) and f.value.id in ('copy',) and len(e.args) == 1:
                return self.of(e.args[0], depth + 1)
            if isinstance(f, ast.Attribute) and f.attr in COPY_METHODS and not e.args:
                return self.of(f.value, depth + 1)
            if isinstance(f, ast.Name): return '<%s>' % f.id
            if isinstance(f, ast.Attribute):
                if isinstance(f.value, ast.Name) and f.value.id == 'self' and not e.args and not e.keywords and self.cls and depth < 5:
                    # `self.helper()` without arguments whose body has ONE return: the value it returns, read in the helper (a private method that only
                    # collects stored settings, `return {'center_extrema': self.center_extrema, ...}`, is transparent)
                    tgt = _resolve_method(METHODS, self.cls, f.attr)
                    if tgt is not None:
                        m = METHODS[tgt]
                        rets = [n for n in ast.walk(m) if isinstance(n, ast.Return)]
                        if len(rets) == 1 and rets[0].value is not None and len(_params(m)) == 1:
                            v = Canon(m, tgt.split('.')[0]).of(rets[0].value, depth + 1)
                            if v != '?' and not v.startswith('<'): return v
                r = self.of(f.value, depth + 1)
                if r != '?' and not r.startswith('<'): return '<%s.%s>' % (r, f.attr)
            return '?'
        return '?'

def extract():
    funcs, methods = load()
    routes, opaque = [], []
    METHODS.clear(); METHODS.update(methods)
    for cname, fn in list(funcs.items()) + list(methods.items()):
        cn = Canon(fn, cname.split('.')[0] if '.' in cname else None)
        calls = []
        al = ALIASES.get(MODULE_OF.get(cname), {})
        own_cls = cname.split('.')[0] if '.' in cname else None
        def fname(x):
            x = al.get(x, x)
            return x if x in funcs else None
        for c in ast.walk(fn):
            if not isinstance(c, ast.Call): continue
            if isinstance(c.func, ast.Name):
                g = fname(c.func.id)
                if g is not None and g != cname:
                    calls.append((c, g, list(c.args), funcs[g], False))
                elif c.func.id == 'partial' and c.args and isinstance(c.args[0], ast.Name) and fname(c.args[0].id):
                    g = fname(c.args[0].id)
                    calls.append((c, g, list(c.args[1:]), funcs[g], False))          # partial(g, ...): the arguments fixed here reach g
                elif c.func.id in CLASSES:                                            # a constructor: the arguments reach Class.__init__ (through the bases)
                    init = _resolve_method(methods, c.func.id, '__init__')
                    if init: calls.append((c, c.func.id, list(c.args), methods[init], True))
                else:
                    # a function-valued local: `f = g if cond else h` ... `f(...)` calls g or h with these arguments
                    a = cn.assigned.get(c.func.id, [])
                    if len(a) == 1 and a[0][0] == 'val' and isinstance(a[0][1], ast.IfExp):
                        for alt in (a[0][1].body, a[0][1].orelse):
                            if isinstance(alt, ast.Name) and fname(alt.id):
                                calls.append((c, fname(alt.id), list(c.args), funcs[fname(alt.id)], False))
            elif isinstance(c.func, ast.Attribute):
                # a method call: on self through the class and its bases; on another receiver when exactly one OTHER bycycle method has this name
                mname = c.func.attr
                if isinstance(c.func.value, ast.Name) and c.func.value.id == 'self' and own_cls:
                    tgt = _resolve_method(methods, own_cls, mname)
                else:
                    cands = sorted(k for k in methods if k.split('.')[1] == mname and k != cname)
                    tgt = cands[0] if len(cands) == 1 else None
                if tgt and tgt != cname and not mname.startswith('__'):
                    calls.append((c, tgt, list(c.args), methods[tgt], True))
        calls.sort(key=lambda t: (t[0].lineno, t[0].col_offset))
        for c, gname, cargs, callee, is_method in calls:
            pos = [x.arg for x in callee.args.posonlyargs + callee.args.args]
            if is_method and pos and pos[0] == 'self': pos = pos[1:]
            args = []
            for i, a in enumerate(cargs):
                if isinstance(a, ast.Starred): args.append(('*', '?')); continue
                args.append((pos[i] if i < len(pos) else '*%d' % i, cn.of(a)))
            for k in c.keywords:
                args.append((k.arg or '**', cn.of(k.value)))
            for p, v in args:
                if v == '?': opaque.append('%s->%s.%s' % (cname, gname, p))
            routes.append((cname, gname, args))
    return routes, opaque

def lean_str(s): return '"' + s.replace('\\', '\\\\').replace('"', '\\"') + '"'

def render(routes):
    rows = ['  (%s, %s, [%s])' % (lean_str(a), lean_str(b), ', '.join('(%s, %s)' % (lean_str(p), lean_str(v)) for p, v in args)) for a, b, args in routes]
    return ("/- GENERATED by harness/routing.py from /repo (every call from a bycycle function / method to a bycycle function). Do not edit. -/\n"
            "namespace Bycycle.Slots\n\n"
            "/-- (caller, callee, [(callee parameter, canonical source of the argument in the caller)]); \"?\" = not extractable. -/\n"
            "def routes : List (String × String × List (String × String)) := [\n" + ',\n'.join(rows) + "]\n\nend Bycycle.Slots\n")

def regenerate(write_file=True):
    routes, opaque = extract()
    text = render(routes)
    path = os.path.join(LEAN_GEN, 'SlotsRouting.lean')
    rewritten = False
    if write_file:
        try:
            same = open(path).read() == text
        except FileNotFoundError:
            same = False
        if not same:
            with open(path, 'w') as f: f.write(text)
            rewritten = True
    return dict(routes=len(routes), opaque=opaque, rewritten=rewritten)

if __name__ == '__main__':
    rs, op = extract()
    for r in rs: print(r)
    print('opaque:', op)
