"""Wire protocol shared with lean/BycycleModel/Wire.lean, and the driver process."""
import os, subprocess, tempfile
from fractions import Fraction
import numpy as np

LEAN_DIR = os.path.join(os.path.dirname(os.path.dirname(os.path.abspath(__file__))), 'lean')
DRIVER = os.path.join(LEAN_DIR, '.lake', 'build', 'bin', 'driver')

# ---------------------------------------------------------------- encoding
def enc_int(i):
    return str(int(i))

def enc_rat(x):
    """exact: every finite float64 is a dyadic rational."""
    if x is None:
        return 'nan'
    if isinstance(x, (int, np.integer)):
        return str(int(x))
    if isinstance(x, (float, np.floating)):
        x = float(x)
        if x != x:
            return 'nan'
        if x in (float('inf'), float('-inf')):
            raise ValueError('inf cannot be shipped')
        n, d = x.as_integer_ratio()
        return str(n) if d == 1 else '%d/%d' % (n, d)
    if isinstance(x, Fraction):
        return str(x.numerator) if x.denominator == 1 else '%d/%d' % (x.numerator, x.denominator)
    raise TypeError(type(x))

def enc_opt(x, f=enc_rat):
    return 'None' if x is None else f(x)

def enc_bool(b):
    return 'T' if b else 'F'

def enc_bits(bs):
    s = ''.join('1' if b else '0' for b in bs)
    return s if s else 'e'

def enc_list(xs, f=enc_rat):
    if isinstance(xs, np.ndarray) and f is enc_rat:
        xs = xs.tolist()
    return '[' + ','.join(f(x) for x in xs) + ']'

def enc_ints(xs):
    return '[' + ','.join(str(int(x)) for x in xs) + ']'

# ---------------------------------------------------------------- decoding
def parse_v(s):
    """parse one rendered V into nested python lists of str atoms."""
    pos = 0
    def val():
        nonlocal pos
        if s[pos] == '[':
            pos += 1
            items = []
            if s[pos] == ']':
                pos += 1
                return items
            while True:
                items.append(val())
                if s[pos] == ',':
                    pos += 1
                elif s[pos] == ']':
                    pos += 1
                    return items
                else:
                    raise ValueError('bad V at %d: %r' % (pos, s[:80]))
        start = pos
        while pos < len(s) and s[pos] not in ',[]':
            pos += 1
        return s[start:pos]
    v = val()
    if pos != len(s):
        raise ValueError('trailing input in V: %r' % s[:80])
    return v

def dec_rat(a):
    if a == 'nan':
        return None
    return Fraction(a)

def dec_bits(a):
    return [] if a == 'e' else [c == '1' for c in a]

def dec_bool(a):
    return {'T': True, 'F': False}[a]

def dec_except(v):
    """[ok, x] -> ('ok', x); [err, E] -> ('err', E)"""
    if isinstance(v, list) and len(v) == 2 and v[0] in ('ok', 'err'):
        return v[0], v[1]
    raise ValueError('not an Except value: %r' % (v,))

# ---------------------------------------------------------------- driver
class DriverError(Exception):
    pass

def run_driver(lines, timeout=600):
    """send request lines to the compiled Lean driver, return parsed answers (one per line)."""
    if not lines:
        return []
    if not os.path.exists(DRIVER):
        raise DriverError('driver not built: ' + DRIVER)
    data = ('\n'.join(lines) + '\n').encode()
    p = subprocess.run([DRIVER], input=data, stdout=subprocess.PIPE, stderr=subprocess.PIPE, timeout=timeout)
    if p.returncode != 0:
        raise DriverError('driver exit %d: %s' % (p.returncode, p.stderr.decode()[-400:]))
    out = p.stdout.decode().split('\n')
    if out and out[-1] == '':
        out.pop()
    if len(out) != len(lines):
        raise DriverError('driver answered %d lines for %d requests' % (len(out), len(lines)))
    res = []
    for req, o in zip(lines, out):
        v = parse_v(o)
        if isinstance(v, list) and v and v[0] == 'bad-request':
            raise DriverError('driver rejected request %r: %r' % (req[:120], v))
        res.append(v)
    return res

# ---------------------------------------------------------------- float <-> json
def f2hex(x):
    return float(x).hex()

def hex2f(s):
    return float.fromhex(s)

def arr2hex(a):
    return [float(x).hex() for x in np.asarray(a, dtype=float).ravel()]

def hex2arr(l):
    return np.array([float.fromhex(s) for s in l], dtype=float)
