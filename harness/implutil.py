"""helpers around the real bycycle API shared by several property modules"""
import warnings
import numpy as np

PEAK_COLS = ['sample_peak', 'sample_last_zerox_decay', 'sample_zerox_decay', 'sample_zerox_rise', 'sample_last_trough', 'sample_next_trough']
# documented renaming for trough-centred tables (the statement's side of the mirror relation)
TROUGH_COLS = ['sample_trough', 'sample_last_zerox_rise', 'sample_zerox_rise', 'sample_zerox_decay', 'sample_last_peak', 'sample_next_peak']

def sample_rows(df, center):
    """rows in the peak-centred field order of the Lean SampleRow, read through the documented renaming"""
    cols = PEAK_COLS if center == 'peak' else TROUGH_COLS
    return [[int(df[c].values[i]) for c in cols] for i in range(len(df))]

def enc_rows(rows):
    return '[' + ','.join('[' + ','.join(str(int(v)) for v in r) + ']' for r in rows) + ']'

def quiet(f, *a, **k):
    with warnings.catch_warnings():
        warnings.simplefilter('ignore')
        return f(*a, **k)

def strict_env(f, *a, **k):
    """the call inside a process-wide STRICT floating-point error state (np.seterr(all='raise'), as a caller hunting NaNs would set): the library
    shields its own 0/0 and x/0 ratios, so the outcome must not depend on the caller's error state"""
    with warnings.catch_warnings():
        warnings.simplefilter('ignore')
        with np.errstate(all='raise'):
            return f(*a, **k)

def fe_kwargs(fk, boundary=None, pad=None):
    d = {}
    if fk is not None:
        d['filter_kwargs'] = dict(fk)
    if boundary is not None:
        d['boundary'] = boundary
    if pad is not None:
        d['pad'] = pad
    return d or None

# ---------------------------------------------------------------- history / aliasing guard used by several property modules
import pickle as _pickle
import pandas as _pd

class HistoryDependence(AssertionError):
    pass

def _snap(o):
    return o.copy(deep=True) if isinstance(o, _pd.DataFrame) else _pickle.dumps(o, protocol=4)

def _unchanged(o, s):
    if isinstance(o, _pd.DataFrame):
        return list(o.columns) == list(s.columns) and list(o.index) == list(s.index) and o.equals(s)
    return _pickle.dumps(o, protocol=4) == s

def same_result(a, b):
    if isinstance(a, _pd.DataFrame):
        return isinstance(b, _pd.DataFrame) and list(a.columns) == list(b.columns) and a.equals(b)
    if isinstance(a, (list, tuple)):
        return isinstance(b, (list, tuple)) and len(a) == len(b) and all(same_result(x, y) for x, y in zip(a, b))
    if isinstance(a, np.ndarray):
        return isinstance(b, np.ndarray) and a.shape == b.shape and bool(np.array_equal(a, b, equal_nan=(a.dtype.kind == 'f')))
    return a == b

def twice(f, shared, what='call'):
    """call f() twice with the SAME argument objects `shared` (list); they must be left as they were and the
    second result must equal the first (a session / an object re-using its settings). Returns the first result."""
    snaps = [_snap(o) for o in shared]
    r1 = f()
    for o, s in zip(shared, snaps):
        if not _unchanged(o, s):
            raise HistoryDependence('%s modified an argument object of type %s' % (what, type(o).__name__))
    r2 = f()
    if not same_result(r1, r2):
        raise HistoryDependence('%s repeated with the same argument objects returns a different result' % what)
    return r1


class _SubArray(np.ndarray):
    pass

PRESENTATIONS = ['array', 'list', 'series', 'readonly', 'strided', 'subclass', 'masked']

def present(x, mode):
    """the same sample values handed over as another legal container / memory layout"""
    import pandas as pd
    if mode in (None, 'array'): return x
    if mode == 'list': return [float(v) for v in x] if x.dtype.kind == 'f' else x.tolist()
    if mode == 'series': return pd.Series(x)
    if mode == 'readonly':
        y = x.copy(); y.flags.writeable = False; return y
    if mode == 'strided':
        buf = np.empty(2 * len(x), dtype=x.dtype); buf[::2] = x; buf[1::2] = 12345; return buf[::2]
    if mode == 'subclass':        # an ndarray subclass (np.memmap, a units array, ...): np.asarray(y) is a NEW object sharing y's memory
        return x.copy().view(_SubArray)
    if mode == 'masked':          # a numpy masked array with some samples flagged: the library analyses the recorded voltages (np.asarray drops the mask)
        return np.ma.MaskedArray(x.copy(), mask=(np.arange(len(x)) % 7 == 3))
    raise ValueError(mode)

def pick_presentation(rng, p=0.3):
    return str(rng.choice(PRESENTATIONS[1:])) if rng.random() < p else 'array'

def np_scalars(d):
    """option values as numpy scalars (np.int64 / np.float64) instead of python numbers; nested dicts included"""
    if d is None: return None
    out = {}
    for k, v in d.items():
        if isinstance(v, dict): out[k] = np_scalars(v)
        elif isinstance(v, bool): out[k] = v
        elif isinstance(v, int): out[k] = np.int64(v)
        elif isinstance(v, float): out[k] = np.float64(v)
        else: out[k] = v
    return out


def reuse_buffer(fn, sig):
    """`fn(array)` on a buffer that held OTHER samples when it was analysed a moment ago and has been refilled in place
    (an acquisition buffer / an epoch loop): the result must be that of the current contents."""
    sig = np.asarray(sig)
    buf = np.ascontiguousarray(sig[::-1]).copy()
    try:
        quiet(fn, buf)
    except Exception:
        pass
    buf[:] = sig
    return fn(buf)

def _history_plot(bm, sig, fs):
    """the user looks at the result between two fits (one history in three: drawing is slow); a plot may not leave a trace in the object"""
    import zlib as _zlib
    if _zlib.crc32(np.ascontiguousarray(np.asarray(sig)[8:24]).tobytes()) % 3 != 0 or bm.df_features is None or not bm.return_samples: return
    import matplotlib.pyplot as _plt
    try:
        quiet(bm.plot, xlim=(0.0, min(2.0, (len(sig) - 1) / fs)))
    except Exception:
        pass
    finally:
        _plt.close('all')


def object_route(sig, fs, f_range, center, method, bk, th, fek, return_samples=True, shorthand=False, variant=None, which=None):
    """the same analysis through a Bycycle object WITH A HISTORY, one of three kinds (chosen from the samples, or `variant`):
    0/1 'rebinding': constructed with other settings (other centring, boundary 0, a larger min_n_cycles), fitted on the same array object, a plot,
        a rejected edge recomputation, then every setting is edited / rebound to the requested one and the object is fitted again;
    2   'in-place only': constructed with the requested settings except for the VALUES inside its dictionaries (every threshold, the boundary, the
        burst options), fitted on the same array object, then ONLY in-place edits of those dictionaries (no attribute is rebound, the signal object
        is the same), fitted again - whatever the object remembers about its last fit, it must notice the edits;
    3   'buffer': constructed with the requested settings, fitted on a buffer holding OTHER samples, the buffer is refilled in place with the
        requested samples, fitted again on the same buffer object with the same settings.
    With `shorthand`, the thresholds are given to the constructor under their documented short names."""
    import copy as _copy, zlib as _zlib
    from bycycle import Bycycle
    sig = np.asarray(sig)
    if variant is None:
        variant = _zlib.crc32(np.ascontiguousarray(sig[4:20]).tobytes()) % 4
    short = lambda d: None if d is None else {((k[:-len('_threshold')] if shorthand and k.endswith('_threshold') else k)): v for k, v in d.items()}
    if variant == 2:
        # which dictionaries start from other values: the thresholds only / the extrema and burst options only / all of them
        if which is None: which = _zlib.crc32(np.ascontiguousarray(sig[-24:-8]).tobytes()) % 3
        if th is None: which = 1
        th0 = short(th)
        if th is not None and which in (0, 2):          # other VALUES under the same keys (valid ones: fractions stay in [0, 1], counts stay >= 0)
            th0 = short({k: ((v + 5) if k == 'min_n_cycles' else (type(v)(0.25) if float(v) != 0.25 else type(v)(0.75))) for k, v in th.items()})
        fek0 = _copy.deepcopy(fek); bk0 = _copy.deepcopy(bk)
        if which in (1, 2):
            if fek0 is not None and 'boundary' in fek0: fek0['boundary'] = fek0['boundary'] + 7
            if fek0 is not None and isinstance(fek0.get('filter_kwargs'), dict) and fek0['filter_kwargs'].get('n_cycles') is not None: fek0['filter_kwargs']['n_cycles'] = fek0['filter_kwargs']['n_cycles'] + 1
            if bk0 is not None and 'amp_threshes' in bk0: bk0['amp_threshes'] = (0.5, 3.0)
            if bk0 is not None and 'min_n_cycles' in bk0: bk0['min_n_cycles'] = bk0['min_n_cycles'] + 2
        bm = quiet(Bycycle, center_extrema=center, burst_method=method, burst_kwargs=bk0, thresholds=th0, find_extrema_kwargs=fek0, return_samples=return_samples)
        try:
            quiet(bm.fit, sig, fs, f_range)
        except Exception:
            pass
        if th is not None:          # (the object stores the thresholds under their FULL names)
            for k, v in th.items(): bm.thresholds[k] = v
        if fek is not None and 'boundary' in fek: bm.find_extrema_kwargs['boundary'] = fek['boundary']
        if fek is not None and isinstance(fek.get('filter_kwargs'), dict) and 'n_cycles' in fek['filter_kwargs']: bm.find_extrema_kwargs['filter_kwargs']['n_cycles'] = fek['filter_kwargs']['n_cycles']
        if bk is not None:
            for k in ('amp_threshes', 'min_n_cycles'):
                if k in bk: bm.burst_kwargs[k] = bk[k]
        _history_plot(bm, sig, fs)          # (the old table drawn with the edited thresholds: whatever the plot does to them shows in the fit that follows)
        quiet(bm.fit, sig, fs, f_range)
        return bm.df_features
    if variant == 3:
        buf = np.ascontiguousarray(sig[::-1]).copy()            # other samples (the recording backwards), same length and type
        if len(buf) > 8: buf[: len(buf) // 2] = buf[: len(buf) // 2] // 2 if buf.dtype.kind in 'iub' else buf[: len(buf) // 2] * 0.5
        bm = quiet(Bycycle, center_extrema=center, burst_method=method, burst_kwargs=_copy.deepcopy(bk), thresholds=short(th), find_extrema_kwargs=_copy.deepcopy(fek),
                   return_samples=return_samples)
        try:
            quiet(bm.fit, buf, fs, f_range)
        except Exception:
            pass
        _history_plot(bm, buf, fs)
        try:
            quiet(bm.recompute_edges, 0.0625)
        except Exception:
            pass
        buf[:] = sig
        quiet(bm.fit, buf, fs, f_range)
        return bm.df_features
    th0 = None; edit_min_n = False
    if th is not None:
        th0 = short(th)
        # half of the histories start from a LARGER min_n_cycles that is edited in place before the second fit; the other half hold the
        # requested value from the start and never touch it again (so that nothing else may)
        edit_min_n = _zlib.crc32(np.ascontiguousarray(sig[:16]).tobytes()) % 2 == 0
        if 'min_n_cycles' in th0 and edit_min_n: th0['min_n_cycles'] = th0['min_n_cycles'] + 5
    # half of the histories hand the requested find_extrema_kwargs to the CONSTRUCTOR (and keep them), the other half start from other
    # ones and rebind the attribute before the second fit
    ctor = _zlib.crc32(np.ascontiguousarray(sig[-16:]).tobytes()) % 2 == 0
    ctor_fek = fek if ctor else {'filter_kwargs': {'n_cycles': 3}, 'boundary': 0}
    bm = quiet(Bycycle, center_extrema=('trough' if center == 'peak' else 'peak'), burst_method=method,
               burst_kwargs=(None if bk is None else _copy.deepcopy(bk)), thresholds=th0,
               find_extrema_kwargs=ctor_fek, return_samples=True)          # (the plot below needs the sample columns)
    try:
        quiet(bm.fit, sig, fs, f_range)
        # ... the user looks at the result and tries an edge recomputation that is rejected (reduction far too large): neither may leave a trace
    except Exception:
        pass
    if _zlib.crc32(np.ascontiguousarray(sig[8:24]).tobytes()) % 4 == 0:       # (one history in four: drawing is slow)
        import matplotlib.pyplot as _plt
        try:
            quiet(bm.plot, xlim=(0.0, min(2.0, (len(sig) - 1) / fs)))
        except Exception:
            pass
        finally:
            _plt.close('all')
    for red_ in (10.0, 0.0625):       # (a rejected reduction, then a small one that may succeed: whatever it lowers is lowered for THAT call only)
        try:
            quiet(bm.recompute_edges, red_)
        except Exception:
            pass
    bm.center_extrema = center
    bm.return_samples = return_samples
    if not ctor:
        if fek is not None: bm.find_extrema_kwargs = fek
        else: bm.find_extrema_kwargs = {'filter_kwargs': {'n_cycles': 3}}
    if th is not None and 'min_n_cycles' in th and edit_min_n: bm.thresholds['min_n_cycles'] = th['min_n_cycles']       # in-place edit
    quiet(bm.fit, sig, fs, f_range)
    return bm.df_features


def user_columns(df):
    """the table with columns a USER added: an object-typed one, a boolean one, a float one and an integer one whose name starts like a feature; every table
    function must carry them along untouched. (No name contains 'sample_': epoch_df shifts every column whose name CONTAINS it - the library's own tables
    have no such column outside the sample_ prefix, so that is not a violation of C13 as stated; split / drop use the prefix, see C18.)"""
    df = df.copy(); n = len(df)
    df['subject'] = np.array(['s%d' % (i % 3) for i in range(n)], dtype=object)
    df['is_ok'] = np.arange(n) % 2 == 0
    df['rate_factor'] = np.arange(n) * 0.5 + 100.0
    df['volt_note'] = np.arange(n)[::-1].astype(np.int64)
    return df


def frange(c):
    """the band of a case as the caller might hold it: a tuple of python numbers, a LIST, or a tuple of numpy float64 scalars (the same values)"""
    fr = c['f_range']; k = (len(c.get('sig', '')) + int(c.get('fs', 0) or 0)) % 4
    if k == 1: return [fr[0], fr[1]]
    if k == 2: return tuple(None if v is None else np.float64(v) for v in fr)
    return (fr[0], fr[1])


def raised_in_kernel(e):
    """the exception left bycycle's own code and was raised inside neurodsp (filter validation, dual-threshold detector): kernel-refused"""
    tb = e.__traceback__; files = []
    while tb is not None:
        files.append(tb.tb_frame.f_code.co_filename); tb = tb.tb_next
    last_own = max([i for i, f in enumerate(files) if '/bycycle/' in f] or [-1])
    return any(('/neurodsp/' in f and '/neurodsp/utils/checks' not in f) for f in files[last_own + 1:])


def last_own_function(e):
    """name of the LAST bycycle function on the traceback (the one that called into the library that raised)"""
    tb = e.__traceback__; name = None
    while tb is not None:
        if '/bycycle/' in tb.tb_frame.f_code.co_filename: name = tb.tb_frame.f_code.co_name
        tb = tb.tb_next
    return name


def layout_nd(a, k):
    """the same 2-D / 3-D array of signals in another memory layout: 0 C-ordered, 1 Fortran-ordered, 2 read-only, 3 a strided view of a wider buffer"""
    k = k % 4
    if k == 1: return np.asfortranarray(a)
    if k == 2:
        b = a.copy(); b.flags.writeable = False; return b
    if k == 3:
        buf = np.full(a.shape[:-1] + (2 * a.shape[-1],), 7.5, dtype=a.dtype); buf[..., ::2] = a; return buf[..., ::2]
    return a


# ---------------------------------------------------------------- pristine-process references
_pristine_pool = None

def _pristine_task(modname, funcname, args, kwargs):
    import importlib, warnings as _w
    mod = importlib.import_module(modname)
    f = mod
    for part in funcname.split('.'):
        f = getattr(f, part)
    with _w.catch_warnings():
        _w.simplefilter('ignore')
        try:
            return ('ok', f(*args, **kwargs))
        except Exception as e:
            return ('err', type(e).__name__ + ': ' + str(e)[:160])

def _pristine_child(conn, modname, funcname, args, kwargs):
    try:
        conn.send(_pristine_task(modname, funcname, args, kwargs))
    except Exception as e:          # (unpicklable result)
        conn.send(('err', 'pristine child: ' + type(e).__name__ + ': ' + str(e)[:120]))
    finally:
        conn.close()

_pristine_ctx = None

def pristine(modname, funcname, *args, **kwargs):
    """run `modname.funcname(*args, **kwargs)` in a process forked from a PRISTINE fork server (bycycle imported, nothing ever called): a reference
    that no earlier call of this session can have influenced (module-level caches, memoised kernels, leaked settings). One non-daemonic process per
    call (the callee may open its own worker pool)."""
    global _pristine_ctx
    import multiprocessing as mp, os as _os
    if _pristine_ctx is None:
        _os.environ.setdefault('MPLBACKEND', 'Agg')
        _pristine_ctx = mp.get_context('forkserver')
        _pristine_ctx.set_forkserver_preload(['numpy', 'pandas', 'bycycle', 'bycycle.features', 'bycycle.group', 'bycycle.plts', 'neurodsp.filt'])
    parent, child = _pristine_ctx.Pipe(duplex=False)
    pr = _pristine_ctx.Process(target=_pristine_child, args=(child, modname, funcname, args, kwargs), daemon=False)
    pr.start(); child.close()
    try:
        res = parent.recv() if parent.poll(300) else ('err', 'pristine child: timeout')
    except EOFError:
        res = ('err', 'pristine child: died')
    pr.join(10)
    if pr.is_alive(): pr.kill()
    return res


def epoch_tables(df, center, epochs, drop_samples=False):
    """expected epoch tables from a Lean `epoch.spec` answer: list of epochs, each a list of [row id, six shifted samples]"""
    cols = PEAK_COLS if center == 'peak' else TROUGH_COLS
    tabs = []
    for ep in epochs:
        rids = [int(r[0]) for r in ep]
        t = df.iloc[rids].reset_index(drop=True).copy()
        for k, col in enumerate(cols):
            t[col] = np.array([int(r[1][k]) for r in ep], dtype=df[col].dtype) if len(ep) else t[col]
        if drop_samples:
            t = t[[c_ for c_ in t.columns if not c_.startswith('sample_')]]
        tabs.append(t)
    return tabs

def epoch_rows_enc(df, center):
    rows = sample_rows(df, center)
    return '[' + ','.join('[%d,[%s]]' % (i, ','.join(str(v) for v in r)) for i, r in enumerate(rows)) + ']'

# ---------------------------------------------------------------- the COMPOSED Lean model against a whole table
TH_DEFAULTS_CYCLES = {'amp_fraction_threshold': 0.0, 'amp_consistency_threshold': 0.5, 'period_consistency_threshold': 0.5, 'monotonicity_threshold': 0.8, 'min_n_cycles': 3}
SHAPE_COLS = ['period', 'time_peak', 'time_trough', 'volt_peak', 'volt_trough', 'time_decay', 'time_rise', 'volt_decay', 'volt_rise', 'volt_amp', 'time_rdsym', 'time_ptsym', 'band_amp']
SHAPE_INT = {0, 1, 2, 5, 6}
FEAT_COLS = ['amp_fraction', 'amp_consistency', 'period_consistency', 'monotonicity']

def _close_atom(fl, atom):
    from fractions import Fraction
    if atom in ('nan', 'inf', '-inf'):
        return (fl != fl) if atom == 'nan' else (fl == float(atom))
    if fl != fl or fl in (float('inf'), float('-inf')): return False
    a, b = Fraction(fl), Fraction(atom)
    return abs(a - b) <= Fraction(1, 10**9) * max(abs(a), abs(b), 1)

def pipeline_request(sig, fs, f_range, center, fk, boundary, pad, th):
    """the driver request `pipeline.model` for compute_features(sig, ..., burst_method='cycles') (None when a kernel refuses the input): the composed
    Lean model `pipelineCycles` (Pipeline.lean) - the object of C01_pipeline, C09_mirror, C10_amplitude, C14_fit_is_pipeline"""
    import kernels, proto
    sig = np.asarray(sig, dtype=float)
    s2 = sig if center == 'peak' else -sig
    try:
        padn, b = kernels.filt_sign(s2, fs, tuple(f_range), fk, True if pad is None else pad)
        amp = kernels.band_amp(s2, fs, tuple(f_range), n_cycles=3)
    except Exception:
        return None
    full = dict(TH_DEFAULTS_CYCLES, **(th or {}))
    return 'pipeline.model %s %s %d %s %s %d [%s]' % (center, proto.enc_list(sig), padn, proto.enc_bits(b), proto.enc_list(amp), 0 if boundary is None else boundary,
                                                      ','.join(proto.enc_rat(full[k]) for k in ('amp_fraction_threshold', 'amp_consistency_threshold', 'period_consistency_threshold',
                                                                                                 'monotonicity_threshold', 'min_n_cycles')))

def pipeline_projections(ans, df, center, th):
    """the composed model's answer against the implementation's whole table, PROJECTION BY PROJECTION (each property's check uses its own):
    {'samples' | 'shape' | 'feats' | 'labels': None (agree) / 'tie: ...' (a discrete decision on a float coincidence) / message}"""
    import proto
    out = dict(samples=None, shape=None, feats=None, labels=None)
    if not (isinstance(ans, list) and ans and ans[0] == 'ok'):
        msg = 'the composed model answers %r although the implementation returned a table' % (ans,)
        return dict(samples=msg, shape=msg, feats=msg, labels=msg)
    _, samples, shape, feats, labels = ans
    if len(shape) != len(df):
        msg = 'row count: composed model %d, implementation %d' % (len(shape), len(df))
        return dict(samples=msg, shape=msg, feats=msg, labels=msg)
    if any(col.startswith('sample_') for col in df.columns):
        rows = [[str(v) for v in row] for row in sample_rows(df, center)]
        if rows != samples: out['samples'] = 'sample columns differ from the composed model'
    for i, row in enumerate(shape):
        for k, col in enumerate(SHAPE_COLS):
            v = df[col].values[i]
            ok = (int(v) == int(row[k]) and float(v) == int(v)) if k in SHAPE_INT else _close_atom(float(v), row[k])
            if not ok and out['shape'] is None: out['shape'] = 'row %d column %s: implementation %r, composed model %s' % (i, col, float(v), row[k])
    if any(col not in df.columns for col in FEAT_COLS + ['is_burst']):      # (a shape-only table)
        return out
    va = sorted(float(v) for v in df['volt_amp'].values)
    near_rank_tie = any(b - a <= 1e-12 * max(abs(a), abs(b)) for a, b in zip(va, va[1:]))      # (equal or nearly equal FLOAT amplitudes: their exact values may be ordered either way)
    for i, row in enumerate(feats):
        for k, col in enumerate(FEAT_COLS):
            if out['feats'] is None and not _close_atom(float(df[col].values[i]), row[k]):
                out['feats'] = ('tie: amplitude ranks (two amplitudes agree to 1e-12 relative)' if col == 'amp_fraction' and near_rank_tie
                                else 'row %d feature %s: implementation %r, composed model %s' % (i, col, float(df[col].values[i]), row[k]))
    have = proto.enc_bits(list(df['is_burst'].values.astype(bool)))
    if have != labels:
        full = dict(TH_DEFAULTS_CYCLES, **(th or {}))
        out['labels'] = 'labels: implementation %s, composed model %s' % (have, labels)
        if out['feats'] is not None and out['feats'].startswith('tie:'): out['labels'] = 'tie: labels follow the amplitude ranks'
        for i in range(len(df)):
            for col in FEAT_COLS:
                v = float(df[col].values[i]); t = float(full[col + '_threshold'])
                if v == v and abs(v - t) <= 1e-9 * max(1.0, abs(t)): out['labels'] = 'tie: %s of row %d within 1e-9 of its threshold' % (col, i)
    return out
