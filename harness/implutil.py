"""helpers around the real bycycle API shared by several property modules"""
import warnings
import numpy as np

PEAK_COLS = ['sample_peak', 'sample_last_zerox_decay', 'sample_zerox_decay', 'sample_zerox_rise', 'sample_last_trough', 'sample_next_trough']
# documented renaming for trough-centred tables (the statement's side of the mirror relation)
TROUGH_COLS = ['sample_trough', 'sample_last_zerox_rise', 'sample_zerox_rise', 'sample_zerox_decay', 'sample_last_peak', 'sample_next_peak']

def sample_rows(df, center):
    """rows in the peak-centred field order of the Lean SampleRow, read through the documented renaming"""
    cols = PEAK_COLS if center == 'peak' else TROUGH_COLS
    return [[int(df[c].values[i]) for c in cols] for i in range(len(df))]

def enc_rows(rows):
    return '[' + ','.join('[' + ','.join(str(int(v)) for v in r) + ']' for r in rows) + ']'

def quiet(f, *a, **k):
    with warnings.catch_warnings():
        warnings.simplefilter('ignore')
        return f(*a, **k)

def fe_kwargs(fk, boundary=None, pad=None):
    d = {}
    if fk is not None:
        d['filter_kwargs'] = dict(fk)
    if boundary is not None:
        d['boundary'] = boundary
    if pad is not None:
        d['pad'] = pad
    return d or None
