"""helpers around the real bycycle API shared by several property modules"""
import warnings
import numpy as np

PEAK_COLS = ['sample_peak', 'sample_last_zerox_decay', 'sample_zerox_decay', 'sample_zerox_rise', 'sample_last_trough', 'sample_next_trough']
# documented renaming for trough-centred tables (the statement's side of the mirror relation)
TROUGH_COLS = ['sample_trough', 'sample_last_zerox_rise', 'sample_zerox_rise', 'sample_zerox_decay', 'sample_last_peak', 'sample_next_peak']

def sample_rows(df, center):
    """rows in the peak-centred field order of the Lean SampleRow, read through the documented renaming"""
    cols = PEAK_COLS if center == 'peak' else TROUGH_COLS
    return [[int(df[c].values[i]) for c in cols] for i in range(len(df))]

def enc_rows(rows):
    return '[' + ','.join('[' + ','.join(str(int(v)) for v in r) + ']' for r in rows) + ']'

def quiet(f, *a, **k):
    with warnings.catch_warnings():
        warnings.simplefilter('ignore')
        return f(*a, **k)

def fe_kwargs(fk, boundary=None, pad=None):
    d = {}
    if fk is not None:
        d['filter_kwargs'] = dict(fk)
    if boundary is not None:
        d['boundary'] = boundary
    if pad is not None:
        d['pad'] = pad
    return d or None

# ---------------------------------------------------------------- history / aliasing guard used by several property modules
import pickle as _pickle
import pandas as _pd

class HistoryDependence(AssertionError):
    pass

def _snap(o):
    return o.copy(deep=True) if isinstance(o, _pd.DataFrame) else _pickle.dumps(o, protocol=4)

def _unchanged(o, s):
    if isinstance(o, _pd.DataFrame):
        return list(o.columns) == list(s.columns) and list(o.index) == list(s.index) and o.equals(s)
    return _pickle.dumps(o, protocol=4) == s

def same_result(a, b):
    if isinstance(a, _pd.DataFrame):
        return isinstance(b, _pd.DataFrame) and list(a.columns) == list(b.columns) and a.equals(b)
    if isinstance(a, (list, tuple)):
        return isinstance(b, (list, tuple)) and len(a) == len(b) and all(same_result(x, y) for x, y in zip(a, b))
    if isinstance(a, np.ndarray):
        return isinstance(b, np.ndarray) and a.shape == b.shape and bool(np.array_equal(a, b, equal_nan=(a.dtype.kind == 'f')))
    return a == b

def twice(f, shared, what='call'):
    """call f() twice with the SAME argument objects `shared` (list); they must be left as they were and the
    second result must equal the first (a session / an object re-using its settings). Returns the first result."""
    snaps = [_snap(o) for o in shared]
    r1 = f()
    for o, s in zip(shared, snaps):
        if not _unchanged(o, s):
            raise HistoryDependence('%s modified an argument object of type %s' % (what, type(o).__name__))
    r2 = f()
    if not same_result(r1, r2):
        raise HistoryDependence('%s repeated with the same argument objects returns a different result' % what)
    return r1
