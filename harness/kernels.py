"""External kernels (neurodsp) recomputed by the harness exactly as the properties define them."""
import warnings
import numpy as np

def filter_len(fs, f_range, filter_kwargs, pass_type='bandpass'):
    from neurodsp.filt.fir import compute_filter_length
    fk = filter_kwargs or {}
    n_seconds = fk.get('n_seconds', None)
    n_cycles = fk.get('n_cycles', None)
    if n_cycles is None and n_seconds is None:
        n_cycles = 3
    return compute_filter_length(fs, pass_type, f_range[0], f_range[1], n_seconds=n_seconds, n_cycles=n_cycles)

def pad_len(fs, f_range, filter_kwargs, pad=True, pass_type='bandpass'):
    return int(np.ceil(filter_len(fs, f_range, filter_kwargs, pass_type) / 2)) if pad else 0

def filt_sign(sig, fs, f_range, filter_kwargs, pad=True, pass_type='bandpass'):
    """(pad, b) with b = sign pattern (> 0) of the band-passed zero-padded signal"""
    from neurodsp.filt import filter_signal
    p = pad_len(fs, f_range, filter_kwargs, pad, pass_type)
    sp = np.pad(np.asarray(sig, dtype=float), p, mode='constant')
    with warnings.catch_warnings():
        warnings.simplefilter('ignore')
        sf = filter_signal(sp, fs, pass_type, f_range, remove_edges=False, **(filter_kwargs or {}))
    if np.isnan(sf).any():
        raise ValueError('filtered signal contains NaN')
    return p, (sf > 0)

def band_amp(sig, fs, f_range, n_cycles=3):
    from neurodsp.timefrequency import amp_by_time
    with warnings.catch_warnings():
        warnings.simplefilter('ignore')
        return amp_by_time(np.asarray(sig, dtype=float), fs, f_range, remove_edges=False, n_cycles=n_cycles)
