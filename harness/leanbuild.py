"""Lean side of a check: regenerate slots, build the driver and the property's theorems,
grep for forbidden constructs, audit axioms.  All lake invocations are serialised by a lock."""
import os, re, subprocess, fcntl, time, glob
from proto import LEAN_DIR

ALLOWED_AXIOMS = {'propext', 'Classical.choice', 'Quot.sound'}
FORBIDDEN = re.compile(r'\b(sorry|admit|native_decide|bv_decide|implemented_by|unsafe)\b|^\s*axiom\s|maxHeartbeats\s+0\b', re.M)

class Lock:
    def __init__(self):
        self.path = os.path.join(LEAN_DIR, '.build.lock')
    def __enter__(self):
        self.f = open(self.path, 'w')
        fcntl.flock(self.f, fcntl.LOCK_EX)
        return self
    def __exit__(self, *a):
        fcntl.flock(self.f, fcntl.LOCK_UN)
        self.f.close()

def _lake(args, timeout=3000):
    p = subprocess.run(['lake'] + args, cwd=LEAN_DIR, stdout=subprocess.PIPE, stderr=subprocess.STDOUT, timeout=timeout)
    return p.returncode, p.stdout.decode(errors='replace')

def strip_comments(src):
    src = re.sub(r'/-.*?-/', '', src, flags=re.S)
    src = re.sub(r'--.*', '', src)
    return src

def local_deps(prop):
    """transitive closure of the project-local imports of Props/<prop>.lean (paths relative to LEAN_DIR)"""
    seen, todo = [], ['Props/%s.lean' % prop]
    while todo:
        rel = todo.pop()
        if rel in seen or not os.path.exists(os.path.join(LEAN_DIR, rel)):
            continue
        seen.append(rel)
        for m in re.finditer(r'^import\s+((?:BycycleModel|Proofs|Props)[\w.]*)', open(os.path.join(LEAN_DIR, rel)).read(), re.M):
            todo.append(m.group(1).replace('.', '/') + '.lean')
    return seen

def grep_forbidden(prop):
    hits = []
    for rel in local_deps(prop):
        src = strip_comments(open(os.path.join(LEAN_DIR, rel)).read())
        for m in FORBIDDEN.finditer(src):
            hits.append('%s: %s' % (rel, m.group(0).strip()))
    return hits

def prepare(prop, theorems, tier='quick', regen=None):
    """returns dict(driver_ok, proof_ok, obligations, discharged, broken, axioms, log, slots)"""
    t0 = time.time()
    res = dict(driver_ok=False, proof_ok=False, obligations=len(theorems), discharged=0, broken=[],
               axioms={}, log='', slots={}, forbidden=[], leanchecker=None)
    with Lock():
        if regen is not None:
            res['slots'] = regen()
        rc, out = _lake(['build', 'driver'])
        res['driver_ok'] = rc == 0
        if rc != 0:
            res['log'] += '--- lake build driver failed\n' + out[-4000:]
            return res
        rc, out = _lake(['build', 'Props.' + prop])
        build_ok = rc == 0
        if not build_ok:
            res['log'] += '--- lake build Props.%s failed\n' % prop + out[-6000:]
        res['forbidden'] = grep_forbidden(prop)
        # axiom audit (only meaningful when the module built)
        if build_ok:
            os.makedirs(os.path.join(LEAN_DIR, '.audit'), exist_ok=True)
            ap = os.path.join(LEAN_DIR, '.audit', prop + '.lean')
            with open(ap, 'w') as f:
                f.write('import Props.%s\n' % prop)
                for t in theorems:
                    f.write('#print axioms Bycycle.%s\n' % t)
            rc, out = _lake(['env', 'lean', ap])
            if rc != 0:
                res['log'] += '--- axiom audit failed\n' + out[-3000:]
            cur = None
            text = out.replace('\n  ', ' ').replace('\n ', ' ')
            for line in text.split('\n'):
                m = re.match(r"'Bycycle\.([\w.]+)' depends on axioms: \[(.*)\]", line.strip())
                if m:
                    res['axioms'][m.group(1)] = [a.strip() for a in m.group(2).split(',') if a.strip()]
                m = re.match(r"'Bycycle\.([\w.]+)' does not depend on any axioms", line.strip())
                if m:
                    res['axioms'][m.group(1)] = []
            for t in theorems:
                ax = res['axioms'].get(t)
                if ax is None:
                    res['broken'].append(t + ' (not found by axiom audit)')
                elif not set(ax) <= ALLOWED_AXIOMS:
                    res['broken'].append(t + ' (axioms %s)' % ax)
                else:
                    res['discharged'] += 1
            if tier == 'thorough':
                rc, out = _lake(['env', 'leanchecker', 'Props.' + prop], timeout=3000)
                res['leanchecker'] = (rc == 0)
                if rc != 0:
                    res['log'] += '--- leanchecker failed\n' + out[-3000:]
                    res['broken'].append('leanchecker Props.' + prop)
        else:
            # name the theorems whose file:line shows up in the error output
            errs = re.findall(r'error: (\S+\.lean):(\d+):\d+', out)
            res['broken'] = ['build error at %s:%s' % e for e in errs[:10]] or ['Props.%s does not build' % prop]
        if res['forbidden']:
            res['broken'].append('forbidden construct: ' + '; '.join(res['forbidden'][:5]))
        res['proof_ok'] = build_ok and not res['broken'] and res['discharged'] == res['obligations']
    res['wall_s'] = time.time() - t0
    return res
