"""Slot translator (DESIGN.md 2.4): re-extract decision literals of /repo's current sources with `ast`
and emit lean/BycycleModel/Generated/Slots*.lean.  Property theorems depend on these files, so they are
re-checked against what the code says now.  A slot whose AST shape is outside the recognised grammar is
NOT a failure: the pinned value is kept and the slot is reported as 'not extractable'."""
import ast, os, sys, json

HERE = os.path.dirname(os.path.abspath(__file__))
LEAN_GEN = os.path.join(os.path.dirname(HERE), 'lean', 'BycycleModel', 'Generated')
REPO = os.environ.get('BYCYCLE_REPO', '/repo')

CMP = {ast.Gt: '.gt', ast.GtE: '.ge', ast.Lt: '.lt', ast.LtE: '.le', ast.Eq: '.eq', ast.NotEq: '.ne'}
FLIP = {'.gt': '.lt', '.ge': '.le', '.lt': '.gt', '.le': '.ge', '.eq': '.eq', '.ne': '.ne'}

def _func(path, name):
    tree = ast.parse(open(os.path.join(REPO, path)).read())
    for n in ast.walk(tree):
        if isinstance(n, ast.FunctionDef) and n.name == name:
            return n
    raise KeyError(name)

def _defaults(fn):
    a = fn.args
    names = [x.arg for x in a.args]
    d = {}
    for nm, dv in zip(names[len(names) - len(a.defaults):], a.defaults):
        d[nm] = ast.literal_eval(dv)
    return d

def _rat(x):
    from fractions import Fraction
    f = Fraction(str(x)) if not isinstance(x, int) else Fraction(x)
    return '(%d : Rat)' % f.numerator if f.denominator == 1 else '((%d : Rat) / %d)' % (f.numerator, f.denominator)

class Slots:
    def __init__(self):
        self.status = {}
    def get(self, name, pinned, thunk):
        try:
            v = thunk()
            if v is None:
                raise ValueError('pattern not found')
            self.status[name] = 'extracted' if v == pinned else 'extracted (differs from pinned %r): %r' % (pinned, v)
            return v
        except Exception as e:
            self.status[name] = 'not extractable (%s: %s); pinned value kept' % (type(e).__name__, e)
            return pinned

# ------------------------------------------------------------------ detect (C06, C07)
def detect_slots(S):
    out = {}
    FEATS = ['amp_fraction', 'amp_consistency', 'period_consistency', 'monotonicity']
    def cyc_fn():
        return _func('bycycle/burst/cycle.py', 'detect_bursts_cycles')
    def cmp_of(feat):
        def th():
            for n in ast.walk(cyc_fn()):
                if isinstance(n, ast.Compare) and len(n.ops) == 1:
                    l, r = n.left, n.comparators[0]
                    if isinstance(l, ast.Subscript) and isinstance(l.slice, ast.Constant) and l.slice.value == feat \
                            and isinstance(r, ast.Name) and r.id == feat + '_threshold':
                        return CMP[type(n.ops[0])]
                    if isinstance(r, ast.Subscript) and isinstance(r.slice, ast.Constant) and r.slice.value == feat \
                            and isinstance(l, ast.Name) and l.id == feat + '_threshold':
                        return FLIP[CMP[type(n.ops[0])]]
            return None
        return th
    for f in FEATS:
        out['cmp_' + f] = S.get('cycles.cmp.' + f, '.gt', cmp_of(f))
    def conj():
        # is_burst = a & b & c & d  over the four comparison results
        fn = cyc_fn()
        targets = {}
        for n in ast.walk(fn):
            if isinstance(n, ast.Assign) and len(n.targets) == 1 and isinstance(n.targets[0], ast.Name) and isinstance(n.value, ast.Compare):
                targets[n.targets[0].id] = n.value
        for n in ast.walk(fn):
            if isinstance(n, ast.Assign) and isinstance(n.value, ast.BinOp):
                names, ops = [], set()
                def flat(e):
                    if isinstance(e, ast.BinOp):
                        ops.add(type(e.op)); flat(e.left); flat(e.right)
                    elif isinstance(e, ast.Name):
                        names.append(e.id)
                    else:
                        raise ValueError('unexpected operand')
                flat(n.value)
                if set(names) == set(FEATS) and len(names) == 4:
                    if ops == {ast.BitAnd}:
                        return 'all'
                    if ops == {ast.BitOr}:
                        return 'any'
                    raise ValueError('mixed operators')
        return None
    out['conj'] = S.get('cycles.conjunction', 'all', conj)
    def forced():
        idx = []
        for n in ast.walk(cyc_fn()):
            if isinstance(n, ast.Assign) and isinstance(n.targets[0], ast.Subscript) and isinstance(n.targets[0].value, ast.Name) \
                    and n.targets[0].value.id == 'is_burst' and isinstance(n.value, ast.Constant) and n.value.value is False:
                idx.append(ast.literal_eval(n.targets[0].slice))
        return sorted(idx) if idx else None
    out['forced'] = S.get('cycles.forced_false', [-1, 0], forced)
    pinned_defaults = {'amp_fraction_threshold': 0.0, 'amp_consistency_threshold': 0.5, 'period_consistency_threshold': 0.5,
                       'monotonicity_threshold': 0.8, 'min_n_cycles': 3}
    out['cyc_defaults'] = S.get('cycles.defaults', pinned_defaults, lambda: _defaults(cyc_fn()))
    def amp_fn():
        return _func('bycycle/burst/amp.py', 'detect_bursts_amp')
    def amp_cmp():
        for n in ast.walk(amp_fn()):
            if isinstance(n, ast.Compare) and len(n.ops) == 1:
                l, r = n.left, n.comparators[0]
                if isinstance(r, ast.Name) and r.id == 'burst_fraction_threshold' and isinstance(l, ast.Name):
                    return CMP[type(n.ops[0])]
                if isinstance(l, ast.Name) and l.id == 'burst_fraction_threshold' and isinstance(r, ast.Name):
                    return FLIP[CMP[type(n.ops[0])]]
        return None
    out['amp_cmp'] = S.get('amp.cmp', '.ge', amp_cmp)
    out['amp_defaults'] = S.get('amp.defaults', {'burst_fraction_threshold': 1, 'min_n_cycles': 3}, lambda: _defaults(amp_fn()))
    def reconcile_default():
        fn = _func('bycycle/features/features.py', 'compute_features')
        for n in ast.walk(fn):
            if isinstance(n, ast.Call) and isinstance(n.func, ast.Attribute) and n.func.attr in ('pop', 'get') and n.args \
                    and isinstance(n.args[0], ast.Constant) and n.args[0].value == 'min_n_cycles' and len(n.args) == 2:
                return ast.literal_eval(n.args[1])
        return None
    out['reconcile_default'] = S.get('features.min_n_cycles_default', 3, reconcile_default)
    def bf_default():
        return _defaults(_func('bycycle/features/burst.py', 'compute_burst_fraction'))['min_n_cycles']
    out['burst_fraction_min_n_default'] = S.get('burst_fraction.min_n_cycles_default', 3, bf_default)
    def duration_test():
        fn = _func('bycycle/features/burst.py', 'compute_burst_fraction')
        for n in ast.walk(fn):
            if isinstance(n, ast.If) and 'min_burst_duration' in ast.unparse(n.test):
                t = ast.unparse(n.test)
                if t == 'min_burst_duration is not None':
                    return '.isNotNone'
                if t == 'min_burst_duration':
                    return '.truthy'
                raise ValueError('test outside grammar: ' + t)
        return None
    out['duration_test'] = S.get('burst_fraction.duration_test', '.isNotNone', duration_test)
    cd, ad = out['cyc_defaults'], out['amp_defaults']
    lean = """/- GENERATED by harness/slots.py from /repo (bycycle/burst/cycle.py, bycycle/burst/amp.py,
   bycycle/features/features.py, bycycle/features/burst.py). Do not edit. -/
import BycycleModel.Basic
namespace Bycycle.Slots

def cyclesCmpAmpFraction : Cmp := %s
def cyclesCmpAmpConsistency : Cmp := %s
def cyclesCmpPeriodConsistency : Cmp := %s
def cyclesCmpMonotonicity : Cmp := %s
/-- `true`: the four criteria are combined with `&`; `false`: with `|`. -/
def cyclesConjAll : Bool := %s
/-- python indices forced to False (negative = from the end). -/
def cyclesForcedFalse : List Int := %s
def cyclesDefaultAmpFraction : Rat := %s
def cyclesDefaultAmpConsistency : Rat := %s
def cyclesDefaultPeriodConsistency : Rat := %s
def cyclesDefaultMonotonicity : Rat := %s
def cyclesDefaultMinN : Rat := %s
def ampCmp : Cmp := %s
def ampDefaultThreshold : Rat := %s
def ampDefaultMinN : Rat := %s
/-- default used when neither dictionary carries `min_n_cycles` (features.py). -/
def reconcileDefaultMinN : Rat := %s
def burstFractionDefaultMinN : Rat := %s
/-- the test that switches the sample-wise detector from cycles to seconds (`if min_burst_duration is not None`). -/
def durationTest : OptTest := %s

end Bycycle.Slots
""" % (out['cmp_amp_fraction'], out['cmp_amp_consistency'], out['cmp_period_consistency'], out['cmp_monotonicity'],
       'true' if out['conj'] == 'all' else 'false',
       '[' + ', '.join(str(i) for i in out['forced']) + ']',
       _rat(cd['amp_fraction_threshold']), _rat(cd['amp_consistency_threshold']), _rat(cd['period_consistency_threshold']),
       _rat(cd['monotonicity_threshold']), _rat(cd['min_n_cycles']),
       out['amp_cmp'], _rat(ad['burst_fraction_threshold']), _rat(ad['min_n_cycles']),
       _rat(out['reconcile_default']), _rat(out['burst_fraction_min_n_default']), out['duration_test'])
    return 'SlotsDetect.lean', lean


# ------------------------------------------------------------------ cyclepoints (C01, C02, C03)
import re as _re
OPTXT = {'>': '.gt', '>=': '.ge', '<': '.lt', '<=': '.le', '==': '.eq', '!=': '.ne'}

def _compare_by_pattern(fn, lhs_rx, rhs_rx):
    """find `lhs op rhs` (or flipped) among the Compare nodes of fn by their unparsed operands"""
    for n in ast.walk(fn):
        if isinstance(n, ast.Compare) and len(n.ops) == 1:
            l, r = ast.unparse(n.left), ast.unparse(n.comparators[0])
            if _re.fullmatch(lhs_rx, l) and _re.fullmatch(rhs_rx, r):
                return CMP[type(n.ops[0])]
            if _re.fullmatch(lhs_rx, r) and _re.fullmatch(rhs_rx, l):
                return FLIP[CMP[type(n.ops[0])]]
    return None

def cyclepoints_slots(S):
    zx = 'bycycle/cyclepoints/zerox.py'; ex = 'bycycle/cyclepoints/extrema.py'
    o = {}
    def pos_cmp(which):
        def th():
            fn = _func(zx, 'find_flank_zerox')
            for n in ast.walk(fn):
                if isinstance(n, ast.Assign) and isinstance(n.value, ast.IfExp) and ast.unparse(n.targets[0]) == 'pos':
                    t = ast.unparse(n.value.test)
                    rise_branch, decay_branch = (n.value.body, n.value.orelse) if t in ("flank == 'rise'",) else \
                        ((n.value.orelse, n.value.body) if t in ("flank == 'decay'",) else (None, None))
                    b = rise_branch if which == 'rise' else decay_branch
                    if isinstance(b, ast.Compare) and len(b.ops) == 1 and ast.unparse(b.left) == 'sig' and ast.unparse(b.comparators[0]) == 'midpoint':
                        return CMP[type(b.ops[0])]
            return None
        return th
    o['risePos'] = S.get('zerox.rise_pos', '.le', pos_cmp('rise'))
    o['decayPos'] = S.get('zerox.decay_pos', '.gt', pos_cmp('decay'))
    def inv_cmp(which):
        def th():
            fn = _func(zx, '_find_flank_midpoints')
            for n in ast.walk(fn):
                if isinstance(n, ast.Assign) and ast.unparse(n.targets[0]) == 'comp' and isinstance(n.value, ast.IfExp):
                    t = ast.unparse(n.value.test)
                    a, b = ast.unparse(n.value.body), ast.unparse(n.value.orelse)
                    if t == "flank == 'decay'":
                        a, b = b, a
                    elif t != "flank == 'rise'":
                        return None
                    nm = a if which == 'rise' else b
                    return {'gt': '.gt', 'lt': '.lt', 'ge': '.ge', 'le': '.le'}.get(nm)
            return None
        return th
    o['riseInv'] = S.get('zerox.rise_inverted', '.gt', inv_cmp('rise'))
    o['decayInv'] = S.get('zerox.decay_inverted', '.lt', inv_cmp('decay'))
    def window_plus():
        fn = _func(zx, '_find_flank_midpoints')
        for n in ast.walk(fn):
            if isinstance(n, ast.Assign) and ast.unparse(n.targets[0]) == 'sig_temp' and isinstance(n.value, ast.Subscript) \
                    and isinstance(n.value.slice, ast.Slice):
                lo, up = ast.unparse(n.value.slice.lower), ast.unparse(n.value.slice.upper)
                if lo != 'extrema_start[idx]':
                    return None
                m = _re.fullmatch(r'extrema_end\[idx \+ idx_bias\](?: \+ (\d+))?', up)
                if m:
                    return int(m.group(1) or 0)
        return None
    o['windowPlus'] = S.get('zerox.window_plus', 1, window_plus)
    fe = lambda: _func(ex, 'find_extrema')
    o['boundLo'] = S.get('extrema.boundary_lo', '.gt', lambda: _compare_by_pattern(fe(), r'peaks', r'boundary'))
    o['boundHi'] = S.get('extrema.boundary_hi', '.lt', lambda: _compare_by_pattern(fe(), r'peaks', r'sig_len - boundary'))
    o['tboundLo'] = S.get('extrema.boundary_lo_troughs', '.gt', lambda: _compare_by_pattern(fe(), r'troughs', r'boundary'))
    o['tboundHi'] = S.get('extrema.boundary_hi_troughs', '.lt', lambda: _compare_by_pattern(fe(), r'troughs', r'sig_len - boundary'))
    o['lastCross'] = S.get('extrema.last_crossing', '.gt', lambda: _compare_by_pattern(fe(), r'rise_xs\[-1\]', r'decay_xs\[-1\]'))
    o['scanDecay'] = S.get('extrema.scan_decay', '.gt', lambda: _compare_by_pattern(fe(), r'decay', r'last_rise'))
    o['scanRise'] = S.get('extrema.scan_rise', '.gt', lambda: _compare_by_pattern(fe(), r'rise', r'last_decay'))
    def branch(test_src):
        for n in ast.walk(fe()):
            if isinstance(n, ast.If) and ast.unparse(n.test) == test_src:
                return ast.Module(body=n.body, type_ignores=[])
        raise ValueError('branch %s not found' % test_src)
    o['trimPF'] = S.get('extrema.trim_peak_first', '.gt', lambda: _compare_by_pattern(branch("first_extrema == 'peak'"), r'peaks\[0\]', r'troughs\[0\]'))
    o['trimPL'] = S.get('extrema.trim_peak_last', '.gt', lambda: _compare_by_pattern(branch("first_extrema == 'peak'"), r'peaks\[-1\]', r'troughs\[-1\]'))
    o['trimTF'] = S.get('extrema.trim_trough_first', '.gt', lambda: _compare_by_pattern(branch("first_extrema == 'trough'"), r'troughs\[0\]', r'peaks\[0\]'))
    o['trimTL'] = S.get('extrema.trim_trough_last', '.gt', lambda: _compare_by_pattern(branch("first_extrema == 'trough'"), r'troughs\[-1\]', r'peaks\[-1\]'))
    def row_slices():
        fn = _func('bycycle/features/cyclepoints.py', 'compute_cyclepoints')
        rows = []
        for n in fn.body:
            if isinstance(n, ast.Assign) and isinstance(n.targets[0], ast.Subscript) and ast.unparse(n.targets[0].value) == 'samples':
                col = ast.literal_eval(n.targets[0].slice)
                v = n.value
                if isinstance(v, ast.Name):
                    rows.append((col, v.id, 0, 0))
                elif isinstance(v, ast.Subscript) and isinstance(v.value, ast.Name) and isinstance(v.slice, ast.Slice) and v.slice.step is None:
                    lo = ast.literal_eval(v.slice.lower) if v.slice.lower is not None else 0
                    up = ast.literal_eval(v.slice.upper) if v.slice.upper is not None else 0
                    if lo < 0 or up > 0:
                        raise ValueError('slice outside grammar')
                    rows.append((col, v.value.id, lo, -up))
                else:
                    raise ValueError('row expression outside grammar')
        return rows or None
    pinned_rows = [('sample_peak', 'peaks', 1, 0), ('sample_last_zerox_decay', 'decays', 0, 1), ('sample_zerox_decay', 'decays', 1, 0),
                   ('sample_zerox_rise', 'rises', 0, 0), ('sample_last_trough', 'troughs', 0, 1), ('sample_next_trough', 'troughs', 1, 0)]
    o['rows'] = S.get('cyclepoints.row_slices', pinned_rows, row_slices)
    rows_lean = ',\n  '.join('("%s", "%s", %d, %d)' % r for r in o['rows'])
    lean = """/- GENERATED by harness/slots.py from /repo (bycycle/cyclepoints/zerox.py, bycycle/cyclepoints/extrema.py,
   bycycle/features/cyclepoints.py). Do not edit. -/
import BycycleModel.Basic
namespace Bycycle.Slots

/-- `pos = sig <= midpoint` for rising flanks: comparator applied as `x cmp midpoint`. -/
def risePosCmp : Cmp := %s
def decayPosCmp : Cmp := %s
/-- inverted-flank test `comp(sig_temp[0], sig_temp[-1])`. -/
def riseInvertedCmp : Cmp := %s
def decayInvertedCmp : Cmp := %s
/-- the `+ 1` that makes the flank window include the end extremum. -/
def flankWindowPlus : Nat := %d
/-- boundary filter `peaks > boundary`, `peaks < sig_len - boundary`. -/
def boundaryLoCmp : Cmp := %s
def boundaryHiCmp : Cmp := %s
def boundaryLoCmpTroughs : Cmp := %s
def boundaryHiCmpTroughs : Cmp := %s
/-- `rise_xs[-1] > decay_xs[-1]`. -/
def lastCrossingCmp : Cmp := %s
/-- `decay > last_rise`, `rise > last_decay` in the advancing scans. -/
def scanDecayCmp : Cmp := %s
def scanRiseCmp : Cmp := %s
/-- `peaks[0] > troughs[0]`, `peaks[-1] > troughs[-1]` in the first_extrema == 'peak' trimming. -/
def trimFirstCmp : Cmp := %s
def trimLastCmp : Cmp := %s
/-- `troughs[0] > peaks[0]`, `troughs[-1] > peaks[-1]` in the first_extrema == 'trough' trimming. -/
def trimFirstCmpTrough : Cmp := %s
def trimLastCmpTrough : Cmp := %s
/-- row assembly of compute_cyclepoints: (column, source array, dropped at the front, dropped at the end). -/
def rowSlices : List (String × String × Nat × Nat) := [
  %s]

end Bycycle.Slots
""" % (o['risePos'], o['decayPos'], o['riseInv'], o['decayInv'], o['windowPlus'], o['boundLo'], o['boundHi'], o['tboundLo'], o['tboundHi'],
       o['lastCross'], o['scanDecay'], o['scanRise'], o['trimPF'], o['trimPL'], o['trimTF'], o['trimTL'], rows_lean)
    return 'SlotsCyclepoints.lean', lean


# ------------------------------------------------------------------ shape renaming (C04, C09)
def _camel(col, strip=''):
    col = col[len(strip):] if strip and col.startswith(strip) else col
    parts = col.split('_')
    return parts[0] + ''.join(x.capitalize() for x in parts[1:])

SHAPE_FIELDS = ['period', 'time_peak', 'time_trough', 'volt_peak', 'volt_trough', 'time_decay', 'time_rise', 'volt_decay', 'volt_rise',
                'volt_amp', 'time_rdsym', 'time_ptsym', 'band_amp']
F_FIELDS = {'time_rdsym', 'time_ptsym', 'band_amp'}
INT_FIELDS = {'period', 'time_peak', 'time_trough', 'time_decay', 'time_rise'}
PEAK_SAMPLES = ['sample_peak', 'sample_last_zerox_decay', 'sample_zerox_decay', 'sample_zerox_rise', 'sample_last_trough', 'sample_next_trough']
TROUGH_SAMPLES = ['sample_trough', 'sample_last_zerox_rise', 'sample_zerox_rise', 'sample_zerox_decay', 'sample_last_peak', 'sample_next_peak']

def shape_slots(S):
    fn = lambda: _func('bycycle/utils/dataframes.py', 'rename_extrema_df')
    def dict_named(name):
        def th():
            for n in ast.walk(fn()):
                if isinstance(n, ast.Assign) and ast.unparse(n.targets[0]) == name and isinstance(n.value, ast.Dict):
                    return ast.literal_eval(n.value)
            return None
        return th
    pin_feat = {'time_peak': 'time_trough', 'time_trough': 'time_peak', 'volt_peak': 'volt_trough', 'volt_trough': 'volt_peak',
                'time_rise': 'time_decay', 'time_decay': 'time_rise', 'volt_rise': 'volt_decay', 'volt_decay': 'volt_rise'}
    pin_samp = {'sample_peak': 'sample_trough', 'sample_zerox_decay': 'sample_zerox_rise', 'sample_zerox_rise': 'sample_zerox_decay',
                'sample_last_zerox_decay': 'sample_last_zerox_rise', 'sample_last_trough': 'sample_last_peak', 'sample_next_trough': 'sample_next_peak'}
    def checked_feat():
        d = dict_named('features_rename_dict')()
        if d is None: return None
        new_names = [d.get(c, c) for c in SHAPE_FIELDS]
        if sorted(new_names) != sorted(SHAPE_FIELDS):
            raise ValueError('feature renaming is not a permutation of the shape columns')
        return d
    def checked_samp():
        d = dict_named('samples_rename_dict')()
        if d is None: return None
        new_names = [d.get(c, c) for c in PEAK_SAMPLES]
        if sorted(new_names) != sorted(TROUGH_SAMPLES):
            raise ValueError('sample renaming does not produce the trough-centred sample columns')
        return d
    feat = S.get('rename.features', pin_feat, checked_feat)
    samp = S.get('rename.samples', pin_samp, checked_samp)
    def flips():
        out = []
        for n in ast.walk(fn()):
            if isinstance(n, ast.Assign) and isinstance(n.targets[0], ast.Subscript) and ast.unparse(n.targets[0].value) == 'df_features' \
                    and isinstance(n.targets[0].slice, ast.Constant):
                col = n.targets[0].slice.value
                src = ast.unparse(n.value)
                if src == "-df_features['%s']" % col:
                    out.append((col, 'neg'))
                elif src == "1 - df_features['%s']" % col:
                    out.append((col, 'oneMinus'))
                else:
                    raise ValueError('flip outside grammar: ' + src)
        return sorted(out) or None
    pin_flips = sorted([('volt_peak', 'neg'), ('volt_trough', 'neg'), ('time_rdsym', 'oneMinus'), ('time_ptsym', 'oneMinus')])
    fl = S.get('rename.flips', pin_flips, flips)
    # new column `new` takes the value of old column `old` where feat[old] = new
    inv = {feat.get(c, c): c for c in SHAPE_FIELDS}
    ren = ', '.join('%s := r.%s' % (_camel(new), _camel(inv[new])) for new in SHAPE_FIELDS if inv[new] != new)
    def flip_expr(col, op):
        f = _camel(col)
        if col in F_FIELDS:
            return '%s := F.%s r.%s' % (f, 'neg' if op == 'neg' else 'oneMinus', f)
        return '%s := %s' % (f, '-r.%s' % f if op == 'neg' else '1 - r.%s' % f)
    flp = ', '.join(flip_expr(c, o) for c, o in fl)
    sinv = {samp.get(c, c): c for c in PEAK_SAMPLES}
    sren = ', '.join('%s := r.%s' % (_camel(new, 'sample_'), _camel(sinv[new], 'sample_')) for new in TROUGH_SAMPLES)
    lean = """/- GENERATED by harness/slots.py from /repo (bycycle/utils/dataframes.py rename_extrema_df). Do not edit. -/
import BycycleModel.ShapeTypes
namespace Bycycle.Slots

/-- `df_features.rename(columns=features_rename_dict)`: each new column takes the old column's value. -/
def renameShape (r : ShapeRow) : ShapeRow := { r with %s }
/-- the sign / `1 - x` reversals applied after the renaming. -/
def flipShape (r : ShapeRow) : ShapeRow := { r with %s }
/-- `df_features.rename(columns=samples_rename_dict)`. -/
def renameSamples (r : SampleRow) : TSampleRow := { %s }

end Bycycle.Slots
""" % (ren, flp, sren)
    return 'SlotsShape.lean', lean


# ------------------------------------------------------------------ burst features (C05, C09, C16)
def burstfeat_slots(S):
    bp = 'bycycle/features/burst.py'
    def offsets(branch_is_peak, which):
        def th():
            fn = _func(bp, 'compute_amp_consistency')
            for n in ast.walk(fn):
                if isinstance(n, ast.If) and ast.unparse(n.test) == "'sample_peak' in df_shape_features.columns":
                    body = n.body if branch_is_peak else n.orelse
                    for st in body:
                        if isinstance(st, ast.Assign) and ast.unparse(st.targets[0]) == 'consist_' + which:
                            src = ast.unparse(st.value)
                            m = _re.fullmatch(r'np\.min\(\[rises\[(cyc(?: [+-] \d+)?)\], decays\[(cyc(?: [+-] \d+)?)\]\]\) / '
                                              r'np\.max\(\[rises\[(cyc(?: [+-] \d+)?)\], decays\[(cyc(?: [+-] \d+)?)\]\]\)', src)
                            if not m or m.group(1) != m.group(3) or m.group(2) != m.group(4):
                                raise ValueError('expression outside grammar: ' + src)
                            off = lambda e: int(e.replace('cyc', '').replace(' ', '') or 0)
                            return (off(m.group(1)), off(m.group(2)))
            return None
        return th
    pl = S.get('amp_consistency.peak.last', (0, -1), offsets(True, 'last'))
    pn = S.get('amp_consistency.peak.next', (1, 0), offsets(True, 'next'))
    tl = S.get('amp_consistency.trough.last', (-1, 0), offsets(False, 'last'))
    tn = S.get('amp_consistency.trough.next', (0, 1), offsets(False, 'next'))
    def mono_cmp(name):
        def th():
            fn = _func(bp, 'compute_monotonicity')
            for n in ast.walk(fn):
                if isinstance(n, ast.Assign) and ast.unparse(n.targets[0]) == name:
                    m = _re.fullmatch(r'np\.mean\(np\.diff\((\w+)\) (<|>|<=|>=) 0\)', ast.unparse(n.value))
                    if m and m.group(1) == name.replace('_mono', '_period'):
                        return OPTXT[m.group(2)]
                    raise ValueError('expression outside grammar')
            return None
        return th
    mr = S.get('monotonicity.rise_cmp', '.gt', mono_cmp('rise_mono'))
    md = S.get('monotonicity.decay_cmp', '.lt', mono_cmp('decay_mono'))
    lean = """/- GENERATED by harness/slots.py from /repo (bycycle/features/burst.py). Do not edit. -/
import BycycleModel.Basic
namespace Bycycle.Slots

/-- (offset of `rises`, offset of `decays`) relative to `cyc` in `consist_last` / `consist_next`,
peak-centred branch and trough-centred branch of compute_amp_consistency. -/
def acPeakLast : Int × Int := (%d, %d)
def acPeakNext : Int × Int := (%d, %d)
def acTroughLast : Int × Int := (%d, %d)
def acTroughNext : Int × Int := (%d, %d)
/-- `np.diff(rise_period) > 0`, `np.diff(decay_period) < 0`: comparator applied as `step cmp 0`. -/
def monoRiseCmp : Cmp := %s
def monoDecayCmp : Cmp := %s

end Bycycle.Slots
""" % (pl + pn + tl + tn + (mr, md))
    return 'SlotsBurstFeatures.lean', lean


# ------------------------------------------------------------------ check_kwargs_shape (C19, C12): TRANSLATED if/elif chain
AXIS_LIT = {'0': '.a0', '1': '.a1', 'None': '.none', '(0, 1)': '.a01'}

def _dimexpr(e):
    src = ast.unparse(e)
    if src == 'None': return '(none : Option Nat)'
    if src == 'sigs_dim0': return 'some k.sigsDim0'
    if src == 'kwargs_dim0': return 'some k.kwDim0'
    if src == 'sigs_dim1': return 'k.sigsDim1'
    if src == 'kwargs_dim1': return 'k.kwDim1'
    raise ValueError('operand outside grammar: ' + src)

def _cond(e):
    if isinstance(e, ast.BoolOp):
        op = ' && ' if isinstance(e.op, ast.And) else ' || '
        return '(' + op.join(_cond(v) for v in e.values) + ')'
    if isinstance(e, ast.UnaryOp) and isinstance(e.op, ast.Not):
        return '(!' + _cond(e.operand) + ')'
    if isinstance(e, ast.Compare) and len(e.ops) == 1:
        l, o, r = e.left, e.ops[0], e.comparators[0]
        if ast.unparse(l) == 'axis':
            if isinstance(o, (ast.In, ast.NotIn)) and isinstance(r, (ast.List, ast.Tuple)):
                items = ' || '.join('k.axis == %s' % AXIS_LIT[ast.unparse(x)] for x in r.elts)
                return ('(%s)' if isinstance(o, ast.In) else '(!(%s))') % items
            if isinstance(o, (ast.Eq, ast.NotEq)):
                t = 'k.axis == %s' % AXIS_LIT[ast.unparse(r)]
                return '(%s)' % t if isinstance(o, ast.Eq) else '(!(%s))' % t
            raise ValueError('axis comparison outside grammar')
        if isinstance(o, (ast.Eq, ast.Is)):
            return '(%s == %s)' % (_dimexpr(l), _dimexpr(r))
        if isinstance(o, (ast.NotEq, ast.IsNot)):
            return '(%s != %s)' % (_dimexpr(l), _dimexpr(r))
    raise ValueError('condition outside grammar: ' + ast.unparse(e))

def _outcome(body):
    """True = returns (accept), False = leads to a raise (reject)"""
    last = body[-1]
    if isinstance(last, ast.Return):
        return 'true'
    if isinstance(last, ast.Raise):
        return 'false'
    if all(isinstance(st, ast.Assign) and ast.unparse(st.targets[0]) == 'kwargs_shape' for st in body):
        return 'false'      # falls through to the final raise
    raise ValueError('branch body outside grammar')

PINNED_CHAIN = """  if (k.sigsDim1 == (none : Option Nat)) && (k.axis == .a0 || k.axis == .none) && (some k.kwDim0 != some k.sigsDim0) then false
  else if (k.sigsDim1 == (none : Option Nat)) && (k.axis == .a0 || k.axis == .none) && (k.kwDim1 != (none : Option Nat)) then false
  else if (k.sigsDim1 != (none : Option Nat)) && (k.axis == .a0) && ((some k.kwDim0 != some k.sigsDim0) || (k.kwDim1 != (none : Option Nat))) then false
  else if (k.sigsDim1 != (none : Option Nat)) && (k.axis == .a1) && ((some k.kwDim0 != k.sigsDim1) || (k.kwDim1 != (none : Option Nat))) then false
  else if (k.sigsDim1 != (none : Option Nat)) && (k.axis == .a01) && ((some k.kwDim0 != some k.sigsDim0) || (k.kwDim1 != k.sigsDim1)) then false
  else if (k.sigsDim1 == (none : Option Nat)) && (!(k.axis == .a0 || k.axis == .none)) then false
  else if (k.sigsDim1 != (none : Option Nat)) && (!(k.axis == .a0 || k.axis == .a1 || k.axis == .a01)) then false
  else true"""

def kwargs_shape_slots(S):
    def chain():
        fn = _func('bycycle/group/utils.py', 'check_kwargs_shape')
        body = fn.body
        # locate: the `kwargs.ndim == 3` guard and the long if/elif chain
        guard3 = any(isinstance(st, ast.If) and ast.unparse(st.test) == 'kwargs.ndim == 3' and isinstance(st.body[-1], ast.Raise) for st in body)
        if not guard3:
            raise ValueError('3-D option list guard not found')
        early = any(isinstance(st, ast.If) and ast.unparse(st.test) in ('isinstance(kwargs, dict) or kwargs is None', 'kwargs is None or isinstance(kwargs, dict)')
                    and isinstance(st.body[-1], ast.Return) for st in body)
        if not early:
            raise ValueError('dict/None early return not found')
        big = [st for st in body if isinstance(st, ast.If) and 'sigs_dim1' in ast.unparse(st.test)]
        if len(big) != 1:
            raise ValueError('decision chain not found')
        if not isinstance(body[-1], ast.Raise):
            raise ValueError('final raise not found')
        lines, node, first = [], big[0], True
        while True:
            lines.append('  %sif %s then %s' % ('' if first else 'else ', _cond(node.test), _outcome(node.body)))
            first = False
            if len(node.orelse) == 1 and isinstance(node.orelse[0], ast.If):
                node = node.orelse[0]
            else:
                lines.append('  else %s' % _outcome(node.orelse) if node.orelse else '  else false')
                break
        return '\n'.join(lines)
    def norm(t):
        return _re.sub(r'[\s()]', '', t)
    got = S.get('check_kwargs_shape.chain', PINNED_CHAIN, chain)
    if norm(got) == norm(PINNED_CHAIN) and S.status['check_kwargs_shape.chain'].startswith('extracted'):
        S.status['check_kwargs_shape.chain'] = 'extracted'
    lean = """/- GENERATED by harness/slots.py: TRANSLATION of the decision chain of bycycle/group/utils.py check_kwargs_shape
   (after the dict/None early return and the `kwargs.ndim == 3` rejection). Do not edit. -/
import BycycleModel.GroupTypes
namespace Bycycle.Slots

/-- `true` = the function returns, `false` = it raises ValueError. -/
def checkKwargsChain (k : KwShape) : Bool :=
%s

end Bycycle.Slots
""" % got
    return 'SlotsKwargsShape.lean', lean


# ------------------------------------------------------------------ group plumbing (C11, C12, C13)
def group_slots(S):
    gp = 'bycycle/group/features.py'
    def pool_method(fname):
        def th():
            fn = _func(gp, fname)
            names = set()
            for n in ast.walk(fn):
                if isinstance(n, ast.Call) and isinstance(n.func, ast.Attribute) and isinstance(n.func.value, ast.Name) and n.func.value.id == 'pool':
                    names.add(n.func.attr)
            if not names:
                return None
            if len(names) != 1:
                raise ValueError('several pool methods: %s' % sorted(names))
            m = names.pop()
            return {'imap': '.imap', 'map': '.map', 'imap_unordered': '.imapUnordered'}.get(m) or (_ for _ in ()).throw(ValueError('pool.%s outside grammar' % m))
        return th
    p2 = S.get('group.pool_method_2d', '.imap', pool_method('compute_features_2d'))
    p3 = S.get('group.pool_method_3d', '.imap', pool_method('compute_features_3d'))
    def unflatten():
        fn = _func(gp, 'compute_features_3d')
        for n in ast.walk(fn):
            if isinstance(n, ast.Assign) and ast.unparse(n.targets[0]) == 'dfs_features[dim0_idx][dim1_idx]' and isinstance(n.value, ast.Subscript) \
                    and ast.unparse(n.value.value) == 'df_2d':
                def tr(e):
                    src = ast.unparse(e)
                    if src == 'dim0_idx': return 'i'
                    if src == 'dim1_idx': return 'j'
                    if src in ('np.shape(sigs)[0]', 'sigs.shape[0]', 'len(sigs)'): return 'n0'
                    if src in ('np.shape(sigs)[1]', 'sigs.shape[1]', 'len(sigs[0])'): return 'n1'
                    if isinstance(e, ast.Constant) and isinstance(e.value, int) and e.value >= 0: return str(e.value)
                    if isinstance(e, ast.BinOp) and isinstance(e.op, (ast.Add, ast.Mult, ast.Sub)):
                        return '(%s %s %s)' % (tr(e.left), {ast.Add: '+', ast.Mult: '*', ast.Sub: '-'}[type(e.op)], tr(e.right))
                    raise ValueError('index expression outside grammar: ' + src)
                return tr(n.value.slice)
        return None
    uf = S.get('group.unflatten_index', '((i * n1) + j)', unflatten)
    def relabel_cond():
        fn = _func(gp, 'compute_features_2d')
        for n in ast.walk(fn):
            if isinstance(n, ast.If):
                m = _re.fullmatch(r'len\(kwargs\) (>|>=|==|!=) (\d+)', ast.unparse(n.test))
                if m and any(isinstance(x, ast.For) for x in n.body):
                    return (OPTXT[m.group(1)], int(m.group(2)))
        return None
    rc = S.get('group.relabel_condition', ('.gt', 1), relabel_cond)
    def zip_cond():
        fn = _func(gp, 'compute_features_2d')
        for n in ast.walk(fn):
            if isinstance(n, ast.If):
                m = _re.fullmatch(r'len\(kwargs\) (>|>=|==|!=) (\d+)', ast.unparse(n.test))
                if m and 'zip(sigs, kwargs)' in ast.unparse(n.body[0]):
                    return (OPTXT[m.group(1)], int(m.group(2)))
        return None
    zc = S.get('group.zip_condition', ('.gt', 1), zip_cond)
    def swap_present():
        fn = _func(gp, 'compute_features_3d')
        # whatever is done under a test `axis == 1` (conditional expression or if statement): the input swap and the transposition of the result
        bodies = []
        for n in ast.walk(fn):
            if isinstance(n, (ast.If, ast.IfExp)) and _re.fullmatch(r'axis == 1|1 == axis', ast.unparse(n.test)):
                bodies.append(ast.unparse(n.body) if isinstance(n, ast.IfExp) else '\n'.join(ast.unparse(x) for x in n.body))
        if not bodies:
            return (False, False)          # nothing is conditional on axis == 1 any more
        a = any(_re.search(r'swapaxes\((?:sigs, )?0, 1\)|transpose\((?:sigs, )?\(?1, 0, 2\)?\)|moveaxis\(', b) for b in bodies)
        b = any(_re.search(r'zip\(\*', b) for b in bodies)
        if not (a and b):
            raise ValueError('axis == 1 is handled, but not with a recognised swap / transposition idiom')
        return (True, True)
    sw = S.get('group.axis1_transposes', (True, True), swap_present)
    def epoch_cmp(which):
        def th():
            fn = _func('bycycle/utils/dataframes.py', 'epoch_df')
            return _compare_by_pattern(fn, r'df_features\[last_sample\]\.values', 'last_idx' if which == 'hi' else 'first_idx')
        return th
    ehi = S.get('epoch.upper_cmp', '.le', epoch_cmp('hi'))
    elo = S.get('epoch.lower_cmp', '.gt', epoch_cmp('lo'))
    lean = """/- GENERATED by harness/slots.py from /repo (bycycle/group/features.py, bycycle/utils/dataframes.py epoch_df). Do not edit. -/
import BycycleModel.GroupTypes
namespace Bycycle.Slots

/-- which `multiprocessing.Pool` method maps the rows. -/
def poolMethod2d : PoolMethod := %s
def poolMethod3d : PoolMethod := %s
/-- `df_2d[<expr>]`: position in the flattened list that is placed at [i][j] for an n0 x n1 array. -/
def unflattenIdx (n0 n1 i j : Nat) : Nat := %s
/-- `if len(kwargs) <cmp> <k>:` guarding the per-epoch re-labelling loop (axis=None). -/
def relabelCmp : Cmp := %s
def relabelLen : Nat := %d
/-- `if len(kwargs) <cmp> <k>:` choosing zip(sigs, kwargs) over the shared option set (axis=0). -/
def zipCmp : Cmp := %s
def zipLen : Nat := %d
/-- axis=1: input axes swapped before, result transposed after. -/
def axis1SwapIn : Bool := %s
def axis1TransposeOut : Bool := %s
/-- epoch assignment `values <= last_idx` and `values > first_idx`. -/
def epochUpperCmp : Cmp := %s
def epochLowerCmp : Cmp := %s

end Bycycle.Slots
""" % (p2, p3, uf, rc[0], rc[1], zc[0], zc[1], 'true' if sw[0] else 'false', 'true' if sw[1] else 'false', ehi, elo)
    return 'SlotsGroup.lean', lean


# ------------------------------------------------------------------ frames (C13, C18)
def frames_slots(S):
    dp = 'bycycle/utils/dataframes.py'; tp = 'bycycle/utils/timeseries.py'
    ld = lambda: _func(dp, 'limit_df')
    lo = S.get('limit_df.lower_cmp', '.ge', lambda: _compare_by_pattern(ld(), r"df\['sample_last_' \+ side_e\]\.values(?: / fs)?", r'start(?: \* fs)?'))
    hi = S.get('limit_df.upper_cmp', '.le', lambda: _compare_by_pattern(ld(), r"df\['sample_next_' \+ side_e\]\.values(?: / fs)?", r'stop(?: \* fs)?'))
    ls = lambda: _func(tp, 'limit_signal')
    slo = S.get('limit_signal.lower_cmp', '.ge', lambda: _compare_by_pattern(ls(), r'times', r'start'))
    shi = S.get('limit_signal.upper_cmp', '.lt', lambda: _compare_by_pattern(ls(), r'times', r'stop'))
    def shifted_cols():
        cols = []
        for n in ast.walk(ld()):
            if isinstance(n, ast.Assign) and isinstance(n.targets[0], ast.Subscript) and ast.unparse(n.targets[0].value) == 'df':
                key = ast.unparse(n.targets[0].slice)
                m = _re.fullmatch(r"df\[(.+)\] - int\((?:round\()?fs \* start\)?\)", ast.unparse(n.value))
                if not m or m.group(1) != key:
                    raise ValueError('shift statement outside grammar: ' + ast.unparse(n))
                cols.append(key)
        return sorted(cols) or None
    pinned = sorted(["'sample_last_' + side_e", "'sample_next_' + side_e", "'sample_' + center_e", "'sample_zerox_rise'", "'sample_zerox_decay'", 'last_zerox'])
    sc = S.get('limit_df.shifted_columns', pinned, shifted_cols)
    lean = """/- GENERATED by harness/slots.py from /repo (bycycle/utils/dataframes.py limit_df, bycycle/utils/timeseries.py). Do not edit. -/
import BycycleModel.Basic
namespace Bycycle.Slots

/-- `sample_last_side >= start*fs`, `sample_next_side <= stop*fs`. -/
def limitLoCmp : Cmp := %s
def limitHiCmp : Cmp := %s
/-- `times >= start`, `times < stop`. -/
def sigLoCmp : Cmp := %s
def sigHiCmp : Cmp := %s
/-- number of sample columns shifted by `int(fs*start)` under reset_indices (all six expected). -/
def limitShiftedCols : Nat := %d

end Bycycle.Slots
""" % (lo, hi, slo, shi, len(sc))
    return 'SlotsFrames.lean', lean


# ------------------------------------------------------------------ copy guards (C15, C14) and object helpers
_TRANSLATED = {}
def _translated_pure(fname, param):
    """the TRANSLATED body of `fname` (harness/efftrans.py) writes neither its parameter `param` nor anything inside it"""
    if 'v' not in _TRANSLATED:
        import efftrans
        fns, bodies, summ, rets, unknown = efftrans.translate_all(2)
        _TRANSLATED['v'] = (fns, summ)
    fns, summ = _TRANSLATED['v']
    if fname not in fns or param not in fns[fname].names:
        return False
    i = fns[fname].index(param)
    return i not in summ[fname] and i + 1 not in summ[fname]

def effects_slots(S):
    _TRANSLATED.clear()
    def has(path, fname, pattern, param=None):
        # the guard holds when the literal statement is there, or - after a refactoring that moved it (into a helper, another spelling) -
        # when the statement-by-statement translation of the function shows that the parameter it protects is never written
        def th():
            src = ast.unparse(_func(path, fname))
            if _re.search(pattern, src):
                return True
            return bool(param) and _translated_pure(fname, param)
        return th
    G = {}
    G['cfCopyBk'] = S.get('guard.compute_features.copy_burst_kwargs', True,
                          has('bycycle/features/features.py', 'compute_features', r'burst_kwargs = burst_kwargs\.copy\(\) if isinstance\(burst_kwargs, dict\) else burst_kwargs|burst_kwargs = (?:dict|deepcopy)\(burst_kwargs\)', 'burst_kwargs'))
    G['cfCopyTh'] = S.get('guard.compute_features.copy_threshold_kwargs', True,
                          has('bycycle/features/features.py', 'compute_features', r'threshold_kwargs = threshold_kwargs\.copy\(\) if isinstance\(threshold_kwargs, dict\) else threshold_kwargs|threshold_kwargs = (?:dict|deepcopy)\(threshold_kwargs\)', 'threshold_kwargs'))
    G['bfCopy'] = S.get('guard.compute_burst_features.copy_burst_kwargs', True,
                        has('bycycle/features/burst.py', 'compute_burst_features', r'burst_kwargs = \{\} if burst_kwargs is None else burst_kwargs\.copy\(\)|burst_kwargs = (?:dict|deepcopy)\(burst_kwargs\)', 'burst_kwargs'))
    G['deepcopy2d'] = S.get('guard.compute_features_2d.deepcopy', True, has('bycycle/group/features.py', 'compute_features_2d', r'kwargs = deepcopy\(compute_features_kwargs\)', 'compute_features_kwargs'))
    G['deepcopy3d'] = S.get('guard.compute_features_3d.deepcopy', True, has('bycycle/group/features.py', 'compute_features_3d', r'kwargs = deepcopy\(compute_features_kwargs\)', 'compute_features_kwargs'))
    G['edgesCopy'] = S.get('guard.recompute_edges.copy', True, has('bycycle/burst/utils.py', 'recompute_edges', r'df_features_edges = df_features\.copy\(\)', 'df_features'))
    def neg_fresh():
        fn = _func('bycycle/features/shape.py', 'compute_shape_features')
        for n in ast.walk(fn):
            if isinstance(n, ast.If) and ast.unparse(n.test) == "center_extrema == 'peak'":
                br = n.orelse[0] if n.orelse and isinstance(n.orelse[0], ast.If) else None
                if br is not None and ast.unparse(br.test) == "center_extrema == 'trough'":
                    st = br.body[0]
                    if isinstance(st, ast.Assign) and ast.unparse(st) in ('sig = -sig', 'sig = -1 * sig', 'sig = sig * -1', 'sig = np.negative(sig)'):
                        return True
                    if isinstance(st, ast.AugAssign) or 'out=sig' in ast.unparse(st):
                        return False
                    raise ValueError('negation statement outside grammar: ' + ast.unparse(st))
        return True if _translated_pure('compute_shape_features', 'sig') else None
    G['negFresh'] = S.get('guard.compute_shape_features.negation_fresh', True, neg_fresh)
    G['plotCopy'] = S.get('guard.plot_burst_detect_summary.copy_thresholds', True,
                          has('bycycle/plts/burst.py', 'plot_burst_detect_summary', r'thresholds = threshold_kwargs\.copy\(\)|thresholds = (?:dict|deepcopy)\(threshold_kwargs\)', 'threshold_kwargs'))
    G['limitFresh'] = S.get('guard.limit_df.filter_before_write', True, has('bycycle/utils/dataframes.py', 'limit_df', r"df = df\[df\['sample_last_' \+ side_e\]\.values", 'df'))
    G['epochFresh'] = S.get('guard.epoch_df.iloc_before_write', True, has('bycycle/utils/dataframes.py', 'epoch_df', r'df_single = df_features\.iloc\[idx_range\]', 'df_features'))
    def suffixes():
        src = ast.unparse(_func('bycycle/objs/fit.py', '__init__'))
        m = _re.search(r"if not k\.endswith\('(\w+)'\) and k != '(\w+)':\s*self\.thresholds\[k \+ '(\w+)'\] = self\.thresholds\.pop\(k\)", src)
        if not m: return None
        return (m.group(1), m.group(2), m.group(3))
    sx = S.get('objs.shorthand', ('_threshold', 'min_n_cycles', '_threshold'), suffixes)
    def reduce_suffix():
        src = ast.unparse(_func('bycycle/objs/fit.py', 'reduce_thresholds'))
        m = _re.search(r"if k\.endswith\('(\w+)'\):\s*reduced_thresholds\[k\] = v - reduction\s*else:\s*reduced_thresholds\[k\] = v", src)
        return m.group(1) if m else None
    rs = S.get('objs.reduce_suffix', 'threshold', reduce_suffix)
    lean = """/- GENERATED by harness/slots.py from /repo: presence of the defensive copies / fresh-object statements the purity
   argument relies on, and the string tests of the Bycycle object helpers (bycycle/objs/fit.py). Do not edit. -/
namespace Bycycle.Slots

%s
/-- shorthand expansion: `if not k.endswith(S1) and k != K: thresholds[k + S2] = thresholds.pop(k)`. -/
def shorthandSuffixTest : String := "%s"
def shorthandExempt : String := "%s"
def shorthandAppend : String := "%s"
/-- reduce_thresholds: `if k.endswith(S): v - reduction`. -/
def reduceSuffix : String := "%s"

end Bycycle.Slots
""" % ('\n'.join('def guard_%s : Bool := %s' % (k, 'true' if v else 'false') for k, v in G.items()), sx[0], sx[1], sx[2], rs)
    return 'SlotsEffects.lean', lean


# ------------------------------------------------------------------ plots (C20)
def plots_slots(S):
    def offsets_round():
        srcs = [ast.unparse(_func('bycycle/plts/burst.py', 'plot_burst_detect_summary')), ast.unparse(_func('bycycle/utils/dataframes.py', 'limit_df')),
                ast.unparse(_func('bycycle/plts/cyclepoints.py', 'plot_cyclepoints_array'))]
        trunc = sum(len(_re.findall(r'int\(fs \* start\)|int\(times\[0\] \* fs\)', x)) for x in srcs)
        rnd = sum(len(_re.findall(r'int\(round\(fs \* start\)\)|int\(round\(times\[0\] \* fs\)\)', x)) for x in srcs)
        if trunc + rnd == 0: return None
        return trunc == 0
    rounds = S.get('plots.offsets_rounded', True, offsets_round)
    pa = lambda: _func('bycycle/plts/cyclepoints.py', 'plot_cyclepoints_array')
    mlo = S.get('plots.marker_lower_cmp', '.ge', lambda: _compare_by_pattern(pa(), r'points', r'times\[0\] \* fs'))
    mhi = S.get('plots.marker_upper_cmp', '.lt', lambda: _compare_by_pattern(pa(), r'points', r'times\[-1\] \* fs'))
    def mask_plus():
        src = ast.unparse(_func('bycycle/plts/burst.py', 'plot_burst_detect_summary'))
        m = _re.search(r"samp_end_burst = int\(cyc\['sample_next_' \+ side_e\](?: \+ (\d+))?\) - ", src)
        return int(m.group(1) or 0) if m else None
    mp = S.get('plots.burst_mask_end_plus', 1, mask_plus)
    lean = """/- GENERATED by harness/slots.py from /repo (bycycle/plts/*.py, limit_df). Do not edit. -/
import BycycleModel.Basic
namespace Bycycle.Slots

/-- window offsets are `int(round(fs * start))` (true) or the truncating `int(fs * start)` (false). -/
def offsetsRounded : Bool := %s
/-- marker selection `points >= times[0]*fs`, `points < times[-1]*fs`. -/
def markerLoCmp : Cmp := %s
def markerHiCmp : Cmp := %s
/-- burst mask: `is_osc[last - off : next + K - off] = True`. -/
def burstMaskEndPlus : Nat := %d

end Bycycle.Slots
""" % ('true' if rounds else 'false', mlo, mhi, mp)
    return 'SlotsPlots.lean', lean


# ------------------------------------------------------------------ shape arithmetic (C04): TRANSLATED column expressions
class _Outside(Exception):
    pass

def _sx(node, env, df_name, sig_name):
    """translate a column-arithmetic expression to a Lean SExpr term"""
    if isinstance(node, ast.Subscript) and isinstance(node.value, ast.Name):
        if node.value.id == df_name and isinstance(node.slice, ast.Constant) and isinstance(node.slice.value, str):
            return '(.col "%s")' % node.slice.value
        if node.value.id == sig_name:
            return '(.sigAt %s)' % _sx(node.slice, env, df_name, sig_name)
        if node.value.id in env and isinstance(env[node.value.id], dict) and isinstance(node.slice, ast.Constant):
            return env[node.value.id][node.slice.value]
    if isinstance(node, ast.Name) and node.id in env and isinstance(env[node.id], str):
        return env[node.id]
    if isinstance(node, ast.BinOp) and type(node.op) in (ast.Add, ast.Sub, ast.Div, ast.Mult):
        op = {ast.Add: 'add', ast.Sub: 'sub', ast.Div: 'div', ast.Mult: 'mul'}[type(node.op)]
        return '(.%s %s %s)' % (op, _sx(node.left, env, df_name, sig_name), _sx(node.right, env, df_name, sig_name))
    if isinstance(node, ast.Constant) and isinstance(node.value, (int, float)) and not isinstance(node.value, bool):
        return '(.const %s)' % _rat(node.value)
    if isinstance(node, ast.UnaryOp) and isinstance(node.op, ast.USub):
        return '(.sub (.const (0 : Rat)) %s)' % _sx(node.operand, env, df_name, sig_name)
    raise _Outside('expression outside grammar: ' + ast.unparse(node))

def _sym_exec(fn, env, df_name, sig_name):
    """run the straight-line body of a small feature function symbolically; returns the value of its return statement"""
    for st in fn.body:
        if isinstance(st, ast.Expr) and isinstance(st.value, ast.Constant):
            continue                                   # docstring
        if isinstance(st, ast.Assign) and ast.unparse(st) == '%s = check_sig_dtype(%s)' % (sig_name, sig_name):
            continue                                   # int -> float conversion: the identity on the model's exact values
        if isinstance(st, ast.Assign) and len(st.targets) == 1:
            t = st.targets[0]
            if isinstance(t, ast.Name) and isinstance(st.value, ast.Dict) and not st.value.keys:
                env[t.id] = {}
            elif isinstance(t, ast.Name):
                env[t.id] = _sx(st.value, env, df_name, sig_name)
            elif isinstance(t, ast.Subscript) and isinstance(t.value, ast.Name) and isinstance(env.get(t.value.id), dict) and isinstance(t.slice, ast.Constant):
                env[t.value.id][t.slice.value] = _sx(st.value, env, df_name, sig_name)
            else:
                raise _Outside('assignment outside grammar: ' + ast.unparse(st))
        elif isinstance(st, ast.If) and all(isinstance(c, ast.Compare) and isinstance(c.ops[0], ast.Is) for c in (st.test.values if isinstance(st.test, ast.BoolOp) else [st.test])):
            names = [c.left.id for c in (st.test.values if isinstance(st.test, ast.BoolOp) else [st.test])]
            if all(n in env for n in names):
                continue                               # `if period is None or …:` with the values supplied by the caller
            raise _Outside('None-test on a missing value')
        elif isinstance(st, ast.Return):
            v = st.value
            if isinstance(v, ast.Tuple):
                return [_sx(e, env, df_name, sig_name) for e in v.elts]
            if isinstance(v, ast.Name) and isinstance(env.get(v.id), dict):
                return env[v.id]
            return _sx(v, env, df_name, sig_name)
        else:
            raise _Outside('statement outside grammar: ' + ast.unparse(st)[:60])
    raise _Outside('no return')

PINNED_SHAPE = [
 ('period', '(.sub (.col "sample_next_trough") (.col "sample_last_trough"))'),
 ('time_peak', '(.sub (.col "sample_zerox_decay") (.col "sample_zerox_rise"))'),
 ('time_trough', '(.sub (.col "sample_zerox_rise") (.col "sample_last_zerox_decay"))'),
 ('volt_peak', '(.sigAt (.col "sample_peak"))'),
 ('volt_trough', '(.sigAt (.col "sample_last_trough"))'),
 ('time_decay', '(.sub (.col "sample_next_trough") (.col "sample_peak"))'),
 ('time_rise', '(.sub (.col "sample_peak") (.col "sample_last_trough"))'),
 ('volt_decay', '(.sub (.sigAt (.col "sample_peak")) (.sigAt (.col "sample_next_trough")))'),
 ('volt_rise', '(.sub (.sigAt (.col "sample_peak")) (.sigAt (.col "sample_last_trough")))'),
 ('volt_amp', '(.div (.add (.sub (.sigAt (.col "sample_peak")) (.sigAt (.col "sample_next_trough"))) (.sub (.sigAt (.col "sample_peak")) (.sigAt (.col "sample_last_trough")))) (.const (2 : Rat)))'),
 ('time_rdsym', '(.div (.sub (.col "sample_peak") (.col "sample_last_trough")) (.sub (.col "sample_next_trough") (.col "sample_last_trough")))'),
 ('time_ptsym', '(.div (.sub (.col "sample_zerox_decay") (.col "sample_zerox_rise")) (.add (.sub (.col "sample_zerox_decay") (.col "sample_zerox_rise")) (.sub (.col "sample_zerox_rise") (.col "sample_last_zerox_decay"))))'),
 ('band_amp', '.bandAmp')]

def shape_expr_slots(S):
    sp = 'bycycle/features/shape.py'
    def defs():
        dur = _sym_exec(_func(sp, 'compute_durations'), {}, 'df_samples', 'sig')
        ev = _sym_exec(_func(sp, 'compute_extrema_voltage'), {}, 'df_samples', 'sig')
        main = _func(sp, 'compute_shape_features')
        env = {}
        out = None
        for st in main.body:
            src = ast.unparse(st)
            if src == 'period, time_peak, time_trough = compute_durations(df_samples)':
                env.update(period=dur[0], time_peak=dur[1], time_trough=dur[2])
            elif src == 'volt_peak, volt_trough = compute_extrema_voltage(df_samples, sig)':
                env.update(volt_peak=ev[0], volt_trough=ev[1])
            elif src.startswith('sym_features = compute_symmetry(df_samples, sig'):
                call = st.value
                kw = {k.arg: _sx(k.value, env, 'df_samples', 'sig') for k in call.keywords}
                env['sym_features'] = _sym_exec(_func(sp, 'compute_symmetry'), dict(kw), 'df_samples', 'sig')
            elif src.startswith('band_amp = compute_band_amp(df_samples, sig, fs, f_range'):
                env['band_amp'] = '.bandAmp'
            elif src == 'shape_features = {}':
                env['shape_features'] = {}
            elif isinstance(st, ast.Assign) and isinstance(st.targets[0], ast.Subscript) and ast.unparse(st.targets[0].value) == 'shape_features':
                env['shape_features'][st.targets[0].slice.value] = _sx(st.value, env, 'df_samples', 'sig')
            elif src == 'df_shape_features = pd.DataFrame.from_dict(shape_features)':
                out = list(env['shape_features'].items())
        if out is None:
            raise _Outside('table assembly not found')
        if sorted(k for k, _ in out) != sorted(k for k, _ in PINNED_SHAPE):
            raise _Outside('unexpected set of shape columns')
        return out
    got = S.get('shape.column_expressions', PINNED_SHAPE, defs)
    lean = """/- GENERATED by harness/slots.py: TRANSLATION of the column arithmetic of bycycle/features/shape.py
   (compute_durations, compute_extrema_voltage, compute_symmetry and the table assembly of compute_shape_features),
   every column fully inlined down to sample columns and signal look-ups. Do not edit. -/
import BycycleModel.ShapeExpr
namespace Bycycle.Slots

def shapeDefs : List (String × SExpr) := [
%s]

end Bycycle.Slots
""" % ',\n'.join('  ("%s", %s)' % kv for kv in got)
    return 'SlotsShapeExpr.lean', lean

GROUPS = [detect_slots, cyclepoints_slots, shape_slots, burstfeat_slots, kwargs_shape_slots, group_slots, frames_slots, effects_slots, plots_slots, shape_expr_slots]

def write_if_changed(path, text):
    try:
        if open(path).read() == text:
            return False
    except FileNotFoundError:
        pass
    os.makedirs(os.path.dirname(path), exist_ok=True)
    with open(path, 'w') as f:
        f.write(text)
    return True

def regenerate():
    S = Slots()
    changed = []
    for g in GROUPS:
        try:
            fname, text = g(S)
        except Exception as e:   # never let the translator itself break a check
            S.status[g.__name__] = 'group failed (%s: %s); previous file kept' % (type(e).__name__, e)
            continue
        if write_if_changed(os.path.join(LEAN_GEN, fname), text):
            changed.append(fname)
    try:                         # the effect-IR translation of the analysis modules (C15 / C14)
        import efftrans
        r = efftrans.regenerate()
        S.status['effects.translation'] = ('translated %d functions (%d statements); impure: %s; two unrollings reach the alias fixpoint: %s; constructs outside the grammar: %s'
                                           % (r['functions'], r['statements'], r['impure'] or 'none', r['unroll_stable'], r['unknown'] or 'none'))
        changed += r['rewritten']
    except Exception as e:
        S.status['effects.translation'] = 'translator failed (%s: %s); previous files kept' % (type(e).__name__, e)
    try:                         # the call-routing table (glue: which value reaches which parameter)
        import routing
        r = routing.regenerate()
        S.status['routing'] = 'extracted %d call routes; arguments outside the canonical grammar (wildcards): %s' % (r['routes'], ', '.join(sorted(set(r['opaque']))) or 'none')
        if r['rewritten']: changed.append('SlotsRouting.lean')
    except Exception as e:
        S.status['routing'] = 'extractor failed (%s: %s); previous file kept' % (type(e).__name__, e)
    try:                         # state that could outlive a call (globals, memoising decorators, writes through module-level names)
        import modstate
        r = modstate.regenerate()
        S.status['module_state'] = 'none' if not r['found'] else '; '.join('%s: %s' % x for x in r['found'])
        if r['rewritten']: changed.append('SlotsModuleState.lean')
    except Exception as e:
        S.status['module_state'] = 'extractor failed (%s: %s); previous file kept' % (type(e).__name__, e)
    S.status['_files_rewritten'] = changed
    return S.status

if __name__ == '__main__':
    st = regenerate()
    print(json.dumps(st, indent=1))
