"""Slot translator: re-extract decision literals of /repo's sources into Generated/Slots.lean (filled in as properties are added)."""
import os, sys
if __name__ == '__main__':
    sys.exit(0)
