"""Slot translator (DESIGN.md 2.4): re-extract decision literals of /repo's current sources with `ast`
and emit lean/BycycleModel/Generated/Slots*.lean.  Property theorems depend on these files, so they are
re-checked against what the code says now.  A slot whose AST shape is outside the recognised grammar is
NOT a failure: the pinned value is kept and the slot is reported as 'not extractable'."""
import ast, os, sys, json

HERE = os.path.dirname(os.path.abspath(__file__))
LEAN_GEN = os.path.join(os.path.dirname(HERE), 'lean', 'BycycleModel', 'Generated')
REPO = os.environ.get('BYCYCLE_REPO', '/repo')

CMP = {ast.Gt: '.gt', ast.GtE: '.ge', ast.Lt: '.lt', ast.LtE: '.le', ast.Eq: '.eq', ast.NotEq: '.ne'}
FLIP = {'.gt': '.lt', '.ge': '.le', '.lt': '.gt', '.le': '.ge', '.eq': '.eq', '.ne': '.ne'}

def _func(path, name):
    tree = ast.parse(open(os.path.join(REPO, path)).read())
    for n in ast.walk(tree):
        if isinstance(n, ast.FunctionDef) and n.name == name:
            return n
    raise KeyError(name)

def _defaults(fn):
    a = fn.args
    names = [x.arg for x in a.args]
    d = {}
    for nm, dv in zip(names[len(names) - len(a.defaults):], a.defaults):
        d[nm] = ast.literal_eval(dv)
    return d

def _rat(x):
    from fractions import Fraction
    f = Fraction(str(x)) if not isinstance(x, int) else Fraction(x)
    return '(%d : Rat)' % f.numerator if f.denominator == 1 else '((%d : Rat) / %d)' % (f.numerator, f.denominator)

class Slots:
    def __init__(self):
        self.status = {}
    def get(self, name, pinned, thunk):
        try:
            v = thunk()
            if v is None:
                raise ValueError('pattern not found')
            self.status[name] = 'extracted' if v == pinned else 'extracted (differs from pinned %r): %r' % (pinned, v)
            return v
        except Exception as e:
            self.status[name] = 'not extractable (%s: %s); pinned value kept' % (type(e).__name__, e)
            return pinned

# ------------------------------------------------------------------ detect (C06, C07)
def detect_slots(S):
    out = {}
    FEATS = ['amp_fraction', 'amp_consistency', 'period_consistency', 'monotonicity']
    def cyc_fn():
        return _func('bycycle/burst/cycle.py', 'detect_bursts_cycles')
    def cmp_of(feat):
        def th():
            for n in ast.walk(cyc_fn()):
                if isinstance(n, ast.Compare) and len(n.ops) == 1:
                    l, r = n.left, n.comparators[0]
                    if isinstance(l, ast.Subscript) and isinstance(l.slice, ast.Constant) and l.slice.value == feat \
                            and isinstance(r, ast.Name) and r.id == feat + '_threshold':
                        return CMP[type(n.ops[0])]
                    if isinstance(r, ast.Subscript) and isinstance(r.slice, ast.Constant) and r.slice.value == feat \
                            and isinstance(l, ast.Name) and l.id == feat + '_threshold':
                        return FLIP[CMP[type(n.ops[0])]]
            return None
        return th
    for f in FEATS:
        out['cmp_' + f] = S.get('cycles.cmp.' + f, '.gt', cmp_of(f))
    def conj():
        # is_burst = a & b & c & d  over the four comparison results
        fn = cyc_fn()
        targets = {}
        for n in ast.walk(fn):
            if isinstance(n, ast.Assign) and len(n.targets) == 1 and isinstance(n.targets[0], ast.Name) and isinstance(n.value, ast.Compare):
                targets[n.targets[0].id] = n.value
        for n in ast.walk(fn):
            if isinstance(n, ast.Assign) and isinstance(n.value, ast.BinOp):
                names, ops = [], set()
                def flat(e):
                    if isinstance(e, ast.BinOp):
                        ops.add(type(e.op)); flat(e.left); flat(e.right)
                    elif isinstance(e, ast.Name):
                        names.append(e.id)
                    else:
                        raise ValueError('unexpected operand')
                flat(n.value)
                if set(names) == set(FEATS) and len(names) == 4:
                    if ops == {ast.BitAnd}:
                        return 'all'
                    if ops == {ast.BitOr}:
                        return 'any'
                    raise ValueError('mixed operators')
        return None
    out['conj'] = S.get('cycles.conjunction', 'all', conj)
    def forced():
        idx = []
        for n in ast.walk(cyc_fn()):
            if isinstance(n, ast.Assign) and isinstance(n.targets[0], ast.Subscript) and isinstance(n.targets[0].value, ast.Name) \
                    and n.targets[0].value.id == 'is_burst' and isinstance(n.value, ast.Constant) and n.value.value is False:
                idx.append(ast.literal_eval(n.targets[0].slice))
        return sorted(idx) if idx else None
    out['forced'] = S.get('cycles.forced_false', [-1, 0], forced)
    pinned_defaults = {'amp_fraction_threshold': 0.0, 'amp_consistency_threshold': 0.5, 'period_consistency_threshold': 0.5,
                       'monotonicity_threshold': 0.8, 'min_n_cycles': 3}
    out['cyc_defaults'] = S.get('cycles.defaults', pinned_defaults, lambda: _defaults(cyc_fn()))
    def amp_fn():
        return _func('bycycle/burst/amp.py', 'detect_bursts_amp')
    def amp_cmp():
        for n in ast.walk(amp_fn()):
            if isinstance(n, ast.Compare) and len(n.ops) == 1:
                l, r = n.left, n.comparators[0]
                if isinstance(r, ast.Name) and r.id == 'burst_fraction_threshold' and isinstance(l, ast.Name):
                    return CMP[type(n.ops[0])]
                if isinstance(l, ast.Name) and l.id == 'burst_fraction_threshold' and isinstance(r, ast.Name):
                    return FLIP[CMP[type(n.ops[0])]]
        return None
    out['amp_cmp'] = S.get('amp.cmp', '.ge', amp_cmp)
    out['amp_defaults'] = S.get('amp.defaults', {'burst_fraction_threshold': 1, 'min_n_cycles': 3}, lambda: _defaults(amp_fn()))
    def reconcile_default():
        fn = _func('bycycle/features/features.py', 'compute_features')
        for n in ast.walk(fn):
            if isinstance(n, ast.Call) and isinstance(n.func, ast.Attribute) and n.func.attr in ('pop', 'get') and n.args \
                    and isinstance(n.args[0], ast.Constant) and n.args[0].value == 'min_n_cycles' and len(n.args) == 2:
                return ast.literal_eval(n.args[1])
        return None
    out['reconcile_default'] = S.get('features.min_n_cycles_default', 3, reconcile_default)
    def bf_default():
        return _defaults(_func('bycycle/features/burst.py', 'compute_burst_fraction'))['min_n_cycles']
    out['burst_fraction_min_n_default'] = S.get('burst_fraction.min_n_cycles_default', 3, bf_default)
    cd, ad = out['cyc_defaults'], out['amp_defaults']
    lean = """/- GENERATED by harness/slots.py from /repo (bycycle/burst/cycle.py, bycycle/burst/amp.py,
   bycycle/features/features.py, bycycle/features/burst.py). Do not edit. -/
import BycycleModel.Basic
namespace Bycycle.Slots

def cyclesCmpAmpFraction : Cmp := %s
def cyclesCmpAmpConsistency : Cmp := %s
def cyclesCmpPeriodConsistency : Cmp := %s
def cyclesCmpMonotonicity : Cmp := %s
/-- `true`: the four criteria are combined with `&`; `false`: with `|`. -/
def cyclesConjAll : Bool := %s
/-- python indices forced to False (negative = from the end). -/
def cyclesForcedFalse : List Int := %s
def cyclesDefaultAmpFraction : Rat := %s
def cyclesDefaultAmpConsistency : Rat := %s
def cyclesDefaultPeriodConsistency : Rat := %s
def cyclesDefaultMonotonicity : Rat := %s
def cyclesDefaultMinN : Rat := %s
def ampCmp : Cmp := %s
def ampDefaultThreshold : Rat := %s
def ampDefaultMinN : Rat := %s
/-- default used when neither dictionary carries `min_n_cycles` (features.py). -/
def reconcileDefaultMinN : Rat := %s
def burstFractionDefaultMinN : Rat := %s

end Bycycle.Slots
""" % (out['cmp_amp_fraction'], out['cmp_amp_consistency'], out['cmp_period_consistency'], out['cmp_monotonicity'],
       'true' if out['conj'] == 'all' else 'false',
       '[' + ', '.join(str(i) for i in out['forced']) + ']',
       _rat(cd['amp_fraction_threshold']), _rat(cd['amp_consistency_threshold']), _rat(cd['period_consistency_threshold']),
       _rat(cd['monotonicity_threshold']), _rat(cd['min_n_cycles']),
       out['amp_cmp'], _rat(ad['burst_fraction_threshold']), _rat(ad['min_n_cycles']),
       _rat(out['reconcile_default']), _rat(out['burst_fraction_min_n_default']))
    return 'SlotsDetect.lean', lean

GROUPS = [detect_slots]

def write_if_changed(path, text):
    try:
        if open(path).read() == text:
            return False
    except FileNotFoundError:
        pass
    os.makedirs(os.path.dirname(path), exist_ok=True)
    with open(path, 'w') as f:
        f.write(text)
    return True

def regenerate():
    S = Slots()
    changed = []
    for g in GROUPS:
        try:
            fname, text = g(S)
        except Exception as e:   # never let the translator itself break a check
            S.status[g.__name__] = 'group failed (%s: %s); previous file kept' % (type(e).__name__, e)
            continue
        if write_if_changed(os.path.join(LEAN_GEN, fname), text):
            changed.append(fname)
    S.status['_files_rewritten'] = changed
    return S.status

if __name__ == '__main__':
    st = regenerate()
    print(json.dumps(st, indent=1))
