"""Module-level state translator (C15: no call-history dependence).  For every function / method of bycycle's analysis modules, list what could carry state from
one call to the next OUTSIDE the arguments:

  * a `global` declaration;
  * a memoising decorator (functools.lru_cache / cache / cached_property, joblib-style `.cache`, any decorator whose name contains 'cache' or 'memo');
  * a write through a MODULE-LEVEL name (a name bound at the top level of the module - constant, dict, list, class, function - and not rebound locally in the
    function): `NAME[k] = v`, `NAME.attr = v`, `del NAME[k]`, `NAME += v`, `NAME.append / update / pop / clear / setdefault / extend / insert / remove / add / discard(...)`;
  * a note written into a table's METADATA (`df.attrs[k] = v`, `df.attrs.update(...)`): pandas copies it into every slice and copy, so it outlives the call;
  * a MUTABLE DEFAULT ARGUMENT that the body writes (`def f(x, _seen={})` ... `_seen[k] = v`);
  * a module-level name bound to a MUTABLE CONTAINER (dict / list / set literal or constructor, comprehension, `np.zeros / array / empty / ones(...)`), or a mutable
    default argument, that a function HANDS OUT as it is (`x = x or DEFAULTS`, `return DEFAULTS`, `kwargs = DEFAULTS if kwargs is None else kwargs`, `self.kw = kw`,
    `f(DEFAULTS)`): the receiver can write through the alias, and the next call sees it. A use that cannot leak the object is not flagged: `NAME[k]` read,
    `k in NAME`, `for x in NAME`, `NAME.get / copy / items / keys / values / index / count(...)`, `dict / list / set / tuple / len / sorted / copy / deepcopy / frozenset(NAME)`,
    `{**NAME}`, `[*NAME]`, `NAME is None` / comparisons, truth tests (`if NAME`, `not NAME`). When the container's ELEMENTS are containers themselves (a dict of
    default dicts), an element read `NAME[k]` / `NAME.get(k)` / iteration / shallow copy is judged by the same rules one level down (only `deepcopy` and `len` stay safe).

Output: lean/BycycleModel/Generated/SlotsModuleState.lean, `def moduleStateWrites : List (String × String)` (function, what); `Props/C15.lean` proves it empty."""
import ast, os

REPO = os.environ.get('BYCYCLE_REPO', '/repo')
HERE = os.path.dirname(os.path.abspath(__file__))
LEAN_GEN = os.path.join(os.path.dirname(HERE), 'lean', 'BycycleModel', 'Generated')
MODULES = ['bycycle/objs/fit.py', 'bycycle/features/features.py', 'bycycle/features/shape.py', 'bycycle/features/burst.py', 'bycycle/features/cyclepoints.py',
           'bycycle/cyclepoints/extrema.py', 'bycycle/cyclepoints/zerox.py', 'bycycle/cyclepoints/phase.py',
           'bycycle/burst/cycle.py', 'bycycle/burst/amp.py', 'bycycle/burst/utils.py', 'bycycle/burst/dualthresh.py', 'bycycle/group/features.py', 'bycycle/group/utils.py',
           'bycycle/utils/dataframes.py', 'bycycle/utils/timeseries.py', 'bycycle/utils/checks.py',
           'bycycle/plts/burst.py', 'bycycle/plts/cyclepoints.py', 'bycycle/plts/features.py']
MUTATORS = {'append', 'update', 'pop', 'clear', 'setdefault', 'extend', 'insert', 'remove', 'add', 'discard', 'popitem', 'sort', 'reverse', 'fill', 'put', 'resize', 'cache_clear'}

def _root(e):
    while isinstance(e, (ast.Subscript, ast.Attribute)):
        e = e.value
    return e.id if isinstance(e, ast.Name) else None

SAFE_METHODS = {'get', 'copy', 'items', 'keys', 'values', 'index', 'count', 'tolist', 'astype', 'sum', 'mean', 'any', 'all', 'format', 'join'}
SAFE_CALLS = {'dict', 'list', 'set', 'tuple', 'len', 'sorted', 'copy', 'deepcopy', 'frozenset', 'enumerate', 'zip', 'iter', 'str', 'repr', 'bool', 'isinstance', 'min', 'max', 'sum', 'any', 'all'}
CONTAINER_CALLS = {'dict', 'list', 'set', 'defaultdict', 'OrderedDict', 'Counter', 'deque', 'bytearray'}
ARRAY_CALLS = {'zeros', 'ones', 'empty', 'array', 'full', 'arange', 'zeros_like', 'ones_like', 'empty_like', 'DataFrame', 'Series'}

def _is_container(v):
    if isinstance(v, (ast.Dict, ast.List, ast.Set, ast.ListComp, ast.DictComp, ast.SetComp)): return True
    if isinstance(v, ast.Call):
        f = v.func
        if isinstance(f, ast.Name) and f.id in CONTAINER_CALLS: return True
        if isinstance(f, ast.Attribute) and f.attr in (CONTAINER_CALLS | ARRAY_CALLS): return True
    return False

def _nested(v):
    """a container literal whose elements are containers themselves: a subscript READ then hands out a mutable object"""
    if isinstance(v, ast.Dict): return any(_is_container(x) for x in v.values if x is not None)
    if isinstance(v, (ast.List, ast.Set, ast.Tuple)): return any(_is_container(x) for x in v.elts)
    if isinstance(v, (ast.ListComp, ast.SetComp)): return _is_container(v.elt)
    if isinstance(v, ast.DictComp): return _is_container(v.value)
    return isinstance(v, ast.Call)        # dict(...) / defaultdict(...): contents unknown

def _handouts(fn, names, nested=()):
    """bare uses of a name in `names` (not shadowed) in a position where the OBJECT itself (or, for a nested container, one of its elements) travels on"""
    parent = {}
    for n in ast.walk(fn):
        for c in ast.iter_child_nodes(n): parent[c] = n
    def safe(n, deep):
        p = parent.get(n)
        if isinstance(p, ast.Subscript) and p.value is n:                                 # NAME[k] (read; a store is caught by the write rule)
            if isinstance(p.ctx, ast.Load) and deep: return safe(p, False)
            return True
        if isinstance(p, ast.Attribute) and p.value is n:
            g = parent.get(p)
            if isinstance(g, ast.Call) and g.func is p:
                if p.attr == 'get' and deep: return safe(g, False)
                if p.attr in SAFE_METHODS or p.attr in MUTATORS: return True               # mutators: caught by the write rule
                return False
            return True                                                                    # NAME.attr read
        if isinstance(p, ast.Compare): return True
        if isinstance(p, (ast.For, ast.comprehension)) and p.iter is n: return not deep
        if isinstance(p, ast.Call) and n in p.args and ((isinstance(p.func, ast.Name) and p.func.id in SAFE_CALLS) or
                                                         (isinstance(p.func, ast.Attribute) and p.func.attr in SAFE_CALLS)):
            return not deep or (isinstance(p.func, ast.Name) and p.func.id in ('len', 'deepcopy', 'str', 'repr', 'bool', 'isinstance')) or \
                   (isinstance(p.func, ast.Attribute) and p.func.attr == 'deepcopy')
        if isinstance(p, ast.Dict) and n in p.values and p.keys[p.values.index(n)] is None: return not deep   # {**NAME}
        if isinstance(p, ast.Starred): return not deep
        if isinstance(p, ast.keyword) and p.arg is None: return not deep                  # f(**NAME): unpacked into fresh bindings
        if isinstance(p, ast.UnaryOp) and isinstance(p.op, ast.Not): return True
        if isinstance(p, (ast.If, ast.While, ast.IfExp)) and p.test is n: return True
        if isinstance(p, ast.BoolOp):
            # `x or NAME` / `NAME or x` yields the object itself: a hand-out, unless the BoolOp is itself only tested
            g = parent.get(p)
            if isinstance(g, (ast.If, ast.While, ast.IfExp)) and g.test is p: return True
        return False
    out = []
    for n in ast.walk(fn):
        if not (isinstance(n, ast.Name) and isinstance(n.ctx, ast.Load) and n.id in names): continue
        if not safe(n, n.id in nested):
            p = parent.get(n)
            out.append(ast.unparse(parent.get(p, p) if isinstance(p, (ast.Subscript, ast.Attribute)) else p)[:60] if p is not None else n.id)
    return out

def _locals(fn):
    """names bound inside the function (parameters, assignment / loop / with / comprehension / import targets): they shadow module-level names"""
    names = set()
    a = fn.args
    for x in a.posonlyargs + a.args + a.kwonlyargs + ([a.vararg] if a.vararg else []) + ([a.kwarg] if a.kwarg else []):
        names.add(x.arg)
    for n in ast.walk(fn):
        if isinstance(n, ast.Name) and isinstance(n.ctx, ast.Store): names.add(n.id)
        elif isinstance(n, (ast.Import, ast.ImportFrom)):
            for al in n.names: names.add((al.asname or al.name).split('.')[0])
        elif isinstance(n, (ast.FunctionDef, ast.ClassDef)) and n is not fn: names.add(n.name)
    return names

def _module_containers():
    """every bycycle module (not only the analysis modules): module-level names bound to containers - another module may import them by name"""
    out = {}
    root = os.path.join(REPO, 'bycycle')
    for d, _, files in os.walk(root):
        if os.sep + 'tests' in d: continue
        for f in files:
            if not f.endswith('.py'): continue
            path = os.path.join(d, f)
            mod = os.path.relpath(path, REPO)[:-3].replace(os.sep, '.')
            if mod.endswith('.__init__'): mod = mod[:-9]
            try: tree = ast.parse(open(path).read())
            except SyntaxError: continue
            names = {}
            for n in tree.body:
                if isinstance(n, (ast.Assign, ast.AnnAssign)) and getattr(n, 'value', None) is not None and _is_container(n.value):
                    for t in (n.targets if isinstance(n, ast.Assign) else [n.target]):
                        if isinstance(t, ast.Name): names[t.id] = _nested(n.value)
            out[mod] = names
    # re-exports through a package __init__ (`from .shape import DEFAULTS`)
    return out

def extract():
    found = []
    containers = _module_containers()
    for m in MODULES:
        path = os.path.join(REPO, m)
        if not os.path.exists(path): continue
        tree = ast.parse(open(path).read())
        top = set()
        top_mut = set()
        top_nested = set()
        for n in tree.body:
            if isinstance(n, ast.ImportFrom) and n.module and n.level == 0:
                for al in n.names:
                    src = containers.get(n.module, {})
                    hit = al.name in src
                    if not hit:                                   # a package re-export: look the name up in every submodule of the package
                        for mod, names in containers.items():
                            if mod.startswith(n.module + '.') and al.name in names: src, hit = names, True
                    if hit:
                        nm = al.asname or al.name
                        top.add(nm); top_mut.add(nm)
                        if src[al.name]: top_nested.add(nm)
            if isinstance(n, (ast.Assign, ast.AnnAssign, ast.AugAssign)):
                for t in (n.targets if isinstance(n, ast.Assign) else [n.target]):
                    for x in ast.walk(t):
                        if isinstance(x, ast.Name):
                            top.add(x.id)
                            if getattr(n, 'value', None) is not None and _is_container(n.value):
                                top_mut.add(x.id)
                                if _nested(n.value): top_nested.add(x.id)
            elif isinstance(n, (ast.FunctionDef, ast.ClassDef)):
                top.add(n.name)
        funcs = []
        for n in tree.body:
            if isinstance(n, ast.FunctionDef): funcs.append((n.name, n))
            elif isinstance(n, ast.ClassDef):
                for k in n.body:
                    if isinstance(k, ast.FunctionDef): funcs.append((n.name + '.' + k.name, k))
                    elif isinstance(k, (ast.Assign, ast.AnnAssign)):          # class-level containers shared by all instances
                        v = k.value
                        if isinstance(v, (ast.Dict, ast.List, ast.Set)) or (isinstance(v, ast.Call) and isinstance(v.func, ast.Name) and v.func.id in ('dict', 'list', 'set', 'defaultdict', 'OrderedDict')):
                            tg = k.targets[0] if isinstance(k, ast.Assign) else k.target
                            found.append((n.name, 'class-level mutable attribute %s' % ast.unparse(tg)))
        for name, fn in funcs:
            loc = _locals(fn)
            for d in fn.decorator_list:
                ds = ast.unparse(d)
                if any(w in ds.lower() for w in ('cache', 'memo')):
                    found.append((name, 'decorator @%s' % ds))
            a = fn.args
            defaults = {}
            pos = a.posonlyargs + a.args
            for p, dv in zip(pos[len(pos) - len(a.defaults):], a.defaults): defaults[p.arg] = dv
            for p, dv in zip(a.kwonlyargs, a.kw_defaults):
                if dv is not None: defaults[p.arg] = dv
            mutable_defaults = {k for k, v in defaults.items() if _is_container(v)}
            rebound = {x.id for x in ast.walk(fn) if isinstance(x, ast.Name) and isinstance(x.ctx, ast.Store)}
            def flag(root, what):
                if root is None: return
                if root in top and root not in loc:
                    found.append((name, '%s (module-level name %s)' % (what, root)))
                elif root in mutable_defaults and root not in rebound:
                    found.append((name, '%s (mutable default argument %s)' % (what, root)))
            for what in _handouts(fn, {x for x in top_mut if x not in loc}, top_nested):
                found.append((name, 'hands out a module-level container: %s' % what))
            for what in _handouts(fn, {x for x in mutable_defaults if x not in rebound}, {k for k in mutable_defaults if _nested(defaults[k])}):
                found.append((name, 'hands out a mutable default argument: %s' % what))
            for n in ast.walk(fn):
                if isinstance(n, ast.Global):
                    found.append((name, 'global ' + ', '.join(n.names)))
                elif isinstance(n, (ast.Assign, ast.AugAssign, ast.AnnAssign, ast.Delete)):
                    tgs = n.targets if isinstance(n, (ast.Assign, ast.Delete)) else [n.target]
                    for t in tgs:
                        for x in ([t] if not isinstance(t, (ast.Tuple, ast.List)) else t.elts):
                            if isinstance(x, (ast.Subscript, ast.Attribute)):
                                r = _root(x)
                                if r != 'self': flag(r, 'store into %s' % ast.unparse(x))
                elif isinstance(n, ast.Call) and isinstance(n.func, ast.Attribute) and n.func.attr in MUTATORS:
                    r = _root(n.func.value)
                    if r != 'self': flag(r, 'call %s' % ast.unparse(n.func))
                    if isinstance(n.func.value, ast.Attribute) and n.func.value.attr in ('attrs', 'flags', '_metadata'):
                        found.append((name, 'metadata attached to a table: %s' % ast.unparse(n.func)))
                if isinstance(n, (ast.Assign, ast.AugAssign, ast.AnnAssign)):
                    for t in (n.targets if isinstance(n, ast.Assign) else [n.target]):
                        for x in ast.walk(t):
                            # `df.attrs[k] = v` / `df.attrs = {...}`: pandas copies attrs into every slice and copy of the table, so the note travels on with
                            # tables whose values have changed since - state that outlives the call without being an argument anyone wrote
                            if isinstance(x, ast.Attribute) and x.attr in ('attrs', '_metadata') and isinstance(x.ctx, (ast.Store, ast.Load)) and \
                               (x is t or any(isinstance(y, ast.Subscript) and y.value is x for y in ast.walk(t))):
                                found.append((name, 'metadata attached to a table: %s' % ast.unparse(t)))
    return sorted(set(found))

def lean_str(s): return '"' + s.replace('\\', '\\\\').replace('"', '\\"') + '"'

def regenerate(write_file=True):
    found = extract()
    text = ("/- GENERATED by harness/modstate.py from /repo (state that could outlive a call: globals, memoising decorators, writes through module-level names,\n"
            "written mutable default arguments, class-level containers). Do not edit. -/\nnamespace Bycycle.Slots\n\n"
            "def moduleStateWrites : List (String × String) := [" + ', '.join('(%s, %s)' % (lean_str(a), lean_str(b)) for a, b in found) + "]\n\nend Bycycle.Slots\n")
    path = os.path.join(LEAN_GEN, 'SlotsModuleState.lean')
    rewritten = False
    if write_file:
        try: same = open(path).read() == text
        except FileNotFoundError: same = False
        if not same:
            with open(path, 'w') as f: f.write(text)
            rewritten = True
    return dict(found=found, rewritten=rewritten)

if __name__ == '__main__':
    print(extract())
