"""Module-level state translator (C15: no call-history dependence).  For every function / method of bycycle's analysis modules, list what could carry state from
one call to the next OUTSIDE the arguments:

  * a `global` declaration;
  * a memoising decorator (functools.lru_cache / cache / cached_property, joblib-style `.cache`, any decorator whose name contains 'cache' or 'memo');
  * a write through a MODULE-LEVEL name (a name bound at the top level of the module - constant, dict, list, class, function - and not rebound locally in the
    function): `NAME[k] = v`, `NAME.attr = v`, `del NAME[k]`, `NAME += v`, `NAME.append / update / pop / clear / setdefault / extend / insert / remove / add / discard(...)`;
  * a MUTABLE DEFAULT ARGUMENT that the body writes (`def f(x, _seen={})` ... `_seen[k] = v`);
  * a module-level name bound to a mutable container that a function HANDS OUT as it is (`x = x or DEFAULTS`, `return DEFAULTS`, `kwargs = DEFAULTS if kwargs is None else kwargs`):
    recorded only when some function also writes through an alias of it - approximated here by flagging any function that both reads such a name bare
    (not subscripted / called) and stores into a subscript / attribute of a local afterwards is too coarse, so this item is NOT flagged; the correspondence runs
    (refused-call aftermath, pristine-process references) are what sees it.

Output: lean/BycycleModel/Generated/SlotsModuleState.lean, `def moduleStateWrites : List (String × String)` (function, what); `Props/C15.lean` proves it empty."""
import ast, os

REPO = os.environ.get('BYCYCLE_REPO', '/repo')
HERE = os.path.dirname(os.path.abspath(__file__))
LEAN_GEN = os.path.join(os.path.dirname(HERE), 'lean', 'BycycleModel', 'Generated')
MODULES = ['bycycle/objs/fit.py', 'bycycle/features/features.py', 'bycycle/features/shape.py', 'bycycle/features/burst.py', 'bycycle/features/cyclepoints.py',
           'bycycle/cyclepoints/extrema.py', 'bycycle/cyclepoints/zerox.py', 'bycycle/cyclepoints/phase.py',
           'bycycle/burst/cycle.py', 'bycycle/burst/amp.py', 'bycycle/burst/utils.py', 'bycycle/burst/dualthresh.py', 'bycycle/group/features.py', 'bycycle/group/utils.py',
           'bycycle/utils/dataframes.py', 'bycycle/utils/timeseries.py', 'bycycle/utils/checks.py',
           'bycycle/plts/burst.py', 'bycycle/plts/cyclepoints.py', 'bycycle/plts/features.py']
MUTATORS = {'append', 'update', 'pop', 'clear', 'setdefault', 'extend', 'insert', 'remove', 'add', 'discard', 'popitem', 'sort', 'reverse', 'fill', 'put', 'resize', 'cache_clear'}

def _root(e):
    while isinstance(e, (ast.Subscript, ast.Attribute)):
        e = e.value
    return e.id if isinstance(e, ast.Name) else None

def _locals(fn):
    """names bound inside the function (parameters, assignment / loop / with / comprehension / import targets): they shadow module-level names"""
    names = set()
    a = fn.args
    for x in a.posonlyargs + a.args + a.kwonlyargs + ([a.vararg] if a.vararg else []) + ([a.kwarg] if a.kwarg else []):
        names.add(x.arg)
    for n in ast.walk(fn):
        if isinstance(n, ast.Name) and isinstance(n.ctx, ast.Store): names.add(n.id)
        elif isinstance(n, (ast.Import, ast.ImportFrom)):
            for al in n.names: names.add((al.asname or al.name).split('.')[0])
        elif isinstance(n, (ast.FunctionDef, ast.ClassDef)) and n is not fn: names.add(n.name)
    return names

def extract():
    found = []
    for m in MODULES:
        path = os.path.join(REPO, m)
        if not os.path.exists(path): continue
        tree = ast.parse(open(path).read())
        top = set()
        for n in tree.body:
            if isinstance(n, (ast.Assign, ast.AnnAssign, ast.AugAssign)):
                for t in (n.targets if isinstance(n, ast.Assign) else [n.target]):
                    for x in ast.walk(t):
                        if isinstance(x, ast.Name): top.add(x.id)
            elif isinstance(n, (ast.FunctionDef, ast.ClassDef)):
                top.add(n.name)
        funcs = []
        for n in tree.body:
            if isinstance(n, ast.FunctionDef): funcs.append((n.name, n))
            elif isinstance(n, ast.ClassDef):
                for k in n.body:
                    if isinstance(k, ast.FunctionDef): funcs.append((n.name + '.' + k.name, k))
                    elif isinstance(k, (ast.Assign, ast.AnnAssign)):          # class-level containers shared by all instances
                        v = k.value
                        if isinstance(v, (ast.Dict, ast.List, ast.Set)) or (isinstance(v, ast.Call) and isinstance(v.func, ast.Name) and v.func.id in ('dict', 'list', 'set', 'defaultdict', 'OrderedDict')):
                            tg = k.targets[0] if isinstance(k, ast.Assign) else k.target
                            found.append((n.name, 'class-level mutable attribute %s' % ast.unparse(tg)))
        for name, fn in funcs:
            loc = _locals(fn)
            for d in fn.decorator_list:
                ds = ast.unparse(d)
                if any(w in ds.lower() for w in ('cache', 'memo')):
                    found.append((name, 'decorator @%s' % ds))
            a = fn.args
            defaults = {}
            pos = a.posonlyargs + a.args
            for p, dv in zip(pos[len(pos) - len(a.defaults):], a.defaults): defaults[p.arg] = dv
            for p, dv in zip(a.kwonlyargs, a.kw_defaults):
                if dv is not None: defaults[p.arg] = dv
            mutable_defaults = {k for k, v in defaults.items() if isinstance(v, (ast.Dict, ast.List, ast.Set)) or
                                (isinstance(v, ast.Call) and isinstance(v.func, ast.Name) and v.func.id in ('dict', 'list', 'set', 'defaultdict', 'OrderedDict'))}
            rebound = {x.id for x in ast.walk(fn) if isinstance(x, ast.Name) and isinstance(x.ctx, ast.Store)}
            def flag(root, what):
                if root is None: return
                if root in top and root not in loc:
                    found.append((name, '%s (module-level name %s)' % (what, root)))
                elif root in mutable_defaults and root not in rebound:
                    found.append((name, '%s (mutable default argument %s)' % (what, root)))
            for n in ast.walk(fn):
                if isinstance(n, ast.Global):
                    found.append((name, 'global ' + ', '.join(n.names)))
                elif isinstance(n, (ast.Assign, ast.AugAssign, ast.AnnAssign, ast.Delete)):
                    tgs = n.targets if isinstance(n, (ast.Assign, ast.Delete)) else [n.target]
                    for t in tgs:
                        for x in ([t] if not isinstance(t, (ast.Tuple, ast.List)) else t.elts):
                            if isinstance(x, (ast.Subscript, ast.Attribute)):
                                r = _root(x)
                                if r != 'self': flag(r, 'store into %s' % ast.unparse(x))
                elif isinstance(n, ast.Call) and isinstance(n.func, ast.Attribute) and n.func.attr in MUTATORS:
                    r = _root(n.func.value)
                    if r != 'self': flag(r, 'call %s' % ast.unparse(n.func))
    return sorted(set(found))

def lean_str(s): return '"' + s.replace('\\', '\\\\').replace('"', '\\"') + '"'

def regenerate(write_file=True):
    found = extract()
    text = ("/- GENERATED by harness/modstate.py from /repo (state that could outlive a call: globals, memoising decorators, writes through module-level names,\n"
            "written mutable default arguments, class-level containers). Do not edit. -/\nnamespace Bycycle.Slots\n\n"
            "def moduleStateWrites : List (String × String) := [" + ', '.join('(%s, %s)' % (lean_str(a), lean_str(b)) for a, b in found) + "]\n\nend Bycycle.Slots\n")
    path = os.path.join(LEAN_GEN, 'SlotsModuleState.lean')
    rewritten = False
    if write_file:
        try: same = open(path).read() == text
        except FileNotFoundError: same = False
        if not same:
            with open(path, 'w') as f: f.write(text)
            rewritten = True
    return dict(found=found, rewritten=rewritten)

if __name__ == '__main__':
    print(extract())
