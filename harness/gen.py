"""Input generators. Every random choice derives from the numpy Generator passed in."""
import numpy as np

FS_CHOICES = [100, 128, 200, 250, 500, 1000, 1024]
FAMILIES = ['sine', 'asym', 'bursty', 'noise', 'sum', 'chirp', 'quantised', 'clipped', 'plateau', 'zeroed', 'dc', 'scaled', 'blips']

def _powerlaw(rng, n, chi):
    f = np.fft.rfftfreq(n)
    f[0] = f[1]
    spec = (rng.normal(size=len(f)) + 1j * rng.normal(size=len(f))) / f ** (chi / 2.0)
    x = np.fft.irfft(spec, n)
    return x / (np.std(x) + 1e-12)

def make_signal(rng, family=None, n=None, fs=None, f0=None):
    """returns dict(sig, fs, f_range, family)"""
    family = family or FAMILIES[int(rng.integers(len(FAMILIES)))]
    fs = fs or int(FS_CHOICES[int(rng.integers(len(FS_CHOICES)))])
    if f0 is None:
        f0 = float(rng.choice([5, 6, 8, 10, 12, 15, 20]))
        while f0 * 1.3 * 4 > fs:
            f0 = f0 / 2
    lo, hi = round(f0 * 0.7, 1), round(f0 * 1.3, 1)
    n_cyc = int(rng.integers(8, 30))
    n = n or int(min(3000, max(300, n_cyc * fs / f0)))
    t = np.arange(n) / fs
    ph = rng.uniform(0, 2 * np.pi)
    base = np.sin(2 * np.pi * f0 * t + ph)
    if family == 'sine':
        x = base
    elif family == 'asym':
        a = rng.uniform(0.2, 0.8)
        x = np.sin(2 * np.pi * f0 * t + ph + a * np.sin(2 * np.pi * f0 * t + ph))
    elif family == 'bursty':
        env = np.zeros(n); pos = 0; on = bool(rng.integers(2))
        while pos < n:
            ln = int(rng.integers(2, 8) * fs / f0); env[pos:pos + ln] = 1.0 if on else 0.0; pos += ln; on = not on
        x = base * env + 0.3 * _powerlaw(rng, n, 2.0)
    elif family == 'noise':
        x = _powerlaw(rng, n, float(rng.choice([0.0, 1.0, 2.0])))
    elif family == 'sum':
        x = base + 0.5 * np.sin(2 * np.pi * 2 * f0 * t + rng.uniform(0, 6)) + 0.4 * _powerlaw(rng, n, 1.0)
    elif family == 'chirp':
        f = np.linspace(lo, hi, n)
        x = np.sin(2 * np.pi * np.cumsum(f) / fs + ph)
    elif family == 'quantised':
        q = int(rng.choice([1, 2, 3, 5]))
        x = np.round((base + 0.3 * _powerlaw(rng, n, 1.0)) * q)
    elif family == 'clipped':
        c = rng.uniform(0.3, 0.8)
        x = np.clip(base + 0.2 * _powerlaw(rng, n, 1.0), -c, c)
    elif family == 'plateau':
        hold = int(rng.integers(2, max(3, int(fs / f0 / 3))))
        x = np.round(2 * (base + 0.3 * _powerlaw(rng, n, 1.0)))
        x = np.repeat(x[::hold], hold)[:n]
        if len(x) < n:
            x = np.pad(x, (0, n - len(x)), mode='edge')
    elif family == 'zeroed':
        x = base + 0.2 * _powerlaw(rng, n, 1.0)
        for _ in range(int(rng.integers(1, 4))):
            a = int(rng.integers(0, n - 10)); b = a + int(rng.integers(5, max(6, n // 4)))
            x[a:b] = 0.0
    elif family == 'dc':
        x = base + 0.3 * _powerlaw(rng, n, 1.0) + float(rng.choice([-5.0, 3.0, 100.0]))
    elif family == 'scaled':
        x = (base + 0.3 * _powerlaw(rng, n, 1.0)) * float(2.0 ** int(rng.choice([-40, -33, -27, -20, -10, -4, 4, 10, 20, 30])))      # (recordings in SI units: amplitudes of 1e-12 .. 1e-6 are ordinary; an absolute tolerance anywhere shows here)
    elif family == 'blips':
        # a weak rhythm with a few strong stretches of one to three cycles: short runs of bursting cycles, the kind a minimum-length rule removes
        env = np.full(n, 0.25); per = fs / f0
        for _ in range(int(rng.integers(2, 6))):
            a = int(rng.integers(0, max(1, n - int(3 * per)))); env[a:a + int(rng.choice([0.8, 1.2, 2.2, 3.2]) * per)] = float(rng.choice([1.5, 3.0]))
        x = base * env + 0.05 * _powerlaw(rng, n, 1.0)
    else:
        raise ValueError(family)
    return dict(sig=np.ascontiguousarray(x, dtype=float), fs=fs, f_range=(lo, hi), family=family)

def small_int_signal(rng, n, vals=(-1, 0, 1, 2)):
    return rng.choice(np.array(vals, dtype=float), size=n)
