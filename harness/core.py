"""Check runner: proof -> tie -> judge -> search -> verdict (DESIGN.md section 4)."""
import os, sys, json, time, importlib, argparse, traceback, hashlib
import numpy as np

VERIF = os.path.dirname(os.path.dirname(os.path.abspath(__file__)))
sys.path.insert(0, os.path.join(VERIF, 'harness'))
import leanbuild, proto

TRUSTED_BASE = [
    "Lean 4.33.0 kernel and elaborator; Mathlib v4.33.0 lemmas imported module-by-module in Proofs/",
    "axioms of every property theorem audited with #print axioms on this run: subset of {propext, Classical.choice, Quot.sound}; no sorry/admit/native_decide/bv_decide/implemented_by/unsafe/user axiom (grep on this run)",
    "hand-written Lean model of the anchored bycycle functions: faithfulness is CHECKED by the correspondence run of this check (model vs /repo on generated inputs), not proved",
    "harness/slots.py reads decision literals from /repo's AST into BycycleModel/Generated/Slots.lean (trusted to read the AST correctly; cross-checked by correspondence)",
    "Lean driver parsing/printing (BycycleModel/Wire.lean, Driver.lean) and Python canonicalisation (harness/proto.py)",
    "numpy/pandas/neurodsp/scipy/matplotlib kernels are modelled as parameters or transcribed primitives, not verified (DESIGN.md section 5, E1-E7); float64 rounding is outside every theorem (exact rationals in the model)",
]

class Result:
    """outcome of one evaluated case"""
    __slots__ = ('case', 'judge_ok', 'corr_ok', 'sig', 'nontrivial', 'info', 'float_tie', 'finding_key')
    def __init__(self, case, judge_ok=True, corr_ok=True, sig=None, nontrivial=True, info=None,
                 float_tie=False, finding_key=None):
        self.case = case; self.judge_ok = judge_ok; self.corr_ok = corr_ok
        self.sig = sig; self.nontrivial = nontrivial; self.info = info or {}
        self.float_tie = float_tie; self.finding_key = finding_key

class Ctx:
    def __init__(self, prop, tier, seed):
        self.prop = prop; self.tier = tier; self.seed = seed
        self.rng = np.random.default_rng([seed, int(prop[1:])])
        self.quick = tier == 'quick'
        self.notes = {}          # free-form coverage extras (histograms, slot status, ...)
        self.t0 = time.time()
    def sub_rng(self, k):
        return np.random.default_rng([self.seed, int(self.prop[1:]), int(k)])
    def scale(self, quick, thorough):
        return quick if self.quick else thorough
    def hist(self, name, key):
        h = self.notes.setdefault(name, {})
        h[str(key)] = h.get(str(key), 0) + 1

def _watchdog(f, secs):
    """run one batch under an alarm: the teardown of a multiprocessing.Pool whose worker raised occasionally deadlocks inside CPython (seen with the
    UNCHANGED library too, about once in a dozen runs of such a call); a batch that exceeds `secs` is abandoned, its child processes are killed and it is
    run once more; a second timeout is an infrastructure failure (exit 2), never a verdict"""
    import signal, multiprocessing
    def handler(signum, frame):
        raise TimeoutError('batch watchdog (%d s)' % secs)
    for attempt in (1, 2):
        old = signal.signal(signal.SIGALRM, handler); signal.alarm(secs)
        try:
            return f()
        except TimeoutError:
            for ch in multiprocessing.active_children():
                try: ch.kill()
                except Exception: pass
            if attempt == 2: raise
            print('note: a batch exceeded %d s and was restarted (hung worker pool)' % secs, file=sys.stderr)
        finally:
            signal.alarm(0); signal.signal(signal.SIGALRM, old)

def load_findings():
    p = os.path.join(VERIF, 'known_findings.json')
    try:
        return json.load(open(p)).get('findings', [])
    except Exception:
        return []

def jsonable(x):
    if isinstance(x, dict):
        return {str(k): jsonable(v) for k, v in x.items()}
    if isinstance(x, (list, tuple)):
        return [jsonable(v) for v in x]
    if isinstance(x, np.ndarray):
        return jsonable(x.tolist())
    if isinstance(x, (np.integer,)):
        return int(x)
    if isinstance(x, (np.floating, float)):
        return None if (x != x) else float(x)
    if isinstance(x, (np.bool_,)):
        return bool(x)
    if isinstance(x, (str, int, bool)) or x is None:
        return x
    return repr(x)

def write_json(path, obj):
    os.makedirs(os.path.dirname(path), exist_ok=True)
    tmp = path + '.tmp%d' % os.getpid()
    with open(tmp, 'w') as f:
        json.dump(jsonable(obj), f, indent=1)
    os.replace(tmp, path)

def main(argv=None):
    ap = argparse.ArgumentParser()
    ap.add_argument('prop')
    ap.add_argument('--tier', default=os.environ.get('VERIF_TIER', 'quick'), choices=['quick', 'thorough'])
    ap.add_argument('--replay', default=None)
    ap.add_argument('--no-lean', action='store_true', help='debug: skip lake build / audit')
    a = ap.parse_args(argv)
    prop = a.prop
    seed = int(os.environ.get('VERIF_SEED', '0') or 0)
    mod = importlib.import_module('props.' + prop)
    ctx = Ctx(prop, a.tier, seed)
    t0 = time.time()

    if a.replay:
        data = json.load(open(a.replay))
        if 'case' not in data:
            print('replay file names a broken obligation, not an input:', data.get('broken'))
            return 1
        res = mod.evaluate(ctx, [data['case']])[0]
        print('replay', a.replay, 'judge_ok=%s corr_ok=%s' % (res.judge_ok, res.corr_ok))
        print(json.dumps(jsonable(res.info))[:4000])
        if not res.judge_ok:
            print('VIOLATION property=%s replay=%s' % (prop, a.replay))
            return 1
        return 0

    # ---- 1+2: slots, build, audit
    if a.no_lean:
        lb = dict(driver_ok=True, proof_ok=True, obligations=len(mod.THEOREMS), discharged=len(mod.THEOREMS),
                  broken=[], axioms={}, log='', slots={}, forbidden=[], wall_s=0)
    else:
        lb = leanbuild.prepare(prop, mod.THEOREMS, a.tier, regen=getattr(mod, 'regen_slots', None))
    if not lb['driver_ok']:
        print('INFRASTRUCTURE: Lean driver does not build\n' + lb['log'][-3000:])
        return 2

    # ---- 3: corpus first, then generated cases
    results = []
    n_eval = 0
    def run_cases(cases):
        nonlocal n_eval
        out = []
        B = getattr(mod, 'BATCH', 200)
        for i in range(0, len(cases), B):
            rs = _watchdog(lambda: mod.evaluate(ctx, cases[i:i + B]), int(os.environ.get('VERIF_BATCH_TIMEOUT', '900')))
            n_eval += len(rs)
            out.extend(rs)
        return out
    corpus = list(mod.corpus(ctx)) if hasattr(mod, 'corpus') else []
    results += run_cases(corpus)
    gen = list(mod.generate(ctx))
    results += run_cases(gen)

    judged_bad = [r for r in results if r.judge_ok is False]
    corr_bad = [r for r in results if r.corr_ok is False and not r.float_tie]
    searched = 0
    # ---- 4: search when a proof or the correspondence broke and no failing input is known yet
    if (not lb['proof_ok'] or corr_bad) and not judged_bad:
        extra = []
        if hasattr(mod, 'search'):
            extra = list(mod.search(ctx, [r.case for r in corr_bad], lb))
        else:
            for k in range(1, 4):
                c2 = Ctx(prop, a.tier, seed + 7919 * k)
                extra += list(mod.generate(c2))
        rs = run_cases(extra)
        searched = len(rs)
        results += rs
        judged_bad = [r for r in results if r.judge_ok is False]
        corr_bad = [r for r in results if r.corr_ok is False and not r.float_tie]

    # ---- 5: verdict
    findings = [f for f in load_findings() if f.get('status') == 'known' and f.get('property') == prop]
    known_hits, new_bad = [], []
    for r in judged_bad:
        hit = next((f for f in findings if r.finding_key is not None and f.get('match') == r.finding_key), None)
        (known_hits if hit else new_bad).append((r, hit))
    for f in findings:
        hits = [r for r, h in known_hits if h is f]
        if hits:
            print('KNOWN-FINDING: property=%s %s' % (prop, f.get('text', f.get('match'))))
    violations = []
    rdir = 'replays'
    if new_bad:
        # shrink and report the first few distinct ones
        seen = set()
        for r, _ in new_bad:
            key = r.finding_key or json.dumps(jsonable(r.sig), sort_keys=True)
            if key in seen:
                continue
            seen.add(key)
            case = r.case
            if hasattr(mod, 'shrink'):
                try:
                    case = mod.shrink(ctx, case)
                except Exception:
                    pass
            r2 = mod.evaluate(ctx, [case])[0]
            if r2.judge_ok is not False:
                r2, case = r, r.case
            path = os.path.join(rdir, '%s-%d-%d.json' % (prop, seed, len(violations)))
            write_json(path, dict(property=prop, kind='failing-input', case=case, info=r2.info,
                                  how='./check %s --replay %s' % (prop, path)))
            violations.append(path)
            if len(violations) >= 3:
                break
        for p in violations:
            print('VIOLATION property=%s replay=%s' % (prop, p))
    elif not lb['proof_ok'] or corr_bad:
        path = os.path.join(rdir, '%s-%d-broken.json' % (prop, seed))
        broken = list(lb['broken'])
        if corr_bad:
            broken.append('correspondence model-vs-implementation differs on %d case(s)' % len(corr_bad))
        write_json(path, dict(property=prop, kind='no-failing-input-found', broken=broken,
                              build_log=lb['log'][-6000:],
                              first_disagreeing_case=(corr_bad[0].case if corr_bad else None),
                              first_disagreement=(corr_bad[0].info if corr_bad else None),
                              searched_cases=searched))
        violations.append(path)
        print('VIOLATION property=%s replay=%s no-failing-input-found' % (prop, path))

    # ---- evidence
    sigs = set()
    for r in results:
        if r.nontrivial:
            sigs.add(json.dumps(jsonable(r.sig), sort_keys=True))
    samples = [jsonable(r.case) for r in results[:2]] + [jsonable(r.case) for r in results[-1:]]
    samples = [json.loads(json.dumps(s)[:3000]) if len(json.dumps(s)) <= 3000 else {'truncated': json.dumps(s)[:1500]} for s in samples]
    ev = dict(property_id=prop, tier=a.tier, seed=seed, level='proof',
              coverage=dict(
                  obligations=lb['obligations'], discharged=lb['discharged'],
                  checker_cmd='cd lean && lake build Props.%s && lake env lean .audit/%s.lean  (#print axioms per theorem)%s' % (
                      prop, prop, '; lake env leanchecker Props.%s' % prop if a.tier == 'thorough' else ''),
                  trusted_base=TRUSTED_BASE + list(getattr(mod, 'TRUSTED_EXTRA', [])),
                  theorems=mod.THEOREMS, axioms=lb['axioms'], broken_obligations=lb['broken'],
                  slots=lb.get('slots', {}),
                  evaluations=n_eval, distinct_nontrivial=len(sigs),
                  rule=getattr(mod, 'RULE', ''), samples=samples or [{'note': 'no cases'}],
                  corpus_cases=len(corpus), generated_cases=len(gen), search_cases=searched,
                  correspondence_disagreements=len(corr_bad),
                  float_ties=sum(1 for r in results if r.float_tie),
                  judged_failures=len(judged_bad), known_finding_hits=len(known_hits),
                  exhaustive=bool(ctx.notes.get('exhaustive', False)),
                  **{k: v for k, v in ctx.notes.items() if k != 'exhaustive'}),
              assumptions=list(getattr(mod, 'ASSUMPTIONS', [])),
              wall_s=round(time.time() - t0, 2), violations=len(violations))
    # a --no-lean debug run never (over)writes the evidence file: it did not check the proofs
    write_json(os.path.join('/tmp', 'nolean-evidence-%s.json' % prop) if a.no_lean else os.path.join(VERIF, 'evidence', prop + '.json'), ev)
    print('%s %s seed=%d: theorems %d/%d, cases %d (distinct non-trivial %d), corr-breaks %d, judged failures %d%s, %.1fs' % (
        prop, a.tier, seed, lb['discharged'], lb['obligations'], n_eval, len(sigs), len(corr_bad), len(judged_bad),
        (' (%d of them the known finding)' % len(known_hits)) if known_hits else '', time.time() - t0))
    return 1 if violations else 0

if __name__ == '__main__':
    try:
        sys.exit(main())
    except SystemExit:
        raise
    except Exception:
        traceback.print_exc()
        sys.exit(2)
