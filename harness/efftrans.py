"""Translator: Python source of bycycle -> effect IR of lean/BycycleModel/Effects.lean (C15).

Every top-level function of the analysis modules is translated STATEMENT BY STATEMENT into the effect IR
(fresh / alias / write / call / ite). The output, `lean/BycycleModel/Generated/EffectsTranslated.lean`, is rebuilt on
every run; `Props/C15.lean` proves (by kernel evaluation of the static analysis + the interprocedural soundness
theorem) that the translated bodies of the functions C15 lists write no caller-owned object.

Object model (two levels per variable): `x` is the object a name refers to, `x.*` stands for everything reachable
INSIDE it (elements of a list, values of a dict, the buffer behind a view). Every parameter p contributes two
caller-owned parameter positions, p and p.*.

  x = y                      alias x y ; alias x.* y.*
  x = y[k] / y.get / for x in y / y.pop(k)      x and x.* may alias y.*           (element / view of the contents)
  x = y[mask] / y.iloc[index array] / y[[..]]     fresh x, fresh x.*                (boolean / fancy indexing copies)
  x = deepcopy(y) / arithmetic / constructor / unknown library call           fresh x, fresh x.*
  x = y.copy() / dict(y) / list(y) / [y] / (y, z) / zip / enumerate           fresh x ; x.* may alias the contents (shallow)
  x = y.values / .T / .reshape / np.asarray(y) / np.swapaxes(y, ..)           alias (views)
  x = a if c else b / a or b                                                  either
  x = f(args)  (f translated)   call f args ; x, x.* may alias what f may return (computed, emitted as `ite [alias ..] []`)
  x[k] = v / x.attr = v / x.pop / x.update / del x[k] / x += v / inplace=True / out=x      write x   (contents of x may now alias v)
  x[k][j] = v / x[k].pop(..)                                                                write x.*
  if / try / with                    ite ;   for / while         two unrollings of `ite body []`
  return e                           recorded in `$ret<k>` (only used to compute what a call may return)

Not modelled (trusted base): library calls other than the listed mutators are pure and return fresh objects; attribute
stores on objects other than the listed kinds; closures / lambdas; that two unrollings reach the alias fixpoint (checked here
by comparing with a third unrolling).
"""
import ast, os, sys, json

REPO = os.environ.get('BYCYCLE_REPO', '/repo')
MODULES = ['bycycle/objs/fit.py', 'bycycle/features/features.py', 'bycycle/features/shape.py', 'bycycle/features/burst.py', 'bycycle/features/cyclepoints.py',
           'bycycle/cyclepoints/extrema.py', 'bycycle/cyclepoints/zerox.py', 'bycycle/cyclepoints/phase.py',
           'bycycle/burst/cycle.py', 'bycycle/burst/amp.py', 'bycycle/burst/utils.py',
           'bycycle/group/features.py', 'bycycle/group/utils.py',
           'bycycle/utils/dataframes.py', 'bycycle/utils/timeseries.py', 'bycycle/utils/checks.py',
           'bycycle/plts/burst.py', 'bycycle/plts/cyclepoints.py', 'bycycle/plts/features.py']
# the functions C15 names (and their pure helpers): their translated bodies must write nothing caller-owned
PURE = ['compute_features', 'compute_shape_features', 'compute_durations', 'compute_extrema_voltage', 'compute_symmetry', 'compute_band_amp',
        'compute_burst_features', 'compute_amp_fraction', 'compute_amp_consistency', 'compute_period_consistency', 'compute_monotonicity',
        'compute_burst_fraction', 'compute_cyclepoints', 'find_extrema', 'find_zerox', 'find_flank_zerox', 'extrema_interpolated_phase',
        'compute_features_2d', 'compute_features_3d', 'recompute_edges', 'limit_df', 'limit_signal', 'epoch_df', 'drop_samples_df',
        'get_extrema_df', 'check_sig_dtype', 'plot_burst_detect_summary', 'plot_burst_detect_param', 'plot_cyclepoints_df',
        'plot_cyclepoints_array', 'plot_feature_hist', 'plot_feature_categorical']

SELF_ONLY = ['Bycycle.fit', 'Bycycle.recompute_edges', 'Bycycle.load', 'BycycleBase.reduce_thresholds', 'Bycycle.__getattr__']

VIEW_ATTRS = {'values', 'T', 'iloc', 'loc', 'at', 'iat', 'flat', 'real', 'imag', 'array'}
VIEW_METHODS = {'reshape', 'ravel', 'squeeze', 'swapaxes', 'transpose', 'view', 'to_numpy', '__array__', 'items', 'keys'}
VIEW_FUNCS = {'asarray', 'swapaxes', 'squeeze', 'ravel', 'reshape', 'transpose', 'atleast_1d', 'atleast_2d', 'asanyarray', 'ascontiguousarray'}
ELEM_METHODS = {'get', 'pop', 'setdefault', 'popitem'}
SHALLOW_FUNCS = {'list', 'dict', 'tuple', 'zip', 'enumerate', 'reversed', 'sorted', 'product', 'iter', 'set', 'copy', 'array', 'chain', 'tile', 'repeat'}
SHALLOW_METHODS = {'copy', 'tolist'}
MUTATORS = {'pop', 'update', 'append', 'extend', 'insert', 'remove', 'clear', 'setdefault', 'sort', 'reverse', 'fill', 'popitem',
            'put', 'itemset', 'resize', 'setflags', 'partition', 'byteswap'}
INDEX_MAKERS = {'where', 'flatnonzero', 'nonzero', 'argsort', 'argwhere', 'arange', 'isin', 'logical_and', 'logical_or', 'logical_not', 'isnan', 'isfinite'}
LIB_MODULES = {'np', 'numpy', 'pd', 'pandas', 'copy', 'itertools', 'functools', 'plt', 'warnings', 'math'}
MAP_METHODS = {'imap', 'imap_unordered', 'map', 'starmap', 'apply_async', 'map_async'}


class Fn:
    def __init__(self, node, module):
        self.node, self.module, self.name = node, module, node.name
        a = node.args
        self.pos = [x.arg for x in a.posonlyargs + a.args]
        self.kwonly = [x.arg for x in a.kwonlyargs]
        self.vararg = a.vararg.arg if a.vararg else None
        self.kwarg = a.kwarg.arg if a.kwarg else None
        self.names = self.pos + ([self.vararg] if self.vararg else []) + self.kwonly + ([self.kwarg] if self.kwarg else [])
        self.params = [v for p in self.names for v in (p, p + '.*')]       # doubled
    def index(self, name):
        return 2 * self.names.index(name)


def load():
    fns = {}
    for m in MODULES:
        path = os.path.join(REPO, m)
        if not os.path.exists(path):
            continue
        for n in ast.parse(open(path).read()).body:
            if isinstance(n, ast.FunctionDef):
                if n.name in fns:
                    raise ValueError('duplicate function name ' + n.name)
                fns[n.name] = Fn(n, m)
            elif isinstance(n, ast.ClassDef):
                for k in n.body:
                    if isinstance(k, ast.FunctionDef) and not k.decorator_list or isinstance(k, ast.FunctionDef) and all(ast.unparse(d) in ('savefig',) for d in k.decorator_list):
                        f = Fn(k, m); f.name = n.name + '.' + k.name; f.cls = n.name
                        f.bases = [ast.unparse(b) for b in n.bases]
                        fns[f.name] = f
    return fns


# ---------------------------------------------------------------- IR (python mirror of Effects.lean)
def fresh(x): return ('fresh', x)
def alias(x, y): return ('alias', x, y)
def write(x): return ('write', x)
def call(f, args): return ('call', f, list(args))
def ite(a, b=()): return ('ite', list(a), list(b))

def analyse(stmts, env, summ):
    """python mirror of analyseList: env var -> frozenset of param indices; returns (env, written)"""
    w = set()
    for s in stmts:
        k = s[0]
        if k == 'fresh': env = dict(env); env[s[1]] = frozenset()
        elif k == 'alias': env = dict(env); env[s[1]] = env.get(s[2], frozenset())
        elif k == 'write': w |= env.get(s[1], frozenset())
        elif k == 'call':
            for p in summ.get(s[1], ()):
                if p < len(s[2]): w |= env.get(s[2][p], frozenset())
        elif k == 'ite':
            ea, wa = analyse(s[1], env, summ); eb, wb = analyse(s[2], env, summ)
            env = {v: ea.get(v, frozenset()) | eb.get(v, frozenset()) for v in set(ea) | set(eb)}
            w |= wa | wb
    return env, w


# ---------------------------------------------------------------- translation of one function
class Tr:
    def __init__(self, fn, fns, rets, unroll=2):
        self.fn, self.fns, self.rets, self.unroll = fn, fns, rets, unroll
        self.tmp = 0; self.nret = 0
        self.masks = set()
        self.unknown = []

    def t(self, stem='t'):
        self.tmp += 1
        return '_%s%d' % (stem, self.tmp)

    def reset_tmp(self):
        self.tmp = 0                      # temporaries are consumed within the statement that creates them

    # abstract value of an expression: list of (mode, var) with mode in alias / shallow / elem; [] = fresh. `pre` collects statements.
    def val(self, e, pre):
        if isinstance(e, ast.Name):
            return [('alias', e.id)]
        if isinstance(e, ast.Starred):
            return self.val(e.value, pre)
        if isinstance(e, ast.Attribute):
            if e.attr in VIEW_ATTRS:
                return self.val(e.value, pre)
            if isinstance(e.value, ast.Name) and e.value.id in LIB_MODULES:
                return []                                   # np.inf, np.pi, ...
            return [('elem', v) for m, v in self.val(e.value, pre)]     # an object held inside (self.thresholds, df.columns, ...)
        if isinstance(e, ast.Subscript):
            base = self.val(e.value, pre)
            self.val(e.slice, pre) if not isinstance(e.slice, ast.Slice) else None
            if self.is_mask(e.slice):
                return []
            if isinstance(e.slice, ast.Slice) or (isinstance(e.slice, ast.Tuple) and any(isinstance(x, ast.Slice) for x in e.slice.elts)):
                return [('elem', v) if m != 'shallow' else ('elem', v) for m, v in base] + base     # a view: same buffer
            return [('elem', v) for m, v in base]
        if isinstance(e, ast.IfExp):
            self.val(e.test, pre)
            # TYPE GUARD: `X if isinstance(y, C) else y` - the else value is y only when y is NOT a container of kind C
            # (None or a scalar at every call site), so nothing written later can be reached through it
            t = e.test
            if isinstance(t, ast.Call) and isinstance(t.func, ast.Name) and t.func.id == 'isinstance' and len(t.args) == 2 \
                    and isinstance(t.args[0], ast.Name) and isinstance(e.orelse, ast.Name) and e.orelse.id == t.args[0].id:
                return self.val(e.body, pre)
            return self.val(e.body, pre) + self.val(e.orelse, pre)
        if isinstance(e, ast.BoolOp):
            out = []
            for x in e.values: out += self.val(x, pre)
            return out
        if isinstance(e, (ast.Tuple, ast.List, ast.Set)):
            out = []
            for x in e.elts:
                for m, v in self.val(x, pre):
                    out.append(('holds', v) if m == 'alias' else ('shallow', v) if m in ('shallow', 'elem') else (m, v))
            return [('holds', v) if m == 'holds' else ('shallow', v) for m, v in out]
        if isinstance(e, ast.Dict):
            out = []
            for x in list(e.values) + [k for k in e.keys if k is not None]:
                for m, v in self.val(x, pre):
                    out.append(('holds', v) if m == 'alias' else ('shallow', v))
            return out
        if isinstance(e, (ast.ListComp, ast.GeneratorExp, ast.SetComp, ast.DictComp)):
            for g in e.generators:
                self.assign_target(g.target, [('elem', v) for m, v in self.val(g.iter, pre)], pre)
                for c in g.ifs: self.val(c, pre)
            elts = [e.elt] if not isinstance(e, ast.DictComp) else [e.key, e.value]
            out = []
            for x in elts:
                for m, v in self.val(x, pre):
                    out.append(('holds', v) if m == 'alias' else ('shallow', v))
            return out
        if isinstance(e, ast.Call):
            return self.call_val(e, pre)
        if isinstance(e, (ast.BinOp,)):
            l = self.val(e.left, pre); r = self.val(e.right, pre)
            if isinstance(e.op, (ast.Mult, ast.Add)):          # list repetition / concatenation shares the elements
                return [('shallow', v) for m, v in l + r]
            return []
        if isinstance(e, (ast.UnaryOp,)):
            self.val(e.operand, pre); return []
        if isinstance(e, ast.Compare):
            self.val(e.left, pre)
            for c in e.comparators: self.val(c, pre)
            return []
        if isinstance(e, ast.JoinedStr):
            return []
        if isinstance(e, ast.FormattedValue):
            return []
        if isinstance(e, ast.Constant) or e is None:
            return []
        if isinstance(e, ast.Slice):
            return []
        if isinstance(e, ast.Lambda):
            return []
        if isinstance(e, (ast.Yield, ast.YieldFrom, ast.Await)):
            return self.val(e.value, pre) if e.value is not None else []
        if isinstance(e, ast.NamedExpr):
            av = self.val(e.value, pre); self.assign_target(e.target, av, pre, e.value); return av
        self.unknown.append(ast.unparse(e)[:60])
        return []

    def is_mask(self, s):
        if isinstance(s, ast.Compare): return True
        if isinstance(s, ast.BinOp) and isinstance(s.op, (ast.BitAnd, ast.BitOr, ast.BitXor)): return True
        if isinstance(s, ast.UnaryOp) and isinstance(s.op, ast.Invert): return True
        if isinstance(s, ast.List): return True
        if isinstance(s, ast.Name) and s.id in self.masks: return True
        if isinstance(s, ast.Call) and isinstance(s.func, ast.Attribute) and s.func.attr in INDEX_MAKERS | {'astype', 'startswith', 'contains'}: return True
        if isinstance(s, ast.Subscript) and self.is_mask(s.value): return True        # np.where(..)[0]
        if isinstance(s, ast.Tuple): return any(self.is_mask(x) for x in s.elts)
        return False

    def mask_value(self, e):
        if isinstance(e, (ast.Compare,)): return True
        if isinstance(e, ast.BinOp) and isinstance(e.op, (ast.BitAnd, ast.BitOr)): return True
        if isinstance(e, ast.UnaryOp) and isinstance(e.op, ast.Invert): return True
        if isinstance(e, ast.Call) and isinstance(e.func, ast.Attribute) and e.func.attr in INDEX_MAKERS: return True
        if isinstance(e, ast.Subscript): return self.mask_value(e.value)
        return False

    # ---- calls
    def func_name(self, f):
        if isinstance(f, ast.Name): return f.id
        if isinstance(f, ast.Attribute): return f.attr
        return None

    def call_val(self, e, pre):
        name = self.func_name(e.func)
        recv = e.func.value if isinstance(e.func, ast.Attribute) else None
        # a translated bycycle function
        if isinstance(e.func, ast.Name) and name in self.fns:
            return self.known_call(self.fns[name], e.args, e.keywords, pre)
        # a method of the same class (or of its base) called on self
        if isinstance(recv, ast.Name) and recv.id == 'self' and getattr(self.fn, 'cls', None):
            for c in [self.fn.cls] + list(getattr(self.fn, 'bases', [])):
                if c + '.' + name in self.fns:
                    return self.known_call(self.fns[c + '.' + name], [recv] + list(e.args), e.keywords, pre)
        if isinstance(recv, ast.Call) and isinstance(recv.func, ast.Name) and recv.func.id == 'super' and getattr(self.fn, 'bases', None):
            for c in self.fn.bases:
                if c + '.' + name in self.fns:
                    return self.known_call(self.fns[c + '.' + name], [ast.Name(id='self', ctx=ast.Load())] + list(e.args), e.keywords, pre)
        # functools.partial(f, **kw) is resolved where it is applied (map / imap)
        if name in MAP_METHODS or (isinstance(e.func, ast.Name) and name == 'map'):
            if e.args:
                f = e.args[0]; rest = e.args[1:]
                kws = []
                if isinstance(f, ast.Call) and self.func_name(f.func) == 'partial' and f.args:
                    kws = f.keywords; extra = f.args[1:]; f = f.args[0]
                else:
                    extra = []
                if isinstance(f, ast.Name) and f.id in self.fns:
                    elems = []
                    for it in rest:
                        elems.append(ast.Subscript(value=it, slice=ast.Constant(value=0), ctx=ast.Load()))
                    res = self.known_call(self.fns[f.id], list(extra) + elems, kws, pre)
                    return [('shallow', v) for m, v in res]
            for a in e.args: self.val(a, pre)
            return []
        if recv is not None and name in MUTATORS | {'rename', 'drop', 'reset_index', 'sort_values', 'fillna', 'set_index', 'replace', 'dropna', 'sort_index'}:
            inplace = any(k.arg == 'inplace' and not (isinstance(k.value, ast.Constant) and k.value.value is False) for k in e.keywords)
            if name in MUTATORS or inplace:
                self.write_place(recv, pre, [a for a in e.args] + [k.value for k in e.keywords])
        for k in e.keywords:
            if k.arg == 'out':
                self.write_place(k.value, pre, [])
        argvals = []
        for a in e.args: argvals.append(self.val(a, pre))
        for k in e.keywords: self.val(k.value, pre)
        if recv is not None and isinstance(recv, ast.Name) and recv.id in LIB_MODULES:
            recv = None                                   # np.asarray(y), copy.deepcopy(y), ...: a library FUNCTION
        if recv is not None:
            base = self.val(recv, pre)
            if name in VIEW_METHODS: return base
            if name in ELEM_METHODS: return [('elem', v) for m, v in base] + [x for av in argvals[1:] for x in av]
            if name in SHALLOW_METHODS: return [('shallow', v) for m, v in base]
            return []
        if name in VIEW_FUNCS:
            return argvals[0] if argvals else []
        if name in SHALLOW_FUNCS:
            return [('shallow', v) if m != 'holds' else ('holds', v) for av in argvals for m, v in av]
        if name in ('deepcopy',):
            return []
        if name == 'partial':
            return []
        return []

    def known_call(self, g, args, keywords, pre):
        """bind the callee's doubled parameters, emit the call, return the abstract value of the result"""
        bound = {}          # param name -> abstract value
        pos = list(g.pos)
        extra_elems = []
        i = 0
        for a in args:
            if isinstance(a, ast.Starred):
                v = [('elem', x) for m, x in self.val(a.value, pre)]
                for p in pos[i:]:
                    bound.setdefault(p, []).extend(v)
                extra_elems += v; i = len(pos)
                continue
            v = self.val(a, pre)
            if i < len(pos): bound.setdefault(pos[i], []).extend(v)
            elif g.vararg: bound.setdefault(g.vararg, []).extend([('holds', x) if m == 'alias' else ('shallow', x) for m, x in v])
            i += 1
        explicit = set(bound) | {k.arg for k in keywords if k.arg is not None}
        for k in keywords:
            v = self.val(k.value, pre)
            if k.arg is None:                       # **d : every parameter not bound otherwise may receive a value of d
                ev = [('elem', x) for m, x in v]
                for p in g.pos + g.kwonly:
                    if p not in explicit:           # (a duplicate binding is a TypeError in python)
                        bound.setdefault(p, []).extend(ev)
                if g.kwarg: bound.setdefault(g.kwarg, []).extend([('shallow', x) for m, x in v])
            elif k.arg in g.pos + g.kwonly:
                bound.setdefault(k.arg, []).extend(v)
            elif g.kwarg:
                bound.setdefault(g.kwarg, []).extend([('holds', x) if m == 'alias' else ('shallow', x) for m, x in v])
        argvars = []
        for p in g.names:
            tv = self.t('a')
            self.emit_assign(tv, bound.get(p, []), pre)
            argvars += [tv, tv + '.*']
        pre.append(call(g.name, argvars))
        r = self.t('r')
        pre.append(fresh(r)); pre.append(fresh(r + '.*'))
        top, inner = self.rets.get(g.name, (frozenset(), frozenset()))
        for idx in sorted(top):
            pre.append(ite([alias(r, argvars[idx])]))
        for idx in sorted(inner):
            pre.append(ite([alias(r + '.*', argvars[idx])]))
        return [('alias', r)]

    # ---- assignment of an abstract value to a variable (and its contents variable)
    def emit_assign(self, x, av, pre):
        """x (and its contents variable x.*) := one of the candidates in `av` (fresh when there is none)"""
        av = list(dict.fromkeys(av))
        srcs = {v for m, v in av}
        ren = {}
        if x in srcs and not (len(av) == 1 and av[0][0] == 'alias'):
            old = '_old'; pre.append(alias(old, x)); pre.append(alias(old + '.*', x + '.*')); ren[x] = old
        def one(m, v):
            v = ren.get(v, v)
            if m == 'alias': return [alias(x, v), alias(x + '.*', v + '.*')] if v != x else []
            if m == 'elem': return [alias(x, v + '.*'), alias(x + '.*', v + '.*')]
            if m == 'shallow': return [fresh(x), alias(x + '.*', v + '.*')]
            if m == 'holds': return [fresh(x), ite([alias(x + '.*', v)], [alias(x + '.*', v + '.*')])]
            raise ValueError(m)
        if not av:
            pre.append(fresh(x)); pre.append(fresh(x + '.*')); return
        # containers built from several things (holds / shallow) UNITE their contents; alternatives (alias / elem) are a choice
        cont = [(m, v) for m, v in av if m in ('holds', 'shallow')]
        alt = [(m, v) for m, v in av if m in ('alias', 'elem')]
        if cont and not alt and len(cont) > 1:
            # contents may be any of the parts: a chain of choices over the contents variable only
            pre.append(fresh(x))
            chain = None
            for m, v in reversed(cont):
                v = ren.get(v, v)
                opts = [[alias(x + '.*', v + '.*')]] + ([[alias(x + '.*', v)]] if m == 'holds' else [])
                for o in opts:
                    chain = [ite(o, chain)] if chain is not None else o
            pre.extend(chain); return
        cands = [one(m, v) for m, v in av]
        chain = cands[-1]
        for c in reversed(cands[:-1]):
            chain = [ite(c, chain)]
        pre.extend(chain)

    def assign_target(self, tgt, av, pre, value_node=None):
        if isinstance(tgt, ast.Name):
            if value_node is not None and self.mask_value(value_node): self.masks.add(tgt.id)
            elif tgt.id in self.masks and value_node is not None: self.masks.discard(tgt.id)
            self.emit_assign(tgt.id, av, pre)
        elif isinstance(tgt, (ast.Tuple, ast.List)):
            if isinstance(value_node, (ast.Tuple, ast.List)) and len(value_node.elts) == len(tgt.elts) and not any(isinstance(x, ast.Starred) for x in tgt.elts):
                vals = [self.val(v, pre) for v in value_node.elts]
                tmps = []
                for v in vals:
                    tv = self.t('u'); self.emit_assign(tv, v, pre); tmps.append(tv)
                for t_, tv, vn in zip(tgt.elts, tmps, value_node.elts):
                    self.assign_target(t_, [('alias', tv)], pre, vn)
            else:
                ev = [('elem', v) for m, v in av]
                for t_ in tgt.elts:
                    self.assign_target(t_.value if isinstance(t_, ast.Starred) else t_, ev, pre)
        elif isinstance(tgt, (ast.Subscript, ast.Attribute)):
            self.write_place(tgt.value, pre, None, stored=av)
        elif isinstance(tgt, ast.Starred):
            self.assign_target(tgt.value, av, pre)

    def write_place(self, e, pre, stored_nodes, stored=None):
        """in-place modification of the object the expression `e` denotes"""
        av = self.val(e, pre)
        st = list(stored or [])
        for n in (stored_nodes or []):
            st += self.val(n, pre)
        for m, v in av:
            tgt = v if m == 'alias' else v + '.*'
            if m in ('alias', 'elem'):
                pre.append(write(tgt))
            elif m in ('shallow', 'holds'):
                continue                     # a new container: writing its top level touches nothing older
            cont = v + '.*'
            for sm, sv in st:                # what is stored becomes part of the contents
                pre.append(ite([alias(cont, sv if sm in ('alias', 'holds') else sv + '.*')]))
                pre.append(ite([alias(cont, sv + '.*')]))
        if not av and isinstance(e, ast.Name):
            pre.append(write(e.id))

    # ---- statements
    def block(self, stmts):
        out = []
        for s in stmts:
            out += self.stmt(s)
        return out

    def stmt(self, s):
        pre = []
        self.reset_tmp()
        if isinstance(s, ast.Expr):
            if isinstance(s.value, ast.Constant): return []
            self.val(s.value, pre); return pre
        if isinstance(s, ast.Assign):
            av = self.val(s.value, pre)
            for tgt in s.targets:
                self.assign_target(tgt, av, pre, s.value)
            return pre
        if isinstance(s, ast.AnnAssign):
            if s.value is not None:
                self.assign_target(s.target, self.val(s.value, pre), pre, s.value)
            return pre
        if isinstance(s, ast.AugAssign):
            self.write_place(s.target if isinstance(s.target, ast.Name) else s.target.value, pre, [s.value])
            return pre
        if isinstance(s, ast.Delete):
            for tgt in s.targets:
                if isinstance(tgt, (ast.Subscript, ast.Attribute)): self.write_place(tgt.value, pre, [])
            return pre
        if isinstance(s, ast.If):
            self.val(s.test, pre)
            return pre + [ite(self.block(s.body), self.block(s.orelse))]
        if isinstance(s, (ast.For, ast.While)):
            if isinstance(s, ast.For):
                head = []
                self.assign_target(s.target, [('elem', v) for m, v in self.val(s.iter, head)], head)
            else:
                head = []; self.val(s.test, head)
            body = None
            for _ in range(self.unroll):
                inner = head + self.block(s.body) + ([body] if body else [])
                body = ite(inner)
            return pre + [body] + (self.block(s.orelse) if s.orelse else [])
        if isinstance(s, ast.With):
            for it in s.items:
                av = self.val(it.context_expr, pre)
                if it.optional_vars is not None: self.assign_target(it.optional_vars, av, pre)
            return pre + self.block(s.body)
        if isinstance(s, ast.Try):
            out = [ite(self.block(s.body))]
            for h in s.handlers: out.append(ite(self.block(h.body)))
            return out + self.block(s.orelse) + self.block(s.finalbody)
        if isinstance(s, ast.Return):
            if s.value is not None:
                self.nret += 1
                r = '$ret%d' % self.nret
                self.emit_assign(r, self.val(s.value, pre), pre)
            return pre
        if isinstance(s, ast.Raise):
            if s.exc is not None: self.val(s.exc, pre)
            return pre
        if isinstance(s, (ast.Import, ast.ImportFrom, ast.Pass, ast.Break, ast.Continue, ast.Global, ast.Nonlocal, ast.Assert)):
            return []
        if isinstance(s, ast.FunctionDef):
            return []
        self.unknown.append('stmt ' + type(s).__name__)
        return []

    def run(self):
        head = []
        for v in (self.fn.vararg, self.fn.kwarg):        # the *args tuple / **kwargs dict is created by the call itself;
            if v: head.append(fresh(v))                  # only its CONTENTS (v.*) can be the caller's
        return head + self.block(self.fn.node.body)


def translate_all(unroll=2):
    fns = load()
    summ = {f: frozenset() for f in fns}
    rets = {f: (frozenset(), frozenset()) for f in fns}
    bodies = {}
    unknown = {}
    for _ in range(20):
        changed = False
        for name, fn in fns.items():
            tr = Tr(fn, fns, rets, unroll)
            body = tr.run(); bodies[name] = body
            if tr.unknown: unknown[name] = tr.unknown
            env0 = {p: frozenset([i]) for i, p in enumerate(fn.params)}
            env, w = analyse(body, env0, summ)
            top = frozenset(i for k in range(1, tr.nret + 1) for i in env.get('$ret%d' % k, ()))
            inner = frozenset(i for k in range(1, tr.nret + 1) for i in env.get('$ret%d.*' % k, ()))
            if frozenset(w) != summ[name] or (top, inner) != rets[name]:
                changed = True
            summ[name] = frozenset(w) | summ[name]
            rets[name] = (top | rets[name][0], inner | rets[name][1])
        if not changed:
            break
    return fns, bodies, summ, rets, unknown


# ---------------------------------------------------------------- Lean rendering
def ident(n): return n.replace('.', '_').replace('__', 'dunder_')

def lean_str(s): return '"' + s.replace('\\', '\\\\').replace('"', '\\"') + '"'

def lean_stmt(s):
    k = s[0]
    if k == 'fresh': return '.fresh %s' % lean_str(s[1])
    if k == 'alias': return '.alias %s %s' % (lean_str(s[1]), lean_str(s[2]))
    if k == 'write': return '.write %s' % lean_str(s[1])
    if k == 'call': return '.call %s [%s]' % (lean_str(s[1]), ', '.join(lean_str(a) for a in s[2]))
    return '.ite [%s] [%s]' % (', '.join(lean_stmt(x) for x in s[1]), ', '.join(lean_stmt(x) for x in s[2]))

def self_assigns(fns, name, seen=None):
    """attribute slots of `self` a method may rebind (`self.a = ..`, `self.a += ..`), through methods it calls on self as well"""
    seen = seen or set()
    if name in seen or name not in fns: return set()
    seen.add(name)
    fn = fns[name]; out = set()
    for n in ast.walk(fn.node):
        tg = []
        if isinstance(n, ast.Assign): tg = n.targets
        elif isinstance(n, (ast.AugAssign, ast.AnnAssign)): tg = [n.target]
        elif isinstance(n, ast.Delete): tg = n.targets
        elif isinstance(n, ast.Call) and isinstance(n.func, ast.Name) and n.func.id in ('setattr', 'delattr') and n.args and isinstance(n.args[0], ast.Name) and n.args[0].id == 'self':
            out.add('<dynamic>')
        elif isinstance(n, ast.Call) and isinstance(n.func, ast.Attribute) and isinstance(n.func.value, ast.Name) and n.func.value.id == 'self':
            for c in [getattr(fn, 'cls', '')] + list(getattr(fn, 'bases', [])):
                out |= self_assigns(fns, c + '.' + n.func.attr, seen)
        elif isinstance(n, ast.Attribute) and n.attr == '__dict__' and isinstance(n.value, ast.Name) and n.value.id == 'self':
            out.add('<__dict__>')
        for t in tg:
            for x in ([t] if not isinstance(t, (ast.Tuple, ast.List)) else t.elts):
                if isinstance(x, ast.Attribute) and isinstance(x.value, ast.Name) and x.value.id == 'self': out.add(x.attr)
    return out

def shorten(fn, body):
    """kernel evaluation compares variable names character by character: use short names v<k> (contents: v<k>*), keep the mapping as a comment"""
    names = {}
    def sh(v):
        base = v[:-2] if v.endswith('.*') else v
        if base not in names: names[base] = 'v%d' % len(names)
        return names[base] + ('*' if v.endswith('.*') else '')
    def ren(s):
        k = s[0]
        if k == 'fresh': return ('fresh', sh(s[1]))
        if k == 'alias': return ('alias', sh(s[1]), sh(s[2]))
        if k == 'write': return ('write', sh(s[1]))
        if k == 'call': return ('call', s[1], [sh(a) for a in s[2]])
        return ('ite', [ren(x) for x in s[1]], [ren(x) for x in s[2]])
    params = [sh(p) for p in fn.params]
    return params, [ren(x) for x in body], names

def size(b):
    return sum(1 + ((size(s[1]) + size(s[2])) if s[0] == 'ite' else 0) for s in b)

NPROOF = 8

def render(fns, bodies, summ):
    names = sorted(fns)
    out = ["/- GENERATED by harness/efftrans.py: TRANSLATION of every top-level function of bycycle's analysis modules into the",
           "   effect IR (see the translator's docstring for the rules). Variables are renamed v<k> (the object) / v<k>* (its contents);",
           "   the original names are listed above each function. Do not edit. -/",
           'import BycycleModel.Effects', 'namespace Bycycle.Eff.T', 'open Bycycle.Eff', '']
    for n in names:
        f = fns[n]
        params, body, mp = shorten(f, bodies[n])
        out.append('/-- %s (%s); parameters %s; variables: %s -/' % (n, f.module, ', '.join(f.names), ', '.join('%s=%s' % (v, k) for k, v in mp.items())))
        out.append('def fn_%s : Fn := ⟨%s, [%s], [' % (ident(n), lean_str(n), ', '.join(lean_str(p) for p in params)))
        out.append('  ' + ',\n  '.join(lean_stmt(s) for s in body) + ']⟩')
        out.append('')
    out.append('def fns : List Fn := [%s]' % ', '.join('fn_' + ident(n) for n in names))
    out.append('/-- write summaries (doubled parameter positions: 2i = the i-th parameter, 2i+1 = its contents), computed by the translator and')
    out.append('RE-CHECKED in Lean (`wellSummarised`). -/')
    out.append('def summ : Summ := [%s]' % ', '.join('(%s, [%s])' % (lean_str(n), ', '.join(str(i) for i in sorted(summ[n]))) for n in names if summ[n]))
    out.append('/-- methods of the Bycycle object that may rebind attribute slots of `self` (position 0) and nothing else (C14). -/')
    out.append('def selfOnly : List String := [%s]' % ', '.join(lean_str(n) for n in SELF_ONLY))
    out.append('/-- the attribute slots of `self` each of those methods may rebind (syntactic: `self.a = ..` in the method or in a method it calls on self). -/')
    out.append('def selfAssigns : List (String × List String) := [%s]' % ', '.join('(%s, [%s])' % (lean_str(n), ', '.join(lean_str(a) for a in sorted(self_assigns(fns, n)))) for n in SELF_ONLY if n in fns))
    out.append('/-- the functions C15 lists and their helpers. -/')
    out.append('def pure : List String := [%s]' % ', '.join(lean_str(n) for n in PURE))
    out.append('')
    out.append('end Bycycle.Eff.T')
    files = {'BycycleModel/Generated/EffectsTranslated.lean': '\n'.join(out) + '\n'}
    # proof obligations: one kernel evaluation per function, spread over NPROOF files (built in parallel)
    groups = [[] for _ in range(NPROOF)]; load_ = [0] * NPROOF
    for n in sorted(names, key=lambda n: -size(bodies[n])):
        k = load_.index(min(load_)); groups[k].append(n); load_[k] += size(bodies[n]) ** 2 + 50
    for k, g in enumerate(groups):
        txt = ['/- GENERATED by harness/efftrans.py: each translated body respects its summary and has distinct parameters (kernel evaluation). -/',
               'import BycycleModel.Generated.EffectsTranslated', 'namespace Bycycle.Eff.T', 'open Bycycle.Eff', '']
        for n in sorted(g):
            txt.append('theorem ok_%s : (fn_%s.respects summ && decide fn_%s.params.Nodup) = true := by decide +kernel' % (ident(n), ident(n), ident(n)))
        txt += ['', 'end Bycycle.Eff.T']
        files['Proofs/Generated/EffT%d.lean' % k] = '\n'.join(txt) + '\n'
    allp = ['/- GENERATED by harness/efftrans.py: the translated program is well summarised; every function C15 lists has the empty summary. -/',
            'import BycycleModel.EffectsFull'] + ['import Proofs.Generated.EffT%d' % k for k in range(NPROOF)] + ['import Proofs.EffectsFull', 'namespace Bycycle.Eff.T', 'open Bycycle.Eff', '',
            'theorem fns_wellSummarised : wellSummarised fns summ = true := by',
            '  unfold wellSummarised',
            '  have h1 : (fns.all fun f => f.respects summ && decide f.params.Nodup) = true := by',
            '    simp only [fns, List.all_cons, List.all_nil, %s, Bool.and_self]' % ', '.join('ok_' + ident(n) for n in names),
            '  have h2 : decide ((fns.map (·.name)).Nodup) = true := by decide +kernel',
            '  rw [h1, h2]; rfl', '',
            '/-- every function C15 lists was found in the source and has the EMPTY write summary. -/',
            'theorem pure_listed : pure.all (fun n => (summ.get n).isEmpty && (lookupFn fns n).isSome) = true := by decide +kernel', '',
            '/-- the object methods write at most position 0 (attribute slots of `self`), never the contents (dictionaries, signal, table). -/',
            'theorem selfOnly_listed : selfOnly.all (fun n => (summ.get n).all (· == 0) && (lookupFn fns n).isSome) = true := by decide +kernel', '',
            'end Bycycle.Eff.T']
    files['Proofs/Generated/EffTAll.lean'] = '\n'.join(allp) + '\n'
    return files


def regenerate(write_file=True):
    try:
        fns, bodies, summ, rets, unknown = translate_all(2)
        # the alias fixpoint is reached by two unrollings: a third one changes no summary
        _, _, summ3, _, _ = translate_all(3)
        stable = all(summ[n] == summ3[n] for n in summ)
        failure = None
    except Exception as e:
        # the source can no longer be translated: emit an EMPTY program, so that the theorems about the listed functions stop
        # building (never keep proofs about a stale translation)
        fns, bodies, summ, unknown, stable = {}, {}, {}, {}, False
        failure = '%s: %s' % (type(e).__name__, e)
    files = render(fns, bodies, summ)
    lean_dir = os.path.join(os.path.dirname(os.path.dirname(os.path.abspath(__file__))), 'lean')
    changed = []
    if write_file:
        for rel, text in files.items():
            path = os.path.join(lean_dir, rel)
            os.makedirs(os.path.dirname(path), exist_ok=True)
            try:
                old = open(path).read()
            except FileNotFoundError:
                old = None
            if old != text:
                open(path, 'w').write(text); changed.append(rel)
    impure = {n: sorted(summ[n]) for n in PURE if n in fns and summ[n]}
    impure.update({n: sorted(summ[n]) for n in SELF_ONLY if n in fns and set(summ[n]) - {0}})
    if failure: unknown = {'<translator>': [failure]}
    return dict(functions=len(fns), statements=sum(len(b) for b in bodies.values()), impure=impure, unroll_stable=stable,
                unknown=unknown, rewritten=changed, missing=[n for n in PURE if n not in fns],
                summaries={n: sorted(summ[n]) for n in summ if summ[n]})


def explain(name):
    """which statements of a translated body write which caller-owned position (debugging aid)"""
    fns, bodies, summ, rets, unknown = translate_all(2)
    fn = fns[name]
    def walk(stmts, env, depth):
        for s in stmts:
            k = s[0]
            if k == 'write' and env.get(s[1]): print('  ' * depth, 'WRITE', s[1], sorted(env[s[1]]))
            if k == 'call':
                for p in summ.get(s[1], ()):
                    if p < len(s[2]) and env.get(s[2][p]): print('  ' * depth, 'CALL', s[1], 'writes arg', p, s[2][p], sorted(env[s[2][p]]))
            if k == 'ite':
                ea = walk(s[1], env, depth + 1); eb = walk(s[2], env, depth + 1)
                env = {v: ea.get(v, frozenset()) | eb.get(v, frozenset()) for v in set(ea) | set(eb)}
            else:
                env, _ = analyse([s], env, summ)
        return env
    print(name, fn.params)
    walk(bodies[name], {p: frozenset([i]) for i, p in enumerate(fn.params)}, 0)

if __name__ == '__main__':
    if len(sys.argv) > 2 and sys.argv[1] == '--explain':
        explain(sys.argv[2]); sys.exit(0)
    r = regenerate('--dry' not in sys.argv)
    print(json.dumps(r, indent=1))
