#!/bin/bash
# lanes.sh helper: apply a kept behaviour-preserving patch (harmless/<id>/patch.diff) to the lane's repo, run the given quick checks (each must exit 0), restore.
# usage: harmless_lane.sh <dir with patch.diff> <Cxx> [more checks]
REPO=${BYCYCLE_REPO:-/repo}
D=$1; shift
git -C $REPO apply $D/patch.diff || { echo "PATCH DOES NOT APPLY"; exit 2; }
for chk in "$@"; do
  timeout 1800 ./check $chk > /tmp/hl_$$.log 2>&1; r=$?
  echo "check $chk exit=$r: $(grep -c '^VIOLATION' /tmp/hl_$$.log) violation lines ($(grep -c 'no-failing-input-found' /tmp/hl_$$.log) without failing input); $(tail -1 /tmp/hl_$$.log | cut -c1-140)"
done
rm -f /tmp/hl_$$.log
git -C $REPO checkout -- .
