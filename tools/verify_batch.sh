#!/bin/bash
# verify every directory under /tmp/seed_out against its property's check: Cxx[r2]_k -> Cxx
for d in /tmp/seed_out/*/; do
  id=$(basename $d); p=${id:0:3}
  echo "== $id [$(grep '^+++ ' $d/patch.diff | sed 's#+++ b/bycycle/##' | tr '\n' ' ')]"
  /verif/tools/verify_seed.sh $d $p 2>&1 | grep -E "demo|stable|check|PATCH"
done
