#!/bin/bash
# run verify_seed.sh for many seed directories in N isolated lanes (each its own copy of /verif and its own worktree of /repo HEAD)
# usage: lanes.sh <N> <file with lines "<seed dir> <Cxx> [more checks]">   -> ${LANE_OUT:-/tmp/lanes_out}/<basename of seed dir>.txt
N=$1; LIST=$2
mkdir -p ${LANE_OUT:-/tmp/lanes_out}
for i in $(seq 1 $N); do
  (
    L=/tmp/${LANE_PREFIX:-lane}$i
    git -C /repo worktree remove --force $L/repo >/dev/null 2>&1; rm -rf $L; mkdir -p $L
    git -C /repo worktree add --detach $L/repo HEAD >/dev/null 2>&1
    rsync -a --exclude replays /verif/ $L/verif/
    export BYCYCLE_REPO=$L/repo PYTHONPATH=$L/repo
    cd $L/verif
    awk -v n=$N -v i=$i 'NR % n == i % n' $LIST | while read d rest; do
      ./tools/${LANE_SCRIPT:-verify_seed.sh} $d $rest > ${LANE_OUT:-/tmp/lanes_out}/$(basename $d).txt 2>&1
    done
    cd /; git -C /repo worktree remove --force $L/repo >/dev/null 2>&1; rm -rf $L
  ) &
done
wait
echo lanes done
