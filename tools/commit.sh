#!/bin/sh
# regenerate slots from the clean /repo, then commit everything in /verif
cd /verif || exit 1
test -z "$(git -C /repo status --short)" || { echo "/repo is dirty"; exit 1; }
/venv/bin/python harness/slots.py >/dev/null
python3 tools/mkmanifest.py >/dev/null
git add -A && git commit -qm "$1" && echo committed
