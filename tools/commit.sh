#!/bin/sh
# regenerate slots from the clean /repo, make sure every committed evidence file comes from a clean run, then commit
cd /verif || exit 1
test -z "$(git -C /repo status --short)" || { echo "/repo is dirty"; exit 1; }
/venv/bin/python harness/slots.py >/dev/null
python3 tools/mkmanifest.py >/dev/null
for p in $(python3 -c "import json; print(' '.join(c['property_id'] for c in json.load(open('MANIFEST.json'))['checks']))"); do
  ok=$(python3 -c "
import json,sys
try:
    e=json.load(open('evidence/$p.json')); c=e['coverage']
    print('ok' if e.get('violations',1)==0 and c['discharged']==c['obligations'] and c['obligations']>0 and e['tier']=='quick' else 'stale')
except Exception: print('stale')")
  if [ "$ok" != "ok" ]; then echo "re-running $p for clean evidence"; ./check $p >/dev/null 2>&1 || echo "WARNING: $p does not pass on the clean tree"; fi
done
git add -A && git commit -qm "$1" && echo committed
