#!/usr/bin/env python3
"""print the markdown tables that DESIGN.md embeds: seeded changes, fix commits, theorem inventory"""
import json, os, glob, re, sys
V = '/verif'
def seeded():
    rows = []
    for d in sorted(glob.glob(V + '/seeded/*/')):
        m = json.load(open(d + 'meta.json'))
        rows.append('| %s | %s | %s | %s |' % (os.path.basename(d.rstrip('/')), m.get('summary', '').replace('|', '/')[:160], m.get('needs', '').replace('|', '/')[:150],
                                            m.get('detection', '').replace('|', '/')))
    return '| id | change | needs | which check catches it |\n|---|---|---|---|\n' + '\n'.join(rows)
def fixes():
    f = [x for x in json.load(open(V + '/known_findings.json'))['findings'] if x.get('status') == 'fixed']
    return '\n'.join('* `%s` (%s) — %s' % (x['commit'], x['property'] + ('; also ' + ', '.join(x['also_affects']) if x.get('also_affects') else ''), x['line'].split(x['commit'], 1)[1].strip()) for x in f)
def theorems():
    out = []
    for p in sorted(glob.glob(V + '/harness/props/C*.py')):
        s = open(p).read(); m = re.search(r'THEOREMS = \[(.*?)\]', s, re.S)
        names = re.findall(r"'([\w.]+)'", m.group(1)) if m else []
        out.append('| %s | %d | %s |' % (os.path.basename(p)[:-3], len(names), ', '.join(names)))
    return '| property | # | theorems audited on every run |\n|---|---|---|\n' + '\n'.join(out)
if __name__ == '__main__':
    print({'seeded': seeded, 'fixes': fixes, 'theorems': theorems}[sys.argv[1]]())
