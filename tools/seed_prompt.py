#!/usr/bin/env python3
"""print the prompt for a mutant-seeding sub-agent: property text only, nothing from /verif's machinery"""
import json, sys
pid = sys.argv[1]
rnd = sys.argv[2] if len(sys.argv) > 2 else "1"
round2 = rnd in ("2", "3", "4")
wd = pid + ("r" + rnd if round2 else "")
extra3 = (" In THIS round go for the less obvious places: (1) a change OUTSIDE the files the property is anchored in (a helper, a utility, an option default, a caller or callee one or two levels away) whose effect surfaces in this property; "
          "(2) a change that manifests only for an unusual-but-legal ARGUMENT TYPE or LAYOUT (python lists or tuples instead of arrays, pandas Series, integer / float32 / boolean dtypes, read-only or non-contiguous arrays, numpy scalars "
          "instead of python numbers, numpy integer or float valued options, keyword vs positional passing) or only at a particular SIZE (very short signals, exactly one / two / three cycles, a length that is a multiple of something); "
          "(3) a change of the refactoring kind (vectorising a loop, replacing a pandas idiom by a numpy one or vice versa, caching, early return, merging two branches, hoisting something out of a loop) that is right in the common case and wrong in a corner. "
          "Try to make the three changes one of each kind.") if rnd == "3" else ""
if rnd == "4":
    extra3 = (" In THIS round assume the property is being checked by a strong harness: it feeds thousands of random and exhaustively enumerated small inputs (all signal families, ties, plateaus, integer and float32 dtypes, lists / Series / read-only / strided arrays, numpy-scalar options, short recordings), compares every result with an independent reference model, repeats calls with shared argument objects, refills buffers in place, routes calls through Bycycle objects with histories, and compares with calls made in pristine processes. Think about what such a harness would most likely STILL NOT exercise, and put your three changes there: for example a coincidence of VALUES that random data almost never produces (a feature exactly equal to a threshold after a particular arithmetic, two different cyclepoints at the same sample, a period of exactly one sample, an extremum at sample 0 or at the last sample, all cycles identical, NaN or inf samples where the library accepts them, a constant or all-zero recording, an empty table), a rarely used documented OPTION or combination of options (look through every keyword argument of every public function the property involves, including plotting and group options, and their interplay), an ENVIRONMENT-like condition the code branches on (number of jobs vs number of signals, progress option, warnings filters, an optional dependency being absent), the ORDER or NAMES of output columns / rows / list entries, the dtype or index of the OUTPUT, or the exception TYPE / the state left behind when an exception is raised half-way. Make the three changes of three different such kinds and say in meta.json which kind each is.")
p = next(json.loads(l) for l in open('/verif/properties.jsonl') if json.loads(l)['id'] == pid)
print(f"""You are helping to evaluate a verification effort by playing the adversary. You work ONLY inside the scratch git worktree /tmp/seed/{wd} (a checkout of the Python library `bycycle`, which segments neural time series into cycles, computes per-cycle features and detects oscillatory bursts). Do not read or write anything under /verif or /repo. There is no network. Python with all dependencies is /venv/bin/python; to make sure your worktree's code is what gets imported, always run things as `cd /tmp/seed/{wd} && PYTHONPATH=/tmp/seed/{wd} /venv/bin/python ...`.

The following semantic property of the library is supposed to hold:

  id: {p['id']} - {p['title']}
  statement: {p['statement']}
  quantified over: {p['quantifier']['text']}
  code it is anchored in: {', '.join(p['anchors']['files'])}
  mechanisms: {json.dumps(p['anchors']['mechanism'])}

Your task: produce {'THREE' if round2 else 'TWO'} independent, realistic code changes to the library (each on its own, each in its own patch) that BREAK this property while (a) the package still imports and (b) the existing test suite's currently-passing tests still pass. Think of plausible developer mistakes or "optimisations": an off-by-one in a slice, a comparison operator, a swapped pair, a missing copy, a changed default, a reordered branch, an index expression, two sites that each look fine alone. IMPORTANT: prefer changes that need something SPECIFIC to manifest - an unusual input (ties, plateaus, NaNs, a value exactly on a threshold, a particular array shape, an empty or boundary case), a multi-step sequence of calls, a particular option combination - rather than changes that break every ordinary call at once. The changes should be of different kinds / at different sites.{' At least one of them must need TWO cooperating edits at different sites (each harmless alone) or a multi-step sequence of API calls / a particular history to manifest, and at least one should live in glue code (argument routing, option handling, defaults, copies, index bookkeeping) rather than in the central formula. Do not use git stash (worktrees share the stash).' if round2 else ''}{extra3}

For each change k in {{1, 2{', 3' if round2 else ''}}} create the directory /tmp/seed_out/{wd}_k/ containing:
  - patch.diff : output of `git diff` in the worktree for that change alone (apply-able with `git apply` on a clean checkout);
  - demo.py    : a small self-contained script that exits 0 on the ORIGINAL code and exits non-zero (assert / exception) on the CHANGED code, demonstrating the violation of the property through the public API; it must be deterministic (fixed seeds) and run in under a minute with `PYTHONPATH=<checkout> /venv/bin/python demo.py`;
  - meta.json  : {{"property": "{pid}", "summary": "<one sentence what was changed>", "needs": "<what specific input/sequence/config is needed for it to manifest>", "files": ["<changed files>"]}}.
After producing each change, run `git -C /tmp/seed/{wd} checkout -- .` to return to the clean state before making the next one, and return to the clean state at the end.

You must CONFIRM for each change: (i) demo.py passes on the clean checkout and fails with the patch applied; (ii) the test suite still passes what it passed before: run `cd /tmp/seed/{wd} && PYTHONPATH=/tmp/seed/{wd} /venv/bin/python -m pytest -q -p no:cacheprovider -x -q bycycle/tests 2>&1 | tail -5` on the clean checkout first to see the baseline (some tests may fail on the clean checkout already - those do not matter; what matters is that no test that passes on the clean checkout fails with your patch; compare the sets of failing test ids, e.g. with `-rf`, without `-x`). The suite takes about 20-40 s.

Report in your final message, for each change: the summary, what it needs to manifest, and the confirmation results.""")
