#!/bin/bash
# re-verify every kept seeded change against the current /repo HEAD: patch applies, demo passes clean / fails patched,
# and the property's quick check reports a violation with the patch applied.  usage: recheck_seeds.sh [ids...]
REPO=${BYCYCLE_REPO:-/repo}
VERIF=$(cd $(dirname $0)/..; pwd)
cd $VERIF
ids="$@"; [ -z "$ids" ] && ids=$(ls seeded)
for id in $ids; do
  d=$VERIF/seeded/$id; p=${id%_*}
  dw=$(python3 -c "import json;print(json.load(open('$d/meta.json')).get('detect_with',''))" 2>/dev/null); [ -n "$dw" ] && p=$dw      # (a change produced for one property and reported by another property's check)
  if ! git -C $REPO apply --check $d/patch.diff 2>/dev/null; then echo "$id: PATCH DOES NOT APPLY"; continue; fi
  out=$(./tools/verify_seed.sh $d $p 2>&1)
  demo=$(echo "$out" | grep "^demo"); chk=$(echo "$out" | grep "^check" | sed 's/;.*theorems/ theorems/' | cut -c1-150)
  echo "$id: $demo | $chk"
done
