#!/bin/bash
# every kept BEHAVIOUR-PRESERVING refactoring (harmless/<id>/patch.diff) applied to /repo (or $BYCYCLE_REPO): the property's quick check must exit 0.
# usage: recheck_harmless.sh [ids...]
REPO=${BYCYCLE_REPO:-/repo}
VERIF=$(cd $(dirname $0)/..; pwd)
cd $VERIF
ids="$@"; [ -z "$ids" ] && ids=$(ls harmless)
for id in $ids; do
  p=${id:0:3}
  git -C $REPO apply --check harmless/$id/patch.diff 2>/dev/null || { echo "$id: PATCH DOES NOT APPLY"; continue; }
  git -C $REPO apply harmless/$id/patch.diff
  timeout 1800 ./check $p > /tmp/harmless_$$.log 2>&1; r=$?
  echo "$id: check $p exit=$r $(grep -c '^VIOLATION' /tmp/harmless_$$.log) violation lines; $(tail -1 /tmp/harmless_$$.log | cut -c1-120)"
  git -C $REPO checkout -- .
done
rm -f /tmp/harmless_$$.log
