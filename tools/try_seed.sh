#!/bin/bash
# quick look: apply a seeded patch to /repo, run checks without the Lean stage, restore.  usage: try_seed.sh <dir> <Cxx>...
D=$1; shift
test -z "$(git -C /repo status --short)" || { echo "/repo is dirty"; exit 1; }
git -C /repo apply $D/patch.diff || exit 2
for c in "$@"; do cd /verif && ./check $c --no-lean 2>&1 | tail -2 | cut -c1-260; done
git -C /repo checkout -- .
cd /verif && python3 harness/slots.py > /dev/null 2>&1
