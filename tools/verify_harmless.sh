#!/bin/bash
# usage: verify_harmless.sh <dir with patch.diff demo.py meta.json> <Cxx> [more checks]
# a BEHAVIOUR-PRESERVING refactoring: demo exits 0 clean and patched, stable tests pass; then the check(s) run on the patched /repo:
# exit 0 = no alarm; exit 1 with "no-failing-input-found" = the proof / correspondence broke although the property holds (tolerated by the
# protocol, recorded as brittleness); exit 1 with a failing input = EITHER the refactoring is not harmless OR a false alarm - look at it.
set -u
REPO=${BYCYCLE_REPO:-/repo}
VERIF=$(cd $(dirname $0)/..; pwd)
D=$1; shift
WT=/tmp/vharm_$$; LOG=/tmp/vharmlog_$$; mkdir -p $LOG
git -C $REPO worktree add --detach $WT HEAD >/dev/null 2>&1 || { echo "worktree failed"; exit 2; }
cleanup() { git -C $REPO worktree remove --force $WT >/dev/null 2>&1; rm -rf $LOG; }
trap cleanup EXIT
cd $WT
PYTHONPATH=$WT timeout 600 /venv/bin/python $D/demo.py >$LOG/clean.log 2>&1; c=$?
git apply $D/patch.diff || { echo "PATCH DOES NOT APPLY"; exit 2; }
PYTHONPATH=$WT timeout 600 /venv/bin/python $D/demo.py >$LOG/patched.log 2>&1; p=$?
echo "demo clean exit=$c patched exit=$p"
$VERIF/tools/baseline_check.py $WT | tail -1
cd $VERIF
git -C $REPO apply $D/patch.diff || { echo "apply to $REPO failed"; exit 2; }
for chk in "$@"; do
  timeout 1800 ./check $chk > $LOG/check_$chk.log 2>&1; r=$?
  echo "check $chk exit=$r: $(grep -c '^VIOLATION' $LOG/check_$chk.log) violation lines ($(grep -c 'no-failing-input-found' $LOG/check_$chk.log) without failing input); $(tail -1 $LOG/check_$chk.log | cut -c1-140)"
done
git -C $REPO checkout -- .
