#!/bin/bash
# usage: verify_seed.sh <dir with patch.diff demo.py meta.json> <Cxx> [more Cxx checks to run]
# 1. confirms in a scratch worktree: demo passes clean, fails patched, baseline stable tests still pass
# 2. applies the patch to /repo (or $BYCYCLE_REPO; then also export PYTHONPATH=$BYCYCLE_REPO), runs the quick check(s), restores it
set -u
REPO=${BYCYCLE_REPO:-/repo}
VERIF=$(cd $(dirname $0)/..; pwd)
D=$1; shift
P=$1
WT=/tmp/vseed_$$
LOG=/tmp/vseedlog_$$; mkdir -p $LOG
git -C $REPO worktree add --detach $WT HEAD >/dev/null 2>&1 || { echo "worktree failed"; exit 2; }
cleanup() { git -C $REPO worktree remove --force $WT >/dev/null 2>&1; rm -rf $LOG; }
trap cleanup EXIT
cd $WT
PYTHONPATH=$WT timeout 300 /venv/bin/python $D/demo.py >$LOG/clean.log 2>&1; c=$?
git apply $D/patch.diff || { echo "PATCH DOES NOT APPLY"; exit 2; }
PYTHONPATH=$WT timeout 300 /venv/bin/python $D/demo.py >$LOG/patched.log 2>&1; p=$?
echo "demo clean exit=$c patched exit=$p"
$VERIF/tools/baseline_check.py $WT | tail -3
b=$?
cd $VERIF
git -C $REPO apply $D/patch.diff || { echo "apply to $REPO failed"; exit 2; }
for chk in "$@"; do
  timeout 1800 ./check $chk > $LOG/check_$chk.log 2>&1; r=$?
  echo "check $chk exit=$r: $(grep -c '^VIOLATION' $LOG/check_$chk.log) violation lines; $(tail -1 $LOG/check_$chk.log)"
  grep '^VIOLATION' $LOG/check_$chk.log | head -2
done
git -C $REPO checkout -- .
git -C $REPO status --short | head -3
