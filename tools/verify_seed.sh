#!/bin/bash
# usage: verify_seed.sh <dir with patch.diff demo.py meta.json> <Cxx> [more Cxx checks to run]
# 1. confirms in a scratch worktree: demo passes clean, fails patched, baseline stable tests still pass
# 2. applies the patch to /repo, runs the quick check(s), restores /repo
set -u
D=$1; shift
P=$1
WT=/tmp/vseed_$$
git -C /repo worktree add --detach $WT HEAD >/dev/null 2>&1 || { echo "worktree failed"; exit 2; }
cleanup() { git -C /repo worktree remove --force $WT >/dev/null 2>&1; }
trap cleanup EXIT
cd $WT
PYTHONPATH=$WT timeout 300 /venv/bin/python $D/demo.py >/tmp/vseed_clean.log 2>&1; c=$?
git apply $D/patch.diff || { echo "PATCH DOES NOT APPLY"; exit 2; }
PYTHONPATH=$WT timeout 300 /venv/bin/python $D/demo.py >/tmp/vseed_patched.log 2>&1; p=$?
echo "demo clean exit=$c patched exit=$p"
/verif/tools/baseline_check.py $WT | tail -3
b=$?
cd /verif
git -C /repo apply $D/patch.diff || { echo "apply to /repo failed"; exit 2; }
for chk in "$@"; do
  timeout 1800 ./check $chk > /tmp/vseed_check_$chk.log 2>&1; r=$?
  echo "check $chk exit=$r: $(grep -c '^VIOLATION' /tmp/vseed_check_$chk.log) violation lines; $(tail -1 /tmp/vseed_check_$chk.log)"
  grep '^VIOLATION' /tmp/vseed_check_$chk.log | head -2
done
git -C /repo checkout -- .
git -C /repo status --short | head -3
