#!/bin/bash
# lanes.sh helper: the thorough tier of one property on the lane's clean worktree.  usage: run_thorough.sh Cxx
p=$1
t0=$(date +%s)
VERIF_SEED=${VERIF_SEED:-0} timeout 10800 ./check $p --tier thorough > /tmp/thorough_$p.log 2>&1; r=$?
grep -E "^VIOLATION|^KNOWN-FINDING" /tmp/thorough_$p.log | cut -c1-200 | head -5
tail -1 /tmp/thorough_$p.log
echo "exit=$r wall=$(( $(date +%s) - t0 ))s"
