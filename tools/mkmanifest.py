#!/usr/bin/env python3
"""Regenerate MANIFEST.json from the table below (kept in one place so it always validates)."""
import json, os
V = os.path.dirname(os.path.dirname(os.path.abspath(__file__)))
props = [json.loads(l)['id'] for l in open(os.path.join(V, 'properties.jsonl'))]
NOTE_COMMON = ("Trusted: Lean 4.33 kernel; axioms audited per theorem on every run (subset of propext, Classical.choice, Quot.sound); "
               "no sorry/native_decide. The hand-written model is tied to /repo by the correspondence run of the same check "
               "(model vs implementation on generated inputs) and by regenerated decision-literal slots; generator quality bounds what the tie sees. ")
CHECKS = {
 'C08': dict(
   text="Lean theorems over every boolean list and every rational min_n_cycles: the transcribed transition/clear loop equals the pointwise run-length rule (C08_pointwise), whole runs kept/cleared, no new True, idempotent, edge runs like interior runs, antitone in k, monotone in the mask, guards. The same run executes model, spec and the real check_min_burst_cycles on every boolean array up to a length bound (exhaustive) and random long arrays; the judge is equality of the implementation with the Lean spec.",
   note=NOTE_COMMON + "Not covered: in-place mutation of the caller's array (outside the statement).",
   technique="Lean 4 proof (induction over maximal runs) + exhaustive/random correspondence of model, spec and implementation", ref="6 C08"),
 'C06': dict(
   text="Lean theorems over every table (any length, NaNs anywhere), every threshold vector and every min_n_cycles: the transcription of detect_bursts_cycles - whose comparators, conjunction, forced-False indices and defaults are re-extracted from /repo's AST on every run - equals the threshold-and-run rule (interior, all four STRICTLY above threshold, maximal run >= min_n_cycles); soundness/completeness, end rule, strictness and NaN, antitonicity in every threshold and in min_n_cycles, rejection of out-of-range settings. The run compares model, spec and the real function on synthetic tables with values on and one ulp beside the thresholds, on tables produced by compute_features (kwarg routing), and judges antitonicity on pairs of real runs.",
   note=NOTE_COMMON + "Orders on float64 and on the rationals coincide, so comparisons are exact. The burst features themselves are C05's subject.",
   technique="Lean 4 proof over a slot-regenerated model + differential correspondence + Lean spec as judge", ref="6 C06"),
 'C07': dict(
   text="Lean theorems for every sample mask, every cycle table and every setting: burst_fraction is the fraction of the samples last..next INCLUSIVE that the detector marks; labels are fraction >= threshold followed by the minimum-run rule; one and the same min_n_cycles (burst options, else thresholds, else 3) reaches detector and run filter; antitone in the threshold; guards. The sample-wise dual-threshold detector is a parameter (arbitrary mask). The run recomputes the mask with neurodsp for the min_n_cycles the spec prescribes and compares compute_features(burst_method='amp') end to end on partially bursting signals, both centrings, all four routings of min_n_cycles.",
   note=NOTE_COMMON + "neurodsp.burst.detect_bursts_dual_threshold is modelled as a parameter, not verified; min_burst_duration=None as in the statement. Inputs on which the neurodsp kernel itself raises (whole signal bursting) are counted as kernel errors, not judged.",
   technique="Lean 4 proof (kernel as parameter) + differential correspondence with recorded kernel output", ref="6 C07"),
 'C02': dict(
   text="Lean theorems for EVERY sign pattern of the filtered signal, every raw signal, pad length, boundary and first_extrema: the transcription of find_extrema (crossing lists, peak/trough counts, the two advancing scans, first arg-extrema of the raw padded signal, un-padding, boundary filter, trimming; comparators regenerated from /repo) reports exactly one peak per positive and one trough per negative half-wave closed by zero-crossings on both sides, at the FIRST raw maximum/minimum of the half-wave's window, nothing else (C02_exact, C02_halfwave_*, C02_first_max/min); crossings alternate (discrete intermediate value); kept iff boundary < i < len - boundary; first_extrema gives the requested start and equal counts (C02_first); C02_full chains them. The run ships the raw signal and the sign pattern of the real neurodsp filter (and synthetic patterns, ties, plateaus) and compares model, spec and find_extrema.",
   note=NOTE_COMMON + "neurodsp filter_signal / compute_filter_length are parameters (any sign pattern, any pad length). Hypothesis of C02_exact/C02_full: the filtered signal has a zero-crossing of each direction; the degenerate remainder (len/2 dummy crossing) is compared model-vs-implementation only.",
   technique="Lean 4 proof (filter as parameter, scan invariants) + differential correspondence on real filter output and synthetic sign patterns", ref="6 C02"),
 'C03': dict(
   text="Lean theorems for every signal over Q and every strictly alternating extrema sequence: the crossing scan finds exactly the samples with x[i] <= h < x[i+1] (rise) / x[i] > h >= x[i+1] (decay); a proper flank always has a crossing (discrete intermediate value), so the len/2 dummy is reached only on flat-ended flanks; value = the crossing, the floor of the temporal median of several, or the temporal centre for inverted / all-zero flanks; one midpoint per adjacent pair, rises for trough->peak, each inside its flank; find_zerox's count/bias logic returns exactly these (C03_counts_order). The run is exhaustive over all flank segments over {-1,0,1,2} up to a length bound and all alternating sequences on all small ternary signals, plus cyclepoints of generated signals.",
   note=NOTE_COMMON + "Half heights (a+b)/2 are exact on the exhaustive integer grids; on float signals a disagreement is recorded as a float tie only if a sample lies within 2^-40 relative of the exact half height.",
   technique="Lean 4 proof + exhaustive small-scope and generated correspondence of model, spec and implementation", ref="6 C03"),
 'C01': dict(
   text="Lean theorems about the composed transcription find_extrema -> find_zerox -> compute_cyclepoints (row slices regenerated from /repo), for EVERY signal, EVERY sign pattern of the filtered signal (the filter is a parameter), every pad length and boundary: whenever a table is returned each row satisfies last trough < peak < next trough with both midpoints inclusively between the extrema they separate, all indices inside the signal and beyond the boundary, and consecutive rows share their side extremum (C01_structure, no hypothesis on the input); when the specification keeps >= 2 peaks a table with exactly (kept peaks - 1) rows is returned instead of an exception (C01_total), row i running from kept trough i over kept peak i+1 to kept trough i+1 (C01_rows); burst labelling is total for valid settings. The run drives compute_features and Bycycle.fit over all signal families and the option grid (n_cycles / n_seconds, boundary, pad, both centrings, both burst methods, return_samples) and judges the implementation's table with the same Lean predicate wellFormed, the specification's row count and 'did not raise'.",
   note=NOTE_COMMON + "The band-pass filter is a parameter (recomputed by the harness with neurodsp as the property defines). 'Three full oscillations' enters as 'the specification keeps >= 2 peaks'. Trough-centred tables are read through the documented renaming (the renaming itself is C04/C09).",
   technique="Lean 4 proof over the composed model (filter as parameter) + Lean predicate as judge on the real tables + differential correspondence", ref="6 C01"),
}
NA_REASON = "check under construction (see DESIGN.md section 6); not yet claimed"
m = {"version": 1, "setup_cmd": "./setup.sh",
     "hooks": {"guard": "BYCYCLE_VERIF", "enable": "no hooks are needed: checks import bycycle from /repo's working tree as it is (python, no build step)",
               "baseline_off_cmd": "cd /repo && /venv/bin/python -m pytest -ra -q -p no:cacheprovider --timeout=900 --continue-on-collection-errors",
               "source_commits": [], "add_only": True},
     "engines": [{"name": "lean-model", "path": "lean/", "serves_properties": sorted(CHECKS), "kind_free_text": "Lean 4 model (BycycleModel/), helper lemmas (Proofs/), property theorems (Props/), compiled line-protocol driver"},
                 {"name": "harness", "path": "harness/", "serves_properties": sorted(CHECKS), "kind_free_text": "Python: slot translator, generators, correspondence (model vs /repo), Lean judge on implementation output, search, evidence"}],
     "checks": [], "not_applicable": [],
     "notes": "Entry point ./check Cxx [--tier quick|thorough] [--replay path]. VERIF_SEED seeds every random choice. Exit 2 = infrastructure failure (never a verdict)."}
for p in props:
    if p in CHECKS:
        c = CHECKS[p]
        m['checks'].append({"property_id": p, "quick_cmd": "./check %s --tier quick" % p, "thorough_cmd": "./check %s --tier thorough" % p,
                            "evidence_file": "evidence/%s.json" % p, "replay_cmd_template": "./check %s --replay {path}" % p,
                            "engine": "lean-model", "level_claimed": {"category": "proof", "text": c['text'], "design_ref": "DESIGN.md section " + c['ref']},
                            "level_note": c['note'], "technique": c['technique']})
    else:
        m['not_applicable'].append({"property_id": p, "reason": NA_REASON})
json.dump(m, open(os.path.join(V, 'MANIFEST.json'), 'w'), indent=1)
print('checks', len(m['checks']), 'not_applicable', len(m['not_applicable']))
