#!/usr/bin/env python3
"""splice the regenerated tables (theorem inventory, fix list, seeded changes) into DESIGN.md in place"""
import re, subprocess
D = '/verif/DESIGN.md'
s = open(D).read()
def tab(kind): return subprocess.run(['python3', '/verif/tools/mkdesign_tables.py', kind], capture_output=True, text=True, check=True).stdout.rstrip('\n')
# theorem inventory: the table that starts with '| property | # |'
s, n1 = re.subn(r'\| property \| # \| theorems audited on every run \|\n\|---\|---\|---\|\n(?:\|.*\n)+', lambda m: tab('theorems') + '\n', s)
# seeded table
s, n2 = re.subn(r'\| id \| change \| needs \| which check catches it \|\n\|---\|---\|---\|---\|\n(?:\|.*\n)+', lambda m: tab('seeded') + '\n', s)
# fixes list: consecutive lines starting with "* `<sha>` ("
s, n3 = re.subn(r'(?:\* `[0-9a-f]{7}` \(C\d\d.*\n)+', lambda m: tab('fixes') + '\n', s, count=1)
open(D, 'w').write(s)
print('tables replaced:', n1, n2, n3)
