#!/usr/bin/env python3
"""prompt for a sub-agent that produces BEHAVIOUR-PRESERVING refactorings (to measure how often the checks alarm on code where the property holds)"""
import json, sys
pid = sys.argv[1]
rnd = sys.argv[2] if len(sys.argv) > 2 else "1"
wd = pid + "h" + (rnd if rnd != "1" else "")
extra = (" At least TWO of the four must restructure GLUE code rather than a formula: how one function of the library calls another (passing an argument by keyword instead of by position or the reverse, naming an intermediate value before passing it on, building the keyword arguments in a dict first, extracting two adjacent calls into a private helper or inlining a small helper, reordering independent calls), how option dictionaries are copied and defaulted, or how object attributes are assigned (order of the assignments, a local variable assigned to the attribute afterwards)." if len(sys.argv) > 2 else "")
if rnd == "3":
    extra = (" At least THREE of the four must restructure code AROUND the formulas, in the following styles (one each): (a) hoist literal values that are repeated or buried in a function "
             "(default option values, default threshold dictionaries, column-name lists, the valid values of a string option) into a MODULE-LEVEL constant - a tuple, a frozenset, a dict used as a lookup table - "
             "and use it from the function, taking care (as a careful maintainer would) that no caller can ever modify the shared object: copy it (dict(...), copy.deepcopy, {**X}) before handing it out, or only read it; "
             "(b) tidy the OBJECT layer in bycycle/objs/fit.py (Bycycle, BycycleGroup, BycycleBase) where the property involves it, or else the group layer bycycle/group/: extract a private method or helper, build the "
             "arguments of a call in a dict first and spread it (or the reverse), pass the call's own arguments instead of the attributes just stored from them (or the reverse), replace the duplicated 2-D / 3-D branches "
             "by a small helper applied to every model, iterate with enumerate / zip instead of indices; (c) change the IMPORT style of a helper used by the anchored code: import it under an alias, or import its module and call "
             "module.function, or move a private helper to another bycycle module and import it from there.")
p = next(json.loads(l) for l in open('/verif/properties.jsonl') if json.loads(l)['id'] == pid)
print(f"""You are helping to evaluate a verification effort. You work ONLY inside the scratch git worktree /tmp/seed/{wd} (a checkout of the Python library `bycycle`, which segments neural time series into cycles, computes per-cycle features and detects oscillatory bursts). Do not read or write anything under /verif or /repo. There is no network. Python with all dependencies is /venv/bin/python; always run things as `cd /tmp/seed/{wd} && PYTHONPATH=/tmp/seed/{wd} /venv/bin/python ...`.

The following semantic property of the library holds on this checkout and MUST KEEP HOLDING:

  id: {p['id']} - {p['title']}
  statement: {p['statement']}
  code it is anchored in: {', '.join(p['anchors']['files'])}
  mechanisms: {json.dumps(p['anchors']['mechanism'])}

Your task: produce FOUR independent BEHAVIOUR-PRESERVING refactorings of the code this property is anchored in (each on its own, each in its own patch) - the kind of clean-up a maintainer does without intending any change: renaming local variables, extracting or inlining a helper, reordering independent statements, replacing a loop by an equivalent comprehension or a correctly vectorised numpy expression (or the reverse), replacing a pandas idiom by an equivalent numpy one, restructuring if/elif chains, hoisting a computation, using a different but equivalent comparison or slice expression, adding a defensive copy, replacing `x.copy()` by `copy.deepcopy(x)`, moving an import, splitting a function in two. Make them of DIFFERENT kinds and make them touch the lines the mechanisms above point at (not just docstrings or comments). Each refactoring must leave the observable behaviour of every public function EXACTLY unchanged for all inputs (same return values bit for bit, same exceptions, same treatment of the caller's arguments) - be careful and conservative: if you are not sure a rewrite is exactly equivalent (ties, NaN, dtypes, empty inputs, index labels, views vs copies), choose another one.{extra}

For each refactoring k in {{1, 2, 3, 4}} create the directory /tmp/seed_out/{wd}_k/ containing:
  - patch.diff : output of `git diff` in the worktree for that refactoring alone;
  - demo.py    : a script that compares the refactored behaviour with REFERENCE outputs: it must contain (inline, as python literals or an embedded base64 npz) reference results computed on the ORIGINAL code for at least 30 varied inputs (including edge cases: ties, plateaus, NaN where legal, empty / very short inputs, both centre extrema, both burst methods where relevant), recompute them with the code under PYTHONPATH and exit 0 only if everything is identical; so it exits 0 on the original code AND with your patch applied;
  - meta.json  : {{"property": "{pid}", "summary": "<one sentence what was refactored>", "kind": "<renaming | extraction | reordering | vectorisation | idiom | branch-restructuring | copy | other>", "files": ["<changed files>"]}}.
After producing each one, run `git -C /tmp/seed/{wd} checkout -- .` to return to the clean state before making the next one, and return to the clean state at the end. Do not use git stash.

You must CONFIRM for each refactoring: (i) demo.py exits 0 on the clean checkout and exits 0 with the patch applied; (ii) the test suite passes exactly what it passed before (`cd /tmp/seed/{wd} && PYTHONPATH=/tmp/seed/{wd} /venv/bin/python -m pytest -q -p no:cacheprovider bycycle/tests -rf 2>&1 | tail -8`; some tests fail on the clean checkout already - compare the sets of failing ids).

Report in your final message, for each refactoring: the summary, its kind, and the confirmation results.""")
