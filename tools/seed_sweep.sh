#!/bin/bash
# run every quick check on the clean tree with several seeds (no Lean rebuild) and list anything that is not exit 0
cd /verif
test -z "$(git -C /repo status --short)" || { echo "/repo is dirty"; exit 1; }
/venv/bin/python harness/slots.py > /dev/null
(cd lean && lake build driver > /dev/null 2>&1)
for sd in "$@"; do
  for p in C01 C02 C03 C04 C05 C06 C07 C08 C09 C10 C11 C12 C13 C14 C15 C16 C17 C18 C19 C20; do
    VERIF_SEED=$sd timeout 1200 ./check $p --no-lean > /tmp/sweep_${p}_$sd.log 2>&1; rc=$?
    [ $rc -ne 0 ] && echo "seed=$sd $p exit=$rc: $(grep -E 'VIOLATION|Error' /tmp/sweep_${p}_$sd.log | head -2 | tr '\n' ' ')"
  done
  echo "seed $sd done"
done
