#!/usr/bin/env python3
"""Run /repo's pinned test suite (guard off) and confirm every BASELINE stable_pass test passes.
usage: baseline_check.py [repo_dir]"""
import json, subprocess, sys, tempfile, os, xml.etree.ElementTree as ET
repo = sys.argv[1] if len(sys.argv) > 1 else '/repo'
base = json.load(open('/root/.vp/BASELINE.json'))
fd, xml = tempfile.mkstemp(suffix='.xml'); os.close(fd)
env = dict(os.environ); env.pop('BYCYCLE_VERIF', None)
subprocess.run(['/venv/bin/python', '-m', 'pytest', '-q', '-p', 'no:cacheprovider', '--timeout=240',
                '--continue-on-collection-errors', '--junitxml=' + xml], cwd=repo, env=env,
               stdout=subprocess.DEVNULL, stderr=subprocess.DEVNULL)
passed = set()
for tc in ET.parse(xml).getroot().iter('testcase'):
    if not list(tc):
        passed.add(tc.get('classname') + '::' + tc.get('name'))
os.unlink(xml)
missing = [t for t in base['stable_pass'] if t not in passed]
print('passed', len(passed), 'stable missing', len(missing))
for m in missing: print('  MISSING', m)
sys.exit(1 if missing else 0)
