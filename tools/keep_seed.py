#!/usr/bin/env python3
"""keep a confirmed seeded change: keep_seed.py <src dir> <id> '<detected by / notes>'"""
import json, os, shutil, sys
src, sid, notes = sys.argv[1], sys.argv[2], sys.argv[3]
dst = os.path.join('/verif/seeded', sid)
os.makedirs(dst, exist_ok=True)
for f in ('patch.diff', 'demo.py'):
    shutil.copy(os.path.join(src, f), os.path.join(dst, f))
meta = json.load(open(os.path.join(src, 'meta.json')))
meta['breaks_property'] = meta.pop('property', sid.split('_')[0])
meta['confirmed'] = ("tools/verify_seed.sh: demo.py exits 0 on a clean scratch worktree of /repo HEAD and non-zero with patch.diff applied; "
                     "tools/baseline_check.py on the patched worktree: all 34 BASELINE stable tests still pass")
meta['detection'] = notes
json.dump(meta, open(os.path.join(dst, 'meta.json'), 'w'), indent=1)
print('kept', dst)
