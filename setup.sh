#!/bin/sh
# MANIFEST.setup_cmd: build the Lean model, proofs, property theorems and the compiled driver, offline.
cd "$(dirname "$0")/lean" || exit 2
/venv/bin/python ../harness/slots.py || exit 2
lake build 2>&1 | tail -40
test -x .lake/build/bin/driver
