import BycycleModel
/-!
# Line-protocol driver

One request per line on stdin, one answer per line on stdout. See `BycycleModel/Wire.lean`.
-/
open Bycycle

def bad (msg : String) : V := .list [.atom "bad-request", .atom msg]

def decCycRow (v : V) : Option CycRow :=
  match v with
  | .list [a, b, c, d] => do
      let a ← a.orat?; let b ← b.orat?; let c ← c.orat?; let d ← d.orat?
      pure ⟨a, b, c, d⟩
  | _ => none

def decCycThresh (v : V) : Option CycThresh :=
  match v with
  | .list [a, b, c, d, k] => do
      let a ← a.rat?; let b ← b.rat?; let c ← c.rat?; let d ← d.rat?; let k ← k.rat?
      pure ⟨a, b, c, d, k⟩
  | _ => none

def decPairNat (v : V) : Option (Nat × Nat) :=
  match v with
  | .list [a, b] => do let a ← a.nat?; let b ← b.nat?; pure (a, b)
  | _ => none

/-- the statement of C06 with its rejection clauses, as an executable function. -/
def cyclesSpecFull (rows : List CycRow) (th : CycThresh) : Except Err (List Bool) :=
  if !decide th.valid then .error .valueError
  else if !rows.isEmpty && decide (th.minN < 0) then .error .valueError
  else .ok (cyclesSpec rows th)

def ampSpecFull (fracs : List (Option Rat)) (thr k : Rat) : Except Err (List Bool) :=
  if decide (thr < 0) || decide (1 < thr) then .error .valueError
  else if !fracs.isEmpty && decide (k < 0) then .error .valueError
  else .ok (ampSpec fracs thr k)

def decFlank (v : V) : Option Flank :=
  match v with | .atom "rise" => some .rise | .atom "decay" => some .decay | _ => none
def decFirst (v : V) : Option FirstExt :=
  match v with
  | .atom "peak" => some .peak | .atom "trough" => some .trough | .atom "None" => some .none
  | .atom _ => some .invalid | _ => none
def encPairLists {α β} (f : α → V) (g : β → V) (p : List α × List β) : V := .list [encList f p.1, encList g p.2]

def handle (args : List V) : V :=
  match args with
  | [.atom "ping"] => .atom "pong"
  -- C08
  | [.atom "minrun.model", m, k] =>
    match m.bits?, k.rat? with
    | some m, some k => encExcept encBits (checkMinBurstCycles m k)
    | _, _ => bad "minrun.model"
  | [.atom "minrun.spec", m, k] =>
    match m.bits?, k.rat? with
    | some m, some k =>
      if m.isEmpty then .list [.atom "ok", encBits []]
      else if k < 0 then encErr .valueError else .list [.atom "ok", encBits (minRunSpec m k)]
    | _, _ => bad "minrun.spec"
  -- C06
  | [.atom "cycles.model", rows, th] =>
    match rows.listOf? decCycRow, decCycThresh th with
    | some rows, some th => encExcept encBits (detectCycles rows th)
    | _, _ => bad "cycles.model"
  | [.atom "cycles.spec", rows, th] =>
    match rows.listOf? decCycRow, decCycThresh th with
    | some rows, some th => encExcept encBits (cyclesSpecFull rows th)
    | _, _ => bad "cycles.spec"
  -- C07
  | [.atom "amp.model", fracs, thr, k] =>
    match fracs.listOf? V.orat?, thr.rat?, k.rat? with
    | some f, some t, some k => encExcept encBits (detectAmp f t k)
    | _, _, _ => bad "amp.model"
  | [.atom "amp.spec", fracs, thr, k] =>
    match fracs.listOf? V.orat?, thr.rat?, k.rat? with
    | some f, some t, some k => encExcept encBits (ampSpecFull f t k)
    | _, _, _ => bad "amp.spec"
  | [.atom "bfrac.model", mask, sides] =>
    match mask.bits?, sides.listOf? decPairNat with
    | some m, some s => encList encORat (burstFraction m s)
    | _, _ => bad "bfrac.model"
  | [.atom "bfrac.spec", mask, sides] =>
    match mask.bits?, sides.listOf? decPairNat with
    | some m, some s => encList encORat (s.map fun p => burstFractionSpec m p.1 p.2)
    | _, _ => bad "bfrac.spec"
  | [.atom "minn.model", b, t] =>
    match b.opt? V.rat?, t.opt? V.rat? with
    | some b, some t => let r := reconcileMinN b t; .list [encRat r.1, encRat r.2]
    | _, _ => bad "minn.model"
  | [.atom "minn.spec", b, t] =>
    match b.opt? V.rat?, t.opt? V.rat? with
    | some b, some t => let r := b.getD (t.getD 3); .list [encRat r, encRat r]
    | _, _ => bad "minn.spec"
  | [.atom "detargs.model", k, d] =>
    match k.rat?, d.opt? V.rat? with
    | some k, some d => let r := detectorArgs k d
                        .list [match r.1 with | some v => encRat v | none => .atom "None", match r.2 with | some v => encRat v | none => .atom "None"]
    | _, _ => bad "detargs.model"
  | [.atom "detargs.spec", k, d] =>
    match k.rat?, d.opt? V.rat? with
    | some k, some d => let r := detectorArgsSpec k d
                        .list [match r.1 with | some v => encRat v | none => .atom "None", match r.2 with | some v => encRat v | none => .atom "None"]
    | _, _ => bad "detargs.spec"
  | [.atom "bfguard.model", fs, lo, hi] =>
    match fs.rat?, lo.rat?, hi.rat? with
    | some fs, some lo, some hi => encExcept (fun _ => .atom "unit") (burstFractionGuard fs lo hi)
    | _, _, _ => bad "bfguard.model"
  -- C03
  | [.atom "flank.model", seg, f] =>
    match seg.listOf? V.rat?, decFlank f with
    | some seg, some f => if seg.isEmpty then encErr .indexError else .list [.atom "ok", encNat (flankMid seg f)]
    | _, _ => bad "flank.model"
  | [.atom "flank.spec", seg, f] =>
    match seg.listOf? V.rat?, decFlank f with
    | some seg, some f => if seg.isEmpty then encErr .indexError else .list [.atom "ok", encNat (flankMidSpec seg f)]
    | _, _ => bad "flank.spec"
  | [.atom "zerox.model", sig, pk, tr] =>
    match sig.listOf? V.rat?, pk.listOf? V.nat?, tr.listOf? V.nat? with
    | some sig, some pk, some tr => encExcept (encPairLists encNat encNat) (findZerox sig pk tr)
    | _, _, _ => bad "zerox.model"
  | [.atom "zerox.spec", sig, pk, tr] =>
    match sig.listOf? V.rat?, pk.listOf? V.nat?, tr.listOf? V.nat? with
    | some sig, some pk, some tr =>
      match pk.head?, tr.head? with
      | some p0, some t0 =>
        let seq := interleave (decide (p0 < t0)) pk tr
        if seq.length = pk.length + tr.length && validSeq sig.length seq then
          .list [.atom "ok", .list [encList encNat (risesSpec sig seq), encList encNat (decaysSpec sig seq)]]
        else .atom "invalid-seq"
      | _, _ => .atom "invalid-seq"
    | _, _, _ => bad "zerox.spec"
  -- C02
  | [.atom "extrema.model", sig, pad, b, bd, fe] =>
    match sig.listOf? V.rat?, pad.nat?, b.bits?, bd.int?, decFirst fe with
    | some sig, some pad, some b, some bd, some fe =>
      encExcept (encPairLists encInt encInt) (findExtrema sig pad b bd fe)
    | _, _, _, _, _ => bad "extrema.model"
  | [.atom "extrema.spec", sig, pad, b, bd, fe] =>
    match sig.listOf? V.rat?, pad.nat?, b.bits?, bd.int?, decFirst fe with
    | some sig, some pad, some b, some bd, some fe =>
      if (risingX b).isEmpty || (decayingX b).isEmpty then .atom "no-crossings"
      else encExcept (encPairLists encInt encInt) (findExtremaSpec sig pad b bd fe)
    | _, _, _, _, _ => bad "extrema.spec"
  | _ => bad "unknown-command"

partial def loop (hin : IO.FS.Stream) (hout : IO.FS.Stream) : IO Unit := do
  let line ← hin.getLine
  if line.isEmpty then return ()
  let out := match parseLine line with
    | some args => handle args
    | none => bad "parse"
  hout.putStrLn out.render
  loop hin hout

def main : IO Unit := do
  let hin ← IO.getStdin
  let hout ← IO.getStdout
  loop hin hout
  hout.flush
