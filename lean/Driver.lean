import BycycleModel
/-!
# Line-protocol driver

One request per line on stdin, one answer per line on stdout. See `BycycleModel/Wire.lean`.
-/
open Bycycle

def bad (msg : String) : V := .list [.atom "bad-request", .atom msg]

def decCycRow (v : V) : Option CycRow :=
  match v with
  | .list [a, b, c, d] => do
      let a ← a.orat?; let b ← b.orat?; let c ← c.orat?; let d ← d.orat?
      pure ⟨a, b, c, d⟩
  | _ => none

def decCycThresh (v : V) : Option CycThresh :=
  match v with
  | .list [a, b, c, d, k] => do
      let a ← a.rat?; let b ← b.rat?; let c ← c.rat?; let d ← d.rat?; let k ← k.rat?
      pure ⟨a, b, c, d, k⟩
  | _ => none

def decPairNat (v : V) : Option (Nat × Nat) :=
  match v with
  | .list [a, b] => do let a ← a.nat?; let b ← b.nat?; pure (a, b)
  | _ => none

/-- the statement of C06 with its rejection clauses, as an executable function. -/
def cyclesSpecFull (rows : List CycRow) (th : CycThresh) : Except Err (List Bool) :=
  if !decide th.valid then .error .valueError
  else if !rows.isEmpty && decide (th.minN < 0) then .error .valueError
  else .ok (cyclesSpec rows th)

def ampSpecFull (fracs : List (Option Rat)) (thr k : Rat) : Except Err (List Bool) :=
  if decide (thr < 0) || decide (1 < thr) then .error .valueError
  else if !fracs.isEmpty && decide (k < 0) then .error .valueError
  else .ok (ampSpec fracs thr k)

def decFlank (v : V) : Option Flank :=
  match v with | .atom "rise" => some .rise | .atom "decay" => some .decay | _ => none
def decFirst (v : V) : Option FirstExt :=
  match v with
  | .atom "peak" => some .peak | .atom "trough" => some .trough | .atom "None" => some .none
  | .atom _ => some .invalid | _ => none
def encPairLists {α β} (f : α → V) (g : β → V) (p : List α × List β) : V := .list [encList f p.1, encList g p.2]

def encRow (r : SampleRow) : V :=
  .list [encInt r.peak, encInt r.lastZeroxDecay, encInt r.zeroxDecay, encInt r.zeroxRise, encInt r.lastTrough, encInt r.nextTrough]
def decRow (v : V) : Option SampleRow :=
  match v with
  | .list [a, b, c, d, e, f] => do
      let a ← a.int?; let b ← b.int?; let c ← c.int?; let d ← d.int?; let e ← e.int?; let f ← f.int?
      pure ⟨a, b, c, d, e, f⟩
  | _ => none

def encShape (r : ShapeRow) : V :=
  .list [encInt r.period, encInt r.timePeak, encInt r.timeTrough, encRat r.voltPeak, encRat r.voltTrough, encInt r.timeDecay,
         encInt r.timeRise, encRat r.voltDecay, encRat r.voltRise, encRat r.voltAmp, encF r.timeRdsym, encF r.timePtsym, encF r.bandAmp]
def decCentre (v : V) : Option Centre :=
  match v with | .atom "peak" => some .peak | .atom "trough" => some .trough | _ => none
def decDir (v : V) : Option Direction :=
  match v with | .atom "both" => some .both | .atom "next" => some .next | .atom "last" => some .last | _ => none
def decTriple (v : V) : Option (Int × Int × Int) :=
  match v with
  | .list [a, b, c] => do let a ← a.int?; let b ← b.int?; let c ← c.int?; pure (a, b, c)
  | _ => none
def tOfRow (r : SampleRow) : TSampleRow := ⟨r.peak, r.lastZeroxDecay, r.zeroxDecay, r.zeroxRise, r.lastTrough, r.nextTrough⟩

def decAxis (v : V) : Option Axis :=
  match v with
  | .atom "None" => some .none | .atom "0" => some .a0 | .atom "1" => some .a1 | .atom "a01" => some .a01
  | .atom _ => some .other | _ => none
def decKwShape (s0 s1 nd k0 k1 ax : V) : Option KwShape := do
  let s0 ← s0.nat?; let s1 ← s1.opt? V.nat?; let nd ← nd.nat?; let k0 ← k0.nat?; let k1 ← k1.opt? V.nat?; let ax ← decAxis ax
  pure ⟨s0, s1, nd, k0, k1, ax⟩

def decKw (v : V) : Option (Kw Nat) :=
  match v with
  | .atom "None" => some .none
  | .list [.atom "one", o] => o.nat?.map Kw.one
  | .list [.atom "many", os] => (os.listOf? V.nat?).map Kw.many
  | _ => none
def decAxis3 (v : V) : Option Axis3 :=
  match v with | .atom "0" => some .a0 | .atom "1" => some .a1 | .atom "a01" => some .a01 | _ => none
/-- tags: a result records which signals and which option set it was computed from, and the epoch index. -/
abbrev Tag := List Nat × Nat × Nat
def encTag (t : Tag) : V := .list [encList encNat t.1, encNat t.2.1, encNat t.2.2]
def tagAnalyse (s : Nat) (o : Nat) : Tag := ([s], o, 0)
def tagEpochs (xs : List Nat) (o : Nat) : List Tag := (List.range xs.length).map fun e => (xs, o, e)
def decFRow (v : V) : Option (FRow Nat) :=
  match v with
  | .list [i, r] => do let i ← i.nat?; let r ← decRow r; pure ⟨r, i⟩
  | _ => none
def encFRow (r : FRow Nat) : V := .list [encNat r.payload, encRow r.s]
def decEdgeRow (v : V) : Option EdgeRow :=
  match v with
  | .list [a, b, c, d, e, f, g, h] => do
      let a ← a.rat?; let b ← b.rat?; let c ← c.rat?; let d ← d.orat?; let e ← e.orat?; let f ← f.fval?; let g ← g.fval?; let h ← h.bool?
      pure ⟨a, b, c, d, e, f, g, h⟩
  | _ => none
def encEdgeOut (r : EdgeRow) : V := .list [encF r.ampCons, encF r.perCons, encBool r.isBurst]

def decShape (v : V) : Option ShapeRow :=
  match v with
  | .list [a, b, c, d, e, f, g, h, i, j, k, l, m] => do
      let a ← a.int?; let b ← b.int?; let c ← c.int?; let d ← d.rat?; let e ← e.rat?; let f ← f.int?; let g ← g.int?
      let h ← h.rat?; let i ← i.rat?; let j ← j.rat?; let k ← k.fval?; let l ← l.fval?; let m ← m.fval?
      pure ⟨a, b, c, d, e, f, g, h, i, j, k, l, m⟩
  | _ => none

def decKV (v : V) : Option (String × Rat) :=
  match v with
  | .list [.atom k, x] => x.rat?.map fun q => (k, q)
  | _ => none
def encKV (p : String × Rat) : V := .list [.atom p.1, encRat p.2]


/-! C14: object machine -/
open Bycycle.Obj in
def encSettings (st : Obj.Settings) : V :=
  .list [encBool st.peak, encBool st.cycles, encList encKV st.burstKwargs, encList encKV st.thresholds, encNat st.fek, encBool st.returnSamples]
def encTerm : Obj.Term → V
  | .cf st x => .list [.atom "cf", encSettings st, encNat x]
  | .rc t th => .list [.atom "rc", encTerm t, encList encKV th]
  | .loaded i => .list [.atom "loaded", encNat i]
def decObjOp (v : V) : Option (Obj.Op Nat Obj.Term × Bool) :=
  match v with
  | .list [op, flag] => do
    let flag ← flag.bool?
    let op ← (match op with
      | .list [.atom "fit", x] => x.nat?.map Obj.Op.fit
      | .list [.atom "edges", r] => (r.opt? V.rat?).map Obj.Op.edges
      | .list [.atom "load", i, x] => do let i ← i.nat?; let x ← x.nat?; pure (Obj.Op.load (.loaded i) x)
      | .list [.atom "edit", .atom k, q] => q.rat?.map (Obj.Op.edit k)
      | .list [.atom "rebind", th] => (th.listOf? decKV).map Obj.Op.rebind
      | .list [.atom "editbk", .atom k, q] => q.rat?.map (Obj.Op.editbk k)
      | .list [.atom "attr", .atom k] => some (Obj.Op.attr k)
      | .list [.atom "plot"] => some Obj.Op.plot
      | _ => none)
    pure (op, flag)
  | _ => none
def encObjOut : Obj.Out → V
  | .done => .atom "done" | .raised => .atom "raised" | .column _ => .atom "column"
def encOptV {α} (f : α → V) : Option α → V | none => .atom "None" | some a => f a
def decGOp (v : V) : Option (Obj.GOp Nat Obj.Term × List Bool) :=
  match v with
  | .list [op, flags] => do
    let flags ← flags.listOf? V.bool?
    let op ← (match op with
      | .list [.atom "gfit", xs] => (xs.listOf? V.nat?).map Obj.GOp.fit
      | .list [.atom "gedges", r] => (r.opt? V.rat?).map Obj.GOp.edges
      | .list [.atom "mrebind", i, th] => do let i ← i.nat?; let th ← th.listOf? decKV; pure (Obj.GOp.modelRebind i th)
      | .list [.atom "mfit", i, x] => do let i ← i.nat?; let x ← x.nat?; pure (Obj.GOp.modelFit i x)
      | _ => none)
    pure (op, flags)
  | _ => none
def encGObj (g : Obj.GObj Nat Obj.Term) : V :=
  .list [encSettings g.st, encList encNat g.sigs, encList encTerm g.dfs,
         encList (fun (m : Obj.Obj Nat Obj.Term) => .list [encSettings m.st, encOptV encNat m.sig, encOptV encTerm m.df]) g.models]

def handle (args : List V) : V :=
  match args with
  | [.atom "ping"] => .atom "pong"
  -- C08
  | [.atom "minrun.model", m, k] =>
    match m.bits?, k.rat? with
    | some m, some k => encExcept encBits (checkMinBurstCycles m k)
    | _, _ => bad "minrun.model"
  | [.atom "minrun.spec", m, k] =>
    match m.bits?, k.rat? with
    | some m, some k =>
      if m.isEmpty then .list [.atom "ok", encBits []]
      else if k < 0 then encErr .valueError else .list [.atom "ok", encBits (minRunSpec m k)]
    | _, _ => bad "minrun.spec"
  -- C06
  | [.atom "cycles.model", rows, th] =>
    match rows.listOf? decCycRow, decCycThresh th with
    | some rows, some th => encExcept encBits (detectCycles rows th)
    | _, _ => bad "cycles.model"
  | [.atom "cycles.spec", rows, th] =>
    match rows.listOf? decCycRow, decCycThresh th with
    | some rows, some th => encExcept encBits (cyclesSpecFull rows th)
    | _, _ => bad "cycles.spec"
  -- C07
  | [.atom "amp.model", fracs, thr, k] =>
    match fracs.listOf? V.orat?, thr.rat?, k.rat? with
    | some f, some t, some k => encExcept encBits (detectAmp f t k)
    | _, _, _ => bad "amp.model"
  | [.atom "amp.spec", fracs, thr, k] =>
    match fracs.listOf? V.orat?, thr.rat?, k.rat? with
    | some f, some t, some k => encExcept encBits (ampSpecFull f t k)
    | _, _, _ => bad "amp.spec"
  | [.atom "bfrac.model", mask, sides] =>
    match mask.bits?, sides.listOf? decPairNat with
    | some m, some s => encList encORat (burstFraction m s)
    | _, _ => bad "bfrac.model"
  | [.atom "bfrac.spec", mask, sides] =>
    match mask.bits?, sides.listOf? decPairNat with
    | some m, some s => encList encORat (s.map fun p => burstFractionSpec m p.1 p.2)
    | _, _ => bad "bfrac.spec"
  | [.atom "minn.model", b, t] =>
    match b.opt? V.rat?, t.opt? V.rat? with
    | some b, some t => let r := reconcileMinN b t; .list [encRat r.1, encRat r.2]
    | _, _ => bad "minn.model"
  | [.atom "minn.spec", b, t] =>
    match b.opt? V.rat?, t.opt? V.rat? with
    | some b, some t => let r := b.getD (t.getD 3); .list [encRat r, encRat r]
    | _, _ => bad "minn.spec"
  | [.atom "detargs.model", k, d] =>
    match k.rat?, d.opt? V.rat? with
    | some k, some d => let r := detectorArgs k d
                        .list [match r.1 with | some v => encRat v | none => .atom "None", match r.2 with | some v => encRat v | none => .atom "None"]
    | _, _ => bad "detargs.model"
  | [.atom "detargs.spec", k, d] =>
    match k.rat?, d.opt? V.rat? with
    | some k, some d => let r := detectorArgsSpec k d
                        .list [match r.1 with | some v => encRat v | none => .atom "None", match r.2 with | some v => encRat v | none => .atom "None"]
    | _, _ => bad "detargs.spec"
  | [.atom "bfguard.model", fs, lo, hi] =>
    match fs.rat?, lo.rat?, hi.rat? with
    | some fs, some lo, some hi => encExcept (fun _ => .atom "unit") (burstFractionGuard fs lo hi)
    | _, _, _ => bad "bfguard.model"
  -- C03
  | [.atom "flank.model", seg, f] =>
    match seg.listOf? V.rat?, decFlank f with
    | some seg, some f => if seg.isEmpty then encErr .indexError else .list [.atom "ok", encNat (flankMid seg f)]
    | _, _ => bad "flank.model"
  | [.atom "flank.spec", seg, f] =>
    match seg.listOf? V.rat?, decFlank f with
    | some seg, some f => if seg.isEmpty then encErr .indexError else .list [.atom "ok", encNat (flankMidSpec seg f)]
    | _, _ => bad "flank.spec"
  | [.atom "zerox.model", sig, pk, tr] =>
    match sig.listOf? V.rat?, pk.listOf? V.nat?, tr.listOf? V.nat? with
    | some sig, some pk, some tr => encExcept (encPairLists encNat encNat) (findZerox sig pk tr)
    | _, _, _ => bad "zerox.model"
  | [.atom "zerox.spec", sig, pk, tr] =>
    match sig.listOf? V.rat?, pk.listOf? V.nat?, tr.listOf? V.nat? with
    | some sig, some pk, some tr =>
      match pk.head?, tr.head? with
      | some p0, some t0 =>
        let seq := interleave (decide (p0 < t0)) pk tr
        if seq.length = pk.length + tr.length && validSeq sig.length seq then
          .list [.atom "ok", .list [encList encNat (risesSpec sig seq), encList encNat (decaysSpec sig seq)]]
        else .atom "invalid-seq"
      | _, _ => .atom "invalid-seq"
    | _, _, _ => bad "zerox.spec"
  -- C02
  | [.atom "extrema.model", sig, pad, b, bd, fe] =>
    match sig.listOf? V.rat?, pad.nat?, b.bits?, bd.int?, decFirst fe with
    | some sig, some pad, some b, some bd, some fe =>
      encExcept (encPairLists encInt encInt) (findExtrema sig pad b bd fe)
    | _, _, _, _, _ => bad "extrema.model"
  | [.atom "extrema.spec", sig, pad, b, bd, fe] =>
    match sig.listOf? V.rat?, pad.nat?, b.bits?, bd.int?, decFirst fe with
    | some sig, some pad, some b, some bd, some fe =>
      if (risingX b).isEmpty || (decayingX b).isEmpty then .atom "no-crossings"
      else encExcept (encPairLists encInt encInt) (findExtremaSpec sig pad b bd fe)
    | _, _, _, _, _ => bad "extrema.spec"
  -- C01
  | [.atom "cyclepoints.model", sig, pad, b, bd] =>
    match sig.listOf? V.rat?, pad.nat?, b.bits?, bd.int? with
    | some sig, some pad, some b, some bd => encExcept (encList encRow) (computeCyclepoints sig pad b bd)
    | _, _, _, _ => bad "cyclepoints.model"
  -- the COMPOSED model of compute_features(burst_method='cycles'): x is the ORIGINAL signal, b the sign pattern of the filtered padded (for trough: negated) signal,
  -- amp the band amplitude; answer: sample rows (peak-centred field order), shape rows, burst features, labels
  | [.atom "pipeline.model", c, x, pad, b, amp, bd, th] =>
    match decCentre c, x.listOf? V.rat?, pad.nat?, b.bits?, amp.listOf? V.rat?, bd.int?, decCycThresh th with
    | some c, some x, some pad, some b, some amp, some bd, some th =>
      match pipelineCycles c x pad b amp bd th with
      | .ok o => .list [.atom "ok", encList encRow o.samples, encList encShape o.shape,
                        encList (fun r : CycRow => .list [encORat r.ampFraction, encORat r.ampConsistency, encORat r.periodConsistency, encORat r.monotonicity]) o.feats,
                        encBits o.labels]
      | .error e => encErr e
    | _, _, _, _, _, _, _ => bad "pipeline.model"
  -- the COMPOSED model of compute_features(burst_method='amp'): `mask` is the dual-threshold detector's answer for the arguments the model hands it
  | [.atom "pipelineamp.model", c, x, pad, b, amp, bd, bk, th, dur, mask, thr] =>
    match decCentre c, x.listOf? V.rat?, pad.nat?, b.bits?, amp.listOf? V.rat?, bd.int?, bk.opt? V.rat?, th.opt? V.rat?, dur.opt? V.rat?, mask.bits?, thr.rat? with
    | some c, some x, some pad, some b, some amp, some bd, some bk, some th, some dur, some mask, some thr =>
      match pipelineAmp c x pad b amp bd bk th dur (fun _ => mask) thr with
      | .ok o => .list [.atom "ok", encList encRow o.samples, encList encShape o.shape, encList encORat o.fracs, encBits o.labels]
      | .error e => encErr e
    | _, _, _, _, _, _, _, _, _, _, _ => bad "pipelineamp.model"
  | [.atom "cyclepoints.wf", rows, n, bd] =>
    match rows.listOf? decRow, n.nat?, bd.int? with
    | some rows, some n, some bd => encBool (decide (wellFormed rows n bd))
    | _, _, _ => bad "cyclepoints.wf"
  -- C04: rows arrive in the peak-centred field order (peak, lastZeroxDecay, zeroxDecay, zeroxRise, lastTrough, nextTrough)
  | [.atom "shape.model", c, sig, amp, rows] =>
    match decCentre c, sig.listOf? V.rat?, amp.listOf? V.rat?, rows.listOf? decRow with
    | some c, some sig, some amp, some rows => encExcept (encList encShape) (shapeFeaturesGen c sig amp rows)
    | _, _, _, _ => bad "shape.model"
  -- spec: original signal; for trough centring the six numbers are the trough-centred columns
  -- (trough, lastZeroxRise, zeroxRise, zeroxDecay, lastPeak, nextPeak)
  | [.atom "shape.spec", c, x, amp, rows] =>
    match decCentre c, x.listOf? V.rat?, amp.listOf? V.rat?, rows.listOf? decRow with
    | some .peak, some x, some amp, some rows => encList encShape (rows.map (shapeSpecPeak x amp))
    | some .trough, some x, some amp, some rows => encList encShape (rows.map fun r => shapeSpecTrough x amp (tOfRow r))
    | _, _, _, _ => bad "shape.spec"
  -- C05
  | [.atom "ampfrac.model", va] =>
    match va.listOf? V.orat? with
    | some va => encList encORat (ampFractionN va)
    | _ => bad "ampfrac.model"
  | [.atom "ampcons.model", pc, dir, rises, decays] =>
    match pc.bool?, decDir dir, rises.listOf? V.rat?, decays.listOf? V.rat? with
    | some pc, some dir, some r, some d => encExcept (encList encF) (ampConsistency pc dir r d)
    | _, _, _, _ => bad "ampcons.model"
  | [.atom "ampcons.spec", pc, dir, rises, decays] =>
    match pc.bool?, decDir dir, rises.listOf? V.rat?, decays.listOf? V.rat? with
    | some pc, some dir, some r, some d =>
      let n := r.length
      if n = 0 then encErr .indexError
      else .list [.atom "ok", encList encF ((List.range n).map fun c =>
        if c = 0 ∨ c + 1 = n then F.nan else ampConsSpecDir dir (flankSeq pc r d) c)]
    | _, _, _, _ => bad "ampcons.spec"
  | [.atom "percons.model", dir, periods] =>
    match decDir dir, periods.listOf? V.rat? with
    | some dir, some p => encExcept (encList encF) (periodConsistency dir p)
    | _, _ => bad "percons.model"
  | [.atom "mono.model", pc, sig, rows] =>
    match pc.bool?, sig.listOf? V.rat?, rows.listOf? decTriple with
    | some pc, some sig, some rows => encList encF (monotonicity pc sig rows)
    | _, _, _ => bad "mono.model"
  | [.atom "mono.spec", pc, sig, rows] =>
    match pc.bool?, sig.listOf? V.rat?, rows.listOf? decTriple with
    | some pc, some sig, some rows =>
      encList encF (rows.map fun (l, c, n) =>
        let first := slice sig l.toNat (c.toNat + 1)
        let second := slice sig c.toNat (n.toNat + 1)
        let (rise, decay) := if pc then (first, second) else (second, first)
        meanF2 (stepFractionSpec false decay) (stepFractionSpec true rise))
    | _, _, _ => bad "mono.spec"
  -- C19
  | [.atom "kwshape.model", d, s0, s1, nd, k0, k1, ax] =>
    match d.bool?, decKwShape s0 s1 nd k0 k1 ax with
    | some d, some k => .list [encExcept (fun _ => .atom "unit") (checkKwargsShape d k), encExcept (fun _ => .atom "unit") (groupGuard d k)]
    | _, _ => bad "kwshape.model"
  | [.atom "kwshape.spec", d, s0, s1, nd, k0, k1, ax] =>
    match d.bool?, decKwShape s0 s1 nd k0 k1 ax with
    | some d, some k =>
      let chk : Bool := d || decide (Documented k)
      let grp : Bool := (d && axisValid k) || (!d && decide (Documented k))
      .list [if chk then .list [.atom "ok", .atom "unit"] else encErr .valueError,
             if grp then .list [.atom "ok", .atom "unit"] else encErr .valueError]
    | _, _ => bad "kwshape.spec"
  -- C11 / C12
  | [.atom "group2d.model", n, kw, sg] =>
    match n.nat?, decKw kw, sg.listOf? V.nat? with
    | some n, some kw, some sg => encList encTag (features2d tagAnalyse id 0 sg (List.range n) kw)
    | _, _, _ => bad "group2d.model"
  | [.atom "group2d.spec", n, kw] =>
    match n.nat?, decKw kw with
    | some n, some kw => encList encTag (features2dSpec tagAnalyse id 0 (List.range n) kw)
    | _, _ => bad "group2d.spec"
  | [.atom "group3d.model", n0, n1, kw, ax, sg] =>
    match n0.nat?, n1.nat?, decKw kw, decAxis3 ax, sg.listOf? V.nat? with
    | some n0, some n1, some kw, some ax, some sg =>
      let grid := (List.range n0).map fun i => (List.range n1).map fun j => i * n1 + j
      encList (encList encTag) (features3d tagAnalyse tagEpochs id 0 sg n0 n1 grid kw ax)
    | _, _, _, _, _ => bad "group3d.model"
  | [.atom "group3d.spec", n0, n1, kw, ax] =>
    match n0.nat?, n1.nat?, decKw kw, decAxis3 ax with
    | some n0, some n1, some kw, some ax =>
      let opt := fun (i : Nat) => match kw with | .none => 0 | .one o => o | .many os => os.getD i 0
      encList (encList encTag) ((List.range n0).map fun i => (List.range n1).map fun j =>
        match ax with
        | .a01 => ([i * n1 + j], opt (i * n1 + j), 0)
        | .a0 => ((List.range n1).map fun j' => i * n1 + j', opt i, j)
        | .a1 => ((List.range n0).map fun i' => i' * n1 + j, opt j, i))
    | _, _, _, _ => bad "group3d.spec"
  -- C13
  | [.atom "epoch.model", rows, n, l] =>
    match rows.listOf? decFRow, n.nat?, l.nat? with
    | some rows, some n, some l => if l = 0 then bad "epoch_len 0" else encList (encList encFRow) (epochDf rows n l)
    | _, _, _ => bad "epoch.model"
  | [.atom "epoch.spec", rows, n, l] =>
    match rows.listOf? decFRow, n.nat?, l.nat? with
    | some rows, some n, some l => if l = 0 then bad "epoch_len 0" else encList (encList encFRow) (epochSpec rows n l)
    | _, _, _ => bad "epoch.spec"
  | [.atom "flat.relabel", nk, nEpochs] =>
    -- which option set re-labels each epoch (0 = none, i.e. the labels of the flattened analysis stay)
    match nk.nat?, nEpochs.nat? with
    | some nk, some ne =>
      let eps : List (List (FRow Nat)) := List.replicate ne []
      let r := featuresFlat (P := Nat) (O := Nat) (fun _ => []) (fun o _ => [⟨default, o⟩]) ((List.range nk).map (· + 1)) 0 (ne) 1
      let _ := eps
      encList (fun t => match t with | [x] => encNat x.payload | _ => encNat 0) r
    | _, _ => bad "flat.relabel"
  -- C18
  | [.atom "limitdf.model", rows, a, b, off, reset] =>
    match rows.listOf? decFRow, a.rat?, b.opt? V.rat?, off.int?, reset.bool? with
    | some rows, some a, some b, some off, some reset => encList encFRow (limitDf rows a b off reset)
    | _, _, _, _, _ => bad "limitdf.model"
  | [.atom "limitdf.spec", rows, a, b, off, reset] =>
    match rows.listOf? decFRow, a.rat?, b.opt? V.rat?, off.int?, reset.bool? with
    | some rows, some a, some b, some off, some reset => encList encFRow (limitSpec rows a b off reset)
    | _, _, _, _, _ => bad "limitdf.spec"
  | [.atom "limitsig.model", times, a, b] =>
    match times.listOf? V.rat?, a.opt? V.rat?, b.opt? V.rat? with
    | some t, some a, some b => encList encNat (limitSignal t a b)
    | _, _, _ => bad "limitsig.model"
  | [.atom "limitsig.spec", times, a, b] =>
    match times.listOf? V.rat?, a.opt? V.rat?, b.opt? V.rat? with
    | some t, some a, some b => encList encNat (limitSignalSpec t a b)
    | _, _, _ => bad "limitsig.spec"
  -- C16
  | [.atom "edges.model", pc, rows, th] =>
    match pc.bool?, rows.listOf? decEdgeRow, decCycThresh th with
    | some pc, some rows, some th => encExcept (encList encEdgeOut) (recomputeEdges pc rows th)
    | _, _, _ => bad "edges.model"
  | [.atom "edges.spec", pc, rows, th] =>
    match pc.bool?, rows.listOf? decEdgeRow, decCycThresh th with
    | some pc, some rows, some th =>
      let ed := editedSpec pc rows
      match cyclesSpecFull (ed.map (·.toCyc)) th with
      | .ok labels => .list [.atom "ok", encList encEdgeOut ((ed.zip labels).map fun (r, l) => { r with isBurst := l })]
      | .error e => encErr e
    | _, _, _ => bad "edges.spec"
  -- C17
  | [.atom "phase.model", n, pk, tr, ri, de] =>
    match n.nat?, pk.listOf? V.nat?, tr.listOf? V.nat?, ri.opt? (V.listOf? V.nat?), de.opt? (V.listOf? V.nat?) with
    | some n, some pk, some tr, some ri, some de => encExcept (encList encORat) (interpolatedPhase n pk tr ri de)
    | _, _, _, _, _ => bad "phase.model"
  | [.atom "phase.judge", n, pk, tr, ri, de, pha, eps] =>
    match n.nat?, pk.listOf? V.nat?, tr.listOf? V.nat?, ri.opt? (V.listOf? V.nat?), de.opt? (V.listOf? V.nat?), pha.listOf? V.orat?, eps.rat? with
    | some n, some pk, some tr, some ri, some de, some pha, some eps => encBool (phaseJudge n pk tr ri de pha eps)
    | _, _, _, _, _, _, _ => bad "phase.judge"
  -- C09: the generated renaming + flips applied to a peak-centred shape table
  | [.atom "mirror.shape", rows] =>
    match rows.listOf? decShape with
    | some rows => encList encShape (rows.map fun r => Slots.flipShape (Slots.renameShape r))
    | none => bad "mirror.shape"
  -- C14
  | [.atom "objs.expand", th] =>
    match th.listOf? decKV with
    | some th => encList encKV (expandShorthand th)
    | none => bad "objs.expand"
  | [.atom "objs.reduce", th, r] =>
    match th.listOf? decKV, r.opt? V.rat? with
    | some th, some r => encList encKV (reduceThresholds th r)
    | _, _ => bad "objs.reduce"
  | [.atom "obj.trace", peak, cycles, bk, th, fek, rs, ops] =>
    match peak.bool?, cycles.bool?, bk.opt? (V.listOf? decKV), th.opt? (V.listOf? decKV), fek.opt? V.nat?, rs.bool?, ops.listOf? decObjOp with
    | some peak, some cycles, some bk, some th, some fek, some rs, some ops =>
      let o : Obj.Obj Nat Obj.Term := Obj.construct peak cycles bk th fek rs
      .list (.list [.atom "constructed", encSettings o.st, .atom "None", .atom "None"] ::
        (Obj.trace o ops).map fun (out, o') => .list [encObjOut out, encSettings o'.st, encOptV encNat o'.sig, encOptV encTerm o'.df])
    | _, _, _, _, _, _, _ => bad "obj.trace"
  | [.atom "group.trace", peak, cycles, th, ops] =>
    match peak.bool?, cycles.bool?, th.opt? (V.listOf? decKV), ops.listOf? decGOp with
    | some peak, some cycles, some th, some ops =>
      let o : Obj.Obj Nat Obj.Term := Obj.construct peak cycles none th none true
      .list ((Obj.gtrace (Obj.freshGroup o.st) ops).map fun (out, g) => .list [encObjOut out, encGObj g])
    | _, _, _, _ => bad "group.trace"
  -- C20: marker indices / burst highlight for a view lo … lo+len-1; `x` is the float product the source truncates or rounds
  | [.atom "plot.markers", lo, len, x, pts] =>
    match lo.nat?, len.nat?, x.rat?, pts.listOf? V.int? with
    | some lo, some len, some x, some pts => encList encInt (markerIdx lo len (windowOffset x) pts)
    | _, _, _, _ => bad "plot.markers"
  | [.atom "plot.mask", len, x, bursts] =>
    match len.nat?, x.rat?, bursts.listOf? (fun v => match v with | .list [a, b] => do let a ← a.int?; let b ← b.int?; pure (a, b) | _ => none) with
    | some len, some x, some bursts => encBits (burstMask len (windowOffset x) bursts)
    | _, _, _ => bad "plot.mask"
  | [.atom "plot.panel", interp, lo, len, stop, cycles, thresh] =>
    match interp.bool?, lo.int?, len.nat?, stop.int?,
          cycles.listOf? (fun v => match v with
            | .list [a, b, c, d] => do let a ← a.int?; let b ← b.int?; let c ← c.int?; let d ← d.orat?; pure (⟨a, b, c, d⟩ : PanelCycle)
            | _ => none), thresh.rat? with
    | some interp, some lo, some len, some stop, some cycles, some thresh =>
      let cs := panelCycles lo len stop cycles
      .list [encList (fun p : Int × Option Rat => .list [encInt p.1, encORat p.2]) (panelPoints interp cs),
             encList (fun p : Int × Int => .list [encInt p.1, encInt p.2]) (panelSpans thresh cs)]
    | _, _, _, _, _, _ => bad "plot.panel"
  | _ => bad "unknown-command"

partial def loop (hin : IO.FS.Stream) (hout : IO.FS.Stream) : IO Unit := do
  let line ← hin.getLine
  if line.isEmpty then return ()
  let out := match parseLine line with
    | some args => handle args
    | none => bad "parse"
  hout.putStrLn out.render
  loop hin hout

def main : IO Unit := do
  let hin ← IO.getStdin
  let hout ← IO.getStdout
  loop hin hout
  hout.flush
