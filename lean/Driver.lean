import BycycleModel
/-!
# Line-protocol driver

One request per line on stdin, one answer per line on stdout. See `BycycleModel/Wire.lean`.
-/
open Bycycle

def bad (msg : String) : V := .list [.atom "bad-request", .atom msg]

def handle (args : List V) : V :=
  match args with
  | [.atom "ping"] => .atom "pong"
  -- C08
  | [.atom "minrun.model", m, k] =>
    match m.bits?, k.rat? with
    | some m, some k => encExcept encBits (checkMinBurstCycles m k)
    | _, _ => bad "minrun.model"
  | [.atom "minrun.spec", m, k] =>
    match m.bits?, k.rat? with
    | some m, some k =>
      if m.isEmpty then .list [.atom "ok", encBits []]
      else if k < 0 then encErr .valueError else .list [.atom "ok", encBits (minRunSpec m k)]
    | _, _ => bad "minrun.spec"
  | _ => bad "unknown-command"

partial def loop (hin : IO.FS.Stream) (hout : IO.FS.Stream) : IO Unit := do
  let line ← hin.getLine
  if line.isEmpty then return ()
  let out := match parseLine line with
    | some args => handle args
    | none => bad "parse"
  hout.putStrLn out.render
  loop hin hout

def main : IO Unit := do
  let hin ← IO.getStdin
  let hout ← IO.getStdout
  loop hin hout
  hout.flush
