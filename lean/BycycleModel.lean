-- This module serves as the root of the `BycycleModel` library.
-- Import modules here that should be built as part of the library.
import BycycleModel.Basic
