import BycycleModel.Basic
import BycycleModel.Runs
import BycycleModel.Wire
import BycycleModel.Detect
