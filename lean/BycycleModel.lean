import BycycleModel.Basic
import BycycleModel.Runs
import BycycleModel.Wire
import BycycleModel.Detect
import BycycleModel.Zerox
import BycycleModel.Extrema
import BycycleModel.Cyclepoints
