import BycycleModel.Pipeline
/-!
# `compute_features(..., burst_method='amp')` as one function of the signal and the kernels' answers

Composition of the transcriptions: negate for trough centring, cyclepoints, shape features, the `min_n_cycles` reconciliation between the
burst options and the thresholds (features.py), the sample-wise dual-threshold detector (a KERNEL: `detMask` answers with its mask for the
`(min_n_cycles, min_burst_duration)` pair that reaches it), the per-cycle burst fraction over `[last side, next side]` inclusive, the
threshold-and-run labels. The mask is computed on the ORIGINAL signal; the side extrema are sample indices, the same in `x` and `-x`.
-/
namespace Bycycle

structure PipeOutAmp where
  samples : List SampleRow       -- peak-centred field order; for trough centring read through `Slots.renameSamples`
  shape : List ShapeRow
  fracs : List (Option Rat)
  labels : List Bool
  deriving Repr, DecidableEq

def pipelineAmp (c : Centre) (x : List Rat) (pad : Nat) (b : List Bool) (amp : List Rat) (bd : Int)
    (bkMinN thMinN dur : Option Rat) (detMask : Option Rat × Option Rat → List Bool) (thr : Rat) : Except Err PipeOutAmp :=
  let used := match c with | .peak => x | .trough => negSig x
  match computeCyclepoints used pad b bd with
  | .error e => .error e
  | .ok rows =>
    match shapeFeatures c used amp rows with
    | .error e => .error e
    | .ok shape =>
      let k := reconcileMinN bkMinN thMinN
      let fracs := burstFraction (detMask (detectorArgs k.1 dur)) (rows.map fun r => (r.lastTrough.toNat, r.nextTrough.toNat))
      match detectAmp fracs thr k.2 with
      | .error e => .error e
      | .ok labels => .ok ⟨rows, shape, fracs, labels⟩

end Bycycle
