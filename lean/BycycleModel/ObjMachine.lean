import BycycleModel.Basic
import BycycleModel.Objs
/-!
# The `Bycycle` object as a state machine (bycycle/objs/fit.py)

State: the stored settings (the option dictionaries are association lists), the stored signal (with its
`fs` / `f_range`: one abstract value `S`) and the current table. Operations: `fit`, `recompute_edges`,
`load`, in-place threshold edit, threshold rebinding, `burst_kwargs` edit, attribute access.

The functional API is a PARAMETER (`Api`): `cf` is `compute_features` as a function of the settings it is
handed and the signal, `rc` is `bycycle.burst.recompute_edges`, `col` reads a column of a table. That `cf`
is a function of those arguments alone (it writes none of the dictionaries it is handed) is the frame
statement of C15 / `C14_fit_no_stale_state`.
-/
namespace Bycycle.Obj

abbrev KV := List (String × Rat)

/-- `d[k] = v` on a python dictionary: replace in place, else append. -/
def setKey : KV → String → Rat → KV
  | [], k, v => [(k, v)]
  | (k', v') :: rest, k, v => if k' = k then (k, v) :: rest else (k', v') :: setKey rest k v

structure Settings where
  peak : Bool
  cycles : Bool
  burstKwargs : KV
  thresholds : KV
  /-- `find_extrema_kwargs`: an opaque identifier (0 = the default `{'filter_kwargs': {'n_cycles': 3}}`). -/
  fek : Nat
  returnSamples : Bool
  deriving DecidableEq, Repr

structure Api (S T : Type) where
  /-- `sig.ndim == 1` -/
  oneD : S → Bool
  cf : Settings → S → Except Err T
  rc : T → KV → Except Err T
  col : T → String → Option (List Rat)

structure Obj (S T : Type) where
  st : Settings
  sig : Option S
  df : Option T

inductive Op (S T : Type) where
  | fit (x : S)
  | edges (r : Option Rat)
  | load (t : T) (x : S)
  | edit (k : String) (v : Rat)
  | rebind (th : KV)
  | editbk (k : String) (v : Rat)
  | attr (key : String)
  | plot

inductive Out where
  | done
  | raised
  | column (vals : List Rat)
  deriving DecidableEq, Repr

def defaultThresholds (cycles : Bool) : KV :=
  if cycles then [("amp_fraction_threshold", 0), ("amp_consistency_threshold", 1/2), ("period_consistency_threshold", 1/2),
                  ("monotonicity_threshold", 4/5), ("min_n_cycles", 3)]
  else [("burst_fraction_threshold", 1), ("min_n_cycles", 3)]

/-- `Bycycle(center_extrema, burst_method, burst_kwargs, thresholds, find_extrema_kwargs, return_samples)`. -/
def construct {S T : Type} (peak cycles : Bool) (bk : Option KV) (th : Option KV) (fek : Option Nat) (rs : Bool) : Obj S T :=
  { st := { peak, cycles, burstKwargs := bk.getD [],
            thresholds := expandShorthand (match th with | none => defaultThresholds cycles | some t => t),
            fek := fek.getD 0, returnSamples := rs },
    sig := none, df := none }

/-- the effect of one operation on the SETTINGS: only the three edit operations touch them. -/
def editSettings {S T : Type} (st : Settings) : Op S T → Settings
  | .edit k v => { st with thresholds := setKey st.thresholds k v }
  | .rebind th => { st with thresholds := th }
  | .editbk k v => { st with burstKwargs := setKey st.burstKwargs k v }
  | _ => st

def step {S T : Type} (A : Api S T) (o : Obj S T) : Op S T → Obj S T × Out
  | .fit x =>
    if !A.oneD x then (o, .raised)                       -- raised before anything is assigned
    else match (A.cf o.st x : Except Err T) with
      | .ok t => ({ o with sig := some x, df := some t }, .done)
      | .error _ => ({ o with sig := some x }, .raised)   -- sig / fs / f_range are assigned first
  | .edges r =>
    match o.df with
    | none => (o, .raised)
    | some t =>
      match (A.rc t (reduceThresholds o.st.thresholds r) : Except Err T) with
      | .ok t' => ({ o with df := some t' }, .done)
      | .error _ => (o, .raised)
  | .load t x => ({ o with sig := some x, df := some t }, .done)
  | .attr key =>
    (o, match o.df with
        | none => .raised
        | some t => match A.col t key with | some v => .column v | none => .raised)
  | .plot => (o, if o.df.isSome && o.sig.isSome then .done else .raised)      -- draws; `ValueError` before a fit; changes nothing
  | op => ({ o with st := editSettings o.st op }, .done)

def run {S T : Type} (A : Api S T) (o : Obj S T) (ops : List (Op S T)) : Obj S T :=
  ops.foldl (fun o op => (step A o op).1) o

/-- a freshly constructed object holding the given settings. -/
def fresh {S T : Type} (st : Settings) : Obj S T := { st, sig := none, df := none }

end Bycycle.Obj
