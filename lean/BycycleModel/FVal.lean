import BycycleModel.Basic
/-!
# A tiny model of the float values that bycycle's ratio features can take

Only what the code needs: finite rationals, NaN and the two infinities produced by `x / 0`.
-/
namespace Bycycle

inductive F where
  | nan | ninf | fin (q : Rat) | pinf
  deriving Repr, DecidableEq, Inhabited

/-- numpy float division `a / b` of two finite values (warnings suppressed). -/
def F.divRat (a b : Rat) : F :=
  if b = 0 then (if a = 0 then .nan else if 0 < a then .pinf else .ninf) else .fin (a / b)

def F.isNan : F → Bool | .nan => true | _ => false

/-- `x < y` on non-NaN values. -/
def F.ltB : F → F → Bool
  | .nan, _ => false
  | _, .nan => false
  | .ninf, .ninf => false
  | .ninf, _ => true
  | .fin _, .ninf => false
  | .fin a, .fin b => decide (a < b)
  | .fin _, .pinf => true
  | .pinf, _ => false

/-- `np.nanmin`: minimum ignoring NaN; NaN when every entry is NaN. -/
def F.nanmin (l : List F) : F :=
  (l.filter (!·.isNan)).foldl (fun acc x => match acc with | .nan => x | a => if x.ltB a then x else a) .nan

/-- `x < 0` (False for NaN). -/
def F.neg? : F → Bool
  | .ninf => true | .fin q => decide (q < 0) | _ => false

def F.toOpt : F → Option Rat | .fin q => some q | _ => none

end Bycycle
