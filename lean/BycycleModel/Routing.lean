import BycycleModel.Generated.SlotsRouting
/-!
# The wiring the model assumes, against the wiring read off the source

The model composes its transcriptions with a fixed data flow (`Pipeline.lean`: the SAME signal, rate, band and option dictionaries go
down the chain; the burst features see the ORIGINAL signal and the RENAMED table; `ObjMachine.lean`: a fit hands every stored setting to
the homonymous parameter of `compute_features`; `Edges.lean`: the cycle before a burst is recomputed against its NEXT neighbour, the cycle
after it against its LAST one; …). `Slots.routes` is the table of argument routes extracted from `/repo` on every run
(`harness/routing.py`): for every call from one bycycle function to another, which canonical source reaches which callee parameter.

`holds Slots.routes r` says: the source contains a call `caller → callee` in which every parameter listed in `r` receives the listed source
(or an expression the extractor cannot canonicalise, `"?"`, which is reported and contradicts nothing; a parameter that is not passed by name
in a call that spreads a dictionary, `f(a, **d)`, may travel inside the dictionary and is not extractable either; nor is a dictionary the
model expects the caller to build when a private method of the object builds it, `self._settings(...)`, unless that method is a single `return` the extractor inlines). A pair `caller → callee` that no longer
occurs at all is likewise "not extractable" (the function may have been inlined): the statement is about calls that exist.
-/
namespace Bycycle.Routing

abbrev Route := String × String × List (String × String)

def argOk (gen : List (String × String)) (pe : String × String) : Bool :=
  match gen.lookup pe.1 with
  | some g => g == pe.2 || g == "?" ||
      (pe.2.startsWith "{" && g.startsWith "<self.")   -- a dictionary the model expects the caller to build, built by a private method of the object instead: not extractable
  | none => (gen.lookup "**").isSome        -- the call spreads a dictionary (`**d`): the parameter may travel inside it - not extractable

def covers (exp gen : Route) : Bool :=
  gen.1 == exp.1 && gen.2.1 == exp.2.1 && exp.2.2.all (argOk gen.2.2)

def present (table : List Route) (exp : Route) : Bool :=
  table.any fun g => g.1 == exp.1 && g.2.1 == exp.2.1

def holds (table : List Route) (exp : Route) : Bool :=
  !present table exp || table.any (covers exp)

/-- EVERY call `caller → callee` in the source covers the expected route (for callers whose branches - the 2-D and the 3-D one - must agree). -/
def holdsAll (table : List Route) (exp : Route) : Bool :=
  table.all fun g => !(g.1 == exp.1 && g.2.1 == exp.2.1) || covers exp g

/-- `compute_features` and below (C01, C04, C05): one signal, one rate, one band, one centring and the caller's option dictionaries go down the
chain; the cyclepoint stage hands `find_extrema`'s peaks and troughs, in this order, to `find_zerox`; the burst features are computed from the
table `compute_shape_features` returned and the signal `compute_features` was given. -/
def pipeline : List Route := [
  ("compute_features", "compute_shape_features", [("sig", "sig"), ("fs", "fs"), ("f_range", "f_range"), ("center_extrema", "center_extrema"),
      ("find_extrema_kwargs", "find_extrema_kwargs")]),
  ("compute_features", "compute_burst_features", [("df_shape_features", "<compute_shape_features>"), ("sig", "sig"), ("burst_method", "burst_method"),
      ("burst_kwargs", "burst_kwargs")]),
  ("compute_features", "detect_bursts_cycles", [("**", "threshold_kwargs")]),
  ("compute_features", "detect_bursts_amp", [("**", "threshold_kwargs")]),
  ("compute_shape_features", "compute_cyclepoints", [("sig", "sig"), ("fs", "fs"), ("f_range", "f_range"), ("**", "find_extrema_kwargs")]),
  ("compute_cyclepoints", "find_extrema", [("sig", "sig"), ("fs", "fs"), ("f_range", "f_range"), ("**", "find_extrema_kwargs")]),
  ("compute_cyclepoints", "find_zerox", [("sig", "sig"), ("peaks", "<find_extrema>.0"), ("troughs", "<find_extrema>.1")])]

/-- `find_extrema` looks for the crossings of the FILTERED signal; `find_zerox` searches a rise from a trough to a peak and a decay from a peak
to a trough, on the raw signal (C02, C03). -/
def cyclepoints : List Route := [
  ("find_extrema", "find_flank_zerox", [("sig", "<filter_signal>"), ("flank", "'rise'")]),
  ("find_extrema", "find_flank_zerox", [("sig", "<filter_signal>"), ("flank", "'decay'")]),
  ("find_zerox", "_find_flank_midpoints", [("sig", "sig"), ("flank", "'rise'"), ("extrema_start", "troughs"), ("extrema_end", "peaks")]),
  ("find_zerox", "_find_flank_midpoints", [("sig", "sig"), ("flank", "'decay'"), ("extrema_start", "peaks"), ("extrema_end", "troughs")])]

/-- the shape stage (C04): every feature function reads the cyclepoint table of THIS call and the signal of this call; the symmetry features
get `compute_durations`' (period, time_peak, time_trough) in this order; the band amplitude gets rate, band and filter length. -/
def shape : List Route := [
  ("compute_shape_features", "compute_durations", [("df_samples", "<compute_cyclepoints>")]),
  ("compute_shape_features", "compute_extrema_voltage", [("df_samples", "<compute_cyclepoints>"), ("sig", "sig")]),
  ("compute_shape_features", "compute_symmetry", [("df_samples", "<compute_cyclepoints>"), ("sig", "sig"), ("period", "<compute_durations>.0"),
      ("time_peak", "<compute_durations>.1"), ("time_trough", "<compute_durations>.2")]),
  ("compute_shape_features", "compute_band_amp", [("df_samples", "<compute_cyclepoints>"), ("sig", "sig"), ("fs", "fs"), ("f_range", "f_range"),
      ("n_cycles", "n_cycles")]),
  ("compute_shape_features", "rename_extrema_df", [("center_extrema", "center_extrema")])]

/-- the burst-feature stage (C05, C07): all features from the one table it was given; monotonicity and the amplitude detector also get the signal,
the detector the caller's burst options. -/
def burstFeatures : List Route := [
  ("compute_burst_features", "compute_amp_fraction", [("df_shape_features", "df_shape_features")]),
  ("compute_burst_features", "compute_amp_consistency", [("df_shape_features", "df_shape_features")]),
  ("compute_burst_features", "compute_period_consistency", [("df_shape_features", "df_shape_features")]),
  ("compute_burst_features", "compute_monotonicity", [("df_samples", "df_shape_features"), ("sig", "sig")]),
  ("compute_burst_features", "compute_burst_fraction", [("df_samples", "df_shape_features"), ("sig", "sig"), ("**", "burst_kwargs")]),
  ("detect_bursts_cycles", "check_min_burst_cycles", [("min_n_cycles", "min_n_cycles")]),
  ("detect_bursts_amp", "check_min_burst_cycles", [("min_n_cycles", "min_n_cycles")])]

/-- edge recomputation (C16): one call per side, 'next' and 'last'; the one-sided consistencies get the direction they were asked for; the
re-labelling uses the caller's thresholds. -/
def edges : List Route := [
  ("recompute_edges", "recompute_edge", [("direction", "'next'")]),
  ("recompute_edges", "recompute_edge", [("direction", "'last'")]),
  ("recompute_edges", "detect_bursts_cycles", [("**", "threshold_kwargs")]),
  ("recompute_edge", "compute_amp_consistency", [("direction", "direction")]),
  ("recompute_edge", "compute_period_consistency", [("direction", "direction")])]

/-- group analysis (C11, C12, C13): rate, band and the sample switch reach every per-signal analysis; the flattened analysis keeps its samples
(the epochs are cut by sample index); the 3-D analysis delegates to the 2-D one with axis 0 (all signals) or None (per slice). -/
def group : List Route := [
  ("compute_features_2d", "check_kwargs_shape", [("sigs", "sigs"), ("axis", "axis")]),
  ("compute_features_2d", "_proxy_2d", [("fs", "fs"), ("f_range", "f_range"), ("return_samples", "return_samples")]),
  ("compute_features_2d", "compute_features", [("fs", "fs"), ("f_range", "f_range"), ("return_samples", "return_samples")]),
  ("compute_features_2d", "compute_features", [("sig", "<sigs.flatten>"), ("fs", "fs"), ("f_range", "f_range"), ("return_samples", "True")]),
  ("compute_features_2d", "epoch_df", [("df_features", "<compute_features>")]),
  ("_proxy_2d", "compute_features", [("fs", "fs"), ("f_range", "f_range"), ("return_samples", "return_samples")]),
  ("compute_features_3d", "check_kwargs_shape", [("sigs", "sigs"), ("axis", "axis")]),
  ("compute_features_3d", "compute_features_2d", [("sigs", "<sigs.reshape>"), ("fs", "fs"), ("f_range", "f_range"), ("return_samples", "return_samples"),
      ("n_jobs", "n_jobs"), ("progress", "progress"), ("axis", "0")]),
  ("compute_features_3d", "_proxy_3d", [("fs", "fs"), ("f_range", "f_range"), ("return_samples", "return_samples")]),
  ("_proxy_3d", "compute_features_2d", [("fs", "fs"), ("f_range", "f_range"), ("axis", "None"), ("return_samples", "return_samples")])]

/-- the object (C14): a fit hands the call's signal, rate and band (which it also stores: an attribute the method assigns once is canonicalised to the
value assigned) and every stored setting to the homonymous parameter of `compute_features` (the thresholds to `threshold_kwargs`);
`plot` hands the stored table, signal, rate and thresholds to the summary plot. -/
def object : List Route := [
  ("Bycycle.fit", "compute_features", [("sig", "sig"), ("fs", "fs"), ("f_range", "f_range"), ("center_extrema", "self.center_extrema"),
      ("burst_method", "self.burst_method"), ("burst_kwargs", "self.burst_kwargs"), ("threshold_kwargs", "self.thresholds"),
      ("find_extrema_kwargs", "self.find_extrema_kwargs"), ("return_samples", "self.return_samples")]),
  ("Bycycle.plot", "plot_burst_detect_summary", [("df_features", "self.df_features"), ("sig", "self.sig"), ("fs", "self.fs"),
      ("threshold_kwargs", "self.thresholds"), ("xlim", "xlim"), ("plot_only_result", "plot_only_results"), ("interp", "interp")]),
  -- `recompute_edges(r)`: the stored table is recomputed with the thresholds `reduce_thresholds(r)` returns (ObjMachine.lean, `edges`)
  ("Bycycle.recompute_edges", "BycycleBase.reduce_thresholds", [("reduction", "reduction")]),
  ("Bycycle.recompute_edges", "recompute_edges", [("df_features", "self.df_features"), ("threshold_kwargs", "<self.reduce_thresholds>")])]

/-- the option dictionary a group fit builds from its stored settings. -/
def groupKwargs : String :=
  "{burst_kwargs: self.burst_kwargs, burst_method: self.burst_method, center_extrema: self.center_extrema, " ++
  "find_extrema_kwargs: self.find_extrema_kwargs, threshold_kwargs: self.thresholds}"

/-- the group object (C11, C12, C14; GroupMachine.lean): a fit hands the call's array, rate, band, axis and number of jobs, the stored sample switch and ONE option
dictionary built from the stored settings to the 2-D / 3-D analysis; every per-signal model is constructed with the group's settings and loaded with the
group's rate and band; an edge recomputation hands its reduction to every model - in the 2-D AND the 3-D branch (`holdsAll`). -/
def groupObject : List Route := [
  ("BycycleGroup.fit", "compute_features_2d", [("sigs", "sigs"), ("fs", "fs"), ("f_range", "f_range"), ("compute_features_kwargs", groupKwargs),
      ("axis", "axis"), ("return_samples", "self.return_samples"), ("n_jobs", "n_jobs"), ("progress", "progress")]),
  ("BycycleGroup.fit", "compute_features_3d", [("sigs", "sigs"), ("fs", "fs"), ("f_range", "f_range"), ("compute_features_kwargs", groupKwargs),
      ("axis", "axis"), ("return_samples", "self.return_samples"), ("n_jobs", "n_jobs"), ("progress", "progress")]),
  ("BycycleGroup.fit", "Bycycle", [("center_extrema", "self.center_extrema"), ("burst_method", "self.burst_method"), ("burst_kwargs", "self.burst_kwargs"),
      ("thresholds", "self.thresholds"), ("find_extrema_kwargs", "self.find_extrema_kwargs"), ("return_samples", "self.return_samples")]),
  ("BycycleGroup.fit", "Bycycle.load", [("fs", "fs"), ("f_range", "f_range")]),
  ("BycycleGroup.recompute_edges", "Bycycle.recompute_edges", [("reduction", "reduction")])]

/-- the plots (C20): table and signal are limited to the SAME window (`xlim[0]`, `xlim[1]`), the summary keeps the original sample indices
(`reset_indices=False`, the offset is applied by the caller) and hands the normalised signal, the rate and the window to its panels. -/
def plots : List Route := [
  ("plot_burst_detect_summary", "limit_signal", [("sig", "<zscore>"), ("start", "xlim[0]"), ("stop", "xlim[1]")]),
  ("plot_burst_detect_summary", "limit_df", [("df", "df_features"), ("fs", "fs"), ("start", "xlim[0]"), ("stop", "xlim[1]"), ("reset_indices", "False")]),
  ("plot_burst_detect_summary", "plot_cyclepoints_df", [("df_samples", "df_features"), ("sig", "<zscore>"), ("fs", "fs"), ("xlim", "xlim"),
      ("plot_zerox", "False"), ("plot_sig", "False")]),
  ("plot_burst_detect_summary", "plot_burst_detect_param", [("df_features", "df_features"), ("sig", "<zscore>"), ("fs", "fs"), ("xlim", "xlim"),
      ("interp", "interp")]),
  ("plot_burst_detect_param", "limit_df", [("df", "df_features"), ("fs", "fs"), ("start", "xlim[0]"), ("stop", "xlim[1]")]),
  ("plot_burst_detect_param", "limit_signal", [("sig", "sig"), ("start", "xlim[0]"), ("stop", "xlim[1]")]),
  ("plot_cyclepoints_df", "plot_cyclepoints_array", [("sig", "sig"), ("fs", "fs"), ("plot_sig", "plot_sig"), ("xlim", "xlim"), ("ax", "ax")]),
  ("plot_cyclepoints_array", "limit_signal", [("sig", "sig"), ("start", "xlim[0]"), ("stop", "xlim[1]")])]

end Bycycle.Routing
