import BycycleModel.BurstFeatures
import BycycleModel.Detect
/-!
# Definitions used by C09 (mirror) and C10 (unit covariance)
-/
namespace Bycycle

/-- multiply every sample by `a`. -/
def scaleSig (a : Rat) (x : List Rat) : List Rat := x.map (a * ·)
/-- negate every sample. -/
def negSig (x : List Rat) : List Rat := x.map (- ·)

def F.scale (a : Rat) : F → F
  | .fin q => .fin (a * q)
  | v => v

/-- multiply every voltage feature and band_amp by `a`, leave durations and symmetries alone. -/
def ShapeRow.scaleVolts (a : Rat) (s : ShapeRow) : ShapeRow :=
  { s with voltPeak := a * s.voltPeak, voltTrough := a * s.voltTrough, voltDecay := a * s.voltDecay, voltRise := a * s.voltRise,
           voltAmp := a * s.voltAmp, bandAmp := s.bandAmp.scale a }

end Bycycle
