import BycycleModel.ShapeTypes
/-!
# Column-arithmetic expressions of the shape features (target of the translator in harness/slots.py)
-/
namespace Bycycle

inductive SExpr where
  | col (name : String)          -- `df_samples['name']`
  | sigAt (e : SExpr)            -- `sig[e]`
  | const (q : Rat)
  | add (a b : SExpr)
  | sub (a b : SExpr)
  | mul (a b : SExpr)
  | div (a b : SExpr)
  | bandAmp                      -- `compute_band_amp(...)`, modelled separately
  deriving Repr, DecidableEq, Inhabited

end Bycycle
