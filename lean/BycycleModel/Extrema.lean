import BycycleModel.Zerox
/-!
# `find_extrema` (bycycle/cyclepoints/extrema.py)

The narrow-band filter is a parameter: the model receives the pad length `ceil(filt_len/2)`
(0 when `pad=False`) and the sign pattern `b[i] = (sig_filt[i] > 0)` of the filtered PADDED signal.
All of bycycle's own logic on top of it is transcribed: crossing lists with their `len/2` dummy,
peak/trough counts, the advancing scans, first arg-extrema of the RAW padded signal, un-padding,
boundary filter and `first_extrema` trimming, with the exceptions numpy raises.
-/
namespace Bycycle

inductive FirstExt where | peak | trough | none | invalid
  deriving Repr, DecidableEq, Inhabited

/-- `find_flank_zerox(sig_filt, 'rise')`: `pos = sig_filt <= 0` i.e. `!b`. -/
def riseXs (b : List Bool) : List Nat :=
  let xs := crossingsAux (b.map (!·)) 0
  if xs.isEmpty then [b.length / 2] else xs

/-- `find_flank_zerox(sig_filt, 'decay')`: `pos = sig_filt > 0` i.e. `b`. -/
def decayXs (b : List Bool) : List Nat :=
  let xs := crossingsAux b 0
  if xs.isEmpty then [b.length / 2] else xs

/-- the advancing scan: drop entries until one satisfies `x cmp v`; unchanged if none does. -/
def scanNext (cmp : Cmp) (xs : List Nat) (v : Nat) : List Nat :=
  match xs.dropWhile (fun (x : Nat) => !(cmp.evalInt (Int.ofNat x) (Int.ofNat v))) with
  | [] => xs
  | ys => ys

/-- one extremum loop: for each start crossing, the window runs to the next crossing of the other
kind; `pick` is first-argmax (peaks) or first-argmin (troughs) on the raw signal window. -/
def extremaLoop (sig : List Rat) (pick : List Rat → Option Nat) (cmp : Cmp)
    (starts : List Nat) (n : Nat) (others : List Nat) : Except Err (List Nat) :=
  let rec go (k : Nat) (i : Nat) (others : List Nat) (acc : List Nat) : Except Err (List Nat) :=
    match k with
    | 0 => .ok acc.reverse
    | k + 1 =>
      match starts[i]? with
      | none => .error .indexError
      | some s =>
        let others := scanNext cmp others s
        match others.head? with
        | none => .error .indexError
        | some e =>
          match pick (slice sig s e) with
          | none => .error .valueError          -- argmax of an empty sequence
          | some j => go k (i + 1) others ((j + s) :: acc)
  go n 0 others []

/-- raw (still padded) peaks and troughs. `sig` is the padded raw signal, `b` the sign pattern. -/
def rawExtrema (sig : List Rat) (b : List Bool) : Except Err (List Nat × List Nat) := do
  let rx := riseXs b
  let dx := decayXs b
  let lastR := rx.getLastD 0
  let lastD := dx.getLastD 0
  let riseLast := Slots.lastCrossingCmp.evalInt (lastR : Int) (lastD : Int)
  let nPeaks := if riseLast then rx.length - 1 else rx.length
  let nTroughs := if riseLast then dx.length else dx.length - 1
  let peaks ← extremaLoop sig argmaxFirst Slots.scanDecayCmp rx nPeaks dx
  let troughs ← extremaLoop sig argminFirst Slots.scanRiseCmp dx nTroughs rx
  .ok (peaks, troughs)

/-- un-pad and apply the boundary filter (`x > boundary ∧ x < sig_len - boundary`). -/
def unpadFilter (lo hi : Cmp) (xs : List Nat) (pad : Nat) (sigLen : Nat) (boundary : Int) : List Int :=
  (xs.map fun (x : Nat) => Int.ofNat x - Int.ofNat pad).filter fun x => lo.evalInt x boundary && hi.evalInt x ((sigLen : Int) - boundary)

def headE (l : List Int) : Except Err Int := match l.head? with | some v => .ok v | none => .error .indexError
def lastE (l : List Int) : Except Err Int := match l.getLast? with | some v => .ok v | none => .error .indexError

/-- the `first_extrema` trimming. -/
def trimFirst (fe : FirstExt) (peaks troughs : List Int) : Except Err (List Int × List Int) :=
  match fe with
  | .peak => do
    let p0 ← headE peaks; let t0 ← headE troughs
    let troughs := if Slots.trimFirstCmp.evalInt p0 t0 then troughs.drop 1 else troughs
    let pl ← lastE peaks; let tl ← lastE troughs
    let peaks := if Slots.trimLastCmp.evalInt pl tl then peaks.dropLast else peaks
    .ok (peaks, troughs)
  | .trough => do
    let t0 ← headE troughs; let p0 ← headE peaks
    let peaks := if Slots.trimFirstCmpTrough.evalInt t0 p0 then peaks.drop 1 else peaks
    let tl ← lastE troughs; let pl ← lastE peaks
    let troughs := if Slots.trimLastCmpTrough.evalInt tl pl then troughs.dropLast else troughs
    .ok (peaks, troughs)
  | .none => .ok (peaks, troughs)
  | .invalid => .error .valueError

/-- `find_extrema` after the filter: `sig` raw UNPADDED signal, `pad = ceil(filt_len/2)` (0 without
padding), `b` sign pattern of the filtered padded signal (length `sig.length + 2*pad`). -/
def findExtrema (sig : List Rat) (pad : Nat) (b : List Bool) (boundary : Int) (fe : FirstExt) :
    Except Err (List Int × List Int) := do
  let padded := List.replicate pad (0 : Rat) ++ sig ++ List.replicate pad 0
  let (pk, tr) ← rawExtrema padded b
  let peaks := unpadFilter Slots.boundaryLoCmp Slots.boundaryHiCmp pk pad sig.length boundary
  let troughs := unpadFilter Slots.boundaryLoCmpTroughs Slots.boundaryHiCmpTroughs tr pad sig.length boundary
  trimFirst fe peaks troughs

/-! ## Specification (C02) -/

/-- true rising crossings, in increasing order: the samples `i` with `¬b[i] ∧ b[i+1]`
(see `C02_crossing_char`; defined by one linear scan so that it can be executed on long signals). -/
def risingX (b : List Bool) : List Nat := crossingsAux (b.map (!·)) 0
/-- true decaying crossings: `b[i] ∧ ¬b[i+1]`. -/
def decayingX (b : List Bool) : List Nat := crossingsAux b 0

/-- positive half-waves closed on both sides: a rising crossing `r` together with the first decaying
crossing `d > r`. By `closedPos_char` these are exactly the pairs with `¬b[r]`, `b[j]` for `r<j≤d`, `¬b[d+1]`. -/
def closedPos (b : List Bool) : List (Nat × Nat) :=
  (risingX b).filterMap fun r => ((decayingX b).find? (fun d => decide (r < d))).map fun d => (r, d)
def closedNeg (b : List Bool) : List (Nat × Nat) :=
  (decayingX b).filterMap fun d => ((risingX b).find? (fun r => decide (d < r))).map fun r => (d, r)

/-- one peak per closed positive half-wave, at the FIRST maximum of the raw signal over the window `[r, d)`. -/
def peaksSpec (sig : List Rat) (b : List Bool) : List Nat :=
  (closedPos b).filterMap fun (r, d) => (argmaxFirst (slice sig r d)).map (· + r)
def troughsSpec (sig : List Rat) (b : List Bool) : List Nat :=
  (closedNeg b).filterMap fun (d, r) => (argminFirst (slice sig d r)).map (· + d)

/-- specification of the boundary rule. -/
def boundarySpec (xs : List Nat) (pad sigLen : Nat) (boundary : Int) : List Int :=
  (xs.map fun (x : Nat) => Int.ofNat x - Int.ofNat pad).filter fun x => decide (boundary < x) && decide (x < (sigLen : Int) - boundary)

/-- `altFrom k lo P T`: peaks `P` and troughs `T` merge into one strictly increasing sequence (above the
optional bound `lo`) whose kinds alternate, beginning with a peak iff `k`. -/
def altFrom : Bool → Option Int → List Int → List Int → Bool
  | _, _, [], [] => true
  | true, lo, p :: ps, ts =>
    (match lo with | some l => decide (l < p) | none => true) && altFrom false (some p) ps ts
  | false, lo, ps, t :: ts =>
    (match lo with | some l => decide (l < t) | none => true) && altFrom true (some t) ps ts
  | _, _, _, _ => false
termination_by _ _ ps ts => ps.length + ts.length

/-- peaks and troughs strictly alternate in time. -/
def StrictAlt (P T : List Int) : Prop := altFrom true none P T = true ∨ altFrom false none P T = true

instance (P T : List Int) : Decidable (StrictAlt P T) := by unfold StrictAlt; infer_instance

/-- specification of the `first_extrema` rule on a strictly alternating pair of lists: keep everything
from the first extremum of the requested kind through the last extremum of the other kind. -/
def trimSpec (fe : FirstExt) (P T : List Int) : Except Err (List Int × List Int) :=
  match fe with
  | .none => .ok (P, T)
  | .invalid => .error .valueError
  | .peak =>
    match P.head?, T.head? with
    | some p0, some _ =>
      let T' := T.filter fun t => decide (p0 < t)
      match T'.getLast? with
      | none => .error .indexError
      | some tl => .ok (P.filter fun p => decide (p < tl), T')
    | _, _ => .error .indexError
  | .trough =>
    match P.head?, T.head? with
    | some _, some t0 =>
      let P' := P.filter fun p => decide (t0 < p)
      match P'.getLast? with
      | none => .error .indexError
      | some pl => .ok (P', T.filter fun t => decide (t < pl))
    | _, _ => .error .indexError

/-- the statement of C02 as a function (meaningful when the filtered signal has both kinds of crossing). -/
def findExtremaSpec (sig : List Rat) (pad : Nat) (b : List Bool) (boundary : Int) (fe : FirstExt) :
    Except Err (List Int × List Int) :=
  let padded := List.replicate pad (0 : Rat) ++ sig ++ List.replicate pad 0
  trimSpec fe (boundarySpec (peaksSpec padded b) pad sig.length boundary)
              (boundarySpec (troughsSpec padded b) pad sig.length boundary)

end Bycycle
