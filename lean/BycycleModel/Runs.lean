import BycycleModel.Basic
/-!
# `check_min_burst_cycles` (bycycle/burst/utils.py:34-57)

```
diff = np.diff(is_burst, prepend=0, append=0)
transitions = np.flatnonzero(diff)
ons, offs = transitions[0::2], transitions[1::2]
durations = offs - ons
too_short = durations < min_n_cycles
for on, off in zip(ons[too_short], offs[too_short]): is_burst[on:off] = False
```
-/
namespace Bycycle

/-- positions `i ∈ [start, start+n]` where the zero-padded mask changes value. -/
def transAux : Bool → Nat → List Bool → List Nat
  | prev, i, [] => if prev then [i] else []
  | prev, i, b :: bs =>
    if prev != b then i :: transAux b (i+1) bs else transAux b (i+1) bs

/-- `np.flatnonzero(np.diff(m, prepend=0, append=0))`. -/
def transitions (m : List Bool) : List Nat := transAux false 0 m

/-- `(t[0::2], t[1::2])` zipped: consecutive (on, off) pairs. -/
def onOffPairs : List Nat → List (Nat × Nat)
  | on :: off :: rest => (on, off) :: onOffPairs rest
  | _ => []

/-- `m[on:off] = False`. -/
def clearRange (m : List Bool) (on off : Nat) : List Bool :=
  m.mapIdx fun i b => if on ≤ i ∧ i < off then false else b

/-- the transcribed body (after the guards): clear every run whose duration is `< k`. -/
def minRun (m : List Bool) (k : Rat) : List Bool :=
  let short := (onOffPairs (transitions m)).filter fun p => decide (((p.2 - p.1 : Nat) : Rat) < k)
  short.foldl (fun acc p => clearRange acc p.1 p.2) m

/-- the guarded function: empty input is returned before the range check;
`min_n_cycles < 0` raises ValueError. -/
def checkMinBurstCycles (m : List Bool) (k : Rat) : Except Err (List Bool) :=
  if m.isEmpty then .ok m
  else if k < 0 then .error .valueError
  else .ok (minRun m k)

/-! ## Declarative specification -/

/-- number of consecutive `true` at the head. -/
def leadTrue : List Bool → Nat
  | true :: bs => leadTrue bs + 1
  | _ => 0

/-- length of the maximal run of `true` through position `i` (0 when `m[i]` is false or
`i` is out of range). -/
def runLenAt (m : List Bool) (i : Nat) : Nat :=
  if m.getD i false then leadTrue ((m.take i).reverse) + leadTrue (m.drop i) else 0

/-- the property's statement, pointwise: a sample stays `true` iff it was `true` and its
maximal run has length `≥ k`. -/
def minRunSpec (m : List Bool) (k : Rat) : List Bool :=
  m.mapIdx fun i b => b && decide (k ≤ ((runLenAt m i : Nat) : Rat))

/-- pointwise implication on masks of equal length. -/
def maskLe (a b : List Bool) : Prop :=
  a.length = b.length ∧ ∀ i, a.getD i false = true → b.getD i false = true

end Bycycle
