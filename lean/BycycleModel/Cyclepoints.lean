import BycycleModel.Extrema
/-!
# `compute_cyclepoints` (bycycle/features/cyclepoints.py): row assembly by shifted slices
-/
namespace Bycycle

/-- one row of the peak-centred sample table. -/
structure SampleRow where
  peak : Int
  lastZeroxDecay : Int
  zeroxDecay : Int
  zeroxRise : Int
  lastTrough : Int
  nextTrough : Int
  deriving Repr, DecidableEq, Inhabited

/-- apply a slot slice `(dropFront, dropEnd)` to a source array: `a[f:]`, `a[:-e]`, `a`. -/
def applySlice (a : List Int) (f e : Nat) : List Int := (a.drop f).take (a.length - f - e)

/-- column `name` of the table as assembled from the generated `rowSlices`. -/
def sampleColumn (name : String) (peaks troughs rises decays : List Int) : List Int :=
  match Slots.rowSlices.find? (·.1 == name) with
  | some (_, src, f, e) =>
    let a := if src == "peaks" then peaks else if src == "troughs" then troughs
             else if src == "rises" then rises else decays
    applySlice a f e
  | none => []

/-- `pd.DataFrame.from_dict(samples)`: all columns must have the same length (else ValueError). -/
def assembleRows (peaks troughs rises decays : List Int) : Except Err (List SampleRow) :=
  let c := fun n => sampleColumn n peaks troughs rises decays
  let pk := c "sample_peak"; let lzd := c "sample_last_zerox_decay"; let zd := c "sample_zerox_decay"
  let zr := c "sample_zerox_rise"; let lt := c "sample_last_trough"; let nt := c "sample_next_trough"
  let n := pk.length
  if lzd.length = n ∧ zd.length = n ∧ zr.length = n ∧ lt.length = n ∧ nt.length = n then
    .ok ((List.range n).map fun i =>
      ⟨pk.getD i 0, lzd.getD i 0, zd.getD i 0, zr.getD i 0, lt.getD i 0, nt.getD i 0⟩)
  else .error .valueError

def toNatList (l : List Int) : Except Err (List Nat) :=
  l.mapM fun x => if x < 0 then .error .indexError else .ok x.toNat

/-- `compute_cyclepoints(sig, fs, f_range, **find_extrema_kwargs)` after the filter
(`first_extrema='peak'` is the only value the callers can reach). -/
def computeCyclepoints (sig : List Rat) (pad : Nat) (b : List Bool) (boundary : Int) :
    Except Err (List SampleRow) := do
  let (peaks, troughs) ← findExtrema sig pad b boundary .peak
  let pk ← toNatList peaks
  let tr ← toNatList troughs
  let (rises, decays) ← findZerox sig pk tr
  assembleRows peaks troughs (rises.map Int.ofNat) (decays.map Int.ofNat)

/-! ## Well-formedness predicate of C01 (peak-centred naming) -/

/-- one row is ordered, with inclusive midpoints, inside the signal and beyond the boundary. -/
def SampleRow.ordered (r : SampleRow) (n : Nat) (boundary : Int) : Prop :=
  r.lastTrough < r.peak ∧ r.peak < r.nextTrough ∧
  r.lastTrough ≤ r.zeroxRise ∧ r.zeroxRise ≤ r.peak ∧
  r.peak ≤ r.zeroxDecay ∧ r.zeroxDecay ≤ r.nextTrough ∧
  r.lastZeroxDecay ≤ r.lastTrough ∧
  boundary < r.lastTrough ∧ r.nextTrough < (n : Int) - boundary ∧ 0 ≤ r.lastZeroxDecay

instance (r : SampleRow) (n : Nat) (bd : Int) : Decidable (r.ordered n bd) := by
  unfold SampleRow.ordered; infer_instance

/-- consecutive rows share their side extremum (and the decay midpoint in between). -/
def tiles : List SampleRow → Prop
  | a :: b :: rest => a.nextTrough = b.lastTrough ∧ a.zeroxDecay = b.lastZeroxDecay ∧ tiles (b :: rest)
  | _ => True

instance : (l : List SampleRow) → Decidable (tiles l)
  | [] => isTrue trivial
  | [_] => isTrue trivial
  | a :: b :: rest =>
    have := instDecidableTiles (b :: rest)
    by unfold tiles; infer_instance

def wellFormed (rows : List SampleRow) (n : Nat) (boundary : Int) : Prop :=
  (∀ r ∈ rows, r.ordered n boundary) ∧ tiles rows

instance (rows : List SampleRow) (n : Nat) (bd : Int) : Decidable (wellFormed rows n bd) := by
  unfold wellFormed; infer_instance

end Bycycle
