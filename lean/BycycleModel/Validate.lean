import BycycleModel.GroupTypes
import BycycleModel.Generated.SlotsKwargsShape
import BycycleModel.Detect
import BycycleModel.Extrema
/-!
# Argument validation: `check_kwargs_shape` (group/utils.py) and the entry-point guards

The decision chain of `check_kwargs_shape` is TRANSLATED from /repo on every run
(`Generated/SlotsKwargsShape.lean`).
-/
namespace Bycycle

/-- `check_kwargs_shape(sigs, compute_features_kwargs, axis)`; `dictOrNone` = the options are a dict or None. -/
def checkKwargsShape (dictOrNone : Bool) (k : KwShape) : Except Err Unit :=
  if dictOrNone then .ok ()
  else if k.kwNdim == 3 then .error .valueError
  else if Slots.checkKwargsChain k then .ok () else .error .valueError

/-- the axis test the group functions perform themselves after the shape check
(`compute_features_2d`: axis ∈ {0, None}; `compute_features_3d`: axis ∈ {0, 1, (0, 1)}). -/
def axisValid (k : KwShape) : Bool :=
  match k.sigsDim1 with
  | none => k.axis == .a0 || k.axis == .none
  | some _ => k.axis == .a0 || k.axis == .a1 || k.axis == .a01

/-- acceptance by `compute_features_2d` / `compute_features_3d` as far as shapes and axis are concerned. -/
def groupGuard (dictOrNone : Bool) (k : KwShape) : Except Err Unit := do
  checkKwargsShape dictOrNone k
  if axisValid k then .ok () else .error .valueError

/-- the documented valid combinations of array shape, axis and option-list shape. -/
def Documented (k : KwShape) : Prop :=
  match k.sigsDim1 with
  | none => (k.axis = .a0 ∨ k.axis = .none) ∧ k.kwNdim = 1 ∧ k.kwDim0 = k.sigsDim0
  | some d1 =>
    (k.axis = .a0 ∧ k.kwNdim = 1 ∧ k.kwDim0 = k.sigsDim0) ∨
    (k.axis = .a1 ∧ k.kwNdim = 1 ∧ k.kwDim0 = d1) ∨
    (k.axis = .a01 ∧ k.kwNdim = 2 ∧ k.kwDim0 = k.sigsDim0 ∧ k.kwDim1 = some d1)

instance (k : KwShape) : Decidable (Documented k) := by
  unfold Documented; cases k.sigsDim1 <;> infer_instance

/-- well-formed description of an ndarray option list: 1-, 2- or 3-D; `kwDim1` present iff 2-D. -/
def KwShape.wf (k : KwShape) : Prop :=
  (k.kwNdim = 1 ∨ k.kwNdim = 2 ∨ k.kwNdim = 3) ∧ (k.kwDim1.isSome = true ↔ k.kwNdim = 2)

/-- `check_param_options(x, label, options)`. -/
def checkParamOptions (x : String) (opts : List String) : Except Err Unit :=
  if opts.contains x then .ok () else .error .valueError

/-- fs guard of every entry point: `check_param_range(fs, 'fs', (0, np.inf))`. -/
def fsGuard (fs : Rat) : Except Err Unit := if fs < 0 then .error .valueError else .ok ()

end Bycycle
