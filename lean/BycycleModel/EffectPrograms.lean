import BycycleModel.Effects
import BycycleModel.Generated.SlotsEffects
/-!
# Effect abstractions of bycycle's public functions (C15, C14)

Hand-written from the source (validated dynamically by the snapshot runs of `./check C15`); the GUARDS —
presence of the defensive copies and of the statements that rebind a name to a fresh object before it is
written — are regenerated from /repo on every run (`Generated/SlotsEffects.lean`).
Parameter order is the one given in `params`; only object-valued parameters are listed
(signals, option dictionaries, tables).
-/
namespace Bycycle.Eff
open Bycycle.Slots

/-- callee summaries: the parameter positions a function may write. Everything not listed writes nothing. -/
def summaries : Summ := [
  ("detect_bursts_cycles", [0]),       -- adds / overwrites the is_burst column of the table it is given (documented)
  ("detect_bursts_amp", [0]),
  ("recompute_edge", [0]),             -- writes two cells of the table it is given
  ("rename_extrema_df", [0]),          -- renames in place
  ("check_min_burst_cycles", [0]),     -- clears runs in the array it is given
  ("flatten_dfs", [0]),                -- adds a label column to every table (not in the purity list)
  ("split_samples_df", [0])]           -- pops the sample columns (not in the purity list)

def findExtrema : Fn := ⟨"find_extrema", ["sig", "filter_kwargs"], [
  .ite [.fresh "filter_kwargs"] [],            -- `if filter_kwargs is None: filter_kwargs = {}`
  .ite [.fresh "sig"] [],                       -- `sig = np.pad(...)`
  .fresh "sig_filt", .fresh "rise_xs", .fresh "decay_xs",
  .fresh "peaks", .fresh "_decay_xs", .write "peaks",      -- `peaks[p_idx] = …` on the fresh array
  .fresh "troughs", .fresh "_rise_xs", .write "troughs",
  .fresh "peaks", .fresh "troughs"]⟩

def findZerox : Fn := ⟨"find_zerox", ["sig", "peaks", "troughs"], [
  .fresh "rises", .write "rises", .fresh "decays", .write "decays"]⟩

def computeCyclepointsFn : Fn := ⟨"compute_cyclepoints", ["sig", "find_extrema_kwargs"], [
  .call "find_extrema" ["sig", "find_extrema_kwargs"], .fresh "peaks", .fresh "troughs",
  .call "find_zerox" ["sig", "peaks", "troughs"], .fresh "samples", .write "samples", .fresh "df_samples"]⟩

def computeShapeFeatures : Fn := ⟨"compute_shape_features", ["sig", "find_extrema_kwargs"], [
  .ite [.fresh "find_extrema_kwargs"] [],
  .ite [] (if guard_negFresh then [.fresh "sig"] else [.write "sig"]),      -- `sig = -sig`
  .call "compute_cyclepoints" ["sig", "find_extrema_kwargs"], .fresh "df_samples",
  .fresh "shape_features", .write "shape_features", .fresh "df_shape_features",
  .call "rename_extrema_df" ["df_shape_features"]]⟩

def computeBurstFeatures : Fn := ⟨"compute_burst_features", ["df_shape_features", "sig", "burst_kwargs"], [
  .fresh "df_burst_features",
  .ite [.write "df_burst_features"]
       [.copyIf guard_bfCopy "burst_kwargs" "burst_kwargs", .write "burst_kwargs", .write "burst_kwargs",    -- two pops
        .call "compute_burst_fraction" ["df_shape_features", "sig", "burst_kwargs"], .write "df_burst_features"]]⟩

def computeFeatures : Fn := ⟨"compute_features", ["sig", "burst_kwargs", "threshold_kwargs", "find_extrema_kwargs"], [
  .call "compute_shape_features" ["sig", "find_extrema_kwargs"], .fresh "df_shape_features",
  .copyIf guard_cfCopyBk "burst_kwargs" "burst_kwargs",
  .copyIf guard_cfCopyTh "threshold_kwargs" "threshold_kwargs",
  .ite [.fresh "burst_kwargs"] [], .ite [.fresh "threshold_kwargs"] [],
  .ite [.write "burst_kwargs", .write "burst_kwargs"] [],                   -- `burst_kwargs['fs'] = fs`, `['f_range']`
  .ite [.write "burst_kwargs"] (.ite [.write "threshold_kwargs"] [] :: []), -- min_n_cycles reconciliation
  .call "compute_burst_features" ["df_shape_features", "sig", "burst_kwargs"], .fresh "df_burst_features",
  .fresh "df_features",                                                      -- pd.concat
  .ite [.call "detect_bursts_cycles" ["df_features"]] [.call "detect_bursts_amp" ["df_features"]],
  .ite [.fresh "df_features"] []]⟩

def recomputeEdgesFn : Fn := ⟨"recompute_edges", ["df_features", "threshold_kwargs"], [
  .copyIf guard_edgesCopy "df_features_edges" "df_features",
  .fresh "is_burst", .fresh "burst_edges",
  .call "recompute_edge" ["df_features_edges"], .call "recompute_edge" ["df_features_edges"],
  .call "detect_bursts_cycles" ["df_features_edges"]]⟩

def limitDfFn : Fn := ⟨"limit_df", ["df"], [
  (if guard_limitFresh then .fresh "df" else .alias "df" "df"),                -- `df = df[mask]`
  .ite [.fresh "df"] [],
  .ite [.write "df", .write "df", .write "df", .write "df", .write "df", .write "df"] []]⟩

def epochDfFn : Fn := ⟨"epoch_df", ["df_features"], [
  .fresh "dfs_features",
  (if guard_epochFresh then .fresh "df_single" else .alias "df_single" "df_features"),
  .write "df_single", .write "df_single", .write "dfs_features"]⟩

def dropSamplesFn : Fn := ⟨"drop_samples_df", ["df_features"], [.fresh "sample_columns", .fresh "df_features"]⟩

def computeFeatures2d : Fn := ⟨"compute_features_2d", ["sigs", "compute_features_kwargs"], [
  .copyIf guard_deepcopy2d "kwargs" "compute_features_kwargs",
  .ite [.fresh "kwargs"] [],                                -- np.array(list) / {} / [kwargs]
  .write "kwargs",                                           -- `kwarg.pop('return_samples')` on the elements
  .ite [.call "compute_features" ["sigs", "kwargs", "kwargs", "kwargs"], .fresh "dfs_features"]
       [.fresh "sig_flat", .write "kwargs",                  -- `kwargs[0].pop('center_extrema')`
        .call "compute_features" ["sig_flat", "kwargs", "kwargs", "kwargs"], .fresh "df_flat",
        .call "epoch_df" ["df_flat"], .fresh "dfs_features",
        .ite [.call "detect_bursts_cycles" ["dfs_features"], .call "detect_bursts_amp" ["dfs_features"]] []]]⟩

def computeFeatures3d : Fn := ⟨"compute_features_3d", ["sigs", "compute_features_kwargs"], [
  .copyIf guard_deepcopy3d "kwargs" "compute_features_kwargs",
  .ite [.fresh "kwargs"] [],
  .ite [.alias "sigs" "sigs", .call "compute_features_2d" ["sigs", "kwargs"], .fresh "dfs_features"]
       [.alias "sigs_2d" "sigs", .call "compute_features_2d" ["sigs_2d", "kwargs"], .fresh "df_2d", .fresh "dfs_features", .write "dfs_features"]]⟩

def plotCyclepointsDf : Fn := ⟨"plot_cyclepoints_df", ["df_samples", "sig"], [
  .alias "peaks" "df_samples", .fresh "troughs", .alias "rises" "df_samples", .alias "decays" "df_samples",   -- `.values` are views
  .call "plot_cyclepoints_array" ["sig", "peaks", "troughs", "rises", "decays"]]⟩

def plotBurstDetectParam : Fn := ⟨"plot_burst_detect_param", ["df_features", "sig"], [
  .fresh "times", .ite [.call "limit_df" ["df_features"], .fresh "df_features", .fresh "sig", .fresh "df_features"] [],
  .fresh "side_times", .fresh "side_param"]⟩

def plotBurstDetectSummary : Fn := ⟨"plot_burst_detect_summary", ["df_features", "sig", "threshold_kwargs"], [
  .fresh "sig_full", .fresh "times_full",
  .ite [.fresh "sig", .call "limit_df" ["df_features"], .fresh "df_features"] [.alias "sig" "sig_full"],
  .copyIf guard_plotCopy "thresholds" "threshold_kwargs", .ite [.write "thresholds"] [],
  .fresh "is_osc", .fresh "df_osc", .write "is_osc",
  .call "plot_cyclepoints_df" ["df_features", "sig_full"],
  .call "plot_burst_detect_param" ["df_features", "sig_full"]]⟩

/-- `Bycycle.fit`: hands the object's own option dictionaries to `compute_features` BY REFERENCE. -/
def bycycleFit : Fn := ⟨"Bycycle.fit", ["sig", "self.burst_kwargs", "self.thresholds", "self.find_extrema_kwargs"], [
  .call "compute_features" ["sig", "self.burst_kwargs", "self.thresholds", "self.find_extrema_kwargs"], .fresh "self.df_features"]⟩

/-- `Bycycle.recompute_edges`: `reduce_thresholds` builds a NEW dict; the table attribute is rebound. -/
def bycycleRecomputeEdges : Fn := ⟨"Bycycle.recompute_edges", ["self.df_features", "self.thresholds"], [
  .fresh "reduced_thresholds", .write "reduced_thresholds",
  .call "recompute_edges" ["self.df_features", "reduced_thresholds"], .fresh "self.df_features"]⟩

/-- the functions C15 lists (plus the two object methods of C14). -/
def pureFns : List Fn := [findExtrema, findZerox, computeCyclepointsFn, computeShapeFeatures, computeBurstFeatures, computeFeatures,
  recomputeEdgesFn, limitDfFn, epochDfFn, dropSamplesFn, computeFeatures2d, computeFeatures3d,
  plotCyclepointsDf, plotBurstDetectParam, plotBurstDetectSummary, bycycleFit, bycycleRecomputeEdges]

end Bycycle.Eff
