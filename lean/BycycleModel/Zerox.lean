import BycycleModel.Basic
import BycycleModel.Generated.SlotsCyclepoints
/-!
# `find_zerox`, `find_flank_zerox`, `_find_flank_midpoints` (bycycle/cyclepoints/zerox.py)

Comparators of the crossing predicate and of the inverted-flank test come from
`Generated/SlotsCyclepoints.lean`.
-/
namespace Bycycle

inductive Flank where | rise | decay
  deriving Repr, DecidableEq, Inhabited

/-- `pos = sig <= midpoint if flank == 'rise' else sig > midpoint`. -/
def flankPos (f : Flank) (mid x : Rat) : Bool :=
  match f with
  | .rise => Slots.risePosCmp.evalRat x mid
  | .decay => Slots.decayPosCmp.evalRat x mid

/-- indices `i` with `pos[i] ∧ ¬pos[i+1]` (`(pos[:-1] & ~pos[1:]).nonzero()[0]`), offset by `i0`. -/
def crossingsAux (pos : List Bool) (i0 : Nat) : List Nat :=
  match pos with
  | a :: b :: rest => if a && !b then i0 :: crossingsAux (b :: rest) (i0 + 1) else crossingsAux (b :: rest) (i0 + 1)
  | _ => []

/-- `find_flank_zerox(sig, flank, midpoint)`: crossing samples, or the dummy `[len/2]` when none. -/
def findFlankZerox (sig : List Rat) (f : Flank) (mid : Rat) : List Nat :=
  let xs := crossingsAux (sig.map (flankPos f mid)) 0
  if xs.isEmpty then [sig.length / 2] else xs

/-- `int(np.median(xs))` for an increasing non-empty list of sample indices (no sorting needed):
mean of the two middle elements, rounded down. -/
def medianFloor (xs : List Nat) : Nat :=
  let k := xs.length
  (xs.getD ((k - 1) / 2) 0 + xs.getD (k / 2) 0) / 2

/-- body of the loop of `_find_flank_midpoints` on one segment `sig_temp` (non-empty). -/
def flankMid (seg : List Rat) (f : Flank) : Nat :=
  let first := seg.headD 0
  let last := seg.getLastD 0
  if seg.all (· == 0) then seg.length / 2                      -- np.sum(np.abs(sig_temp)) == 0
  else if (match f with
      | .rise => Slots.riseInvertedCmp.evalRat first last       -- comp = gt
      | .decay => Slots.decayInvertedCmp.evalRat first last)    -- comp = lt
    then seg.length / 2
  else medianFloor (findFlankZerox seg f ((first + last) / 2))

/-- python `a[i]` for a non-negative index. -/
def idx? (l : List Nat) (i : Nat) : Except Err Nat :=
  match l[i]? with | some v => .ok v | none => .error .indexError

/-- `_find_flank_midpoints(sig, flank, n_flanks, extrema_start, extrema_end, idx_bias)`;
`bias` is the already flank-adjusted bias. The window is inclusive when the slot says so. -/
def findFlankMidpoints (sig : List Rat) (f : Flank) (nFlanks : Nat) (starts ends : List Nat) (bias : Nat) :
    Except Err (List Nat) :=
  (List.range nFlanks).mapM fun i => do
    let s ← idx? starts i
    let e ← idx? ends (i + bias)
    let seg := slice sig s (e + Slots.flankWindowPlus)
    if seg.isEmpty then .error .indexError            -- sig_temp[0] on an empty slice
    else .ok (s + flankMid seg f)

/-- `find_zerox(sig, peaks, troughs)` → (rises, decays). -/
def findZerox (sig : List Rat) (peaks troughs : List Nat) : Except Err (List Nat × List Nat) := do
  let p0 ← idx? peaks 0
  let t0 ← idx? troughs 0
  let peakFirst := decide (p0 < t0)
  let nRises := if peakFirst then peaks.length - 1 else peaks.length
  let nDecays := if peakFirst then troughs.length else troughs.length - 1
  let idxBias := if peakFirst then 0 else 1
  let rises ← findFlankMidpoints sig .rise nRises troughs peaks (1 - idxBias)
  let decays ← findFlankMidpoints sig .decay nDecays peaks troughs idxBias
  .ok (rises, decays)

/-! ## Specification (C03) -/

/-- crossings of the half height in the flank's direction: samples `i` with
`x[i] ≤ h < x[i+1]` (rise) resp. `x[i] > h ≥ x[i+1]` (decay). -/
def crossingsSpec (seg : List Rat) (f : Flank) (h : Rat) : List Nat :=
  (List.range (seg.length - 1)).filter fun i =>
    match f with
    | .rise => decide (seg.getD i 0 ≤ h) && decide (h < seg.getD (i + 1) 0)
    | .decay => decide (h < seg.getD i 0) && decide (seg.getD (i + 1) 0 ≤ h)

/-- the statement's value for one flank segment (inclusive of both extrema), relative to its start. -/
def flankMidSpec (seg : List Rat) (f : Flank) : Nat :=
  let first := seg.headD 0
  let last := seg.getLastD 0
  let inverted := match f with | .rise => decide (last < first) | .decay => decide (first < last)
  if seg.all (· == 0) || inverted then seg.length / 2
  else
    let xs := crossingsSpec seg f ((first + last) / 2)
    if xs.isEmpty then seg.length / 2        -- flat-ended non-zero flank (first = last): temporal centre
    else medianFloor xs

/-- one extremum of an alternating sequence. -/
structure Ext1 where
  isPeak : Bool
  idx : Nat
  deriving Repr, DecidableEq, Inhabited

/-- merge peaks and troughs into one temporal sequence, starting with whichever comes first
(`peaks[0] < troughs[0]`), strictly alternating. Used only by the specification. -/
def interleave : Bool → List Nat → List Nat → List Ext1
  | true, p :: ps, ts => ⟨true, p⟩ :: interleave false ps ts
  | false, ps, t :: ts => ⟨false, t⟩ :: interleave true ps ts
  | _, _, _ => []
termination_by _ ps ts => ps.length + ts.length

/-- the sequence is a valid alternating extrema sequence for `sig`: strictly increasing, inside the signal. -/
def validSeq (n : Nat) : List Ext1 → Bool
  | a :: b :: rest => decide (a.idx < b.idx) && (a.isPeak != b.isPeak) && validSeq n (b :: rest)
  | [a] => decide (a.idx < n)
  | [] => true

/-- midpoints of all flanks of an alternating sequence, as (isRise, sample). -/
def flankMidsSpec (sig : List Rat) : List Ext1 → List (Bool × Nat)
  | a :: b :: rest =>
    (!a.isPeak, a.idx + flankMidSpec (slice sig a.idx (b.idx + 1)) (if a.isPeak then .decay else .rise))
      :: flankMidsSpec sig (b :: rest)
  | _ => []

def risesSpec (sig : List Rat) (seq : List Ext1) : List Nat :=
  ((flankMidsSpec sig seq).filter (·.1)).map (·.2)
def decaysSpec (sig : List Rat) (seq : List Ext1) : List Nat :=
  ((flankMidsSpec sig seq).filter (!·.1)).map (·.2)

end Bycycle
