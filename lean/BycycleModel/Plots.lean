import BycycleModel.Basic
import BycycleModel.Generated.SlotsPlots
/-!
# Index arithmetic of the plotting functions (bycycle/plts/burst.py, plts/cyclepoints.py)

Rendering is not modelled. What is modelled is which samples are in view, which cyclepoints get a marker
and at which index of the limited arrays, and which samples of the trace are highlighted as bursting.
A view is the run of samples `lo, lo+1, …, lo+len-1` kept by `limit_signal` (x-limits on the sample grid).
-/
namespace Bycycle

/-- the window offset computed from `fs * start` (exact product `x`): rounded or truncated per the source. -/
def windowOffset (x : Rat) : Int := if Slots.offsetsRounded then (x + 1/2).floor else x.floor

/-- `plot_cyclepoints_array`: `cps = points[(points >= times[0]*fs) & (points < times[-1]*fs)] - offset`
for a view starting at sample `lo` with `len` samples. -/
def markerIdx (lo len : Nat) (off : Int) (pts : List Int) : List Int :=
  (pts.filter fun p => Slots.markerLoCmp.evalInt p lo && Slots.markerHiCmp.evalInt p ((lo : Int) + len - 1)).map (· - off)

/-- python `a[i:j] = True` on a boolean list (negative bounds wrap, everything clamps). -/
def setSlice (m : List Bool) (i j : Int) : List Bool :=
  let n : Int := m.length
  let norm := fun (k : Int) => if k < 0 then max (k + n) 0 else min k n
  m.mapIdx fun t b => if norm i ≤ t ∧ (t : Int) < norm j then true else b

/-- the burst highlight of `plot_burst_detect_summary`: for every burst cycle `(last, next)`
`is_osc[last - off : next + 1 - off] = True`. -/
def burstMask (len : Nat) (off : Int) (bursts : List (Int × Int)) : List Bool :=
  bursts.foldl (fun m (c : Int × Int) => setSlice m (c.1 - off) (c.2 + Slots.burstMaskEndPlus - off)) (List.replicate len false)

/-- one cycle as the parameter panel reads it: its side extrema, its centre extremum (original sample indices) and the parameter's value (`none` = NaN). -/
structure PanelCycle where
  last : Int
  centre : Int
  next : Int
  value : Option Rat
  deriving Repr, DecidableEq

/-- the cycles `plot_burst_detect_param` draws for a view that starts at original sample `lo` and has `len` samples (`stopIncl` = the largest sample with
`s / fs <= stop`): what `limit_df` keeps (entirely inside the closed window) and, after re-indexing, `0 <= last'` and `next' < len(times)` (the view's samples are
`start <= t < stop`: a cycle ending exactly on `stop` is not drawn). -/
def panelCycles (lo : Int) (len : Nat) (stopIncl : Int) (cycles : List PanelCycle) : List PanelCycle :=
  cycles.filter fun c => decide (lo ≤ c.last) && decide (c.next ≤ stopIncl) && decide (0 ≤ c.last - lo) && decide (c.next - lo < len)

/-- the marker line of the panel in original samples: `interp` - one point per cycle at its CENTRE; otherwise a step from side to side. -/
def panelPoints (interp : Bool) (cs : List PanelCycle) : List (Int × Option Rat) :=
  if interp then cs.map fun c => (c.centre, c.value) else cs.flatMap fun c => [(c.last, c.value), (c.next, c.value)]

/-- the shaded spans: cycles whose value is at or below the threshold (NaN compares false). -/
def panelSpans (thresh : Rat) (cs : List PanelCycle) : List (Int × Int) :=
  (cs.filter fun c => match c.value with | some v => decide (v ≤ thresh) | none => false).map fun c => (c.last, c.next)

end Bycycle
