import BycycleModel.Runs
import BycycleModel.Generated.SlotsDetect
/-!
# Burst labelling: `detect_bursts_cycles` (burst/cycle.py), `detect_bursts_amp` (burst/amp.py),
`compute_burst_fraction`'s per-cycle mean (features/burst.py:376-388) and the `min_n_cycles`
reconciliation of `compute_features` (features/features.py).

Comparators, the conjunction, the forced-False indices and the defaults come from
`Generated/SlotsDetect.lean`, re-extracted from /repo on every run.
-/
namespace Bycycle

/-- the four burst features of one cycle; `none` is NaN. -/
structure CycRow where
  ampFraction : Option Rat
  ampConsistency : Option Rat
  periodConsistency : Option Rat
  monotonicity : Option Rat
  deriving Repr, Inhabited, DecidableEq

structure CycThresh where
  ampFraction : Rat
  ampConsistency : Rat
  periodConsistency : Rat
  monotonicity : Rat
  minN : Rat
  deriving Repr, Inhabited

/-- `check_param_range(x, _, (lo, hi))`: raises iff `x < lo ∨ x > hi`. -/
def paramInRange (x lo hi : Rat) : Bool := !(decide (x < lo) || decide (hi < x))

/-- python `a[i] = v` for a (possibly negative) index on a non-empty list. -/
def setPyIdx (m : List Bool) (i : Int) (v : Bool) : List Bool :=
  let n := m.length
  let j : Int := if i < 0 then i + n else i
  if 0 ≤ j ∧ j < n then m.set j.toNat v else m

/-- per-row decision before the end rule and the run filter, as coded. -/
def cycRowPasses (r : CycRow) (th : CycThresh) : Bool :=
  let a := Slots.cyclesCmpAmpFraction.evalOpt r.ampFraction th.ampFraction
  let b := Slots.cyclesCmpAmpConsistency.evalOpt r.ampConsistency th.ampConsistency
  let c := Slots.cyclesCmpPeriodConsistency.evalOpt r.periodConsistency th.periodConsistency
  let d := Slots.cyclesCmpMonotonicity.evalOpt r.monotonicity th.monotonicity
  if Slots.cyclesConjAll then a && b && c && d else a || b || c || d

/-- `detect_bursts_cycles`, returning the `is_burst` column. -/
def detectCycles (rows : List CycRow) (th : CycThresh) : Except Err (List Bool) :=
  if !(paramInRange th.ampFraction 0 1) then .error .valueError
  else if !(paramInRange th.ampConsistency 0 1) then .error .valueError
  else if !(paramInRange th.periodConsistency 0 1) then .error .valueError
  else if !(paramInRange th.monotonicity 0 1) then .error .valueError
  else
    let mask := rows.map fun r => cycRowPasses r th
    let mask := if mask.isEmpty then mask
      else Slots.cyclesForcedFalse.foldl (fun m i => setPyIdx m i false) mask
    checkMinBurstCycles mask th.minN

/-! ### specification of C06 -/

/-- a cycle qualifies: interior, and all four features STRICTLY exceed their thresholds
(a NaN feature never does). -/
def qualifies (rows : List CycRow) (th : CycThresh) (i : Nat) : Bool :=
  match rows[i]? with
  | none => false
  | some r =>
    decide (0 < i) && decide (i + 1 < rows.length) &&
    (match r.ampFraction with | some v => decide (th.ampFraction < v) | none => false) &&
    (match r.ampConsistency with | some v => decide (th.ampConsistency < v) | none => false) &&
    (match r.periodConsistency with | some v => decide (th.periodConsistency < v) | none => false) &&
    (match r.monotonicity with | some v => decide (th.monotonicity < v) | none => false)

def qualMask (rows : List CycRow) (th : CycThresh) : List Bool :=
  (List.range rows.length).map (qualifies rows th)

/-- the threshold-and-run rule. -/
def cyclesSpec (rows : List CycRow) (th : CycThresh) : List Bool :=
  minRunSpec (qualMask rows th) th.minN

def CycThresh.valid (th : CycThresh) : Prop :=
  0 ≤ th.ampFraction ∧ th.ampFraction ≤ 1 ∧ 0 ≤ th.ampConsistency ∧ th.ampConsistency ≤ 1 ∧
  0 ≤ th.periodConsistency ∧ th.periodConsistency ≤ 1 ∧ 0 ≤ th.monotonicity ∧ th.monotonicity ≤ 1

instance (th : CycThresh) : Decidable th.valid := by unfold CycThresh.valid; infer_instance

/-- componentwise order on threshold vectors (including `min_n_cycles`). -/
def CycThresh.le (a b : CycThresh) : Prop :=
  a.ampFraction ≤ b.ampFraction ∧ a.ampConsistency ≤ b.ampConsistency ∧
  a.periodConsistency ≤ b.periodConsistency ∧ a.monotonicity ≤ b.monotonicity ∧ a.minN ≤ b.minN

instance (a b : CycThresh) : Decidable (a.le b) := by unfold CycThresh.le; infer_instance

/-! ### amplitude method (C07) -/

/-- `np.mean(is_burst[last : next + 1])` per cycle; `none` = NaN (empty slice). -/
def burstFraction (mask : List Bool) (sides : List (Nat × Nat)) : List (Option Rat) :=
  sides.map fun (l, n) => meanRat ((slice mask l (n + 1)).map fun b => if b then (1 : Rat) else 0)

/-- `detect_bursts_amp`: range check, comparator from the slot, run filter. -/
def detectAmp (fracs : List (Option Rat)) (thr : Rat) (minN : Rat) : Except Err (List Bool) :=
  if !(paramInRange thr 0 1) then .error .valueError
  else checkMinBurstCycles (fracs.map fun f => Slots.ampCmp.evalOpt f thr) minN

/-- specification: `burst_fraction ≥ threshold`, then the run rule. -/
def ampSpec (fracs : List (Option Rat)) (thr : Rat) (minN : Rat) : List Bool :=
  minRunSpec (fracs.map fun f => match f with | some v => decide (thr ≤ v) | none => false) minN

/-- fraction of the samples `last … next` inclusive that the detector marks. -/
def burstFractionSpec (mask : List Bool) (l n : Nat) : Option Rat :=
  let w := (List.range (n + 1 - l)).filter fun j => l + j < mask.length
  if w.isEmpty then none
  else some (((w.filter fun j => mask.getD (l + j) false).length : Rat) / (w.length : Rat))

/-- `min_n_cycles` as it reaches (the sample-wise detector, the run filter), given the value in
`burst_kwargs` (`b`) and in `threshold_kwargs` (`t`). Transcribes features.py:
```
if 'min_n_cycles' not in burst_kwargs: burst_kwargs['min_n_cycles'] = threshold_kwargs.copy().pop('min_n_cycles', D)
elif 'min_n_cycles' in burst_kwargs:   threshold_kwargs['min_n_cycles'] = burst_kwargs['min_n_cycles']
```
then `compute_burst_fraction(**burst_kwargs)` and `detect_bursts_amp(**threshold_kwargs)` (own default). -/
def reconcileMinN (b t : Option Rat) : Rat × Rat :=
  match b with
  | none => (t.getD Slots.reconcileDefaultMinN, t.getD Slots.ampDefaultMinN)
  | some v => (v, v)

end Bycycle

namespace Bycycle

/-- `(min_n_cycles, min_burst_duration)` as passed to the sample-wise detector
(features/burst.py: `if min_burst_duration is not None: min_n_cycles = None`). -/
def detectorArgs (minN : Rat) (dur : Option Rat) : Option Rat × Option Rat :=
  if Slots.durationTest.eval dur then (none, dur) else (some minN, dur)

/-- a given minimum duration (including 0 s) replaces the cycle count; otherwise the cycle count is used. -/
def detectorArgsSpec (minN : Rat) (dur : Option Rat) : Option Rat × Option Rat :=
  match dur with
  | some d => (none, some d)
  | none => (some minN, none)

/-- argument guards of `compute_burst_fraction` (features/burst.py:360-362):
`fs ∈ [0, ∞)`, `amp_threshes[0] ∈ [0, amp_threshes[1]]`, `amp_threshes[1] ∈ [amp_threshes[0], ∞)`. -/
def burstFractionGuard (fs lo hi : Rat) : Except Err Unit :=
  if fs < 0 then .error .valueError
  else if !(paramInRange lo 0 hi) then .error .valueError
  else if hi < lo then .error .valueError
  else .ok ()

end Bycycle
