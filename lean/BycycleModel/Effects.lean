import BycycleModel.Basic
/-!
# A small effect IR for argument purity (C15) and object state (C14)

A function body is abstracted to what matters for "does it modify a caller-owned object": which local
names may refer to an object passed in by the caller, and where in-place writes happen. Modular
treatment of calls: a call writes (at most) the argument objects at the positions listed in the callee's
SUMMARY; every function's body is checked against its own summary (`bodyRespects`), so by induction over
the (acyclic) call graph each summary is a sound contract.

* `fresh x`      — `x = <new object>` (literal, arithmetic, `np.pad`, boolean indexing, `.copy()`, `pd.concat`, …)
* `alias x y`    — `x = y` (or a view of `y`)
* `copyIf g x y` — `x = copy(y)` if the guard `g` is present in the source, else `x = y`; the guards are
                   regenerated from /repo (`Generated/SlotsEffects.lean`)
* `write x`      — in-place mutation of the object `x` refers to (`x[k] = …`, `x.pop`, `del x[k]`, `inplace=True`, …)
* `call f args`  — call with the given argument variables
* `ite a b`      — either branch may execute
-/
namespace Bycycle.Eff

abbrev Var := String

inductive Stmt where
  | fresh (x : Var)
  | alias (x y : Var)
  | copyIf (g : Bool) (x y : Var)
  | write (x : Var)
  | call (f : String) (args : List Var)
  | ite (a b : List Stmt)
  deriving Repr, Inhabited

/-- summaries: for each callee the parameter positions it may write. Unknown callees (kernels of other
libraries, pure numpy / pandas constructors) write nothing. -/
abbrev Summ := List (String × List Nat)
def Summ.get (s : Summ) (f : String) : List Nat := ((s.find? (·.1 == f)).map (·.2)).getD []

/-! ## Static analysis: which PARAMETER indices may be written -/

/-- abstract environment: for each variable the parameter indices it may alias. -/
abbrev AEnv := List (Var × List Nat)
def AEnv.get (e : AEnv) (x : Var) : List Nat := ((e.find? (·.1 == x)).map (·.2)).getD []
def AEnv.set (e : AEnv) (x : Var) (v : List Nat) : AEnv := (x, v) :: e.filter (·.1 != x)
def AEnv.join (a b : AEnv) : AEnv :=
  let keys := (a.map (·.1) ++ b.map (·.1)).eraseDups
  keys.map fun k => (k, (a.get k ++ b.get k).eraseDups)

mutual
  /-- returns the environment after the statement and the parameter indices possibly written. -/
  def analyseStmt (summ : Summ) (e : AEnv) : Stmt → AEnv × List Nat
    | .fresh x => (e.set x [], [])
    | .alias x y => (e.set x (e.get y), [])
    | .copyIf g x y => (e.set x (if g then [] else e.get y), [])
    | .write x => (e, e.get x)
    | .call f args => (e, (summ.get f).flatMap fun p => match args[p]? with | some a => e.get a | none => [])
    | .ite a b =>
      let ra := analyseList summ e a
      let rb := analyseList summ e b
      (ra.1.join rb.1, ra.2 ++ rb.2)
  def analyseList (summ : Summ) (e : AEnv) : List Stmt → AEnv × List Nat
    | [] => (e, [])
    | s :: rest =>
      let r1 := analyseStmt summ e s
      let r2 := analyseList summ r1.1 rest
      (r2.1, r1.2 ++ r2.2)
end

structure Fn where
  name : String
  params : List Var
  body : List Stmt
  deriving Repr, Inhabited

def initAEnv (params : List Var) : AEnv := params.zipIdx.map fun (p, i) => (p, [i])

/-- parameter indices the body may write. -/
def Fn.mayWrite (summ : Summ) (f : Fn) : List Nat := (analyseList summ (initAEnv f.params) f.body).2.eraseDups

/-- the body respects its own summary. -/
def Fn.respects (summ : Summ) (f : Fn) : Bool := (f.mayWrite summ).all fun i => (summ.get f.name).contains i

/-- the function writes no caller-owned object at all. -/
def Fn.pure (summ : Summ) (f : Fn) : Bool := (f.mayWrite summ).isEmpty

/-! ## Dynamic semantics (objects have identities; the oracle resolves branches) -/

structure St where
  env : List (Var × Nat)       -- variable ↦ object id
  next : Nat                    -- next fresh object id
  written : List Nat            -- object ids written so far
  deriving Repr, Inhabited

def St.get (s : St) (x : Var) : Option Nat := (s.env.find? (·.1 == x)).map (·.2)
def St.bind (s : St) (x : Var) (o : Nat) : St := { s with env := (x, o) :: s.env.filter (·.1 != x) }

mutual
  /-- executes one statement; consumes oracle bits at branches. -/
  def execStmt (summ : Summ) (s : St) (oracle : List Bool) : Stmt → St × List Bool
    | .fresh x => ({ (s.bind x s.next) with next := s.next + 1 }, oracle)
    | .alias x y =>
      -- an unbound source name denotes a global / non-caller object
      (match s.get y with | some o => s.bind x o | none => { (s.bind x s.next) with next := s.next + 1 }, oracle)
    | .copyIf g x y =>
      if g then ({ (s.bind x s.next) with next := s.next + 1 }, oracle)
      else (match s.get y with | some o => s.bind x o | none => { (s.bind x s.next) with next := s.next + 1 }, oracle)
    | .write x => (match s.get x with | some o => { s with written := o :: s.written } | none => s, oracle)
    | .call f args =>
      ({ s with written := ((summ.get f).filterMap fun p => (args[p]?).bind s.get) ++ s.written }, oracle)
    | .ite a b =>
      match oracle with
      | true :: rest => execList summ s rest a
      | _ :: rest => execList summ s rest b
      | [] => execList summ s [] b
  def execList (summ : Summ) (s : St) (oracle : List Bool) : List Stmt → St × List Bool
    | [] => (s, oracle)
    | st :: rest =>
      let r := execStmt summ s oracle st
      execList summ r.1 r.2 rest
end

/-- initial state: parameter `i` refers to caller object `i`; fresh objects get ids ≥ number of parameters. -/
def initSt (params : List Var) : St := ⟨(params.zipIdx.map fun (p, i) => (p, i)).reverse, params.length, []⟩

/-- caller objects written by running the body under the given oracle. -/
def Fn.run (summ : Summ) (f : Fn) (oracle : List Bool) : List Nat :=
  ((execList summ (initSt f.params) oracle f.body).1.written.filter fun o => decide (o < f.params.length))

end Bycycle.Eff
