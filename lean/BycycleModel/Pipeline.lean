import BycycleModel.Covariance
import BycycleModel.Cyclepoints
/-!
# `compute_features(..., burst_method='cycles')` as one function of the signal and the kernels' answers

Composition of the transcriptions: negate for trough centring, cyclepoints, shape features (with the
generated renaming), the four burst features computed on the RENAMED table and the ORIGINAL signal
(features.py passes `sig`, not `-sig`, to `compute_burst_features`), threshold-and-run labels.
Kernels: `pad`, `b` (sign pattern of the filtered, possibly negated, padded signal), `amp`.
-/
namespace Bycycle

structure PipeOut where
  samples : List SampleRow       -- peak-centred field order; for trough centring read through `Slots.renameSamples`
  shape : List ShapeRow
  feats : List CycRow
  labels : List Bool
  deriving Repr, DecidableEq

def F.toOptRat : F → Option Rat | .fin q => some q | _ => none

def pipelineCycles (c : Centre) (x : List Rat) (pad : Nat) (b : List Bool) (amp : List Rat) (bd : Int) (th : CycThresh) :
    Except Err PipeOut := do
  let used := match c with | .peak => x | .trough => negSig x
  let rows ← computeCyclepoints used pad b bd
  let shape ← shapeFeatures c used amp rows
  let pc := decide (c = .peak)
  let af := ampFraction (shape.map (·.voltAmp))
  let ac ← ampConsistency pc .both (shape.map (·.voltRise)) (shape.map (·.voltDecay))
  let pcn ← periodConsistency .both (shape.map fun s => (s.period : Rat))
  let mono := monotonicity pc x (rows.map fun r => (r.lastTrough, r.peak, r.nextTrough))
  let feats := (List.range shape.length).map fun i =>
    (⟨af[i]?, (ac.getD i .nan).toOptRat, (pcn.getD i .nan).toOptRat, (mono.getD i .nan).toOptRat⟩ : CycRow)
  let labels ← detectCycles feats th
  .ok ⟨rows, shape, feats, labels⟩

/-- the mirror map of C09 on a whole result: shape columns through the generated renaming / flips,
sample indices, burst features and labels unchanged. -/
def PipeOut.mirror (o : PipeOut) : PipeOut :=
  { o with shape := o.shape.map fun s => Slots.flipShape (Slots.renameShape s) }

/-- C10: voltage features scale, everything else is unchanged. -/
def PipeOut.scaleVolts (a : Rat) (o : PipeOut) : PipeOut :=
  { o with shape := o.shape.map (ShapeRow.scaleVolts a) }

end Bycycle
