import BycycleModel.ObjMachine
/-!
# Symbolic instance of the object machine, used by the driver (C14 correspondence)

Signals are identifiers (identifiers >= 100 denote arrays that are not 1-D); tables are PROVENANCE TERMS over the
functional API. The harness evaluates a term with the real `compute_features` / `recompute_edges` and compares
the result with the real object's table after every operation. Whether the one API call made by an operation
succeeds is supplied per operation (`flag`); the harness checks the flag against the real call.
-/
namespace Bycycle.Obj

inductive Term where
  | cf (st : Settings) (x : Nat)
  | rc (t : Term) (th : KV)
  | loaded (id : Nat)
  deriving Repr

/-- the API as far as ONE operation sees it: term constructors, succeeding iff `flag`. -/
def apiWith (flag : Bool) : Api Nat Term :=
  { oneD := fun x => decide (x < 100),
    cf := fun st x => if flag then .ok (.cf st x) else .error .other,
    rc := fun t th => if flag then .ok (.rc t th) else .error .other,
    col := fun _ _ => if flag then some [] else none }

/-- the observation and the state after every operation of a history. -/
def trace (o : Obj Nat Term) : List (Op Nat Term × Bool) → List (Out × Obj Nat Term)
  | [] => []
  | (op, flag) :: rest =>
    let r := step (apiWith flag) o op
    (r.2, r.1) :: trace r.1 rest

end Bycycle.Obj
