import BycycleModel.ObjMachine
import BycycleModel.GroupMachine
/-!
# Symbolic instance of the object machine, used by the driver (C14 correspondence)

Signals are identifiers (identifiers >= 100 denote arrays that are not 1-D); tables are PROVENANCE TERMS over the
functional API. The harness evaluates a term with the real `compute_features` / `recompute_edges` and compares
the result with the real object's table after every operation. Whether the one API call made by an operation
succeeds is supplied per operation (`flag`); the harness checks the flag against the real call.
-/
namespace Bycycle.Obj

inductive Term where
  | cf (st : Settings) (x : Nat)
  | rc (t : Term) (th : KV)
  | loaded (id : Nat)
  deriving Repr

/-- the API as far as ONE operation sees it: term constructors, succeeding iff `flag`. -/
def apiWith (flag : Bool) : Api Nat Term :=
  { oneD := fun x => decide (x < 100),
    cf := fun st x => if flag then .ok (.cf st x) else .error .other,
    rc := fun t th => if flag then .ok (.rc t th) else .error .other,
    col := fun _ _ => if flag then some [] else none }

/-- the observation and the state after every operation of a history. -/
def trace (o : Obj Nat Term) : List (Op Nat Term × Bool) → List (Out × Obj Nat Term)
  | [] => []
  | (op, flag) :: rest =>
    let r := step (apiWith flag) o op
    (r.2, r.1) :: trace r.1 rest

end Bycycle.Obj

namespace Bycycle.Obj

/-- the group machine on provenance terms: `compute_features_2d(axis=0)` yields, per signal, the term of the single-signal analysis
(C11); `flag` = the analysis succeeded. -/
def gcfWith (flag : Bool) : Settings → List Nat → Except Err (List Term) :=
  fun st xs => if flag then .ok (xs.map fun x => .cf st x) else .error .other

/-- one group operation with the success flags of the API calls it makes (for `edges`: one flag per model, consumed in order; a model
whose flag is false raises and stops the loop, exactly as `edgesLoop` does with a failing `rc`). -/
def gtraceStep (g : GObj Nat Term) (op : GOp Nat Term) (flags : List Bool) : GObj Nat Term × Out :=
  match op with
  | .edges r =>
    -- run the loop model by model with each model's own flag
    let rec go : List (Obj Nat Term) → List Term → List Bool → List (Obj Nat Term) × List Term × Bool
      | [], ds, _ => ([], ds, true)
      | m :: ms, [], _ => (m :: ms, [], true)
      | m :: ms, d :: ds, fl =>
        let res := step (apiWith (fl.headD true)) m (.edges r)
        match res.2 with
        | .raised => (m :: ms, d :: ds, false)
        | _ => let rest := go ms ds fl.tail; (res.1 :: rest.1, (res.1.df.getD d) :: rest.2.1, rest.2.2)
    let res := go g.models g.dfs flags
    ({ g with models := res.1, dfs := res.2.1 }, if res.2.2 then .done else .raised)
  | op => gstep (apiWith (flags.headD true)) (gcfWith (flags.headD true)) g op

def gtrace (g : GObj Nat Term) : List (GOp Nat Term × List Bool) → List (Out × GObj Nat Term)
  | [] => []
  | (op, flags) :: rest =>
    let r := gtraceStep g op flags
    (r.2, r.1) :: gtrace r.1 rest

end Bycycle.Obj
