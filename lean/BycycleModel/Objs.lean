import BycycleModel.Generated.SlotsEffects
/-!
# `BycycleBase` helpers (bycycle/objs/fit.py): threshold shorthand expansion and `reduce_thresholds`

Threshold dictionaries are association lists; the string tests come from `Generated/SlotsEffects.lean`.
-/
namespace Bycycle

/-- `for k in keys: if not k.endswith('_threshold') and k != 'min_n_cycles': th[k + '_threshold'] = th.pop(k)`
(as a map on keys; python moves the renamed entry to the end, which does not matter for a dictionary). -/
def expandShorthand (th : List (String × Rat)) : List (String × Rat) :=
  th.map fun (k, v) =>
    if !k.endsWith Slots.shorthandSuffixTest && k != Slots.shorthandExempt then (k ++ Slots.shorthandAppend, v) else (k, v)

/-- `reduce_thresholds(reduction)`: a NEW dictionary with every `*threshold` entry lowered. -/
def reduceThresholds (th : List (String × Rat)) (reduction : Option Rat) : List (String × Rat) :=
  th.map fun (k, v) => if k.endsWith Slots.reduceSuffix then (k, v - reduction.getD 0) else (k, v)

end Bycycle
