import BycycleModel.GroupTypes
import BycycleModel.Generated.SlotsGroup
/-!
# Group plumbing: `compute_features_2d` (axis=0), `compute_features_3d` (bycycle/group/features.py)

Generic in the per-signal analysis: `analyse : S → O → R` stands for `compute_features` on one signal with
one option set, `analyseEpochs : List S → O → List R` for `compute_features_2d(axis=None)` on one 2-D
slice (its own model is in `Frames.lean`). Worker scheduling is a parameter: `σ` is the order in which the
tasks COMPLETE; `Pool.imap` / `Pool.map` hand results back in submission order whatever `σ` is,
`Pool.imap_unordered` in completion order (Python stdlib contract, E6).
-/
namespace Bycycle

/-- results of mapping `f` over the tasks `xs` with the given pool method when tasks complete in order `σ`. -/
def poolRun {α β} (m : PoolMethod) (σ : List Nat) (f : α → β) (xs : List α) : List β :=
  match m with
  | .imap => xs.map f
  | .map => xs.map f
  | .imapUnordered => σ.filterMap fun i => (xs[i]?).map f

/-- the option argument after `deepcopy`, `np.array`, `check_kwargs_shape`: nothing / one dict / a flat list. -/
inductive Kw (O : Type) where
  | none
  | one (o : O)
  | many (os : List O)

/-- `kwargs = {} if None; [kwargs] if dict else list(kwargs)` with `dflt` the empty option set. -/
def Kw.toList {O} (dflt : O) : Kw O → List O
  | .none => [dflt]
  | .one o => [o]
  | .many os => os

/-- `compute_features_2d(sigs, …, axis=0)`: `setRS` is the `return_samples` override
(`kwarg.pop('return_samples')` then the explicit argument). -/
def features2d {S O R} (analyse : S → O → R) (setRS : O → O) (dflt : O) (σ : List Nat)
    (sigs : List S) (kw : Kw O) : List R :=
  let ks := (kw.toList dflt).map setRS
  if Slots.zipCmp.evalInt ks.length Slots.zipLen then
    poolRun Slots.poolMethod2d σ (fun p : S × O => analyse p.1 p.2) (sigs.zip ks)
  else
    poolRun Slots.poolMethod2d σ (fun s => analyse s (ks.headD (setRS dflt))) sigs

/-- specification of C11: position `i` holds the analysis of row `i` with the options given for row `i`. -/
def features2dSpec {S O R} (analyse : S → O → R) (setRS : O → O) (dflt : O) (sigs : List S) (kw : Kw O) : List R :=
  match kw with
  | .none => sigs.map fun s => analyse s (setRS dflt)
  | .one o => sigs.map fun s => analyse s (setRS o)
  | .many os => (sigs.zip os).map fun p => analyse p.1 (setRS p.2)

/-- transpose of a rectangular list of lists with `n1` columns (`zip(*x)` / `np.swapaxes(x, 0, 1)`). -/
def transposeL {α} (n1 : Nat) (x : List (List α)) : List (List α) :=
  (List.range n1).map fun j => x.filterMap fun row => row[j]?

inductive Axis3 where | a0 | a1 | a01
  deriving Repr, DecidableEq, Inhabited

/-- `compute_features_3d`: `sigs` is an `n0 × n1` grid of signals. Returns an `n0 × n1` grid of results. -/
def features3d {S O R} (analyse : S → O → R) (analyseEpochs : List S → O → List R) (setRS : O → O) (dflt : O)
    (σ : List Nat) (n0 n1 : Nat) (sigs : List (List S)) (kw : Kw O) (axis : Axis3) : List (List R) :=
  let ks := match kw with | .none => [dflt] | .one o => [o] | .many os => os     -- flattened
  match axis with
  | .a0 =>
    let ks := if ks.length = 1 then List.replicate sigs.length (ks.headD dflt) else ks
    poolRun Slots.poolMethod3d σ (fun p : List S × O => analyseEpochs p.1 p.2) (sigs.zip ks)
  | .a1 =>
    let sigsT := if Slots.axis1SwapIn then transposeL n1 sigs else sigs
    let ks := if ks.length = 1 then List.replicate sigsT.length (ks.headD dflt) else ks
    let res := poolRun Slots.poolMethod3d σ (fun p : List S × O => analyseEpochs p.1 p.2) (sigsT.zip ks)
    if Slots.axis1TransposeOut then transposeL n0 res else res
  | .a01 =>
    let flat := sigs.flatten
    let kw2 : Kw O := if ks.length = 1 then .one (ks.headD dflt) else .many ks
    let df2d := features2d analyse setRS dflt σ flat kw2
    (List.range n0).map fun i => (List.range n1).filterMap fun j => df2d[Slots.unflattenIdx n0 n1 i j]?

/-- the option set that belongs to position `i`. -/
def optAt {O} (dflt : O) (kw : Kw O) (i : Nat) : O :=
  match kw with | .none => dflt | .one o => o | .many os => os.getD i dflt

/-- the grid is rectangular `n0 × n1`. -/
def Rect {α} (n0 n1 : Nat) (x : List (List α)) : Prop := x.length = n0 ∧ ∀ row ∈ x, row.length = n1

end Bycycle
