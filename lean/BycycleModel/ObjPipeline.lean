import BycycleModel.ObjMachine
import BycycleModel.GroupMachine
import BycycleModel.Pipeline
/-!
# The object machine instantiated with the modelled pipeline

`ObjMachine.lean` is parametric in the functional API. Here `compute_features` is instantiated with `pipelineCycles` (the composition of
the transcriptions of `find_extrema`, `find_zerox`, the shape and burst features and the threshold-and-run rule), so that statements about
object HISTORIES and statements about the TABLE meet: whatever happened to the object before, the table a fit stores is the pipeline's
output for the current settings, hence well formed (C01) - see `C14_fit_is_pipeline`.

A recording comes with the kernels' answers for it (they are parameters everywhere in the model): for every `find_extrema_kwargs`
identifier the padding, the sign pattern of the filtered padded signal for either centring (trough centring filters the negated signal)
and the boundary; and the band amplitude.
-/
namespace Bycycle.Obj

structure Recording where
  x : List Rat
  pad : Nat → Nat
  b : Nat → Centre → List Bool
  bd : Nat → Int
  amp : List Rat

def lookupD (kv : KV) (k : String) (d : Rat) : Rat := (kv.lookup k).getD d

/-- `detect_bursts_cycles(df, **thresholds)`: the keyword arguments with the defaults read off the source. -/
def cycThreshOf (kv : KV) : CycThresh :=
  ⟨lookupD kv "amp_fraction_threshold" Slots.cyclesDefaultAmpFraction, lookupD kv "amp_consistency_threshold" Slots.cyclesDefaultAmpConsistency,
   lookupD kv "period_consistency_threshold" Slots.cyclesDefaultPeriodConsistency, lookupD kv "monotonicity_threshold" Slots.cyclesDefaultMonotonicity,
   lookupD kv "min_n_cycles" Slots.cyclesDefaultMinN⟩

def centreOf (st : Settings) : Centre := if st.peak then .peak else .trough

/-- `compute_features` with `burst_method='cycles'` as the modelled pipeline (the amplitude method is outside `Pipeline.lean`). -/
def pipelineCf (st : Settings) (r : Recording) : Except Err PipeOut :=
  if st.cycles then pipelineCycles (centreOf st) r.x (r.pad st.fek) (r.b st.fek (centreOf st)) r.amp (r.bd st.fek) (cycThreshOf st.thresholds)
  else .error .other

def pipelineApi (rc : PipeOut → KV → Except Err PipeOut) : Api Recording PipeOut where
  oneD _ := true
  cf := pipelineCf
  rc := rc
  col _ _ := none

/-- `compute_features_2d(axis=0)` as what C11 proves it to be: the per-signal analysis, position by position (the first error wins). -/
def mapExcept {α β : Type} (f : α → Except Err β) : List α → Except Err (List β)
  | [] => .ok []
  | a :: rest =>
    match f a with
    | .error e => .error e
    | .ok b =>
      match mapExcept f rest with
      | .error e => .error e
      | .ok bs => .ok (b :: bs)

def perSignal {S T : Type} (cf : Settings → S → Except Err T) (st : Settings) (xs : List S) : Except Err (List T) := mapExcept (cf st) xs

end Bycycle.Obj
