import BycycleModel.ObjMachine
import BycycleModel.GroupMachine
import BycycleModel.Pipeline
import BycycleModel.PipelineAmp
import BycycleModel.Edges
/-!
# The object machine instantiated with the modelled pipeline

`ObjMachine.lean` is parametric in the functional API. Here `compute_features` is instantiated with `pipelineCycles` (the composition of
the transcriptions of `find_extrema`, `find_zerox`, the shape and burst features and the threshold-and-run rule), so that statements about
object HISTORIES and statements about the TABLE meet: whatever happened to the object before, the table a fit stores is the pipeline's
output for the current settings (`pipelineCycles` or, for the amplitude method, `pipelineAmp`), hence well formed (C01) - see `C14_fit_is_pipeline`.

A recording comes with the kernels' answers for it (they are parameters everywhere in the model): for every `find_extrema_kwargs`
identifier the padding, the sign pattern of the filtered padded signal for either centring (trough centring filters the negated signal)
and the boundary; and the band amplitude.
-/
namespace Bycycle.Obj

structure Recording where
  x : List Rat
  pad : Nat → Nat
  b : Nat → Centre → List Bool
  bd : Nat → Int
  amp : List Rat
  /-- the dual-threshold detector (amplitude method): its mask for the burst options it is run with and the (min_n_cycles, min_burst_duration) pair that reaches it. -/
  detMask : KV → Option Rat × Option Rat → List Bool

/-- a table of either burst method. `peakSeen` is what the burst-feature functions SEE of a consistency table's centring: they test for a `sample_peak`
column, so it is `center_extrema == 'peak' and return_samples` (a peak-centred table without sample columns is seen as trough-centred: the known finding). -/
inductive Table where
  | cycles (o : PipeOut) (peakSeen : Bool)
  | amp (o : PipeOutAmp)
  deriving DecidableEq

def Table.samples : Table → List SampleRow
  | .cycles o _ => o.samples
  | .amp o => o.samples

def F.ofOpt : Option Rat → F | some q => .fin q | none => .nan

/-- the rows `recompute_edges` reads and writes, taken from a pipeline table. -/
def edgeRowsOf (o : PipeOut) : List EdgeRow :=
  (o.shape.zip (o.feats.zip o.labels)).map fun p =>
    ⟨p.1.voltRise, p.1.voltDecay, (p.1.period : Rat), p.2.1.ampFraction, p.2.1.monotonicity, F.ofOpt p.2.1.ampConsistency, F.ofOpt p.2.1.periodConsistency, p.2.2⟩

/-- the pipeline table with the two consistency columns and the labels replaced by the recomputed rows; everything else (samples, shape, the other features) is kept. -/
def withEdges (o : PipeOut) (rows : List EdgeRow) : PipeOut :=
  { o with feats := (o.feats.zip rows).map fun p => { p.1 with ampConsistency := p.2.ampCons.toFeature, periodConsistency := p.2.perCons.toFeature },
           labels := rows.map (·.isBurst) }

def lookupD (kv : KV) (k : String) (d : Rat) : Rat := (kv.lookup k).getD d

/-- `detect_bursts_cycles(df, **thresholds)`: the keyword arguments with the defaults read off the source. -/
def cycThreshOf (kv : KV) : CycThresh :=
  ⟨lookupD kv "amp_fraction_threshold" Slots.cyclesDefaultAmpFraction, lookupD kv "amp_consistency_threshold" Slots.cyclesDefaultAmpConsistency,
   lookupD kv "period_consistency_threshold" Slots.cyclesDefaultPeriodConsistency, lookupD kv "monotonicity_threshold" Slots.cyclesDefaultMonotonicity,
   lookupD kv "min_n_cycles" Slots.cyclesDefaultMinN⟩

def centreOf (st : Settings) : Centre := if st.peak then .peak else .trough

/-- `bycycle.burst.recompute_edges(df, thresholds)` on a pipeline table: the transcription `recomputeEdges` with the centring the code sees; an amplitude-method table has
no consistency columns to recompute (`KeyError`). -/
def rcPipeline (t : Table) (kv : KV) : Except Err Table :=
  match t with
  | .cycles o pk => (recomputeEdges pk (edgeRowsOf o) (cycThreshOf kv)).map fun rows => .cycles (withEdges o rows) pk
  | .amp _ => .error .keyError


/-- `compute_features` as the modelled pipeline of the object's burst method: `pipelineCycles` resp. `pipelineAmp` (the `min_n_cycles` of the burst options and of the
thresholds, the minimum duration and the fraction threshold with its default are looked up in the stored dictionaries). -/
def pipelineCf (st : Settings) (r : Recording) : Except Err Table :=
  if st.cycles then
    (pipelineCycles (centreOf st) r.x (r.pad st.fek) (r.b st.fek (centreOf st)) r.amp (r.bd st.fek) (cycThreshOf st.thresholds)).map fun o => .cycles o (st.peak && st.returnSamples)
  else
    (pipelineAmp (centreOf st) r.x (r.pad st.fek) (r.b st.fek (centreOf st)) r.amp (r.bd st.fek) (st.burstKwargs.lookup "min_n_cycles") (st.thresholds.lookup "min_n_cycles")
      (st.burstKwargs.lookup "min_burst_duration") (r.detMask st.burstKwargs) (lookupD st.thresholds "burst_fraction_threshold" Slots.ampDefaultThreshold)).map .amp

def pipelineApi : Api Recording Table where
  oneD _ := true
  cf := pipelineCf
  rc := rcPipeline
  col _ _ := none

/-- `compute_features_2d(axis=0)` as what C11 proves it to be: the per-signal analysis, position by position (the first error wins). -/
def mapExcept {α β : Type} (f : α → Except Err β) : List α → Except Err (List β)
  | [] => .ok []
  | a :: rest =>
    match f a with
    | .error e => .error e
    | .ok b =>
      match mapExcept f rest with
      | .error e => .error e
      | .ok bs => .ok (b :: bs)

def perSignal {S T : Type} (cf : Settings → S → Except Err T) (st : Settings) (xs : List S) : Except Err (List T) := mapExcept (cf st) xs

end Bycycle.Obj
