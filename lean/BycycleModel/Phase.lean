import BycycleModel.Basic
/-!
# `extrema_interpolated_phase` (bycycle/cyclepoints/phase.py), in units of π/2 over ℚ

Anchor codes: rise midpoint −1, peak 0, decay midpoint +1, trough −2 in the "−π branch" and +2 in the
"+π branch". The routine fills an array with the anchors (midpoints first, extrema overwrite), interpolates
both branches linearly (`np.interp`, clamped outside the anchors), merges them by the sign of the forward
difference of the −π branch, and masks everything outside the anchor span with NaN (`none`).
-/
namespace Bycycle

/-- `arr[idx] = v` for every index in `idxs` (numpy fancy assignment; indices must be inside the array). -/
def setAll (arr : List (Option Int)) (idxs : List Nat) (v : Int) : Except Err (List (Option Int)) :=
  idxs.foldlM (fun a i => if i < a.length then .ok (a.set i (some v)) else .error .indexError) arr

/-- the anchor array in the −π coding (troughs = −2). -/
def anchorArray (n : Nat) (peaks troughs : List Nat) (rises decays : Option (List Nat)) : Except Err (List (Option Int)) := do
  let a := List.replicate n (none : Option Int)
  let a ← match rises with | some r => setAll a r (-1) | none => .ok a
  let a ← match decays with | some d => setAll a d 1 | none => .ok a
  let a ← setAll a peaks 0
  setAll a troughs (-2)

/-- `(position, value)` of the anchors, in increasing position. -/
def anchorList (arr : List (Option Int)) : List (Nat × Int) :=
  arr.zipIdx.filterMap fun (v, i) => v.map fun x => (i, x)

/-- `np.interp(t, xp, fp)` for increasing `xp` (here: anchor positions): clamped linear interpolation. -/
def interpAt (anchors : List (Nat × Rat)) (t : Nat) : Rat :=
  match anchors with
  | [] => 0
  | (x0, v0) :: rest =>
    if t ≤ x0 then v0
    else
      let rec go (x v : Rat) : List (Nat × Rat) → Rat
        | [] => v
        | (x', v') :: more =>
          if (t : Rat) < x' then v + (v' - v) * ((t : Rat) - x) / ((x' : Rat) - x)
          else go x' v' more
      go x0 v0 rest

/-- the two interpolated branches: troughs coded `lo` (−2) resp. +2. -/
def branch (arr : List (Option Int)) (troughVal : Rat) : List Rat :=
  let anchors := (anchorList arr).map fun (i, v) => (i, if v = -2 then troughVal else (v : Rat))
  (List.range arr.length).map (interpAt anchors)

/-- merge + NaN masking, given the anchor array. `none` = NaN. -/
def phaseOfArray (arr : List (Option Int)) : Except Err (List (Option Rat)) :=
  match anchorList arr with
  | [] => .error .valueError                      -- np.interp on empty anchors
  | anchors =>
    let tnpi := branch arr (-2)
    let tpi := branch arr 2
    let first := (anchors.head?.map (·.1)).getD 0
    let last := (anchors.getLast?.map (·.1)).getD 0
    .ok ((List.range arr.length).map fun t =>
      if t < first ∨ last < t then none
      else
        let d : Option Rat := if t + 1 < arr.length then some (tnpi.getD (t + 1) 0 - tnpi.getD t 0) else none   -- NaN appended
        match d with
        | some dv => if dv < 0 then some (tpi.getD t 0) else some (tnpi.getD t 0)
        | none => some (tnpi.getD t 0))

/-- `extrema_interpolated_phase(sig, peaks, troughs, rises, decays)`, `n = len(sig)`. -/
def interpolatedPhase (n : Nat) (peaks troughs : List Nat) (rises decays : Option (List Nat)) : Except Err (List (Option Rat)) := do
  let arr ← anchorArray n peaks troughs rises decays
  phaseOfArray arr

/-! ## Specification side (C17) -/

/-- consecutive anchors advance through the cycle trough(−2) → rise(−1) → peak(0) → decay(+1) → trough by one or
two quarter cycles (a midpoint may be missing), never backwards. -/
def stepOk (u v : Int) : Bool :=
  (u == -2 && (v == -1 || v == 0)) || (u == -1 && v == 0) || (u == 0 && (v == 1 || v == -2)) || (u == 1 && v == -2)

/-- the anchor array comes from a valid cyclepoint set. -/
def validAnchors : List (Nat × Int) → Bool
  | (_, u) :: (j, v) :: rest => stepOk u v && validAnchors ((j, v) :: rest)
  | [(_, u)] => u == -2 || u == -1 || u == 0 || u == 1
  | [] => true

end Bycycle

namespace Bycycle

/-- the statement of C17 as a decidable predicate on a returned phase array (units of π/2), with a tolerance
`eps` for float rounding (`eps = 0` for the exact model). -/
def phaseJudge (n : Nat) (peaks troughs : List Nat) (rises decays : Option (List Nat)) (pha : List (Option Rat)) (eps : Rat) : Bool :=
  let pts := peaks ++ troughs ++ rises.getD [] ++ decays.getD []
  let first := pts.foldl min (pts.headD 0)
  let last := pts.foldl max 0
  let near := fun (v : Option Rat) (x : Rat) => match v with | some q => decide (q - x ≤ eps) && decide (x - q ≤ eps) | none => false
  decide (pha.length = n) &&
  (List.range n).all (fun t => (pha.getD t none).isNone == (decide (t < first) || decide (last < t))) &&
  peaks.all (fun p => near (pha.getD p none) 0) &&
  troughs.all (fun p => near (pha.getD p none) (-2) || near (pha.getD p none) 2) &&
  (rises.getD []).all (fun p => peaks.contains p || troughs.contains p || near (pha.getD p none) (-1)) &&
  (decays.getD []).all (fun p => peaks.contains p || troughs.contains p || near (pha.getD p none) 1) &&
  (List.range n).all (fun t => match pha.getD t none with | some q => decide (-2 - eps ≤ q) && decide (q ≤ 2 + eps) | none => true) &&
  (List.range (n - 1)).all (fun t =>
    match pha.getD t none, pha.getD (t + 1) none with
    | some a, some b => decide (a - eps ≤ b) || troughs.contains (t + 1)
    | _, _ => true)

end Bycycle
