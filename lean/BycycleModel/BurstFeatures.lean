import BycycleModel.Shape
import BycycleModel.Generated.SlotsBurstFeatures
/-!
# `compute_amp_fraction`, `compute_amp_consistency`, `compute_period_consistency`,
`compute_monotonicity` (bycycle/features/burst.py)

The neighbour offsets of the two centring branches of `compute_amp_consistency` and the strict
comparators of `compute_monotonicity` are regenerated from /repo (`Generated/SlotsBurstFeatures.lean`).
-/
namespace Bycycle

inductive Direction where | both | next | last
  deriving Repr, DecidableEq, Inhabited

/-- `np.min([a, b]) / np.max([a, b])`. -/
def ratioMinMax (a b : Rat) : F := F.divRat (min a b) (max a b)

/-- element at a signed offset from `c` (callers only use it for interior `c`). -/
def atOff (l : List Rat) (c : Nat) (off : Int) : Rat := l.getD ((c : Int) + off).toNat 0

/-- `Series.rank(method='average')` of entry `i`: (#smaller) + (#equal + 1)/2. -/
def rankAvg (xs : List Rat) (x : Rat) : Rat :=
  ((xs.filter fun y => decide (y < x)).length : Rat) + (((xs.filter fun y => decide (y = x)).length : Rat) + 1) / 2

/-- `compute_amp_fraction`: `volt_amp.rank() / len(df)`. -/
def ampFraction (voltAmp : List Rat) : List Rat :=
  voltAmp.map fun x => rankAvg voltAmp x / (voltAmp.length : Rat)

/-- the same with UNDEFINED (NaN) amplitudes in the table: `Series.rank()` ranks the defined values among themselves and keeps NaN,
the divisor stays the number of cycles (rows) of the table. -/
def ampFractionN (voltAmp : List (Option Rat)) : List (Option Rat) :=
  let defined := voltAmp.filterMap id
  voltAmp.map fun x => x.map fun v => rankAvg defined v / (voltAmp.length : Rat)

/-- `compute_amp_consistency(df, direction)`; `peakCentred` is `'sample_peak' in df.columns`. -/
def ampConsistency (peakCentred : Bool) (dir : Direction) (rises decays : List Rat) : Except Err (List F) :=
  let n := rises.length
  if n = 0 then .error .indexError
  else
    let offs := if peakCentred then (Slots.acPeakLast, Slots.acPeakNext) else (Slots.acTroughLast, Slots.acTroughNext)
    let raw := (List.range n).map fun c =>
      if c = 0 ∨ c + 1 = n then F.nan
      else
        let cur := ratioMinMax (atOff rises c 0) (atOff decays c 0)
        let last := ratioMinMax (atOff rises c offs.1.1) (atOff decays c offs.1.2)
        let next := ratioMinMax (atOff rises c offs.2.1) (atOff decays c offs.2.2)
        if cur.isNan && next.isNan && last.isNan then F.nan
        else match dir with
          | .next => F.nanmin [cur, next]
          | .last => F.nanmin [cur, last]
          | .both => F.nanmin [cur, next, last]
    .ok (raw.map fun v => if v.neg? then F.fin 0 else v)           -- "prevent negative consistency"

/-- `compute_period_consistency(df, direction)`. -/
def periodConsistency (dir : Direction) (periods : List Rat) : Except Err (List F) :=
  let n := periods.length
  if n = 0 then .error .indexError
  else .ok ((List.range n).map fun c =>
    if c = 0 ∨ c + 1 = n then F.nan
    else
      let last := ratioMinMax (atOff periods c 0) (atOff periods c (-1))
      let next := ratioMinMax (atOff periods c 1) (atOff periods c 0)
      match dir with
      | .next => next
      | .last => last
      | .both => match last, next with            -- np.min([next, last]) propagates NaN
        | .nan, _ => .nan | _, .nan => .nan
        | a, b => if b.ltB a then b else a)

/-- fraction of steps of `w` that are strictly increasing (`up`) / strictly decreasing:
`np.mean(np.diff(w) > 0)` resp. `np.mean(np.diff(w) < 0)`; NaN for fewer than two samples. -/
def stepFraction (up : Bool) (w : List Rat) : F :=
  let steps := w.zip (w.drop 1)
  if steps.isEmpty then .nan
  else .fin (((steps.filter fun (a, b) =>
      if up then Slots.monoRiseCmp.evalRat (b - a) 0 else Slots.monoDecayCmp.evalRat (b - a) 0).length : Rat) / (steps.length : Rat))

/-- `np.mean([decay_mono, rise_mono])`. -/
def meanF2 : F → F → F
  | .fin a, .fin b => .fin ((a + b) / 2)
  | _, _ => .nan

/-- `compute_monotonicity`: per row, the rise window and the decay window, both inclusive of their
extrema. For a peak-centred table the rise is `[last, centre]` and the decay `[centre, next]`; for a
trough-centred table the decay is `[last, centre]` and the rise `[centre, next]`. -/
def monotonicity (peakCentred : Bool) (sig : List Rat) (rows : List (Int × Int × Int)) : List F :=
  rows.map fun (l, c, n) =>
    let w1 := pySlice sig l (c + 1)
    let w2 := pySlice sig c (n + 1)
    if peakCentred then meanF2 (stepFraction false w2) (stepFraction true w1)
    else meanF2 (stepFraction false w1) (stepFraction true w2)

/-! ## Specification (C05): one centring-free definition over the temporal flank sequence -/

/-- the flank voltage changes in temporal order: a peak-centred cycle is (rise, decay), a trough-centred
cycle is (decay, rise); cycle `c` owns flanks `2c` and `2c+1`. -/
def flankSeq (peakCentred : Bool) (rises decays : List Rat) : List Rat :=
  (List.range rises.length).flatMap fun c =>
    if peakCentred then [rises.getD c 0, decays.getD c 0] else [decays.getD c 0, rises.getD c 0]

/-- smallest min/max ratio among the three adjacent flank pairs that include a flank of cycle `c`,
clamped at 0. -/
def ampConsSpec (fl : List Rat) (c : Nat) : F :=
  let g := fun i => fl.getD i 0
  let v := F.nanmin [ratioMinMax (g (2*c)) (g (2*c + 1)), ratioMinMax (g (2*c + 1)) (g (2*c + 2)), ratioMinMax (g (2*c - 1)) (g (2*c))]
  if v.neg? then .fin 0 else v

/-- directional variants: `next` looks only at the cycle's own pair and the pair with the following flank,
`last` at the own pair and the pair with the preceding flank (used by edge recomputation). -/
def ampConsSpecDir (dir : Direction) (fl : List Rat) (c : Nat) : F :=
  let g := fun i => fl.getD i 0
  let cur := ratioMinMax (g (2*c)) (g (2*c + 1))
  let next := ratioMinMax (g (2*c + 1)) (g (2*c + 2))
  let last := ratioMinMax (g (2*c - 1)) (g (2*c))
  let v := match dir with
    | .both => F.nanmin [cur, next, last]
    | .next => F.nanmin [cur, next]
    | .last => F.nanmin [cur, last]
  if v.neg? then .fin 0 else v

/-- strictly increasing / decreasing step counts, stated directly. -/
def stepFractionSpec (up : Bool) (w : List Rat) : F :=
  if w.length < 2 then .nan
  else .fin ((((List.range (w.length - 1)).filter fun i =>
      if up then decide (w.getD i 0 < w.getD (i + 1) 0) else decide (w.getD (i + 1) 0 < w.getD i 0)).length : Rat)
      / ((w.length - 1 : Nat) : Rat))

def F.inUnit : F → Prop | .fin q => 0 ≤ q ∧ q ≤ 1 | _ => False

end Bycycle
