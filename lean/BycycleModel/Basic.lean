def hello := "world"
