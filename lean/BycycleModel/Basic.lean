/-!
# Basic definitions shared by every model file

Core Lean only (no Mathlib): the driver is compiled from these files.
Signals are `List Rat` (every finite float64 is a dyadic rational, shipped exactly by the
harness); sample indices are `Nat`/`Int`; NaN-able feature values are `Option Rat`.
-/

namespace Bycycle

/-- Exceptions the implementation can raise, reduced to a small enum. -/
inductive Err where
  | valueError | indexError | keyError | typeError | attributeError | other
  deriving Repr, DecidableEq, Inhabited

def Err.toString : Err → String
  | .valueError => "ValueError" | .indexError => "IndexError" | .keyError => "KeyError"
  | .typeError => "TypeError" | .attributeError => "AttributeError" | .other => "Other"

instance : ToString Err := ⟨Err.toString⟩

deriving instance DecidableEq for Except

/-- Comparison operators that appear as decision literals in the source; the slot
translator emits one of these per extracted comparison. -/
inductive Cmp where
  | lt | le | gt | ge | eq | ne
  deriving Repr, DecidableEq, Inhabited

def Cmp.evalRat : Cmp → Rat → Rat → Bool
  | .lt, a, b => decide (a < b) | .le, a, b => decide (a ≤ b)
  | .gt, a, b => decide (b < a) | .ge, a, b => decide (b ≤ a)
  | .eq, a, b => decide (a = b) | .ne, a, b => decide (a ≠ b)

def Cmp.evalInt : Cmp → Int → Int → Bool
  | .lt, a, b => decide (a < b) | .le, a, b => decide (a ≤ b)
  | .gt, a, b => decide (b < a) | .ge, a, b => decide (b ≤ a)
  | .eq, a, b => decide (a = b) | .ne, a, b => decide (a ≠ b)

/-- numpy comparison with a possibly-NaN left operand: NaN compares false. -/
def Cmp.evalOpt (c : Cmp) : Option Rat → Rat → Bool
  | none, _ => false
  | some a, b => c.evalRat a b

/-- how the source tests an optional argument: `x is not None` or plain truthiness `if x:`. -/
inductive OptTest where
  | isNotNone | truthy
  deriving Repr, DecidableEq, Inhabited

def OptTest.eval (t : OptTest) : Option Rat → Bool
  | none => false
  | some v => match t with | .isNotNone => true | .truthy => v != 0

/-- `np.argmax` on a non-empty list: index of the FIRST maximum. `none` on the empty list
(numpy raises ValueError there). -/
def argmaxFirst : List Rat → Option Nat
  | [] => none
  | x :: xs =>
    let rec go (best : Rat) (bi : Nat) (i : Nat) : List Rat → Nat
      | [] => bi
      | y :: ys => if best < y then go y i (i+1) ys else go best bi (i+1) ys
    some (go x 0 1 xs)

/-- `np.argmin`: index of the FIRST minimum. -/
def argminFirst : List Rat → Option Nat
  | [] => none
  | x :: xs =>
    let rec go (best : Rat) (bi : Nat) (i : Nat) : List Rat → Nat
      | [] => bi
      | y :: ys => if y < best then go y i (i+1) ys else go best bi (i+1) ys
    some (go x 0 1 xs)

/-- python slice `l[a:b]` for `0 ≤ a`, `0 ≤ b` (no negative indices). -/
def slice {α} (l : List α) (a b : Nat) : List α := (l.take b).drop a

def sumRat (l : List Rat) : Rat := l.foldl (· + ·) 0

/-- mean of a non-empty list; `none` (NaN) on the empty list, as `np.mean([])`. -/
def meanRat (l : List Rat) : Option Rat :=
  if l.isEmpty then none else some (sumRat l / (l.length : Rat))

end Bycycle
