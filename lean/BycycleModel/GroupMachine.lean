import BycycleModel.ObjMachine
/-!
# `BycycleGroup` as a state machine (bycycle/objs/fit.py)

State: the group's settings, the signals it was fitted on (flattened to one list in position order; that a 2-D / 3-D
result sits at the position of its signal is C11 / C12), the group's own list of tables `df_features`, and one `Bycycle`
model per signal. Operations: `fit`, `recompute_edges` (every model recomputes with ITS OWN settings and, since fix
eb453a6, the group's table at that position is replaced by the model's) and two things a user does to a single model:
rebinding its thresholds and refitting it (`bg[i].thresholds = …; bg[i].fit(…)`).

`gcf` is `compute_features_2d / 3d` as a parameter: the list of tables, one per signal, or an error.
-/
namespace Bycycle.Obj

structure GObj (S T : Type) where
  st : Settings
  sigs : List S
  dfs : List T
  models : List (Obj S T)

inductive GOp (S T : Type) where
  | fit (xs : List S)
  | edges (r : Option Rat)
  | modelRebind (i : Nat) (th : KV)
  | modelFit (i : Nat) (x : S)

def replaceAt {α} : List α → Nat → α → List α
  | [], _, _ => []
  | _ :: rest, 0, a => a :: rest
  | b :: rest, n + 1, a => b :: replaceAt rest n a

/-- `for each position: model.recompute_edges(r); self.df_features[pos] = model.df_features` - sequentially; an exception raised by
one model stops the loop with the earlier positions already updated. Returns the updated lists and whether the loop completed. -/
def edgesLoop {S T : Type} (A : Api S T) (r : Option Rat) : List (Obj S T) → List T → List (Obj S T) × List T × Bool
  | [], dfs => ([], dfs, true)
  | m :: ms, [] => (m :: ms, [], true)                     -- (lengths agree in every reachable state)
  | m :: ms, d :: ds =>
    let res := step A m (.edges r)
    match res.2 with
    | .raised => (m :: ms, d :: ds, false)
    | _ =>
      let rest := edgesLoop A r ms ds
      (res.1 :: rest.1, (res.1.df.getD d) :: rest.2.1, rest.2.2)

def gstep {S T : Type} (A : Api S T) (gcf : Settings → List S → Except Err (List T)) (g : GObj S T) : GOp S T → GObj S T × Out
  | .fit xs =>
    match gcf g.st xs with
    | .error _ => ({ g with sigs := xs }, .raised)         -- sigs / fs / f_range are assigned before the analysis runs
    | .ok ts =>
      if ts.length = xs.length then
        ({ g with sigs := xs, dfs := ts,
                  models := (xs.zip ts).map fun (x, t) => { st := g.st, sig := some x, df := some t } }, .done)
      else ({ g with sigs := xs }, .raised)
  | .edges r =>
    let res := edgesLoop A r g.models g.dfs
    ({ g with models := res.1, dfs := res.2.1 }, if res.2.2 then .done else .raised)
  | .modelRebind i th =>
    match g.models[i]? with
    | none => (g, .raised)
    | some m => ({ g with models := replaceAt g.models i { m with st := { m.st with thresholds := th } } }, .done)
  | .modelFit i x =>
    match g.models[i]? with
    | none => (g, .raised)
    | some m => let res := step A m (.fit x); ({ g with models := replaceAt g.models i res.1 }, res.2)

def grun {S T : Type} (A : Api S T) (gcf : Settings → List S → Except Err (List T)) (g : GObj S T) (ops : List (GOp S T)) : GObj S T :=
  ops.foldl (fun g op => (gstep A gcf g op).1) g

/-- position `i` of the group mirrors its model: same table, same signal. -/
def mirrorAt {S T : Type} (g : GObj S T) (i : Nat) : Prop :=
  ∀ m, g.models[i]? = some m → (∃ t, g.dfs[i]? = some t ∧ m.df = some t) ∧ m.sig = g.sigs[i]?

/-- the group's lists are aligned. -/
def aligned {S T : Type} (g : GObj S T) : Prop :=
  g.models.length = g.dfs.length ∧ g.models.length = g.sigs.length

def freshGroup {S T : Type} (st : Settings) : GObj S T := { st, sigs := [], dfs := [], models := [] }

end Bycycle.Obj
