import BycycleModel.FVal
import BycycleModel.Cyclepoints
/-! Row types of the shape table (shared by the generated renaming and the Shape model). -/
namespace Bycycle

def F.neg : F → F | .nan => .nan | .ninf => .pinf | .fin q => .fin (-q) | .pinf => .ninf
/-- `1 - x`. -/
def F.oneMinus : F → F | .nan => .nan | .ninf => .pinf | .fin q => .fin (1 - q) | .pinf => .ninf

/-- the thirteen shape features of one cycle. -/
structure ShapeRow where
  period : Int
  timePeak : Int
  timeTrough : Int
  voltPeak : Rat
  voltTrough : Rat
  timeDecay : Int
  timeRise : Int
  voltDecay : Rat
  voltRise : Rat
  voltAmp : Rat
  timeRdsym : F
  timePtsym : F
  bandAmp : F
  deriving Repr, DecidableEq, Inhabited

/-- sample columns of a trough-centred table. -/
structure TSampleRow where
  trough : Int
  lastZeroxRise : Int
  zeroxRise : Int
  zeroxDecay : Int
  lastPeak : Int
  nextPeak : Int
  deriving Repr, DecidableEq, Inhabited

end Bycycle
