import BycycleModel.Cyclepoints
import BycycleModel.Generated.SlotsShape
/-!
# `compute_shape_features` (bycycle/features/shape.py) and `rename_extrema_df` (utils/dataframes.py)

The peak-centred arithmetic is transcribed; the renaming / sign flips for trough-centring are GENERATED
from the two dictionaries and the four flip statements of `rename_extrema_df`
(`Generated/SlotsShape.lean`: `renameShape`, `flipShape`, `renameSamples`).
`amp_by_time` is a parameter (the array `amp`).
-/
namespace Bycycle

/-- python/numpy `x[i]` with a possibly negative index. -/
def pyIdx (x : List Rat) (i : Int) : Except Err Rat :=
  let j : Int := if i < 0 then i + x.length else i
  if 0 ≤ j then (match x[j.toNat]? with | some v => .ok v | none => .error .indexError) else .error .indexError

/-- python slice `x[a:b]` with possibly negative bounds (no step). -/
def pySlice (x : List Rat) (a b : Int) : List Rat :=
  let n : Int := x.length
  let norm := fun (i : Int) => if i < 0 then max (i + n) 0 else min i n
  slice x (norm a).toNat (norm b).toNat

/-- shape features of one cycle, peak-centred arithmetic (shape.py:142-280). -/
def shapeOfRow (sig : List Rat) (r : SampleRow) : Except Err ShapeRow := do
  let period := r.nextTrough - r.lastTrough
  let timePeak := r.zeroxDecay - r.zeroxRise
  let timeTrough := r.zeroxRise - r.lastZeroxDecay
  let vPeak ← pyIdx sig r.peak
  let vLast ← pyIdx sig r.lastTrough
  let vNext ← pyIdx sig r.nextTrough
  let timeDecay := r.nextTrough - r.peak
  let timeRise := r.peak - r.lastTrough
  let voltDecay := vPeak - vNext
  let voltRise := vPeak - vLast
  .ok { period := period, timePeak := timePeak, timeTrough := timeTrough, voltPeak := vPeak, voltTrough := vLast,
        timeDecay := timeDecay, timeRise := timeRise, voltDecay := voltDecay, voltRise := voltRise,
        voltAmp := (voltDecay + voltRise) / 2,
        timeRdsym := F.divRat timeRise period,
        timePtsym := F.divRat timePeak (timePeak + timeTrough),
        bandAmp := .nan }

/-- `compute_band_amp`: mean of `amp[troughs[i] : troughs[i+1]]` with
`troughs = [last_trough[0]] ++ next_trough`. -/
def bandAmps (amp : List Rat) (rows : List SampleRow) : Except Err (List F) :=
  match rows with
  | [] => .error .indexError                         -- `.values[0]` on an empty column
  | r0 :: _ =>
    let troughs := r0.lastTrough :: rows.map (·.nextTrough)
    .ok ((List.range rows.length).map fun i =>
      match meanRat (pySlice amp (troughs.getD i 0) (troughs.getD (i + 1) 0)) with
      | some m => .fin m | none => .nan)

/-- peak-centred table. -/
def shapePeak (sig amp : List Rat) (rows : List SampleRow) : Except Err (List ShapeRow) := do
  let sh ← rows.mapM (shapeOfRow sig)
  let ba ← bandAmps amp rows
  .ok ((sh.zip ba).map fun (s, a) => { s with bandAmp := a })

inductive Centre where | peak | trough
  deriving Repr, DecidableEq, Inhabited

/-- `compute_shape_features` after the cyclepoints: for trough centring the caller has analysed `-sig`
(`sigUsed`, `ampUsed` are the negated signal and its amplitude); then rename + flips as generated. -/
def shapeFeatures (c : Centre) (sigUsed ampUsed : List Rat) (rows : List SampleRow) : Except Err (List ShapeRow) :=
  match c with
  | .peak => shapePeak sigUsed ampUsed rows
  | .trough => (shapePeak sigUsed ampUsed rows).map fun l => l.map fun s => Slots.flipShape (Slots.renameShape s)

/-! ## Specification (C04): documented definitions read against the ORIGINAL signal -/

/-- peak-centred documented definitions. -/
def shapeSpecPeak (x amp : List Rat) (r : SampleRow) : ShapeRow :=
  let v := fun (i : Int) => x.getD i.toNat 0
  let period := r.nextTrough - r.lastTrough
  let timeRise := r.peak - r.lastTrough
  let timeDecay := r.nextTrough - r.peak
  let timePeak := r.zeroxDecay - r.zeroxRise
  let timeTrough := r.zeroxRise - r.lastZeroxDecay
  let voltRise := v r.peak - v r.lastTrough
  let voltDecay := v r.peak - v r.nextTrough
  { period := period, timePeak := timePeak, timeTrough := timeTrough, voltPeak := v r.peak, voltTrough := v r.lastTrough,
    timeDecay := timeDecay, timeRise := timeRise, voltDecay := voltDecay, voltRise := voltRise,
    voltAmp := (voltRise + voltDecay) / 2,
    timeRdsym := F.divRat timeRise period, timePtsym := F.divRat timePeak (timePeak + timeTrough),
    bandAmp := match meanRat (slice amp r.lastTrough.toNat r.nextTrough.toNat) with | some m => .fin m | none => .nan }

/-- trough-centred documented definitions on the original signal `x`; `t` carries the trough-centred
sample columns. -/
def shapeSpecTrough (x amp : List Rat) (t : TSampleRow) : ShapeRow :=
  let v := fun (i : Int) => x.getD i.toNat 0
  let period := t.nextPeak - t.lastPeak
  let timeDecay := t.trough - t.lastPeak
  let timeRise := t.nextPeak - t.trough
  let timeTrough := t.zeroxRise - t.zeroxDecay
  let timePeak := t.zeroxDecay - t.lastZeroxRise
  let voltDecay := v t.lastPeak - v t.trough
  let voltRise := v t.nextPeak - v t.trough
  { period := period, timePeak := timePeak, timeTrough := timeTrough, voltPeak := v t.lastPeak, voltTrough := v t.trough,
    timeDecay := timeDecay, timeRise := timeRise, voltDecay := voltDecay, voltRise := voltRise,
    voltAmp := (voltRise + voltDecay) / 2,
    timeRdsym := F.divRat timeRise period, timePtsym := F.divRat timePeak (timePeak + timeTrough),
    bandAmp := match meanRat (slice amp t.lastPeak.toNat t.nextPeak.toNat) with | some m => .fin m | none => .nan }

/-- all indices of a row are inside `[0, n)`. -/
def SampleRow.inside (r : SampleRow) (n : Nat) : Prop :=
  0 ≤ r.lastZeroxDecay ∧ 0 ≤ r.lastTrough ∧ r.lastTrough ≤ r.zeroxRise ∧ r.zeroxRise ≤ r.peak ∧ r.peak ≤ r.zeroxDecay ∧
  r.zeroxDecay ≤ r.nextTrough ∧ r.nextTrough < (n : Int) ∧ r.lastZeroxDecay ≤ r.lastTrough ∧ r.lastTrough < r.peak ∧ r.peak < r.nextTrough

instance (r : SampleRow) (n : Nat) : Decidable (r.inside n) := by unfold SampleRow.inside; infer_instance

end Bycycle
