import BycycleModel.Basic
import BycycleModel.FVal
/-!
# Line protocol values

`V ::= atom | [V,V,…]`; atoms contain no whitespace, brackets or commas. A request line is
`cmd V V …` (space separated); an answer line is a single `V`. Numbers travel as exact
rationals `num/den` or integers, NaN as `nan`, booleans as `T`/`F`, masks as bit strings.
-/
namespace Bycycle

inductive V where
  | atom (s : String)
  | list (xs : List V)
  deriving Inhabited

partial def V.render : V → String
  | .atom s => s
  | .list xs => "[" ++ ",".intercalate (xs.map V.render) ++ "]"

instance : ToString V := ⟨V.render⟩

/-- parse one value from a char list; returns the value and the rest. -/
partial def parseV : List Char → Option (V × List Char)
  | '[' :: rest => parseItems rest []
  | cs =>
    let tok := cs.takeWhile fun c => c != ',' && c != ']' && c != '[' && c != ' '
    if tok.isEmpty then none else some (.atom (String.ofList tok), cs.drop tok.length)
where
  parseItems (cs : List Char) (acc : List V) : Option (V × List Char) :=
    match cs with
    | ']' :: rest => some (.list acc.reverse, rest)
    | _ =>
      match parseV cs with
      | none => none
      | some (v, rest) =>
        match rest with
        | ',' :: rest' => parseItems rest' (v :: acc)
        | ']' :: rest' => some (.list (v :: acc).reverse, rest')
        | _ => none

/-- split a request line into space separated values. -/
partial def parseLine (s : String) : Option (List V) :=
  let rec go (cs : List Char) (acc : List V) : Option (List V) :=
    match cs.dropWhile (· == ' ') with
    | [] => some acc.reverse
    | cs' => match parseV cs' with
      | none => none
      | some (v, rest) => go rest (v :: acc)
  go (s.toList.filter fun c => c != '\n' && c != '\r') []

/-! ### decoding -/

def V.str? : V → Option String | .atom s => some s | _ => none
def V.items? : V → Option (List V) | .list xs => some xs | _ => none

def parseInt? (s : String) : Option Int := s.toInt?

def parseRat? (s : String) : Option Rat :=
  match s.splitOn "/" with
  | [n] => (parseInt? n).map fun i => (i : Rat)
  | [n, d] => do
      let i ← parseInt? n
      let j ← parseInt? d
      if j = 0 then none else some (mkRat i j.toNat)
  | _ => none

def V.int? (v : V) : Option Int := v.str? >>= parseInt?
def V.nat? (v : V) : Option Nat := v.int? >>= fun i => if i < 0 then none else some i.toNat
def V.rat? (v : V) : Option Rat := v.str? >>= parseRat?
/-- NaN-able rational: `nan` ↦ `some none`. -/
def V.orat? (v : V) : Option (Option Rat) :=
  match v.str? with
  | some "nan" => some none
  | some s => (parseRat? s).map some
  | none => none
/-- None-able: atom `None` ↦ `some none`. -/
def V.opt? {α} (f : V → Option α) (v : V) : Option (Option α) :=
  match v with
  | .atom "None" => some none
  | _ => (f v).map some
def V.bool? (v : V) : Option Bool :=
  match v.str? with | some "T" => some true | some "F" => some false | _ => none
def V.listOf? {α} (f : V → Option α) (v : V) : Option (List α) := v.items? >>= fun xs => xs.mapM f
/-- bit string `0110…` (the atom `e` is the empty mask). -/
def V.bits? (v : V) : Option (List Bool) :=
  match v.str? with
  | some "e" => some []
  | some s => s.toList.mapM fun c => if c == '1' then some true else if c == '0' then some false else none
  | none => none

def V.fval? (v : V) : Option F :=
  match v.str? with
  | some "nan" => some .nan
  | some "inf" => some .pinf
  | some "-inf" => some .ninf
  | some s => (parseRat? s).map F.fin
  | none => none

/-! ### encoding -/

def encInt (i : Int) : V := .atom (toString i)
def encNat (n : Nat) : V := .atom (toString n)
def encRat (q : Rat) : V :=
  if q.den = 1 then .atom (toString q.num) else .atom (toString q.num ++ "/" ++ toString q.den)
def encORat : Option Rat → V | none => .atom "nan" | some q => encRat q
def encF : F → V
  | .nan => .atom "nan" | .pinf => .atom "inf" | .ninf => .atom "-inf" | .fin q => encRat q
def encBool (b : Bool) : V := .atom (if b then "T" else "F")
def encBits (bs : List Bool) : V :=
  if bs.isEmpty then .atom "e" else .atom (String.ofList (bs.map fun b => if b then '1' else '0'))
def encList {α} (f : α → V) (xs : List α) : V := .list (xs.map f)
def encErr (e : Err) : V := .list [.atom "err", .atom e.toString]
def encExcept {α} (f : α → V) : Except Err α → V
  | .ok a => .list [.atom "ok", f a]
  | .error e => encErr e

end Bycycle
