import BycycleModel.BurstFeatures
import BycycleModel.Detect
/-!
# `recompute_edges` / `recompute_edge` (bycycle/burst/utils.py:60-165)

A row carries what the routine reads and writes: the flank voltages and the period (read by the
directional consistency functions), the two threshold features that never change, the two consistency
features that may be overwritten, and the old label. Everything else in the table is untouched by
construction of the code (`df.copy()` + two `.loc` writes + `detect_bursts_cycles`), see C16_frame.
-/
namespace Bycycle

structure EdgeRow where
  voltRise : Rat
  voltDecay : Rat
  period : Rat
  ampFraction : Option Rat
  monotonicity : Option Rat
  ampCons : F
  perCons : F
  isBurst : Bool
  deriving Repr, DecidableEq, Inhabited

/-- `np.where(is_burst[1:] == ~is_burst[:-1])[0]`: positions `i` with `b[i+1] ≠ b[i]`. -/
def burstEdges (b : List Bool) : List Nat :=
  (List.range (b.length - 1)).filter fun i => b.getD (i + 1) false != b.getD i false

/-- even-indexed edges are burst starts (cycle before the burst), odd-indexed edges + 1 are burst ends
(cycle after the burst); zipped. -/
def edgeOps (b : List Bool) : List (Nat × Direction) :=
  let e := burstEdges b
  let starts := (e.zipIdx.filter fun p => p.2 % 2 == 0).map (·.1)
  let ends := (e.zipIdx.filter fun p => p.2 % 2 == 1).map (·.1 + 1)
  (starts.zip ends).flatMap fun (s, t) => [(s, Direction.next), (t, Direction.last)]

/-- `recompute_edge(df, cyc_idx, direction)`: three-row window, middle value written back. -/
def recomputeEdge (pc : Bool) (rows : List EdgeRow) (cyc : Nat) (dir : Direction) : Except Err (List EdgeRow) := do
  let lower := cyc - 1
  let upper := min (cyc + 2) rows.length
  let win := slice rows lower upper
  let ac ← ampConsistency pc dir (win.map (·.voltRise)) (win.map (·.voltDecay))
  let pcn ← periodConsistency dir (win.map (·.period))
  match ac[1]?, pcn[1]?, rows[cyc]? with
  | some a, some p, some r => .ok (rows.set cyc { r with ampCons := a, perCons := p })
  | _, _, _ => .error .indexError

def F.toFeature : F → Option Rat | .fin q => some q | _ => none

def EdgeRow.toCyc (r : EdgeRow) : CycRow := ⟨r.ampFraction, r.ampCons.toFeature, r.perCons.toFeature, r.monotonicity⟩

/-- `recompute_edges(df, threshold_kwargs)` for consistency detection. -/
def recomputeEdges (pc : Bool) (rows : List EdgeRow) (th : CycThresh) : Except Err (List EdgeRow) := do
  let edited ← (edgeOps (rows.map (·.isBurst))).foldlM (fun acc (op : Nat × Direction) => recomputeEdge pc acc op.1 op.2) rows
  let labels ← detectCycles (edited.map (·.toCyc)) th
  .ok ((edited.zip labels).map fun (r, l) => { r with isBurst := l })

/-! ## Specification (C16) -/

/-- cycle `c` is immediately before a burst / immediately after a burst (old labels `b`). -/
def isStartEdge (b : List Bool) (c : Nat) : Bool := !b.getD c false && b.getD (c + 1) false
def isEndEdge (b : List Bool) (c : Nat) : Bool := decide (0 < c) && b.getD (c - 1) false && !b.getD c false

/-- the edited table: only cycles immediately outside a burst get the one-sided consistency looking into
the burst (`next` for the cycle before a burst, `last` for the cycle after one; a cycle between two
bursts ends up with the `next` value, as the loop order prescribes); the table's first and last cycle
stay NaN. -/
def editedSpec (pc : Bool) (rows : List EdgeRow) : List EdgeRow :=
  let b := rows.map (·.isBurst)
  let n := rows.length
  let fl := flankSeq pc (rows.map (·.voltRise)) (rows.map (·.voltDecay))
  let per := rows.map (·.period)
  rows.zipIdx.map fun (r, c) =>
    let dir? : Option Direction := if isStartEdge b c then some .next else if isEndEdge b c then some .last else none
    match dir? with
    | none => r
    | some dir =>
      if c = 0 ∨ c + 1 = n then { r with ampCons := .nan, perCons := .nan }
      else
        let pl := ratioMinMax (per.getD c 0) (per.getD (c - 1) 0)
        let pn := ratioMinMax (per.getD (c + 1) 0) (per.getD c 0)
        { r with ampCons := ampConsSpecDir dir fl c, perCons := match dir with | .next => pn | .last => pl | .both => pn }

/-- old labels come from consistency detection: first and last cycle are not bursting. -/
def labelsWellFormed (b : List Bool) : Prop := b.headD false = false ∧ b.getLastD false = false

end Bycycle
