import BycycleModel.Shape
import BycycleModel.Generated.SlotsShapeExpr
/-!
# The shape arithmetic as TRANSLATED from the source (`Generated/SlotsShapeExpr.lean`)

`shapeOfRowGen` evaluates the translated column expressions; the driver (correspondence runs) uses it, so
the executable model follows what the source says now. `Props/C04.lean` proves it equal to the hand-written
`shapeOfRow` about which the C04 theorems speak (`C04_generated`); if an expression or the column assembly
in the source changes, that proof obligation breaks while the driver keeps agreeing with the implementation.
-/
namespace Bycycle

def sampleCol (r : SampleRow) : String → Except Err Int
  | "sample_peak" => .ok r.peak
  | "sample_last_zerox_decay" => .ok r.lastZeroxDecay
  | "sample_zerox_decay" => .ok r.zeroxDecay
  | "sample_zerox_rise" => .ok r.zeroxRise
  | "sample_last_trough" => .ok r.lastTrough
  | "sample_next_trough" => .ok r.nextTrough
  | _ => .error .keyError

/-- value of an expression: exact rational, with numpy's float division (`x/0` is ±inf or NaN) at `div`. -/
def evalS (sig : List Rat) (r : SampleRow) : SExpr → Except Err F
  | .col n => (sampleCol r n).map fun i => F.fin (i : Rat)
  | .sigAt e => do
      match ← evalS sig r e with
      | .fin q => if q.den = 1 then (pyIdx sig q.num).map F.fin else .error .indexError
      | _ => .error .indexError
  | .const q => .ok (.fin q)
  | .add a b => do
      match ← evalS sig r a, ← evalS sig r b with
      | .fin x, .fin y => .ok (.fin (x + y))
      | _, _ => .ok .nan
  | .sub a b => do
      match ← evalS sig r a, ← evalS sig r b with
      | .fin x, .fin y => .ok (.fin (x - y))
      | _, _ => .ok .nan
  | .mul a b => do
      match ← evalS sig r a, ← evalS sig r b with
      | .fin x, .fin y => .ok (.fin (x * y))
      | _, _ => .ok .nan
  | .div a b => do
      match ← evalS sig r a, ← evalS sig r b with
      | .fin x, .fin y => .ok (F.divRat x y)
      | _, _ => .ok .nan
  | .bandAmp => .ok .nan

def F.toRat : F → Rat | .fin q => q | _ => 0
def F.toInt (v : F) : Int := v.toRat.floor

/-- the generated definition of column `name`. -/
def genCol (sig : List Rat) (r : SampleRow) (name : String) : Except Err F :=
  match Slots.shapeDefs.find? (·.1 == name) with
  | some (_, e) => evalS sig r e
  | none => .error .keyError

/-- one row of the peak-centred shape table, evaluated from the translated expressions. -/
def shapeOfRowGen (sig : List Rat) (r : SampleRow) : Except Err ShapeRow := do
  let period ← genCol sig r "period"; let timePeak ← genCol sig r "time_peak"; let timeTrough ← genCol sig r "time_trough"
  let voltPeak ← genCol sig r "volt_peak"; let voltTrough ← genCol sig r "volt_trough"
  let timeDecay ← genCol sig r "time_decay"; let timeRise ← genCol sig r "time_rise"
  let voltDecay ← genCol sig r "volt_decay"; let voltRise ← genCol sig r "volt_rise"; let voltAmp ← genCol sig r "volt_amp"
  let rdsym ← genCol sig r "time_rdsym"; let ptsym ← genCol sig r "time_ptsym"
  .ok { period := period.toInt, timePeak := timePeak.toInt, timeTrough := timeTrough.toInt, voltPeak := voltPeak.toRat, voltTrough := voltTrough.toRat,
        timeDecay := timeDecay.toInt, timeRise := timeRise.toInt, voltDecay := voltDecay.toRat, voltRise := voltRise.toRat, voltAmp := voltAmp.toRat,
        timeRdsym := rdsym, timePtsym := ptsym, bandAmp := .nan }

/-- `shapePeak` / `shapeFeatures` with the translated row arithmetic (used by the driver). -/
def shapePeakGen (sig amp : List Rat) (rows : List SampleRow) : Except Err (List ShapeRow) := do
  let sh ← rows.mapM (shapeOfRowGen sig)
  let ba ← bandAmps amp rows
  .ok ((sh.zip ba).map fun (s, a) => { s with bandAmp := a })

def shapeFeaturesGen (c : Centre) (sigUsed ampUsed : List Rat) (rows : List SampleRow) : Except Err (List ShapeRow) :=
  match c with
  | .peak => shapePeakGen sigUsed ampUsed rows
  | .trough => (shapePeakGen sigUsed ampUsed rows).map fun l => l.map fun s => Slots.flipShape (Slots.renameShape s)

end Bycycle
