import BycycleModel.Basic
/-! Types for the group functions' shape/axis decision table. -/
namespace Bycycle

inductive Axis where | none | a0 | a1 | a01 | other
  deriving Repr, DecidableEq, Inhabited

/-- what `check_kwargs_shape` looks at, for an ndarray option list: the first two extents of `sigs`
(`sigsDim1 = none` for a 2-D array), the first two extents of the list (`kwDim1 = none` unless it is 2-D),
its ndim, and the axis. -/
structure KwShape where
  sigsDim0 : Nat
  sigsDim1 : Option Nat
  kwNdim : Nat
  kwDim0 : Nat
  kwDim1 : Option Nat
  axis : Axis
  deriving Repr, DecidableEq, Inhabited

/-- the `multiprocessing.Pool` mapping methods. -/
inductive PoolMethod where | imap | map | imapUnordered
  deriving Repr, DecidableEq, Inhabited

end Bycycle
