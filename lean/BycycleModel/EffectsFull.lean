import BycycleModel.Effects
/-!
# Interprocedural semantics for the effect IR

`Effects.lean` gives a call the effect of its summary (modular semantics). Here a call to a function of
the program EXECUTES the callee's body (parameters bound to the argument objects, fresh locals, writes on
the shared object store); callees outside the program (kernels of other libraries) keep the contract
semantics. `fuel` is a step budget; the soundness theorem holds for every budget.
-/
namespace Bycycle.Eff

def lookupFn (prog : List Fn) (name : String) : Option Fn := prog.find? (·.name == name)

/-- bind the callee's parameters to the objects of the argument variables (unbound arguments get fresh objects). -/
def bindParams (s : St) (params : List Var) (args : List Var) : St :=
  (params.zip args).foldl
    (fun (acc : St) (pa : Var × Var) =>
      match s.get pa.2 with
      | some o => acc.bind pa.1 o
      | none => { (acc.bind pa.1 acc.next) with next := acc.next + 1 })
    { env := [], next := s.next, written := s.written }

/-- executes a statement list with real calls. `fuel` is a step budget (every statement and every call
consumes one unit; when it runs out execution stops, so the theorems hold for every budget). A branch
is run in continuation style (`a ++ rest`) so that a branch cut short by the budget is never followed by the
continuation (that would not be a prefix of any real execution). -/
def execFull (prog : List Fn) (summ : Summ) : Nat → St → List Bool → List Stmt → St × List Bool
  | 0, s, oracle, _ => (s, oracle)
  | _ + 1, s, oracle, [] => (s, oracle)
  | n + 1, s, oracle, st :: rest =>
    match st with
    | .fresh x => execFull prog summ n { (s.bind x s.next) with next := s.next + 1 } oracle rest
    | .alias x y =>
      execFull prog summ n (match s.get y with | some o => s.bind x o | none => { (s.bind x s.next) with next := s.next + 1 }) oracle rest
    | .copyIf g x y =>
      execFull prog summ n
        (if g then { (s.bind x s.next) with next := s.next + 1 }
         else match s.get y with | some o => s.bind x o | none => { (s.bind x s.next) with next := s.next + 1 }) oracle rest
    | .write x => execFull prog summ n (match s.get x with | some o => { s with written := o :: s.written } | none => s) oracle rest
    | .ite a b =>
      match oracle with
      | true :: o' => execFull prog summ n s o' (a ++ rest)
      | _ :: o' => execFull prog summ n s o' (b ++ rest)
      | [] => execFull prog summ n s [] (b ++ rest)
    | .call f args =>
      match lookupFn prog f with
      | some g =>
        let r := execFull prog summ n (bindParams s g.params args) oracle g.body
        execFull prog summ n { s with next := r.1.next, written := r.1.written } r.2 rest
      | none =>
        execFull prog summ n { s with written := ((summ.get f).filterMap fun p => (args[p]?).bind s.get) ++ s.written } oracle rest

/-- caller objects written by running `f`'s body with real calls. -/
def Fn.runFull (prog : List Fn) (summ : Summ) (fuel : Nat) (f : Fn) (oracle : List Bool) : List Nat :=
  ((execFull prog summ fuel (initSt f.params) oracle f.body).1.written.filter fun o => decide (o < f.params.length))

end Bycycle.Eff
