import BycycleModel.Cyclepoints
import BycycleModel.Generated.SlotsGroup
import BycycleModel.Generated.SlotsFrames
/-!
# Table utilities: `epoch_df`, `limit_df`, `limit_signal`, `drop_samples_df` / `split_samples_df`,
`flatten_dfs` (bycycle/utils/dataframes.py, utils/timeseries.py) and `compute_features_2d(axis=None)`

A table row is abstract: only its six sample columns matter here; everything else travels in `payload`.
`SampleRow` is read as (centre, lastZerox, zeroxA, zeroxB, lastSide, nextSide) for either centring.
-/
namespace Bycycle

structure FRow (P : Type) where
  s : SampleRow
  payload : P

/-- subtract `k` from every sample column. -/
def SampleRow.shift (r : SampleRow) (k : Int) : SampleRow :=
  ⟨r.peak - k, r.lastZeroxDecay - k, r.zeroxDecay - k, r.zeroxRise - k, r.lastTrough - k, r.nextTrough - k⟩

def FRow.shift {P} (r : FRow P) (k : Int) : FRow P := { r with s := r.s.shift k }

/-- `epoch_df(df, sig_len, epoch_len)`: epoch `e` covers `(e·L, (e+1)·L]` of the CLOSING side extremum. -/
def epochDf {P} (rows : List (FRow P)) (sigLen epochLen : Nat) : List (List (FRow P)) :=
  let nEpochs := (sigLen + epochLen - 1) / epochLen          -- len(arange(L, sig_len + L, L))
  (List.range nEpochs).map fun e =>
    let first : Int := (e * epochLen : Nat)
    let last : Int := ((e + 1) * epochLen : Nat)
    (rows.filter fun r => Slots.epochUpperCmp.evalInt r.s.nextTrough last && Slots.epochLowerCmp.evalInt r.s.nextTrough first).map
      fun r => r.shift first

/-- `compute_features_2d(axis=None)`: analyse the flattened signal once with the first option set, epoch,
and re-label epoch `e` with option set `e` only when a per-epoch LIST (more than one set) was given.
`relabel o t` stands for `detect_bursts_*(t, **o.threshold_kwargs)`. -/
def featuresFlat {P O} (analyseFlat : O → List (FRow P)) (relabel : O → List (FRow P) → List (FRow P))
    (ks : List O) (dflt : O) (sigLen epochLen : Nat) : List (List (FRow P)) :=
  let eps := epochDf (analyseFlat (ks.headD dflt)) sigLen epochLen
  if Slots.relabelCmp.evalInt ks.length Slots.relabelLen then
    eps.zipIdx.map fun (t, e) => match ks[e]? with | some o => relabel o t | none => t
  else eps

/-- `limit_df(df, fs, start, stop, reset_indices)`; `fsStart = start*fs`, `fsStop = stop*fs` exactly,
`off = int(fs*start)`. -/
def limitDf {P} (rows : List (FRow P)) (fsStart : Rat) (fsStop : Option Rat) (off : Int) (reset : Bool) : List (FRow P) :=
  let kept := rows.filter fun r => Slots.limitLoCmp.evalRat (r.s.lastTrough : Rat) fsStart
  let kept := match fsStop with
    | some st => kept.filter fun r => Slots.limitHiCmp.evalRat (r.s.nextTrough : Rat) st
    | none => kept
  if reset then kept.map (·.shift off) else kept

/-- `limit_signal(times, sig, start, stop)`: returns the kept sample indices. -/
def limitSignal (times : List Rat) (start stop : Option Rat) : List Nat :=
  let idx := List.range times.length
  let idx := match start with | some a => idx.filter (fun i => Slots.sigLoCmp.evalRat (times.getD i 0) a) | none => idx
  match stop with | some b => idx.filter (fun i => Slots.sigHiCmp.evalRat (times.getD i 0) b) | none => idx

/-! ## Specifications (C13, C18) -/

/-- number of epochs: `len(np.arange(L, sig_len + L, L))`. -/
def nEpochs (sigLen epochLen : Nat) : Nat := (sigLen + epochLen - 1) / epochLen

/-- C13: epoch `e` holds exactly the rows whose closing side extremum lies in `(e·L, (e+1)·L]`, in the
original order, feature values untouched, sample indices shifted by `e·L`. -/
def epochSpec {P} (rows : List (FRow P)) (sigLen L : Nat) : List (List (FRow P)) :=
  (List.range (nEpochs sigLen L)).map fun e =>
    (rows.filter fun r => decide (((e * L : Nat) : Int) < r.s.nextTrough) && decide (r.s.nextTrough ≤ (((e + 1) * L : Nat) : Int))).map
      fun r => r.shift ((e * L : Nat) : Int)

/-- C18: `limit_df` keeps, in order, the rows with `last side ≥ start·fs` and `next side ≤ stop·fs`. -/
def limitSpec {P} (rows : List (FRow P)) (fsStart : Rat) (fsStop : Option Rat) (off : Int) (reset : Bool) : List (FRow P) :=
  let kept := rows.filter fun r => decide (fsStart ≤ (r.s.lastTrough : Rat)) &&
    (match fsStop with | some st => decide ((r.s.nextTrough : Rat) ≤ st) | none => true)
  if reset then kept.map (·.shift off) else kept

/-- C18: `limit_signal` keeps exactly the samples with `start ≤ t < stop`. -/
def limitSignalSpec (times : List Rat) (start stop : Option Rat) : List Nat :=
  (List.range times.length).filter fun i =>
    (match start with | some a => decide (a ≤ times.getD i 0) | none => true) &&
    (match stop with | some b => decide (times.getD i 0 < b) | none => true)

/-- `drop_samples_df`: column names that remain; `split_samples_df`: (rest, sample columns). -/
def dropSamples (cols : List String) : List String := cols.filter fun c => !c.startsWith "sample_"
def splitSamples (cols : List String) : List String × List String :=
  (cols.filter fun c => !c.startsWith "sample_", cols.filter fun c => c.startsWith "sample_")

/-- `flatten_dfs` for a 1-D list: each row gets the label of its table, tables concatenated in order. -/
def flattenDfs {α L} (tables : List (List α)) (labels : List L) : Except Err (List (α × L)) :=
  if labels.length ≠ tables.length then .error .valueError
  else .ok ((tables.zip labels).flatMap fun (t, l) => t.map fun r => (r, l))

/-- 2-D list of tables with a (flattened) list of labels: row-major order. -/
def flattenDfs2 {α L} (tables : List (List (List α))) (labels : List L) : Except Err (List (α × L)) :=
  if labels.length ≠ tables.length * (tables.headD []).length then .error .valueError
  else flattenDfs tables.flatten labels

end Bycycle
