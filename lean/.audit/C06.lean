import Props.C06
#print axioms Bycycle.C06_rule
#print axioms Bycycle.C06_length
#print axioms Bycycle.C06_pointwise
#print axioms Bycycle.C06_sound
#print axioms Bycycle.C06_complete
#print axioms Bycycle.C06_ends
#print axioms Bycycle.C06_strict
#print axioms Bycycle.C06_antitone
#print axioms Bycycle.C06_rejects_threshold
#print axioms Bycycle.C06_rejects_minN
#print axioms Bycycle.C06_pipeline
