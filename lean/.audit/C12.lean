import Props.C12
#print axioms Bycycle.C12_axis01
#print axioms Bycycle.C12_axis0
#print axioms Bycycle.C12_axis1
#print axioms Bycycle.C12_transpose
#print axioms Bycycle.C12_index_counterexample
