import Props.C16
#print axioms Bycycle.C16_relabel
#print axioms Bycycle.C16_edit
#print axioms Bycycle.C16_frame
#print axioms Bycycle.C16_value
#print axioms Bycycle.C16_grow
#print axioms Bycycle.C16_connected
