import Props.C03
#print axioms Bycycle.C03_crossings
#print axioms Bycycle.C03_crossing_rise
#print axioms Bycycle.C03_crossing_decay
#print axioms Bycycle.C03_value
#print axioms Bycycle.C03_crossing_exists_rise
#print axioms Bycycle.C03_crossing_exists_decay
#print axioms Bycycle.C03_single
#print axioms Bycycle.C03_median
#print axioms Bycycle.C03_centre
#print axioms Bycycle.C03_within_segment
#print axioms Bycycle.C03_count
#print axioms Bycycle.C03_within
#print axioms Bycycle.C03_counts_order
