import Props.C01
#print axioms Bycycle.C01_structure
#print axioms Bycycle.C01_row
#print axioms Bycycle.C01_total
#print axioms Bycycle.C01_rows
#print axioms Bycycle.C01_degenerate
#print axioms Bycycle.C01_labelling_total
#print axioms Bycycle.C01_three_oscillations
#print axioms Bycycle.C01_pipeline
