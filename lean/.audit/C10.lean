import Props.C10
#print axioms Bycycle.C10_cyclepoints
#print axioms Bycycle.C10_argext
#print axioms Bycycle.C10_midpoints
#print axioms Bycycle.C10_shape
#print axioms Bycycle.C10_burst_features
#print axioms Bycycle.C10_ratio
#print axioms Bycycle.C10_period_consistency
#print axioms Bycycle.C10_rate
#print axioms Bycycle.C10_amplitude
