import Props.C07
#print axioms Bycycle.C07_detector_args
#print axioms Bycycle.C07_fraction
#print axioms Bycycle.C07_fraction_inside
#print axioms Bycycle.C07_fraction_range
#print axioms Bycycle.C07_rule
#print axioms Bycycle.C07_pointwise
#print axioms Bycycle.C07_one_minN
#print axioms Bycycle.C07_antitone
#print axioms Bycycle.C07_rejects_threshold
#print axioms Bycycle.C07_rejects_amp_threshes
