import Props.C04
#print axioms Bycycle.C04_equals_spec_peak
#print axioms Bycycle.C04_equals_spec_trough
#print axioms Bycycle.C04_identities_peak
#print axioms Bycycle.C04_identities_trough
#print axioms Bycycle.C04_band_amp_window
#print axioms Bycycle.C04_generated
#print axioms Bycycle.C04_generated_row
