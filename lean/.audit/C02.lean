import Props.C02
#print axioms Bycycle.C02_crossing_char_rise
#print axioms Bycycle.C02_crossing_char_decay
#print axioms Bycycle.C02_crossings_sorted
#print axioms Bycycle.C02_alternation
#print axioms Bycycle.C02_halfwave_pos
#print axioms Bycycle.C02_halfwave_neg
#print axioms Bycycle.C02_first_max
#print axioms Bycycle.C02_first_min
#print axioms Bycycle.C02_exact
#print axioms Bycycle.C02_boundary
#print axioms Bycycle.C02_alternating
#print axioms Bycycle.C02_first
#print axioms Bycycle.C02_full
