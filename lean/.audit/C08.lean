import Props.C08
#print axioms Bycycle.C08_length
#print axioms Bycycle.C08_pointwise
#print axioms Bycycle.C08_kept_entirely
#print axioms Bycycle.C08_cleared_entirely
#print axioms Bycycle.C08_runLen_const
#print axioms Bycycle.C08_no_new_true
#print axioms Bycycle.C08_idempotent
#print axioms Bycycle.C08_edges
#print axioms Bycycle.C08_antitone_k
#print axioms Bycycle.C08_monotone_mask
#print axioms Bycycle.C08_guard
#print axioms Bycycle.C08_small_k
