import Props.C09
#print axioms Bycycle.C09_shape
#print axioms Bycycle.C09_neg_involutive
#print axioms Bycycle.C09_mirror_involutive
#print axioms Bycycle.C09_amp_consistency
#print axioms Bycycle.C09_monotonicity
#print axioms Bycycle.C09_burst_fraction
#print axioms Bycycle.C09_labels
#print axioms Bycycle.C09_mirror
