import Props.C13
#print axioms Bycycle.C13_epoch_rule
#print axioms Bycycle.C13_unique_epoch
#print axioms Bycycle.C13_membership
#print axioms Bycycle.C13_partition
#print axioms Bycycle.C13_shift_inverse
#print axioms Bycycle.C13_single_labels
#print axioms Bycycle.C13_list_labels
