import Props.C11
#print axioms Bycycle.C11_positional
#print axioms Bycycle.C11_length
#print axioms Bycycle.C11_schedule_independent
#print axioms Bycycle.C11_imap_ordered
#print axioms Bycycle.C11_unordered_counterexample
