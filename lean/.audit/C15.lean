import Props.C15
#print axioms Bycycle.Eff.C15_sound
#print axioms Bycycle.Eff.C15_static
#print axioms Bycycle.Eff.C15_frame
#print axioms Bycycle.Eff.C15_summaries
#print axioms Bycycle.Eff.C15_frame_full
#print axioms Bycycle.Eff.C15_sound_full
