import Props.C20
#print axioms Bycycle.C20_offset
#print axioms Bycycle.C20_markers_sound
#print axioms Bycycle.C20_markers_complete
#print axioms Bycycle.C20_mask_sound
#print axioms Bycycle.C20_mask_complete
#print axioms Bycycle.C20_truncation_counterexample
