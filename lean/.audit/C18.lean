import Props.C18
#print axioms Bycycle.C18_limit_rule
#print axioms Bycycle.C18_limit_sublist
#print axioms Bycycle.C18_limit_membership
#print axioms Bycycle.C18_limit_outside
#print axioms Bycycle.C18_limit_reset
#print axioms Bycycle.C18_limit_signal
#print axioms Bycycle.C18_split_drop
#print axioms Bycycle.C18_flatten
#print axioms Bycycle.C18_flatten_labels
