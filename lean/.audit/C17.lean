import Props.C17
#print axioms Bycycle.C17_array
#print axioms Bycycle.C17_anchors
#print axioms Bycycle.C17_range
#print axioms Bycycle.C17_span
#print axioms Bycycle.C17_monotone
#print axioms Bycycle.C17_interp
#print axioms Bycycle.C17_no_cyclepoints
