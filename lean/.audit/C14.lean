import Props.C14
#print axioms Bycycle.C14_fit_no_stale_state
#print axioms Bycycle.C14_shorthand
#print axioms Bycycle.C14_reduce
