import Props.C14
#print axioms Bycycle.C14_fit_no_stale_state
#print axioms Bycycle.C14_shorthand
#print axioms Bycycle.C14_reduce
#print axioms Bycycle.C14_history_independence
#print axioms Bycycle.C14_settings_history
#print axioms Bycycle.C14_edges
#print axioms Bycycle.C14_attr
#print axioms Bycycle.C14_failed_fit
#print axioms Bycycle.C14_table_kept
