import Props.C05
#print axioms Bycycle.C05_ampcons
#print axioms Bycycle.C05_ampcons_dir
#print axioms Bycycle.C05_ampcons_dir_both
#print axioms Bycycle.C05_flank_sequence
#print axioms Bycycle.C05_ampcons_range
#print axioms Bycycle.C05_ampcons_clamped
#print axioms Bycycle.C05_empty_table
#print axioms Bycycle.C05_percons
#print axioms Bycycle.C05_ratio_range
#print axioms Bycycle.C05_mono_steps
#print axioms Bycycle.C05_mono_range
#print axioms Bycycle.C05_rank
#print axioms Bycycle.C05_rank_range
#print axioms Bycycle.C05_rank_order
