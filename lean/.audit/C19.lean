import Props.C19
#print axioms Bycycle.C19_shape
#print axioms Bycycle.C19_shape_error_type
#print axioms Bycycle.C19_shape_dict
#print axioms Bycycle.C19_group
#print axioms Bycycle.C19_group_error_type
#print axioms Bycycle.C19_param_range
#print axioms Bycycle.C19_thresholds_cycles
#print axioms Bycycle.C19_min_n_cycles
#print axioms Bycycle.C19_threshold_amp
#print axioms Bycycle.C19_amp_threshes
#print axioms Bycycle.C19_first_extrema
#print axioms Bycycle.C19_options
#print axioms Bycycle.C19_fs
