import Proofs.Extrema
/-!
# C02 — extrema are raw-signal extremes of narrow-band half-waves

`findExtrema` transcribes bycycle/cyclepoints/extrema.py after the band-pass filter; the filter is a
parameter: `b` is ANY sign pattern of the filtered, zero-padded signal and `pad` any pad length.
`closedPos`/`closedNeg`, `peaksSpec`/`troughsSpec`, `boundarySpec`, `trimSpec` are the statement.
The hypotheses `risingX b ≠ []`, `decayingX b ≠ []` say that the filtered signal has at least one
zero-crossing of each direction (otherwise there is no closed half-wave and the code substitutes a
`len/2` dummy crossing; that case is compared model-vs-implementation only).
-/
namespace Bycycle

theorem C02_crossing_char_rise (b : List Bool) (i : Nat) :
    i ∈ risingX b ↔ (i + 1 < b.length ∧ b.getD i false = false ∧ b.getD (i + 1) false = true) := mem_risingX b i

theorem C02_crossing_char_decay (b : List Bool) (i : Nat) :
    i ∈ decayingX b ↔ (i + 1 < b.length ∧ b.getD i false = true ∧ b.getD (i + 1) false = false) := mem_decayingX b i

theorem C02_crossings_sorted (b : List Bool) :
    (risingX b).Pairwise (· < ·) ∧ (decayingX b).Pairwise (· < ·) := ⟨risingX_sorted b, decayingX_sorted b⟩

/-- rising and decaying zero-crossings alternate. -/
theorem C02_alternation (b : List Bool) :
    (∀ r r', r ∈ risingX b → r' ∈ risingX b → r < r' → ∃ d ∈ decayingX b, r < d ∧ d < r') ∧
    (∀ d d', d ∈ decayingX b → d' ∈ decayingX b → d < d' → ∃ r ∈ risingX b, d < r ∧ r < d') :=
  ⟨fun r r' => crossings_alternate_rd b r r', fun d d' => crossings_alternate_dr b d d'⟩

/-- `closedPos b` are exactly the positive half-waves closed by zero-crossings on both sides. -/
theorem C02_halfwave_pos (b : List Bool) (r d : Nat) :
    (r, d) ∈ closedPos b ↔
      (r < d ∧ d + 1 < b.length ∧ b.getD r false = false ∧
       (∀ j, r < j → j ≤ d → b.getD j false = true) ∧ b.getD (d + 1) false = false) := mem_closedPos b r d

theorem C02_halfwave_neg (b : List Bool) (d r : Nat) :
    (d, r) ∈ closedNeg b ↔
      (d < r ∧ r + 1 < b.length ∧ b.getD d false = true ∧
       (∀ j, d < j → j ≤ r → b.getD j false = false) ∧ b.getD (r + 1) false = true) := mem_closedNeg b d r

/-- the first occurrence of the maximum wins. -/
theorem C02_first_max (l : List Rat) (i : Nat) (h : argmaxFirst l = some i) :
    i < l.length ∧ (∀ j, j < l.length → l.getD j 0 ≤ l.getD i 0) ∧ (∀ j, j < i → l.getD j 0 < l.getD i 0) :=
  argmaxFirst_spec l i h

theorem C02_first_min (l : List Rat) (i : Nat) (h : argminFirst l = some i) :
    i < l.length ∧ (∀ j, j < l.length → l.getD i 0 ≤ l.getD j 0) ∧ (∀ j, j < i → l.getD i 0 < l.getD j 0) :=
  argminFirst_spec l i h

/-- exactly one peak per closed positive half-wave and one trough per closed negative half-wave, at the
first raw extremum over the half-wave's window; nothing else. -/
theorem C02_exact (sig : List Rat) (b : List Bool) (hlen : sig.length = b.length)
    (hr : risingX b ≠ []) (hd : decayingX b ≠ []) :
    rawExtrema sig b = .ok (peaksSpec sig b, troughsSpec sig b) := rawExtrema_eq_spec sig b hlen hr hd

/-- an extremum is kept iff `boundary < index < len(sig) - boundary` (after un-padding). -/
theorem C02_boundary (xs : List Nat) (pad n : Nat) (bd x : Int) :
    (unpadFilter Slots.boundaryLoCmp Slots.boundaryHiCmp xs pad n bd = boundarySpec xs pad n bd ∧
     unpadFilter Slots.boundaryLoCmpTroughs Slots.boundaryHiCmpTroughs xs pad n bd = boundarySpec xs pad n bd) ∧
    (x ∈ boundarySpec xs pad n bd ↔ ∃ y ∈ xs, x = (y : Int) - (pad : Int) ∧ bd < x ∧ x < (n : Int) - bd) :=
  ⟨unpadFilter_eq_spec xs pad n bd, mem_boundarySpec xs pad n bd x⟩

/-- reported peaks and troughs strictly alternate. -/
theorem C02_alternating (sig : List Rat) (b : List Bool) (hlen : sig.length = b.length) (pad n : Nat) (bd : Int) :
    StrictAlt (boundarySpec (peaksSpec sig b) pad n bd) (boundarySpec (troughsSpec sig b) pad n bd) :=
  boundary_alternating _ _ pad n bd (spec_alternating sig b hlen)

/-- with `first_extrema` set, the result starts with the requested kind and has equally many peaks and
troughs (and only drops extrema at the two ends). -/
theorem C02_first (fe : FirstExt) (P T : List Int) (h : StrictAlt P T) :
    trimFirst fe P T = trimSpec fe P T ∧
    (∀ P' T', trimSpec .peak P T = .ok (P', T') →
        altFrom true none P' T' = true ∧ P'.length = T'.length ∧ P'.Sublist P ∧ T'.Sublist T) ∧
    (∀ P' T', trimSpec .trough P T = .ok (P', T') →
        altFrom false none P' T' = true ∧ P'.length = T'.length ∧ P'.Sublist P ∧ T'.Sublist T) :=
  ⟨trimFirst_eq_spec fe P T h, fun P' T' => trimSpec_peak_props P T P' T' h, fun P' T' => trimSpec_trough_props P T P' T' h⟩

/-- the whole function equals its specification. -/
theorem C02_full (sig : List Rat) (pad : Nat) (b : List Bool) (bd : Int) (fe : FirstExt)
    (hlen : b.length = sig.length + 2 * pad) (hr : risingX b ≠ []) (hd : decayingX b ≠ []) :
    findExtrema sig pad b bd fe = findExtremaSpec sig pad b bd fe :=
  findExtrema_eq_spec sig pad b bd fe hlen hr hd

/-! non-vacuity -/
example : risingX [false, false, true, true, false, false, true] = [1, 5] ∧
    decayingX [false, false, true, true, false, false, true] = [3] ∧
    closedPos [false, false, true, true, false, false, true] = [(1, 3)] := by decide +kernel
example : findExtrema [0, 1, 3, 3, 1, -1, -2, -2, 0, 1, 2, 1, -1, -1] 0
    (([0,0,1,1,1,1,0,0,0,0,1,1,1,0] : List Nat).map (· == 1)) 0 .none = .ok ([2, 10], [6]) := by decide +kernel
example : StrictAlt [2, 10] [6] := by decide +kernel

end Bycycle
