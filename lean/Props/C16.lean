import BycycleModel.Routing
import Proofs.Edges
/-!
# C16 — edge recomputation touches only burst edges and only grows bursts

`recomputeEdges` transcribes `recompute_edges` / `recompute_edge` (burst/utils.py): edge location from
label transitions, three-row window, directional consistency (C05), write-back, re-thresholding (C06).
-/
namespace Bycycle

/-- the routine equals: edit per specification, then the threshold-and-run rule on the edited table. -/
theorem C16_relabel (pc : Bool) (rows : List EdgeRow) (th : CycThresh)
    (hwf : labelsWellFormed (rows.map (·.isBurst))) (hv : th.valid) (hk : rows = [] ∨ 0 ≤ th.minN) :
    recomputeEdges pc rows th =
      .ok (((editedSpec pc rows).zip (cyclesSpec ((editedSpec pc rows).map (·.toCyc)) th)).map fun p => { p.1 with isBurst := p.2 }) :=
  recomputeEdges_eq_spec pc rows th hwf hv hk

theorem C16_edit (pc : Bool) (rows : List EdgeRow) (hwf : labelsWellFormed (rows.map (·.isBurst))) :
    (edgeOps (rows.map (·.isBurst))).foldlM (fun acc (op : Nat × Direction) => recomputeEdge pc acc op.1 op.2) rows
      = .ok (editedSpec pc rows) := edited_eq_spec pc rows hwf

/-- all other columns and rows are unchanged; only cycles immediately outside a burst may change their
consistency features; burst cycles never do. -/
theorem C16_frame (pc : Bool) (rows : List EdgeRow) (c : Nat) :
    (editedSpec pc rows).length = rows.length ∧
    (∀ r, rows[c]? = some r → ∃ r', (editedSpec pc rows)[c]? = some r' ∧ r'.voltRise = r.voltRise ∧ r'.voltDecay = r.voltDecay ∧
        r'.period = r.period ∧ r'.ampFraction = r.ampFraction ∧ r'.monotonicity = r.monotonicity ∧ r'.isBurst = r.isBurst) ∧
    ((isStartEdge (rows.map (·.isBurst)) c = false ∧ isEndEdge (rows.map (·.isBurst)) c = false) → (editedSpec pc rows)[c]? = rows[c]?) ∧
    ((rows.map (·.isBurst)).getD c false = true → (editedSpec pc rows)[c]? = rows[c]?) :=
  ⟨editedSpec_length pc rows, fun r hr => editedSpec_frame pc rows c r hr, editedSpec_untouched pc rows c,
   fun h => editedSpec_untouched pc rows c (burst_not_edge _ c h)⟩

/-- the replaced value is the one-sided consistency looking into the burst. -/
theorem C16_value (pc : Bool) (rows : List EdgeRow) (c : Nat) (r : EdgeRow) (hr : rows[c]? = some r)
    (hint : 0 < c ∧ c + 1 < rows.length) :
    (isStartEdge (rows.map (·.isBurst)) c = true →
      ∃ r', (editedSpec pc rows)[c]? = some r' ∧
        r'.ampCons = ampConsSpecDir .next (flankSeq pc (rows.map (·.voltRise)) (rows.map (·.voltDecay))) c ∧
        r'.perCons = ratioMinMax ((rows.map (·.period)).getD (c + 1) 0) ((rows.map (·.period)).getD c 0)) ∧
    (isStartEdge (rows.map (·.isBurst)) c = false → isEndEdge (rows.map (·.isBurst)) c = true →
      ∃ r', (editedSpec pc rows)[c]? = some r' ∧
        r'.ampCons = ampConsSpecDir .last (flankSeq pc (rows.map (·.voltRise)) (rows.map (·.voltDecay))) c ∧
        r'.perCons = ratioMinMax ((rows.map (·.period)).getD c 0) ((rows.map (·.period)).getD (c - 1) 0)) :=
  editedSpec_value pc rows c r hr hint

/-- with unchanged thresholds every previously bursting cycle stays bursting. -/
theorem C16_grow (pc : Bool) (rows : List EdgeRow) (th : CycThresh)
    (hold : rows.map (·.isBurst) = cyclesSpec (rows.map (·.toCyc)) th) :
    maskLe (rows.map (·.isBurst)) (cyclesSpec ((editedSpec pc rows).map (·.toCyc)) th) :=
  edges_grow pc rows th hold

/-- bursts can only grow at their edges: every new burst run reaches an old burst cycle. -/
theorem C16_connected (pc : Bool) (rows : List EdgeRow) (th : CycThresh)
    (hold : rows.map (·.isBurst) = cyclesSpec (rows.map (·.toCyc)) th) (i : Nat)
    (hi : (cyclesSpec ((editedSpec pc rows).map (·.toCyc)) th).getD i false = true) :
    ∃ j, (rows.map (·.isBurst)).getD j false = true ∧
      ∀ t, min i j ≤ t → t ≤ max i j → (cyclesSpec ((editedSpec pc rows).map (·.toCyc)) th).getD t false = true :=
  edges_connected pc rows th hold i hi

/-- the wiring read off the source: one one-sided recomputation per burst side ('next' before the burst, 'last' after it), each consistency function gets the
direction it was asked for, the re-labelling the caller's thresholds. -/
theorem C16_routing : ∀ r ∈ Routing.edges, Routing.holds Slots.routes r = true := by decide +kernel

/-- KNOWN FINDING (DESIGN.md 14a, `known_findings.json`), stated about the model. `recompute_edge` hands a three-row slice to `compute_amp_consistency`, which
recognises a peak-centred table ONLY by its `sample_peak` column; for a peak-centred table WITHOUT sample columns the code therefore evaluates
`recomputeEdges false`. On this six-cycle table (one burst, rows 2-3) that is NOT the edge recomputation of its true centring: the cycle before the burst
gets consistency 1/2 instead of 1/4 and, with an amplitude-consistency threshold of 2/5, joins the burst although the specification leaves it out.
`./check C16` replays such tables on the real code (one generated table in five) and reports them as KNOWN-FINDING exactly when the implementation
returns what `recomputeEdges false` / `editedSpec false` predict. -/
def findingRows : List EdgeRow :=
  [⟨1, 1, 5, some (1/2), some 1, .nan, .nan, false⟩, ⟨2, 1, 5, some (1/2), some 1, .fin (1/2), .fin 1, false⟩, ⟨4, 4, 5, some (1/2), some 1, .fin 1, .fin 1, true⟩,
   ⟨4, 4, 5, some (1/2), some 1, .fin 1, .fin 1, true⟩, ⟨4, 2, 5, some (1/2), some 1, .fin (1/2), .fin 1, false⟩, ⟨1, 1, 5, some (1/2), some 1, .nan, .nan, false⟩]

theorem C16_known_finding_witness :
    ((recomputeEdges true findingRows ⟨0, 2/5, 1/2, 1/2, 2⟩).map fun rs => rs.map fun r => (r.ampCons, r.isBurst)) =
      .ok [(.nan, false), (.fin (1/4), false), (.fin 1, true), (.fin 1, true), (.fin (1/2), true), (.nan, false)] ∧
    ((recomputeEdges false findingRows ⟨0, 2/5, 1/2, 1/2, 2⟩).map fun rs => rs.map fun r => (r.ampCons, r.isBurst)) =
      .ok [(.nan, false), (.fin (1/2), true), (.fin 1, true), (.fin 1, true), (.fin (1/2), true), (.nan, false)] := by
  decide +kernel

end Bycycle
