import BycycleModel.Routing
import Proofs.Shape
import Proofs.ShapeGen
/-!
# C04 — shape features equal their documented definitions

`shapePeak` / `shapeFeatures` transcribe bycycle/features/shape.py; the trough-centring renaming and sign
flips are GENERATED from `rename_extrema_df` (`Generated/SlotsShape.lean`). `shapeSpecPeak` /
`shapeSpecTrough` are the documented definitions read against the original signal. `amp_by_time` is a
parameter (`amp`). Hypotheses `inside` and `tiles` are exactly what C01 proves of every returned table.
-/
namespace Bycycle

theorem C04_equals_spec_peak (x amp : List Rat) (rows : List SampleRow) (hne : rows ≠ [])
    (hin : ∀ r ∈ rows, r.inside x.length) (ht : tiles rows) :
    shapeFeatures .peak x amp rows = .ok (rows.map (shapeSpecPeak x amp)) :=
  shapePeak_eq_spec x amp rows hne hin ht

theorem C04_equals_spec_trough (x amp : List Rat) (rows : List SampleRow) (hne : rows ≠ [])
    (hin : ∀ r ∈ rows, r.inside x.length) (ht : tiles rows) :
    shapeFeatures .trough (x.map (- ·)) amp rows =
      .ok (rows.map fun r => shapeSpecTrough x amp (Slots.renameSamples r)) :=
  shapeTrough_eq_spec x amp rows hne hin ht

/-- period = next side − last side = time_rise + time_decay; volt_amp is the mean of the two flank
voltages; time_rdsym lies strictly in (0,1) and time_ptsym in [0,1]. -/
theorem C04_identities_peak (x amp : List Rat) (r : SampleRow) (h : r.inside x.length) :
    (shapeSpecPeak x amp r).period = r.nextTrough - r.lastTrough ∧
    (shapeSpecPeak x amp r).period = (shapeSpecPeak x amp r).timeRise + (shapeSpecPeak x amp r).timeDecay ∧
    (shapeSpecPeak x amp r).voltAmp = ((shapeSpecPeak x amp r).voltRise + (shapeSpecPeak x amp r).voltDecay) / 2 ∧
    (∃ q, (shapeSpecPeak x amp r).timeRdsym = .fin q ∧ 0 < q ∧ q < 1) ∧
    (∃ q, (shapeSpecPeak x amp r).timePtsym = .fin q ∧ 0 ≤ q ∧ q ≤ 1) :=
  shapeSpecPeak_identities x amp r h

theorem C04_identities_trough (x amp : List Rat) (r : SampleRow) (h : r.inside x.length) :
    let s := shapeSpecTrough x amp (Slots.renameSamples r)
    s.period = (Slots.renameSamples r).nextPeak - (Slots.renameSamples r).lastPeak ∧
    s.period = s.timeRise + s.timeDecay ∧
    s.voltAmp = (s.voltRise + s.voltDecay) / 2 ∧
    (∃ q, s.timeRdsym = .fin q ∧ 0 < q ∧ q < 1) ∧
    (∃ q, s.timePtsym = .fin q ∧ 0 ≤ q ∧ q ≤ 1) :=
  shapeSpecTrough_identities x amp r h

theorem C04_band_amp_window (x amp : List Rat) (r : SampleRow) (h : r.inside x.length) (hamp : amp.length = x.length) :
    (shapeSpecPeak x amp r).bandAmp =
      .fin (sumRat ((List.range (r.nextTrough - r.lastTrough).toNat).map fun j => amp.getD (r.lastTrough.toNat + j) 0)
            / ((r.nextTrough - r.lastTrough).toNat : Rat)) :=
  bandAmp_window x amp r h hamp

/-- TIE TO THE SOURCE: the column arithmetic translated from bycycle/features/shape.py on this run
(`Generated/SlotsShapeExpr.lean`, evaluated by `shapeFeaturesGen`, which is what the driver runs against the
implementation) produces exactly the table of the hand-written transcription the theorems above speak about. -/
theorem C04_generated (c : Centre) (sig amp : List Rat) (rows : List SampleRow) (l : List ShapeRow)
    (h : shapeFeatures c sig amp rows = .ok l) : shapeFeaturesGen c sig amp rows = .ok l :=
  shapeFeaturesGen_eq c sig amp rows l h

theorem C04_generated_row (sig : List Rat) (r : SampleRow) (s : ShapeRow) (h : shapeOfRow sig r = .ok s) :
    shapeOfRowGen sig r = .ok s := shapeOfRowGen_eq sig r s h

/-! non-vacuity: a concrete tiling table inside a concrete signal -/
example : (∀ r ∈ ([⟨3, 0, 4, 2, 1, 5⟩, ⟨7, 4, 8, 6, 5, 9⟩] : List SampleRow), r.inside 10) ∧
    tiles ([⟨3, 0, 4, 2, 1, 5⟩, ⟨7, 4, 8, 6, 5, 9⟩] : List SampleRow) := by decide +kernel
example : shapeFeatures .trough ([0, -1, 0, 2, 1, -2, 0, 3, 1, -1].map (- ·)) [1, 2, 3, 4, 5, 6, 7, 8, 9, 10]
      [⟨3, 0, 4, 2, 1, 5⟩, ⟨7, 4, 8, 6, 5, 9⟩] =
    .ok ([⟨3, 0, 4, 2, 1, 5⟩, ⟨7, 4, 8, 6, 5, 9⟩].map fun r =>
      shapeSpecTrough [0, -1, 0, 2, 1, -2, 0, 3, 1, -1] [1, 2, 3, 4, 5, 6, 7, 8, 9, 10] (Slots.renameSamples r)) := by
  decide +kernel

/-- the wiring of the shape stage read off the source: every feature function gets the cyclepoint table and the signal of THIS call, the symmetry features
`compute_durations`' (period, time_peak, time_trough) in this order, the band amplitude the rate, band and filter length. -/
theorem C04_routing : ∀ r ∈ Routing.shape, Routing.holds Slots.routes r = true := by decide +kernel

end Bycycle
