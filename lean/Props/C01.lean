import BycycleModel.Routing
import Proofs.Cyclepoints
import Proofs.Detect
import Proofs.Pipeline
/-!
# C01 — the cycle table is a complete, ordered, gap-free segmentation

`computeCyclepoints` composes the transcriptions of `find_extrema` (after the band-pass filter, which is
a parameter: ANY sign pattern `b` of the filtered padded signal and ANY pad length), `find_zerox` and the
row assembly of `compute_cyclepoints` (slices regenerated from /repo). Peak-centred naming; the
trough-centred table is the same function applied to the negated signal followed by a renaming (C04/C09).
-/
namespace Bycycle

/-- every returned table is well-formed: in each row last trough < peak < next trough, the rise and decay
midpoints lie inclusively between the extrema they separate, every index is inside the signal and beyond
the boundary, and consecutive rows share their side extremum. No hypothesis on the signal or the filter. -/
theorem C01_structure (sig : List Rat) (pad : Nat) (b : List Bool) (bd : Int) (rows : List SampleRow)
    (hlen : b.length = sig.length + 2 * pad)
    (h : computeCyclepoints sig pad b bd = .ok rows) : wellFormed rows sig.length bd :=
  computeCyclepoints_wellFormed sig pad b bd rows hlen h

/-- unfolding of `wellFormed` for one row, for readers. -/
theorem C01_row (rows : List SampleRow) (n : Nat) (bd : Int) (h : wellFormed rows n bd) (r : SampleRow) (hr : r ∈ rows) :
    r.lastTrough < r.peak ∧ r.peak < r.nextTrough ∧ r.lastTrough ≤ r.zeroxRise ∧ r.zeroxRise ≤ r.peak ∧
    r.peak ≤ r.zeroxDecay ∧ r.zeroxDecay ≤ r.nextTrough ∧ bd < r.lastTrough ∧ r.nextTrough < (n : Int) - bd :=
  let o := h.1 r hr
  ⟨o.1, o.2.1, o.2.2.1, o.2.2.2.1, o.2.2.2.2.1, o.2.2.2.2.2.1, o.2.2.2.2.2.2.2.1, o.2.2.2.2.2.2.2.2.1⟩

/-- totality: when the statement's specification keeps at least two peaks (three full oscillations inside
the boundary give at least that), a table with one row per cycle is returned instead of an exception. -/
theorem C01_total (sig : List Rat) (pad : Nat) (b : List Bool) (bd : Int) (P T : List Int)
    (hlen : b.length = sig.length + 2 * pad) (hr : risingX b ≠ []) (hd : decayingX b ≠ []) (hbd : 0 ≤ bd)
    (hs : findExtremaSpec sig pad b bd .peak = .ok (P, T)) (h2 : 2 ≤ P.length) :
    ∃ rows, computeCyclepoints sig pad b bd = .ok rows ∧ rows.length = P.length - 1 :=
  computeCyclepoints_total sig pad b bd P T hlen hr hd hbd hs h2

/-- one row per cycle, centred on the kept peaks, from kept trough to kept trough. -/
theorem C01_rows (sig : List Rat) (pad : Nat) (b : List Bool) (bd : Int) (P T : List Int) (rows : List SampleRow)
    (hlen : b.length = sig.length + 2 * pad) (hr : risingX b ≠ []) (hd : decayingX b ≠ [])
    (hs : findExtremaSpec sig pad b bd .peak = .ok (P, T))
    (h : computeCyclepoints sig pad b bd = .ok rows) (i : Nat) (hi : i < rows.length) :
    ∃ r, rows[i]? = some r ∧ P[i + 1]? = some r.peak ∧ T[i]? = some r.lastTrough ∧ T[i + 1]? = some r.nextTrough :=
  computeCyclepoints_rows sig pad b bd P T rows hlen hr hd hs h i hi

/-- without a zero-crossing of each direction in the filtered signal no table is produced. -/
theorem C01_degenerate (sig : List Rat) (pad : Nat) (b : List Bool) (bd : Int)
    (h : risingX b = [] ∨ decayingX b = []) : ∃ e, computeCyclepoints sig pad b bd = .error e :=
  computeCyclepoints_degenerate sig pad b bd h

/-- burst labelling never fails on a table for valid settings (both methods). -/
theorem C01_labelling_total (rows : List CycRow) (th : CycThresh) (hv : th.valid) (hk : 0 ≤ th.minN)
    (fracs : List (Option Rat)) (thr minN : Rat) (h0 : 0 ≤ thr) (h1 : thr ≤ 1) (hm : 0 ≤ minN) :
    (∃ l, detectCycles rows th = .ok l ∧ l.length = rows.length) ∧ (∃ l, detectAmp fracs thr minN = .ok l) :=
  ⟨⟨_, detectCycles_eq_spec rows th hv (Or.inr hk), cyclesSpec_length rows th⟩,
   ⟨_, detectAmp_eq_spec fracs thr minN h0 h1 (Or.inr hm)⟩⟩

/-- three full oscillations inside the boundary (three kept peaks and three kept troughs) guarantee a table. -/
theorem C01_three_oscillations (sig : List Rat) (pad : Nat) (b : List Bool) (bd : Int)
    (hlen : b.length = sig.length + 2 * pad) (hr : risingX b ≠ []) (hd : decayingX b ≠ []) (hbd : 0 ≤ bd)
    (hP : 3 ≤ (boundarySpec (peaksSpec (List.replicate pad (0 : Rat) ++ sig ++ List.replicate pad 0) b) pad sig.length bd).length)
    (hT : 3 ≤ (boundarySpec (troughsSpec (List.replicate pad (0 : Rat) ++ sig ++ List.replicate pad 0) b) pad sig.length bd).length) :
    ∃ rows, computeCyclepoints sig pad b bd = .ok rows ∧ 1 ≤ rows.length := by
  obtain ⟨P, T, hs, h2⟩ := three_oscillations sig pad b bd hlen hP hT
  obtain ⟨rows, hrows, hl⟩ := computeCyclepoints_total sig pad b bd P T hlen hr hd hbd hs h2
  exact ⟨rows, hrows, by omega⟩

/-- the whole (modelled) analysis returns well-formed sample columns, both centrings. -/
theorem C01_pipeline (c : Centre) (x : List Rat) (pad : Nat) (b : List Bool) (amp : List Rat) (bd : Int) (th : CycThresh)
    (o : PipeOut) (hlen : b.length = x.length + 2 * pad) (h : pipelineCycles c x pad b amp bd th = .ok o) :
    wellFormed o.samples x.length bd := pipeline_wellFormed c x pad b amp bd th o hlen h

/-! non-vacuity -/
example : computeCyclepoints [0, 1, 3, 3, 1, -1, -2, -2, 0, 1, 2, 1, -1, -1, 0, 2, 1, -3, -1, 0, 1, 2] 0
    (([0,0,1,1,1,1,0,0,0,0,1,1,1,0,0,1,1,0,0,0,1,1] : List Nat).map (· == 1)) 0 =
    .ok [⟨10, 4, 11, 8, 6, 12⟩, ⟨15, 11, 16, 14, 12, 17⟩] := by decide +kernel
example : wellFormed [⟨10, 4, 11, 8, 6, 12⟩, ⟨15, 11, 16, 14, 12, 17⟩] 22 0 := by decide +kernel

/-- the wiring `pipelineCycles` assumes is the wiring of the source (read off /repo on every run, `harness/routing.py`): `compute_features` hands
its signal, rate, band, centring and option dictionaries unchanged down to `compute_shape_features` / `compute_cyclepoints` / `find_extrema`, the peaks
and troughs of `find_extrema` reach `find_zerox` in this order, the burst features are computed from the returned shape table and the ORIGINAL signal,
and the labelling gets the caller's thresholds. -/
theorem C01_routing : ∀ r ∈ Routing.pipeline, Routing.holds Slots.routes r = true := by decide +kernel

end Bycycle
