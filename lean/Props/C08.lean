import Proofs.Runs
/-!
# C08 — the minimum-run filter removes exactly the short bursts

Property theorems only; helper lemmas live in `Proofs/Runs.lean`.
All statements are for every boolean list `m` (no length bound) and every rational `k`
(`min_n_cycles`; the implementation rejects `k < 0` for non-empty input, see `C08_guard`).
-/
namespace Bycycle

/-- same length. -/
theorem C08_length (m : List Bool) (k : Rat) : (minRun m k).length = m.length :=
  minRun_length m k

/-- the transcribed transition/clear loop equals the pointwise run-length rule. -/
theorem C08_pointwise (m : List Bool) (k : Rat) : minRun m k = minRunSpec m k :=
  minRun_eq_spec m k

/-- a maximal run of length ≥ k is kept entirely: every sample of `m` that is true and whose
maximal run has length ≥ k is true in the output. -/
theorem C08_kept_entirely (m : List Bool) (k : Rat) (i : Nat)
    (hi : m.getD i false = true) (hk : k ≤ ((runLenAt m i : Nat) : Rat)) :
    (minRun m k).getD i false = true :=
  minRun_kept m k i hi hk

/-- a shorter run is cleared entirely. -/
theorem C08_cleared_entirely (m : List Bool) (k : Rat) (i : Nat)
    (hk : ((runLenAt m i : Nat) : Rat) < k) :
    (minRun m k).getD i false = false :=
  minRun_cleared m k i hk

/-- the run length is the same at every sample of one maximal run, so "kept/cleared entirely"
is about whole runs: two samples joined by `true`s have the same run length. -/
theorem C08_runLen_const (m : List Bool) (i j : Nat) (hij : i ≤ j)
    (h : ∀ t, i ≤ t → t ≤ j → m.getD t false = true) : runLenAt m i = runLenAt m j :=
  runLenAt_const m i j hij h

/-- no `false` ever becomes `true`. -/
theorem C08_no_new_true (m : List Bool) (k : Rat) : maskLe (minRun m k) m :=
  minRun_le m k

/-- idempotent. -/
theorem C08_idempotent (m : List Bool) (k : Rat) : minRun (minRun m k) k = minRun m k :=
  minRun_idem m k

/-- runs touching either end behave like interior runs: padding with `false` commutes. -/
theorem C08_edges (m : List Bool) (k : Rat) :
    minRun (false :: m ++ [false]) k = false :: minRun m k ++ [false] :=
  minRun_pad m k

/-- raising the minimum length only removes labels. -/
theorem C08_antitone_k (m : List Bool) (k k' : Rat) (h : k ≤ k') :
    maskLe (minRun m k') (minRun m k) :=
  minRun_antitone m k k' h

/-- a pointwise larger input mask gives a pointwise larger output. -/
theorem C08_monotone_mask (m m' : List Bool) (k : Rat) (h : maskLe m m') :
    maskLe (minRun m k) (minRun m' k) :=
  minRun_mono m m' k h

/-- guards of the real function: empty input returned as is (even for k < 0), negative k
rejected, otherwise the filter. -/
theorem C08_guard (m : List Bool) (k : Rat) :
    checkMinBurstCycles m k =
      if m = [] then .ok [] else if k < 0 then .error .valueError else .ok (minRunSpec m k) :=
  checkMin_spec m k

/-- with `k ≤ 1` (in particular `min_n_cycles ∈ {0, 1}`) nothing is removed. -/
theorem C08_small_k (m : List Bool) (k : Rat) (h : k ≤ 1) : minRun m k = m :=
  minRun_small m k h

/-! non-vacuity: concrete instances of the hypotheses -/
example : ([false, true, true, false] : List Bool).getD 1 false = true ∧
    (2 : Rat) ≤ ((runLenAt [false, true, true, false] 1 : Nat) : Rat) := by decide
example : ((runLenAt [true, false, true, true] 0 : Nat) : Rat) < 2 := by decide
example : maskLe [false, true, false] [true, true, false] := by
  refine ⟨rfl, ?_⟩; intro i; match i with
  | 0 => decide | 1 => decide | 2 => decide | (n+3) => simp

end Bycycle
