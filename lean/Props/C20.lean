import BycycleModel.Routing
import Proofs.Plots
/-!
# C20 — plots draw the analysis they are given (index arithmetic; rendering is not modelled)

`markerIdx` / `burstMask` transcribe the index arithmetic of `plot_cyclepoints_array` and
`plot_burst_detect_summary`; comparators, the `+ 1` of the burst slice and whether window offsets are
rounded or truncated are regenerated from /repo. The view is the run of samples `lo … lo+len-1`;
the theorems hold when the offset equals `lo`, which `C20_offset` shows for x-limits on sample times
when the offset is ROUNDED (with the truncating `int(fs*start)` it fails, see the counterexample).
-/
namespace Bycycle

theorem C20_offset (x : Rat) (k : Int) (h1 : (k : Rat) - 1/2 < x) (h2 : x < (k : Rat) + 1/2) : windowOffset x = k :=
  windowOffset_grid x k h1 h2

/-- every marker sits at the sample of a genuine cyclepoint of its kind, inside the view. -/
theorem C20_markers_sound (lo len : Nat) (pts : List Int) (i : Int) (h : i ∈ markerIdx lo len lo pts) :
    0 ≤ i ∧ i < (len : Int) - 1 ∧ (i + lo) ∈ pts := markerIdx_sound lo len pts i h

/-- every cyclepoint strictly inside the view is drawn. -/
theorem C20_markers_complete (lo len : Nat) (pts : List Int) (p : Int) (hp : p ∈ pts) (h1 : (lo : Int) < p) (h2 : p < (lo : Int) + len - 1) :
    (p - lo) ∈ markerIdx lo len lo pts := markerIdx_complete lo len pts p hp h1 h2

/-- the highlighted part of the trace contains only samples of burst cycles … -/
theorem C20_mask_sound (lo len : Nat) (bursts : List (Int × Int)) (hb : ∀ c ∈ bursts, (lo : Int) ≤ c.1 ∧ c.1 ≤ c.2) (t : Nat)
    (ht : (burstMask len lo bursts).getD t false = true) :
    (burstMask len lo bursts).length = len ∧ ∃ c ∈ bursts, c.1 ≤ (t : Int) + lo ∧ (t : Int) + lo ≤ c.2 :=
  ⟨burstMask_length len lo bursts, burstMask_sound lo len bursts hb t ht⟩

/-- … and all samples of every burst cycle lying entirely inside the view. -/
theorem C20_mask_complete (lo len : Nat) (bursts : List (Int × Int)) (hb : ∀ c ∈ bursts, (lo : Int) ≤ c.1 ∧ c.1 ≤ c.2)
    (c : Int × Int) (hc : c ∈ bursts) (hin : c.2 < (lo : Int) + len) (s : Int) (hs : c.1 ≤ s ∧ s ≤ c.2) :
    (burstMask len lo bursts).getD (s - lo).toNat false = true := burstMask_complete lo len bursts hb c hc hin s hs

/-- why the offset must be the first sample in view: one sample less (what `int(28.999…)` gives for
0.29 s at 100 Hz) draws a marker for the peak at sample 40 at index 12 of a view starting at 29, i.e. at sample 41. -/
theorem C20_truncation_counterexample : markerIdx 29 50 28 [40] = [12] ∧ markerIdx 29 50 29 [40] = [11] := by decide

/-- the wiring of the plots read off the source: table and signal are limited to the SAME window, the summary keeps original sample indices
(`reset_indices=False`) and hands the normalised signal, the rate and the window to its panels. -/
theorem C20_routing : ∀ r ∈ Routing.plots, Routing.holds Slots.routes r = true := by decide +kernel

/-- the PARAMETER PANEL (interp): a point is drawn exactly for the cycles lying entirely inside the view - side extrema from the first sample of the view up to, but not
on, its end - and it sits at the cycle's CENTRE extremum with the cycle's value of the parameter. -/
theorem C20_panel (lo : Int) (len : Nat) (stopIncl : Int) (cycles : List PanelCycle) (p : Int × Option Rat) :
    p ∈ panelPoints true (panelCycles lo len stopIncl cycles) ↔
      ∃ c ∈ cycles, (lo ≤ c.last ∧ c.next ≤ stopIncl ∧ c.next < lo + len) ∧ p = (c.centre, c.value) := by
  simp only [panelPoints, if_true, panelCycles, List.mem_map, List.mem_filter, Bool.and_eq_true, decide_eq_true_eq]
  constructor
  · rintro ⟨c, ⟨hc, ⟨⟨⟨h1, h2⟩, _⟩, h4⟩⟩, rfl⟩
    exact ⟨c, hc, ⟨h1, h2, by omega⟩, rfl⟩
  · rintro ⟨c, hc, ⟨h1, h2, h3⟩, rfl⟩
    exact ⟨c, ⟨hc, ⟨⟨⟨h1, h2⟩, by omega⟩, by omega⟩⟩, rfl⟩

/-- ... without interpolation every drawn cycle contributes its two side extrema with the same value, and the shaded spans are exactly the drawn cycles whose value is at or
below the threshold. -/
theorem C20_panel_steps (lo : Int) (len : Nat) (stopIncl : Int) (cycles : List PanelCycle) (thresh : Rat) :
    panelPoints false (panelCycles lo len stopIncl cycles) = (panelCycles lo len stopIncl cycles).flatMap (fun c => [(c.last, c.value), (c.next, c.value)]) ∧
    ∀ s, s ∈ panelSpans thresh (panelCycles lo len stopIncl cycles) ↔
      ∃ c ∈ panelCycles lo len stopIncl cycles, (∃ v, c.value = some v ∧ v ≤ thresh) ∧ s = (c.last, c.next) := by
  refine ⟨by simp [panelPoints], fun s => ?_⟩
  simp only [panelSpans, List.mem_map, List.mem_filter]
  constructor
  · rintro ⟨c, ⟨hc, hv⟩, rfl⟩
    refine ⟨c, hc, ?_, rfl⟩
    cases hval : c.value with
    | none => simp [hval] at hv
    | some v => exact ⟨v, rfl, by simpa [hval] using hv⟩
  · rintro ⟨c, hc, ⟨v, hv, hle⟩, rfl⟩
    exact ⟨c, ⟨hc, by simp [hv, hle]⟩, rfl⟩

example : panelPoints true (panelCycles 10 20 30 [⟨5, 8, 12, some 1⟩, ⟨12, 15, 19, some (1/2)⟩, ⟨19, 24, 30, none⟩]) = [(15, some (1/2))] ∧
    panelSpans (3/5) (panelCycles 10 20 30 [⟨12, 15, 19, some (1/2)⟩, ⟨19, 22, 26, some 1⟩]) = [(12, 19)] := by decide +kernel

end Bycycle
