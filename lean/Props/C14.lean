import BycycleModel.Routing
import Proofs.Effects
import Proofs.Objs
import BycycleModel.EffectPrograms
import Proofs.ObjMachine
import Proofs.GroupMachine
import Proofs.EffectsTranslated
import BycycleModel.ObjTrace
import Proofs.ObjPipeline
/-!
# C14 — Bycycle objects reproduce the functional API and hold no stale state

The object stores its option dictionaries and hands them BY REFERENCE to `compute_features` on every
fit. It therefore reproduces the functional API with the current settings after any history exactly when
no fit / edge recomputation writes into those dictionaries — the purity statement of C15 instantiated at
`Bycycle.fit` and `Bycycle.recompute_edges` (C14_fit_no_stale_state) — and when the two helpers behave as
documented: shorthand names are expanded to `*_threshold` keys (C14_shorthand), `recompute_edges(r)` lowers
exactly every `*threshold` entry by `r` in a NEW dictionary (C14_reduce). `df_features` is whatever the
last fit / recompute / load assigned (plain attribute rebinding); `BycycleGroup.models` positions are C11/C12.
-/
namespace Bycycle

open Eff in
/-- neither `fit` nor `recompute_edges` writes the object's dictionaries, signal or table: after any
sequence of such calls the stored settings are exactly what construction / explicit edits made them. -/
theorem C14_fit_no_stale_state (oracle : List Bool) :
    Eff.bycycleFit.run Eff.summaries oracle = [] ∧ Eff.bycycleRecomputeEdges.run Eff.summaries oracle = [] :=
  ⟨Eff.C15_frame' Eff.bycycleFit (by simp [Eff.pureFns]) oracle, Eff.C15_frame' Eff.bycycleRecomputeEdges (by simp [Eff.pureFns]) oracle⟩

theorem C14_shorthand (th : List (String × Rat)) :
    (∀ k v, (k, v) ∈ expandShorthand th → k.endsWith "_threshold" = true ∨ k = "min_n_cycles") ∧
    (expandShorthand th).map (·.2) = th.map (·.2) ∧
    ((∀ p ∈ th, p.1.endsWith "_threshold" = true ∨ p.1 = "min_n_cycles") → expandShorthand th = th) :=
  ⟨fun k v h => expandShorthand_keys th k v h, expandShorthand_values th, expandShorthand_full_names th⟩

theorem C14_reduce (th : List (String × Rat)) (r : Option Rat) :
    reduceThresholds th r = (th.map fun p => if p.1.endsWith "threshold" then (p.1, p.2 - r.getD 0) else p) ∧
    reduceThresholds th none = th :=
  ⟨reduceThresholds_spec th r, reduceThresholds_none th⟩

/-- the same statement for the bodies TRANSLATED from bycycle/objs/fit.py on every run (harness/efftrans.py): `Bycycle.fit`,
`recompute_edges`, `load`, `reduce_thresholds` and `__getattr__`, with every call into bycycle's functions executed, write at most
attribute slots of `self` (position 0) - never an object held in the instance (option dictionaries, signal, table) nor another
argument. So the settings a later fit reads are the ones construction and explicit edits put there. -/
theorem C14_translated_methods (n : String) (hn : n ∈ Eff.T.selfOnly) (f : Eff.Fn) (hf : Eff.lookupFn Eff.T.fns n = some f)
    (fuel : Nat) (oracle : List Bool) (o : Nat) (ho : o ∈ f.runFull Eff.T.fns Eff.T.summ fuel oracle) : o = 0 :=
  Eff.T.selfOnly_frame n hn f hf fuel oracle o ho

/-- … and the attribute slots they rebind (read off the source on every run) are exactly these: a fit / load replaces the signal,
its rates and the table; an edge recomputation replaces the table only; `reduce_thresholds` and attribute access replace nothing.
In particular none of them rebinds `thresholds`, `burst_kwargs`, `find_extrema_kwargs`, `center_extrema`, `burst_method` or
`return_samples`, nor writes into them (previous theorem): the object machine's `step` changes settings only in the edit operations. -/
theorem C14_rebound_slots : Eff.T.selfAssigns =
    [("Bycycle.fit", ["df_features", "f_range", "fs", "sig"]), ("Bycycle.recompute_edges", ["df_features"]),
     ("Bycycle.load", ["df_features", "f_range", "fs", "sig"]), ("BycycleBase.reduce_thresholds", []), ("Bycycle.__getattr__", [])] := by decide

example : "Bycycle.fit" ∈ Eff.T.selfOnly ∧ (Eff.lookupFn Eff.T.fns "Bycycle.fit").isSome = true := by decide +kernel

/-! ## The object as a state machine (BycycleModel/ObjMachine.lean)

`A : Obj.Api S T` is the functional API (`compute_features`, `recompute_edges`, column read) as a parameter. -/
open Obj in
/-- the stored settings after ANY history are the constructor's settings with the edit operations applied in
order: fits, edge recomputations, loads and attribute reads leave no trace in them. -/
theorem C14_settings_history {S T : Type} (A : Api S T) (o : Obj S T) (ops : List (Op S T)) :
    (run A o ops).st = ops.foldl editSettings o.st := run_settings A o ops

open Obj in
/-- HISTORY INDEPENDENCE: whatever sequence of fits, edge recomputations, loads and edits preceded it, a fit has the
outcome of a fit on a freshly constructed object holding the current settings, and when it succeeds the same table:
`compute_features(current settings, x)`; the stored signal is `x`. -/
theorem C14_history_independence {S T : Type} (A : Api S T) (o : Obj S T) (ops : List (Op S T)) (x : S) :
    let cur := ops.foldl editSettings o.st
    (step A (run A o ops) (.fit x)).2 = (step A (fresh cur) (.fit x)).2 ∧
    ((step A (fresh cur) (.fit x)).2 = .done →
      (step A (run A o ops) (.fit x)).1.df = (step A (fresh (S := S) (T := T) cur) (.fit x)).1.df ∧
      (step A (run A o ops) (.fit x)).1.sig = some x ∧
      ∃ t, A.cf cur x = .ok t ∧ (step A (run A o ops) (.fit x)).1.df = some t) := fit_after_history A o ops x

open Obj in
/-- `recompute_edges(r)` = the functional edge recomputation of the current table with every `*threshold` entry
lowered by `r` (other entries untouched); the stored settings are not modified; without a table it raises. -/
theorem C14_edges {S T : Type} (A : Api S T) (o : Obj S T) (r : Option Rat) :
    (∀ t, o.df = some t →
      let lowered := o.st.thresholds.map fun p => if p.1.endsWith "threshold" then (p.1, p.2 - r.getD 0) else p
      (step A o (.edges r)).1.st = o.st ∧
      (∀ t', A.rc t lowered = .ok t' → step A o (.edges r) = ({ o with df := some t' }, .done)) ∧
      (∀ e, A.rc t lowered = .error e → step A o (.edges r) = (o, .raised))) ∧
    (o.df = none → step A o (.edges r) = (o, .raised)) :=
  ⟨fun t h => edges_spec A o r t h, edges_without_table A o r⟩

open Obj in
/-- attribute access returns the column of the CURRENT table (AttributeError when there is no table or no such
column) and changes nothing. -/
theorem C14_attr {S T : Type} (A : Api S T) (o : Obj S T) (key : String) :
    (step A o (.attr key)).1 = o ∧
    (∀ t, o.df = some t → (step A o (.attr key)).2 = match A.col t key with | some v => .column v | none => .raised) ∧
    (o.df = none → (step A o (.attr key)).2 = .raised) := attr_spec A o key

open Obj in
/-- a fit that raises: a 2-D array is refused before anything is assigned; when `compute_features` raises, the new
signal HAS been stored while the table is still the previous one (documented behaviour of the source, not a defect
of the property: the next successful fit is governed by C14_history_independence). -/
theorem C14_failed_fit {S T : Type} (A : Api S T) (o : Obj S T) (x : S) :
    (A.oneD x = false → step A o (.fit x) = (o, .raised)) ∧
    (∀ e, A.oneD x = true → A.cf o.st x = .error e → step A o (.fit x) = ({ o with sig := some x }, .raised)) :=
  ⟨fit_not_1d A o x, fun e h1 h => fit_raises A o x e h1 h⟩

open Obj in
open Obj in
/-- `plot` changes nothing - not the stored dictionaries (it is handed the object's own `thresholds`), not the signal, not the table - and
succeeds exactly when a table and a signal are there. -/
theorem C14_plot {S T : Type} (A : Api S T) (o : Obj S T) :
    (step A o .plot).1 = o ∧ ((step A o .plot).2 = .done ↔ (o.df.isSome = true ∧ o.sig.isSome = true)) := plot_spec A o

open Obj in
/-- threshold / burst option edits, attribute reads and plots keep the table and the signal. -/
theorem C14_table_kept {S T : Type} (A : Api S T) (o : Obj S T) (op : Op S T)
    (h : match op with | .edit .. => True | .rebind .. => True | .editbk .. => True | .attr .. => True | .plot => True | _ => False) :
    (step A o op).1.df = o.df ∧ (step A o op).1.sig = o.sig := table_kept A o op h

/-! ## `BycycleGroup` as a state machine (BycycleModel/GroupMachine.lean) -/
open Obj in
/-- INVARIANT: after any history of group fits (that succeed), group edge recomputations and per-model threshold rebindings on a freshly
constructed group, `models[i]` holds exactly `df_features[i]` and `sigs[i]`, position by position (`Good` = lists aligned and mirror at
every position). The edge recomputation keeps it even when one model raises half-way through the loop (`edges_good`). -/
theorem C14_group_mirror {S T : Type} (A : Api S T) (gcf : Settings → List S → Except Err (List T)) (st : Settings) (ops : List (GOp S T))
    (hr : regular A gcf (freshGroup st) ops) : Good (grun A gcf (freshGroup st) ops) :=
  mirror_invariant A gcf (freshGroup st) ops (fresh_good st) hr

open Obj in
/-- refitting ONE model directly (`bg[i].fit(x)`) is the only operation that can break the mirror, and only at its own position. -/
theorem C14_group_model_refit {S T : Type} (A : Api S T) (gcf : Settings → List S → Except Err (List T)) (g : GObj S T) (i : Nat) (x : S)
    (h : Good g) : aligned (gstep A gcf g (.modelFit i x)).1 ∧ ∀ j, j ≠ i → mirrorAt (gstep A gcf g (.modelFit i x)).1 j :=
  modelFit_others A gcf g i x h

open Obj in
/-- every model of a group fit carries the group's settings, and in the group's edge recomputation every model is recomputed with ITS
OWN settings (the table at position i is the model's own `recompute_edges` step). -/
theorem C14_group_settings {S T : Type} (A : Api S T) (gcf : Settings → List S → Except Err (List T)) (g : GObj S T) (xs : List S)
    (h : (gstep A gcf g (.fit xs)).2 = .done) (r : Option Rat) (ms : List (Obj S T)) (ds : List T) (hl : ms.length = ds.length)
    (hdone : (edgesLoop A r ms ds).2.2 = true) :
    (∀ m ∈ (gstep A gcf g (.fit xs)).1.models, m.st = g.st) ∧
    (edgesLoop A r ms ds).1 = ms.map fun m => (step A m (.edges r)).1 :=
  ⟨fit_models_settings A gcf g xs h, edges_uses_model_settings A r ms ds hl hdone⟩

/-! non-vacuity -/
open Obj in
/-- a regular history exists and reaches a non-trivial state: a fit of three signals, a per-model rebinding, a group recomputation. -/
example : regular (apiWith true) (gcfWith true) (freshGroup (construct (S := Nat) (T := Term) true true none (some [("min_n_cycles", 2)]) none true).st)
      [.fit [0, 1, 2], .modelRebind 0 [("min_n_cycles", 1)], .edges none] ∧
    (grun (apiWith true) (gcfWith true) (freshGroup (construct (S := Nat) (T := Term) true true none (some [("min_n_cycles", 2)]) none true).st)
      [.fit [0, 1, 2], .modelRebind 0 [("min_n_cycles", 1)], .edges none]).models.length = 3 := by
  refine ⟨⟨by decide +kernel, trivial, trivial, trivial⟩, by decide +kernel⟩
open Obj in
/-- a concrete history on the symbolic instance: fit, edit, failed fit, edge recomputation. The table after the
history is `rc (cf (settings at the first fit) 0) (lowered CURRENT thresholds)`. -/
example :
    ((trace (construct true true none (some [("monotonicity", 4/5), ("min_n_cycles", 3)]) none true)
      [(.fit 0, true), (.edit "min_n_cycles" 6, true), (.fit 1, false), (.edges (some (1/10)), true)]).map (·.1)) =
    [.done, .done, .raised, .done] := by decide +kernel

example : expandShorthand [("monotonicity", 4/5), ("amp_fraction_threshold", 0), ("min_n_cycles", 3)] =
    [("monotonicity_threshold", 4/5), ("amp_fraction_threshold", 0), ("min_n_cycles", 3)] := by decide +kernel
example : reduceThresholds [("monotonicity_threshold", 4/5), ("min_n_cycles", 3)] (some (1/5)) =
    [("monotonicity_threshold", 3/5), ("min_n_cycles", 3)] := by decide +kernel

/-- the wiring of the object read off the source: `fit` hands EVERY stored setting to the homonymous parameter of `compute_features` (`thresholds` to
`threshold_kwargs`) - the `Api.cf o.st x` of the object machine - and `plot` hands the stored table, signal, rate and thresholds to the summary plot. -/
theorem C14_routing : ∀ r ∈ Routing.object, Routing.holds Slots.routes r = true := by decide +kernel

/-- the group object's wiring, read off the source on every run: one option dictionary built from the stored settings, the stored sample switch as the
ARGUMENT `return_samples` (the group functions discard a `return_samples` key inside the dictionary), every model constructed with the group's settings, the
reduction handed to every model in the 2-D and in the 3-D branch alike. -/
theorem C14_group_routing : ∀ r ∈ Routing.groupObject, Routing.holdsAll Slots.routes r = true := by decide +kernel

open Obj in
/-- HISTORIES MEET THE TABLE: the object machine instantiated with the MODELLED pipelines (`pipelineCycles` for the consistency method, `pipelineAmp` for the amplitude
method: extrema, midpoints, shape features, burst features resp. burst fractions, labels). Whatever sequence of fits, edge recomputations, loads, edits and plots preceded
it, a fit that succeeds stores exactly the pipeline's output for the CURRENT settings (burst method, centring, extrema options, thresholds and burst options with their
defaults), and that table is a well-formed segmentation (C01) of the recording just fitted. -/
theorem C14_fit_is_pipeline (o : Obj Recording Table) (ops : List (Op Recording Table)) (r : Recording)
    (hdone : (step pipelineApi (run pipelineApi o ops) (.fit r)).2 = .done) :
    let cur := ops.foldl editSettings o.st
    ∃ t, (step pipelineApi (run pipelineApi o ops) (.fit r)).1.df = some t ∧
      ((cur.cycles = true ∧ ∃ oc, t = .cycles oc (cur.peak && cur.returnSamples) ∧
          pipelineCycles (centreOf cur) r.x (r.pad cur.fek) (r.b cur.fek (centreOf cur)) r.amp (r.bd cur.fek) (cycThreshOf cur.thresholds) = .ok oc) ∨
       (cur.cycles = false ∧ ∃ oa, t = .amp oa ∧
          pipelineAmp (centreOf cur) r.x (r.pad cur.fek) (r.b cur.fek (centreOf cur)) r.amp (r.bd cur.fek) (cur.burstKwargs.lookup "min_n_cycles")
            (cur.thresholds.lookup "min_n_cycles") (cur.burstKwargs.lookup "min_burst_duration") (r.detMask cur.burstKwargs)
            (lookupD cur.thresholds "burst_fraction_threshold" Slots.ampDefaultThreshold) = .ok oa)) ∧
      ((r.b cur.fek (centreOf cur)).length = r.x.length + 2 * r.pad cur.fek → wellFormed t.samples r.x.length (r.bd cur.fek)) :=
  fit_is_pipeline o ops r hdone

open Obj in
/-- ... and `recompute_edges(r)` on such an object: the stored table becomes the SAME table with its two consistency columns and its labels replaced by the transcribed
edge recomputation (C16) - evaluated with the stored thresholds lowered by `r` and with the centring the code SEES (`peak and return_samples`: for a peak-centred
object that dropped its sample columns this is the trough pairing, the known finding) - while samples, shape and settings are untouched. -/
theorem C14_edges_on_pipeline (o : Obj Recording Table) (oc : PipeOut) (pk : Bool) (r : Option Rat) (hdf : o.df = some (.cycles oc pk))
    (hdone : (step pipelineApi o (.edges r)).2 = .done) :
    ∃ rows, recomputeEdges pk (edgeRowsOf oc) (cycThreshOf (reduceThresholds o.st.thresholds r)) = .ok rows ∧
      (step pipelineApi o (.edges r)).1.df = some (.cycles (withEdges oc rows) pk) ∧
      (withEdges oc rows).samples = oc.samples ∧ (withEdges oc rows).shape = oc.shape ∧
      (step pipelineApi o (.edges r)).1.st = o.st :=
  edges_on_pipeline o oc pk r hdf hdone

open Obj in
/-- a group fit that succeeds, with `compute_features_2d(axis=0)` taken as what C11 proves it to be (the per-signal analysis, position by position): at every position
the group's table and its model's table are `compute_features` of the signal AT THAT POSITION with the group's settings, and the model holds that signal and those settings. -/
theorem C14_group_fit_per_signal {S T : Type} (A : Api S T) (g : GObj S T) (xs : List S)
    (hdone : (gstep A (perSignal A.cf) g (.fit xs)).2 = .done) :
    ∀ (i : Nat) (x : S), xs[i]? = some x →
      ∃ (t : T) (m : Obj S T), A.cf g.st x = .ok t ∧ (gstep A (perSignal A.cf) g (.fit xs)).1.dfs[i]? = some t ∧
        (gstep A (perSignal A.cf) g (.fit xs)).1.models[i]? = some m ∧ m.df = some t ∧ m.sig = some x ∧ m.st = g.st :=
  group_fit_per_signal A g xs hdone

/-- non-vacuity: fits on the modelled pipelines that succeed, one per burst method (the 22-sample recording of C01's example; loose thresholds, a minimum of one cycle). -/
def exampleRecording : Obj.Recording :=
  ⟨[0, 1, 3, 3, 1, -1, -2, -2, 0, 1, 2, 1, -1, -1, 0, 2, 1, -3, -1, 0, 1, 2], fun _ => 0,
   fun _ _ => ([0,0,1,1,1,1,0,0,0,0,1,1,1,0,0,1,1,0,0,0,1,1] : List Nat).map (· == 1), fun _ => 0,
   [1, 1, 1, 1, 1, 1, 1, 1, 1, 1, 1, 1, 1, 1, 1, 1, 1, 1, 1, 1, 1, 1],
   fun _ _ => ([0,0,0,0,1,1,1,1,1,1,1,1,1,1,1,1,1,1,0,0,0,0] : List Nat).map (· == 1)⟩

example :
    (Obj.step Obj.pipelineApi
      (Obj.construct (S := Obj.Recording) (T := Obj.Table) true true none (some [("min_n_cycles", 1), ("monotonicity_threshold", 0), ("amp_consistency_threshold", 0), ("period_consistency_threshold", 0)]) none true)
      (.fit exampleRecording)).2 = .done ∧
    (Obj.step Obj.pipelineApi
      (Obj.construct (S := Obj.Recording) (T := Obj.Table) false false none (some [("burst_fraction_threshold", 1/2), ("min_n_cycles", 1)]) none true)
      (.fit exampleRecording)).2 = .done ∧
    (Obj.step Obj.pipelineApi
      (Obj.step Obj.pipelineApi
        (Obj.construct (S := Obj.Recording) (T := Obj.Table) true true none (some [("min_n_cycles", 1), ("monotonicity_threshold", 0), ("amp_consistency_threshold", 0), ("period_consistency_threshold", 0)]) none true)
        (.fit exampleRecording)).1 (.edges none)).2 = .done := by
  decide +kernel

end Bycycle
