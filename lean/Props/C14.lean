import Proofs.Effects
import Proofs.Objs
import BycycleModel.EffectPrograms
/-!
# C14 — Bycycle objects reproduce the functional API and hold no stale state

The object stores its option dictionaries and hands them BY REFERENCE to `compute_features` on every
fit. It therefore reproduces the functional API with the current settings after any history exactly when
no fit / edge recomputation writes into those dictionaries — the purity statement of C15 instantiated at
`Bycycle.fit` and `Bycycle.recompute_edges` (C14_fit_no_stale_state) — and when the two helpers behave as
documented: shorthand names are expanded to `*_threshold` keys (C14_shorthand), `recompute_edges(r)` lowers
exactly every `*threshold` entry by `r` in a NEW dictionary (C14_reduce). `df_features` is whatever the
last fit / recompute / load assigned (plain attribute rebinding); `BycycleGroup.models` positions are C11/C12.
-/
namespace Bycycle

open Eff in
/-- neither `fit` nor `recompute_edges` writes the object's dictionaries, signal or table: after any
sequence of such calls the stored settings are exactly what construction / explicit edits made them. -/
theorem C14_fit_no_stale_state (oracle : List Bool) :
    Eff.bycycleFit.run Eff.summaries oracle = [] ∧ Eff.bycycleRecomputeEdges.run Eff.summaries oracle = [] :=
  ⟨Eff.C15_frame' Eff.bycycleFit (by simp [Eff.pureFns]) oracle, Eff.C15_frame' Eff.bycycleRecomputeEdges (by simp [Eff.pureFns]) oracle⟩

theorem C14_shorthand (th : List (String × Rat)) :
    (∀ k v, (k, v) ∈ expandShorthand th → k.endsWith "_threshold" = true ∨ k = "min_n_cycles") ∧
    (expandShorthand th).map (·.2) = th.map (·.2) ∧
    ((∀ p ∈ th, p.1.endsWith "_threshold" = true ∨ p.1 = "min_n_cycles") → expandShorthand th = th) :=
  ⟨fun k v h => expandShorthand_keys th k v h, expandShorthand_values th, expandShorthand_full_names th⟩

theorem C14_reduce (th : List (String × Rat)) (r : Option Rat) :
    reduceThresholds th r = (th.map fun p => if p.1.endsWith "threshold" then (p.1, p.2 - r.getD 0) else p) ∧
    reduceThresholds th none = th :=
  ⟨reduceThresholds_spec th r, reduceThresholds_none th⟩

/-! non-vacuity -/
example : expandShorthand [("monotonicity", 4/5), ("amp_fraction_threshold", 0), ("min_n_cycles", 3)] =
    [("monotonicity_threshold", 4/5), ("amp_fraction_threshold", 0), ("min_n_cycles", 3)] := by decide +kernel
example : reduceThresholds [("monotonicity_threshold", 4/5), ("min_n_cycles", 3)] (some (1/5)) =
    [("monotonicity_threshold", 3/5), ("min_n_cycles", 3)] := by decide +kernel

end Bycycle
