import Proofs.Frames
/-!
# C13 — epoched (axis=None) analysis partitions the flattened analysis

`epochDf` transcribes `epoch_df` (comparators regenerated from /repo); `featuresFlat` transcribes the
axis=None branch of `compute_features_2d` (re-labelling condition regenerated). Rows are abstract
(`payload` carries every non-sample column untouched).
-/
namespace Bycycle

theorem C13_epoch_rule {P} (rows : List (FRow P)) (sigLen L : Nat) :
    epochDf rows sigLen L = epochSpec rows sigLen L ∧ (epochSpec rows sigLen L).length = nEpochs sigLen L :=
  ⟨epochDf_eq_spec rows sigLen L, epochSpec_length rows sigLen L⟩

/-- every cycle belongs to exactly one epoch — the one containing its closing side extremum; boundary
coincidences (`next = k·L`) go to the epoch that ENDS there. -/
theorem C13_unique_epoch (next : Int) (sigLen L : Nat) (hL : 0 < L) (h0 : 0 < next) (h1 : next ≤ sigLen) :
    ∃ e, e < nEpochs sigLen L ∧ (((e * L : Nat) : Int) < next ∧ next ≤ (((e + 1) * L : Nat) : Int)) ∧
      ∀ e', (((e' * L : Nat) : Int) < next ∧ next ≤ (((e' + 1) * L : Nat) : Int)) → e' = e :=
  epoch_unique next sigLen L hL h0 h1

theorem C13_membership {P} (rows : List (FRow P)) (sigLen L e : Nat) (he : e < nEpochs sigLen L) (t : FRow P) :
    t ∈ (epochSpec rows sigLen L).getD e [] ↔
      ∃ r ∈ rows, t = r.shift ((e * L : Nat) : Int) ∧ ((e * L : Nat) : Int) < r.s.nextTrough ∧ r.s.nextTrough ≤ (((e + 1) * L : Nat) : Int) :=
  mem_epochSpec rows sigLen L e he t

/-- each cycle exactly once, in the original order, values unchanged, indices shifted by the epoch start. -/
theorem C13_partition {P} (rows : List (FRow P)) (sigLen L : Nat) (hL : 0 < L)
    (hin : ∀ r ∈ rows, 0 < r.s.nextTrough ∧ r.s.nextTrough ≤ (sigLen : Int))
    (hsorted : rows.Pairwise fun a b => a.s.nextTrough ≤ b.s.nextTrough) :
    ((epochSpec rows sigLen L).zipIdx.flatMap fun p => p.1.map fun r => r.shift (-((p.2 * L : Nat) : Int))) = rows :=
  epoch_partition rows sigLen L hL hin hsorted

theorem C13_shift_inverse (r : SampleRow) (k : Int) : (r.shift k).shift (-k) = r := shift_unshift r k

theorem C13_single_labels {P O} (analyseFlat : O → List (FRow P)) (relabel : O → List (FRow P) → List (FRow P))
    (ks : List O) (dflt : O) (sigLen L : Nat) (h : ks.length ≤ 1) :
    featuresFlat analyseFlat relabel ks dflt sigLen L = epochSpec (analyseFlat (ks.headD dflt)) sigLen L :=
  featuresFlat_single analyseFlat relabel ks dflt sigLen L h

theorem C13_list_labels {P O} (analyseFlat : O → List (FRow P)) (relabel : O → List (FRow P) → List (FRow P))
    (ks : List O) (dflt : O) (sigLen L : Nat) (h : 1 < ks.length) (e : Nat) (he : e < nEpochs sigLen L) (o : O) (ho : ks[e]? = some o) :
    (featuresFlat analyseFlat relabel ks dflt sigLen L)[e]? =
      some (relabel o ((epochSpec (analyseFlat (ks.headD dflt)) sigLen L).getD e [])) :=
  featuresFlat_list analyseFlat relabel ks dflt sigLen L h e he o ho

/-! non-vacuity: three cycles, epoch length 10, one closing extremum exactly on a boundary -/
example : (epochSpec ([⟨⟨5, 1, 6, 4, 3, 8⟩, 0⟩, ⟨⟨12, 6, 14, 10, 8, 20⟩, 1⟩, ⟨⟨25, 14, 27, 23, 20, 29⟩, 2⟩] : List (FRow Nat)) 30 10).map
      (fun t => t.map (·.payload)) = [[0], [1], [2]] := by decide

end Bycycle
