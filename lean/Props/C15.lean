import BycycleModel.Generated.SlotsModuleState
import Proofs.Effects
import Proofs.EffectsFull
import Proofs.EffectsTranslated
import BycycleModel.EffectPrograms
/-!
# C15 — analysis functions are pure: no input mutation, no call-history dependence

`Eff.sound` is the generic soundness theorem of the may-alias / write analysis over the effect IR, for
every body and every resolution of its branches. `C15_frame` applies it to the effect abstractions of the
listed functions, whose copy guards are regenerated from /repo: removing a defensive copy or turning a
rebinding into an in-place operation flips a guard and the `decide` below fails at build time.
History independence is then immediate: a call that writes no caller object leaves every shared argument
as it found it, so a later call sees the same values (the kernels are deterministic functions).
-/
namespace Bycycle.Eff

theorem C15_sound (summ : Summ) (f : Fn) (hnd : f.params.Nodup) (oracle : List Bool) (o : Nat) (ho : o ∈ f.run summ oracle) :
    o ∈ f.mayWrite summ := sound summ f hnd oracle o ho

/-- every listed function is pure according to the analysis and respects its summary. -/
theorem C15_static : pureFns.all (fun f => f.pure summaries && f.respects summaries && decide f.params.Nodup) = true := by decide

/-- … hence, for every branch resolution, none of them writes any caller-owned object. -/
theorem C15_frame (f : Fn) (hf : f ∈ pureFns) (oracle : List Bool) : f.run summaries oracle = [] := by
  have h := List.all_eq_true.mp C15_static f hf
  simp only [Bool.and_eq_true, decide_eq_true_eq] at h
  exact pure_sound summaries f h.2 h.1.1 oracle

/-- summaries are contracts: a function that respects its summary writes only at those positions. -/
theorem C15_summaries (f : Fn) (hnd : f.params.Nodup) (hr : f.respects summaries = true) (oracle : List Bool)
    (o : Nat) (ho : o ∈ f.run summaries oracle) : o ∈ summaries.get f.name := respects_sound summaries f hnd hr oracle o ho

/-- INTERPROCEDURAL version: calls among the listed functions execute the callee's body on the shared object
store (`execFull`); with every body respecting its summary, no listed function writes a caller-owned object,
for every branch resolution and every step budget. -/
theorem C15_frame_full (f : Fn) (hf : f ∈ pureFns) (fuel : Nat) (oracle : List Bool) :
    f.runFull pureFns summaries fuel oracle = [] := frame_full f hf fuel oracle

theorem C15_sound_full (prog : List Fn) (summ : Summ) (hw : wellSummarised prog summ = true)
    (f : Fn) (hf : f ∈ prog) (fuel : Nat) (oracle : List Bool) (o : Nat) (ho : o ∈ f.runFull prog summ fuel oracle) :
    o ∈ summ.get f.name := sound_full prog summ hw f hf fuel oracle o ho

/-! ## The TRANSLATED program

`BycycleModel/Generated/EffectsTranslated.lean` is regenerated on every run by `harness/efftrans.py` from the source of
every top-level function of bycycle's analysis modules (statement-by-statement translation; two-level object model:
a variable and its contents). -/

/-- the translated program is well summarised: every translated body, analysed with the summaries of its callees,
writes at most what its own summary says (kernel evaluation on the generated program); the functions C15 lists were
all found in the source and have the EMPTY summary. -/
theorem C15_translated_static :
    wellSummarised T.fns T.summ = true ∧
    T.pure.all (fun n => (T.summ.get n).isEmpty && (lookupFn T.fns n).isSome) = true :=
  ⟨T.fns_wellSummarised, T.pure_listed⟩

/-- … hence, for every resolution of the branches and every step budget, the translated body of each listed function,
with calls among bycycle's own functions EXECUTED on the shared object store, writes neither an argument object nor
anything inside one. -/
theorem C15_translated_frame (n : String) (hn : n ∈ T.pure) (f : Fn) (hf : lookupFn T.fns n = some f)
    (fuel : Nat) (oracle : List Bool) : f.runFull T.fns T.summ fuel oracle = [] := T.frame n hn f hf fuel oracle

/-- non-vacuity: the list is not empty and `compute_features` is on it and was translated. -/
example : "compute_features" ∈ T.pure ∧ (lookupFn T.fns "compute_features").isSome = true := by decide +kernel

/-- non-vacuity: without the defensive copy of `burst_kwargs` the analysis reports the write
(this is the defect repaired by commit c9c7490). -/
example : (Fn.mayWrite summaries ⟨"compute_features (no copy)", ["sig", "burst_kwargs", "threshold_kwargs", "find_extrema_kwargs"], [
    .copyIf false "burst_kwargs" "burst_kwargs", .ite [.fresh "burst_kwargs"] [], .ite [.write "burst_kwargs"] []]⟩) = [1] := by decide
/-- non-vacuity of the dynamic side: with the oracle taking the writing branch, parameter 1 is written. -/
example : (Fn.run summaries ⟨"compute_features (no copy)", ["sig", "burst_kwargs"], [
    .copyIf false "burst_kwargs" "burst_kwargs", .ite [.fresh "burst_kwargs"] [], .ite [.write "burst_kwargs"] []]⟩ [false, true]) = [1] := by decide
/-- non-vacuity of the interprocedural semantics: the write happens inside the callee's body (no summary is consulted),
and the static side, given the callee's summary, reports it. -/
example : (Fn.runFull [⟨"g", ["d"], [.write "d"]⟩, ⟨"f", ["a", "b"], [.call "g" ["b"]]⟩] [] 10 ⟨"f", ["a", "b"], [.call "g" ["b"]]⟩ []) = [1] := by decide
example : wellSummarised [⟨"g", ["d"], [.write "d"]⟩, ⟨"f", ["a", "b"], [.call "g" ["b"]]⟩] [("g", [0]), ("f", [1])] = true := by decide
/-- a branch cut short by the step budget is never followed by the continuation (regression for the first, unsound
formulation of `execFull`, found while proving `sound_full`). -/
example : (Fn.runFull [⟨"f", ["p"], [.ite [.alias "x" "p", .fresh "x"] [], .write "x"]⟩] [] 2 ⟨"f", ["p"], [.ite [.alias "x" "p", .fresh "x"] [], .write "x"]⟩ [true]) = [] := by decide

/-- NO STATE OUTSIDE THE ARGUMENTS (read off /repo on every run, `harness/modstate.py`): no function or method of the analysis modules declares a `global`, is
wrapped in a memoising decorator, writes through a module-level name (`NAME[k] = v`, `NAME.update(..)`, `NAME.attr = v`, ...), writes a mutable default
argument, and no class keeps a class-level container. Together with `C15_translated_frame` (no caller-owned object is written) the only objects a call can
write are the ones it created itself: nothing is left behind for a later call to read, which is the 'no call-history dependence' half of the statement.
(Sufficient, not necessary: a cache keyed on the VALUES of all its inputs would be harmless and would still break this theorem; the run then looks for a
failing history and says so when it finds none.) -/
theorem C15_no_module_state : Slots.moduleStateWrites = [] := by decide

end Bycycle.Eff
