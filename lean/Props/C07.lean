import Proofs.PipelineAmp
import Proofs.Detect
/-!
# C07 — amplitude burst labels follow the dual-threshold rule

The sample-wise detector (`neurodsp.burst.detect_bursts_dual_threshold`) is a parameter: its
output `mask` is an arbitrary boolean list. Modelled and proved here: the per-cycle fraction over
`[last, next]` inclusive, the `≥` rule followed by the run filter, the single `min_n_cycles`, the
guards, antitonicity in the threshold.
-/
namespace Bycycle

/-- burst_fraction of each cycle is the fraction of its samples last…next INCLUSIVE that are marked. -/
theorem C07_fraction (mask : List Bool) (sides : List (Nat × Nat)) :
    burstFraction mask sides = sides.map fun p => burstFractionSpec mask p.1 p.2 :=
  burstFraction_eq_spec mask sides

/-- inside the signal the window has exactly `next - last + 1` samples. -/
theorem C07_fraction_inside (mask : List Bool) (l n : Nat) (hln : l ≤ n) (hn : n < mask.length) :
    burstFractionSpec mask l n =
      some ((((List.range (n + 1 - l)).filter fun j => mask.getD (l + j) false).length : Rat) / ((n + 1 - l : Nat) : Rat)) :=
  burstFractionSpec_inside mask l n hln hn

theorem C07_fraction_range (mask : List Bool) (l n : Nat) (v : Rat) (h : burstFractionSpec mask l n = some v) :
    0 ≤ v ∧ v ≤ 1 :=
  burstFractionSpec_range mask l n v h

/-- labels: fraction ≥ threshold, then the minimum-run rule. -/
theorem C07_rule (fracs : List (Option Rat)) (thr minN : Rat) (h0 : 0 ≤ thr) (h1 : thr ≤ 1)
    (hk : fracs = [] ∨ 0 ≤ minN) : detectAmp fracs thr minN = .ok (ampSpec fracs thr minN) :=
  detectAmp_eq_spec fracs thr minN h0 h1 hk

theorem C07_pointwise (fracs : List (Option Rat)) (thr minN : Rat) (i : Nat) :
    (ampSpec fracs thr minN).getD i false =
      ((match fracs[i]? with | some (some v) => decide (thr ≤ v) | _ => false) &&
        decide (minN ≤ ((runLenAt (fracs.map fun f => match f with | some v => decide (thr ≤ v) | none => false) i : Nat) : Rat))) :=
  ampSpec_getD fracs thr minN i

/-- one and the same minimum-cycle count reaches the detector and the run filter: the burst
options' value if given, else the thresholds' value, else 3. -/
theorem C07_one_minN (b t : Option Rat) :
    (reconcileMinN b t).1 = (reconcileMinN b t).2 ∧ (reconcileMinN b t).1 = b.getD (t.getD 3) :=
  reconcileMinN_spec b t

/-- the detector runs with the given minimum duration when one is given (0 s included), else with the
reconciled cycle count. -/
theorem C07_detector_args (minN : Rat) (dur : Option Rat) :
    detectorArgs minN dur = detectorArgsSpec minN dur := by
  cases dur <;> simp [detectorArgs, detectorArgsSpec, OptTest.eval, Slots.durationTest]

/-- raising burst_fraction_threshold (or min_n_cycles) never adds a label. -/
theorem C07_antitone (fracs : List (Option Rat)) (thr thr' minN minN' : Rat) (h : thr ≤ thr') (hk : minN ≤ minN') :
    maskLe (ampSpec fracs thr' minN') (ampSpec fracs thr minN) :=
  ampSpec_antitone fracs thr thr' minN minN' h hk

theorem C07_rejects_threshold (fracs : List (Option Rat)) (thr minN : Rat) (h : thr < 0 ∨ 1 < thr) :
    detectAmp fracs thr minN = .error .valueError :=
  detectAmp_rejects fracs thr minN h

/-- reversed amplitude thresholds (and a negative lower one, a negative fs) are rejected. -/
theorem C07_rejects_amp_threshes (fs lo hi : Rat) :
    burstFractionGuard fs lo hi = (if fs < 0 ∨ lo < 0 ∨ hi < lo then .error .valueError else .ok ()) :=
  burstFractionGuard_spec fs lo hi

/-! non-vacuity -/
example : burstFraction [false, true, true, true, false, false] [(0, 3), (3, 5)] = [some (3/4), some (1/3)] := by decide +kernel
example : ampSpec [some 1, some 1, some (1/2), some 1, some 1, some 1] 1 3 = [false, false, false, true, true, true] := by decide +kernel

/-- END TO END: `compute_features(burst_method='amp')` as the composition `pipelineAmp` (cyclepoints, shape, the `min_n_cycles` reconciliation, the detector as a kernel,
burst fractions, labels). Whatever the kernels answer: the sample columns are a well-formed segmentation; every `burst_fraction` is the fraction of detector-marked samples in
`[last side, next side]` INCLUSIVE, the detector having been run with ONE minimum count - the burst options' if given, else the thresholds', else 3 - or with the given
minimum duration; and the labels are `burst_fraction >= threshold` followed by the run rule with that same count. -/
theorem C07_pipeline (c : Centre) (x : List Rat) (pad : Nat) (b : List Bool) (amp : List Rat) (bd : Int)
    (bkMinN thMinN dur : Option Rat) (detMask : Option Rat × Option Rat → List Bool) (thr : Rat) (o : PipeOutAmp)
    (hlen : b.length = x.length + 2 * pad) (h : pipelineAmp c x pad b amp bd bkMinN thMinN dur detMask thr = .ok o) :
    wellFormed o.samples x.length bd ∧
    o.fracs = o.samples.map (fun r => burstFractionSpec (detMask (detectorArgsSpec (bkMinN.getD (thMinN.getD 3)) dur)) r.lastTrough.toNat r.nextTrough.toNat) ∧
    (0 ≤ thr → thr ≤ 1 → (o.fracs = [] ∨ 0 ≤ bkMinN.getD (thMinN.getD 3)) → o.labels = ampSpec o.fracs thr (bkMinN.getD (thMinN.getD 3))) :=
  pipelineAmp_spec c x pad b amp bd bkMinN thMinN dur detMask thr o hlen h

/-- THE FILTER AS THIS DETECTOR USES IT: the labels `detect_bursts_amp` returns are a fixed point of the minimum-run filter (it keeps what the filter returns). -/
theorem C07_filter_fixed_point (fracs : List (Option Rat)) (thr minN : Rat) (labels : List Bool) (h0 : 0 ≤ thr) (h1 : thr ≤ 1)
    (hk : fracs = [] ∨ 0 ≤ minN) (h : detectAmp fracs thr minN = .ok labels) : minRun labels minN = labels := by
  rw [detectAmp_eq_spec fracs thr minN h0 h1 hk] at h
  injection h with h
  subst h
  unfold ampSpec
  rw [← minRun_eq_spec, minRun_idem]

example : detectAmp [some 1, some 1, some (1/2), some 1, some 1, some 1] 1 3 = .ok [false, false, false, true, true, true] := by decide +kernel

end Bycycle
