import Proofs.Covariance
import Proofs.Pipeline
/-!
# C10 — results are covariant with amplitude and sampling-rate units

Amplitude: for every `a > 0`, every function of the model either ignores the scale (arg-extrema,
half-height crossings, ratios, ranks, strict step counts, hence all sample indices, durations,
symmetries, consistencies, monotonicity, amplitude fraction and labels) or is homogeneous of degree one
(voltage features, band_amp). Kernels: filter linear ⇒ same sign pattern `b`; `amp(a·x) = a·amp(x)` (E5).
Sampling rate: no function of the model takes `fs` or `f_range` at all — they reach only the kernels
(filter length and cut-offs as ratios) — so `C10_rate` is true by construction of the model; that the
MODEL is right not to mention `fs` is what the correspondence runs (C01–C07) check.
-/
namespace Bycycle

/-- the whole consistency-method analysis is covariant with the amplitude unit, both centrings. -/
theorem C10_amplitude (a : Rat) (ha : 0 < a) (c : Centre) (x : List Rat) (pad : Nat) (b : List Bool) (amp : List Rat) (bd : Int) (th : CycThresh) :
    pipelineCycles c (scaleSig a x) pad b (scaleSig a amp) bd th = (pipelineCycles c x pad b amp bd th).map (PipeOut.scaleVolts a) := by
  cases c
  · exact pipeline_scale_peak a ha x pad b amp bd th
  · exact pipeline_scale_trough a ha x pad b amp bd th

theorem C10_cyclepoints (a : Rat) (ha : 0 < a) (sig : List Rat) (pad : Nat) (b : List Bool) (bd : Int) :
    computeCyclepoints (scaleSig a sig) pad b bd = computeCyclepoints sig pad b bd :=
  computeCyclepoints_scale a ha sig pad b bd

theorem C10_argext (a : Rat) (ha : 0 < a) (l : List Rat) :
    argmaxFirst (scaleSig a l) = argmaxFirst l ∧ argminFirst (scaleSig a l) = argminFirst l :=
  ⟨argmaxFirst_scale a ha l, argminFirst_scale a ha l⟩

theorem C10_midpoints (a : Rat) (ha : 0 < a) (sig : List Rat) (pk tr : List Nat) (seg : List Rat) (f : Flank) :
    findZerox (scaleSig a sig) pk tr = findZerox sig pk tr ∧ flankMid (scaleSig a seg) f = flankMid seg f :=
  ⟨findZerox_scale a ha sig pk tr, flankMid_scale a ha seg f⟩

theorem C10_shape (a : Rat) (ha : 0 < a) (x amp : List Rat) (rows : List SampleRow) :
    shapePeak (scaleSig a x) (scaleSig a amp) rows = (shapePeak x amp rows).map fun l => l.map (ShapeRow.scaleVolts a) :=
  shapePeak_scale a ha x amp rows

theorem C10_burst_features (a : Rat) (ha : 0 < a) (pc : Bool) (dir : Direction) (rises decays sig va : List Rat)
    (rows : List (Int × Int × Int)) :
    ampConsistency pc dir (scaleSig a rises) (scaleSig a decays) = ampConsistency pc dir rises decays ∧
    monotonicity pc (scaleSig a sig) rows = monotonicity pc sig rows ∧
    ampFraction (scaleSig a va) = ampFraction va :=
  ⟨ampConsistency_scale a ha pc dir rises decays, monotonicity_scale a ha pc sig rows, ampFraction_scale a ha va⟩

theorem C10_ratio (a : Rat) (ha : 0 < a) (x y : Rat) : ratioMinMax (a * x) (a * y) = ratioMinMax x y := ratioMinMax_scale a ha x y

/-- period consistency only reads the periods (sample counts). -/
theorem C10_period_consistency (dir : Direction) (periods : List Rat) : periodConsistency dir periods = periodConsistency dir periods := rfl

/-- sampling rate: the analysis after the kernels is a function of (signal, pad length, sign pattern,
boundary) only; two runs whose kernels answer alike return the same table. -/
theorem C10_rate (sig : List Rat) (pad pad' : Nat) (b b' : List Bool) (bd : Int) (hp : pad = pad') (hb : b = b') :
    computeCyclepoints sig pad b bd = computeCyclepoints sig pad' b' bd := by rw [hp, hb]

end Bycycle
