import BycycleModel.Routing
import Proofs.Zerox
import Proofs.ZeroxOffset
/-!
# C03 — flank midpoints sit where the flank crosses its half-height

`findZerox` / `flankMid` transcribe bycycle/cyclepoints/zerox.py (comparators and the inclusive
window from `Generated/SlotsCyclepoints.lean`); `flankMidSpec`, `crossingsSpec`, `risesSpec`,
`decaysSpec` are the statement. All theorems are for every signal over ℚ and every strictly
alternating extrema sequence, without length bound.
-/
namespace Bycycle

/-- the scan `pos[:-1] & ~pos[1:]` finds exactly the samples just before the half height is crossed
in the flank's direction. -/
theorem C03_crossings (seg : List Rat) (f : Flank) (h : Rat) :
    crossingsAux (seg.map (flankPos f h)) 0 = crossingsSpec seg f h := crossings_eq_spec seg f h

theorem C03_crossing_rise (seg : List Rat) (h : Rat) (i : Nat) :
    i ∈ crossingsSpec seg .rise h ↔ (i + 1 < seg.length ∧ seg.getD i 0 ≤ h ∧ h < seg.getD (i + 1) 0) :=
  mem_crossingsSpec_rise seg h i

theorem C03_crossing_decay (seg : List Rat) (h : Rat) (i : Nat) :
    i ∈ crossingsSpec seg .decay h ↔ (i + 1 < seg.length ∧ h < seg.getD i 0 ∧ seg.getD (i + 1) 0 ≤ h) :=
  mem_crossingsSpec_decay seg h i

/-- per flank, the implementation's value is the statement's value. -/
theorem C03_value (seg : List Rat) (f : Flank) (hne : seg ≠ []) : flankMid seg f = flankMidSpec seg f :=
  flankMid_eq_spec seg f hne

/-- a proper rising flank (end above start) always crosses its half height, so the `len/2` dummy is
reached only on flat-ended flanks. -/
theorem C03_crossing_exists_rise (seg : List Rat) (h : seg.headD 0 < seg.getLastD 0) :
    crossingsSpec seg .rise ((seg.headD 0 + seg.getLastD 0) / 2) ≠ [] := crossing_exists_rise seg h

theorem C03_crossing_exists_decay (seg : List Rat) (h : seg.getLastD 0 < seg.headD 0) :
    crossingsSpec seg .decay ((seg.headD 0 + seg.getLastD 0) / 2) ≠ [] := crossing_exists_decay seg h

/-- one crossing: the midpoint is that sample. -/
theorem C03_single (seg : List Rat) (f : Flank) (i : Nat)
    (hz : seg.all (· == 0) = false)
    (hinv : (match f with | .rise => decide (seg.getLastD 0 < seg.headD 0) | .decay => decide (seg.headD 0 < seg.getLastD 0)) = false)
    (hx : crossingsSpec seg f ((seg.headD 0 + seg.getLastD 0) / 2) = [i]) : flankMidSpec seg f = i :=
  flankMidSpec_single seg f i hz hinv hx

/-- several crossings: the temporal median, rounded down. -/
theorem C03_median (seg : List Rat) (f : Flank) (xs : List Nat)
    (hz : seg.all (· == 0) = false)
    (hinv : (match f with | .rise => decide (seg.getLastD 0 < seg.headD 0) | .decay => decide (seg.headD 0 < seg.getLastD 0)) = false)
    (hx : crossingsSpec seg f ((seg.headD 0 + seg.getLastD 0) / 2) = xs) (hne : xs ≠ []) :
    flankMidSpec seg f = (xs.getD ((xs.length - 1) / 2) 0 + xs.getD (xs.length / 2) 0) / 2 :=
  flankMidSpec_median seg f xs hz hinv hx hne

/-- inverted or identically-zero flank: the temporal centre of the segment. -/
theorem C03_centre (seg : List Rat) (f : Flank)
    (h : seg.all (· == 0) = true ∨
         (match f with | .rise => seg.getLastD 0 < seg.headD 0 | .decay => seg.headD 0 < seg.getLastD 0)) :
    flankMidSpec seg f = seg.length / 2 := flankMidSpec_centre seg f h

/-- the midpoint never leaves its segment. -/
theorem C03_within_segment (seg : List Rat) (f : Flank) (hne : seg ≠ []) : flankMidSpec seg f < seg.length :=
  flankMidSpec_lt seg f hne

/-- one midpoint per pair of adjacent extrema. -/
theorem C03_count (sig : List Rat) (seq : List Ext1) : (flankMidsSpec sig seq).length = seq.length - 1 :=
  flankMidsSpec_length sig seq

/-- midpoint `j` belongs to flank `j`: rise iff the flank starts at a trough, and it lies between the
two extrema (so rises and decays come out in temporal order). -/
theorem C03_within (sig : List Rat) (seq : List Ext1) (hv : validSeq sig.length seq = true)
    (j : Nat) (hj : j + 1 < seq.length) :
    ∃ a b m, seq[j]? = some a ∧ seq[j + 1]? = some b ∧ (flankMidsSpec sig seq)[j]? = some m ∧
      m.1 = !a.isPeak ∧ a.idx ≤ m.2 ∧ m.2 ≤ b.idx := flankMidsSpec_within sig seq hv j hj

/-- the implementation (count / bias logic included) returns exactly these midpoints. -/
theorem C03_counts_order (sig : List Rat) (peaks troughs : List Nat) (p0 t0 : Nat)
    (hp : peaks.head? = some p0) (ht : troughs.head? = some t0)
    (hlen : (interleave (decide (p0 < t0)) peaks troughs).length = peaks.length + troughs.length)
    (hv : validSeq sig.length (interleave (decide (p0 < t0)) peaks troughs) = true) :
    findZerox sig peaks troughs =
      .ok (risesSpec sig (interleave (decide (p0 < t0)) peaks troughs),
           decaysSpec sig (interleave (decide (p0 < t0)) peaks troughs)) :=
  findZerox_eq_spec sig peaks troughs p0 t0 hp ht hlen hv

/-! non-vacuity -/
example : findZerox [0, 1, 2, 1, 0, -1, 0, 2] [2, 7] [0, 5] = .ok ([1, 6], [3]) := by decide +kernel
example : validSeq 8 (interleave (decide (2 < 0)) [2, 7] [0, 5]) = true ∧
    (interleave (decide (2 < 0)) [2, 7] [0, 5]).length = 4 := by decide +kernel
example : crossingsSpec [0, 2, 0, 2, 0, 2, 1] .rise (1/2) = [0, 2, 4] ∧ flankMidSpec [0, 2, 0, 2, 0, 2, 1] .rise = 2 := by
  decide +kernel

/-- POSITION INDEPENDENCE: the midpoints of a flank do not depend on where in the recording the flank sits. Prepending any stretch `pre` to the signal and
shifting every extremum by its length shifts every midpoint by the same amount and changes nothing else (errors included) - for recordings of every length,
so that what the directed long cases of the correspondence run (flanks beyond sample 2^16 and 2^17) can still expose is exactly a dependence of the
implementation on the SIZE of an index, which the definition does not have. -/
theorem C03_offset (pre sig : List Rat) (peaks troughs : List Nat) :
    findZerox (pre ++ sig) (peaks.map (· + pre.length)) (troughs.map (· + pre.length))
      = (findZerox sig peaks troughs).map (fun rd => (rd.1.map (· + pre.length), rd.2.map (· + pre.length))) :=
  findZerox_offset pre sig peaks troughs

example : findZerox ([5, 5, 5] ++ [0, 1, 2, 1, 0, -1, 0, 2]) [5, 10] [3, 8] = .ok ([4, 9], [6]) := by decide +kernel

/-- the wiring read off the source: `find_extrema` searches the crossings of the FILTERED signal, `find_zerox` searches every rise from a trough to a
peak and every decay from a peak to a trough on the signal it was given. -/
theorem C03_routing : ∀ r ∈ Routing.cyclepoints, Routing.holds Slots.routes r = true := by decide +kernel

end Bycycle
