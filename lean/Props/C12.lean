import BycycleModel.Routing
import Proofs.Group
/-!
# C12 — 3-D group results sit at the position of their signal

`features3d` transcribes `compute_features_3d`: swapaxes / `zip(*…)` transposition for axis = 1, reshape
to 2-D and the un-flattening index expression for axis = (0, 1) — the expression itself is regenerated
from /repo (`Slots.unflattenIdx`). For ALL grid extents n0, n1 and every completion order σ.
-/
namespace Bycycle

theorem C12_axis01 {S O R} (analyse : S → O → R) (analyseEpochs : List S → O → List R) (setRS : O → O) (dflt : O)
    (σ : List Nat) (n0 n1 : Nat) (sigs : List (List S)) (kw : Kw O) (hrect : Rect n0 n1 sigs)
    (hk : ∀ os, kw = .many os → os.length = n0 * n1) (i j : Nat) (hi : i < n0) (hj : j < n1) :
    ∃ row s, (features3d analyse analyseEpochs setRS dflt σ n0 n1 sigs kw .a01)[i]? = some row ∧
      (sigs[i]?.bind (·[j]?)) = some s ∧
      row[j]? = some (analyse s (setRS (optAt dflt kw (i * n1 + j)))) ∧ row.length = n1 :=
  features3d_a01_get analyse analyseEpochs setRS dflt σ n0 n1 sigs kw hrect hk i j hi hj

theorem C12_axis0 {S O R} (analyse : S → O → R) (analyseEpochs : List S → O → List R) (setRS : O → O) (dflt : O)
    (σ : List Nat) (n0 n1 : Nat) (sigs : List (List S)) (kw : Kw O) (hrect : Rect n0 n1 sigs)
    (hk : ∀ os, kw = .many os → os.length = n0) (i : Nat) (hi : i < n0) :
    ∃ s, sigs[i]? = some s ∧
      (features3d analyse analyseEpochs setRS dflt σ n0 n1 sigs kw .a0)[i]? = some (analyseEpochs s (optAt dflt kw i)) :=
  features3d_a0_get analyse analyseEpochs setRS dflt σ n0 n1 sigs kw hrect hk i hi

theorem C12_axis1 {S O R} (analyse : S → O → R) (analyseEpochs : List S → O → List R) (setRS : O → O) (dflt : O)
    (σ : List Nat) (n0 n1 : Nat) (sigs : List (List S)) (kw : Kw O) (hrect : Rect n0 n1 sigs)
    (hk : ∀ os, kw = .many os → os.length = n1)
    (hlen : ∀ xs o, (analyseEpochs xs o).length = xs.length) (i j : Nat) (hi : i < n0) (hj : j < n1) :
    ∃ row, (features3d analyse analyseEpochs setRS dflt σ n0 n1 sigs kw .a1)[i]? = some row ∧
      row[j]? = (analyseEpochs (sigs.filterMap (·[j]?)) (optAt dflt kw j))[i]? ∧
      (sigs.filterMap (·[j]?)).length = n0 :=
  features3d_a1_get analyse analyseEpochs setRS dflt σ n0 n1 sigs kw hrect hk hlen i j hi hj

theorem C12_transpose {α} (n0 n1 : Nat) (x : List (List α)) (h : Rect n0 n1 x) (i j : Nat) (hi : i < n0) (hj : j < n1) :
    ((transposeL n1 x)[j]?.bind (·[i]?)) = (x[i]?.bind (·[j]?)) ∧ Rect n1 n0 (transposeL n1 x) :=
  ⟨transposeL_get n0 n1 x h i j hi hj, transposeL_rect n0 n1 x h⟩

/-- the earlier index expression `i + j` is wrong already on a 2 × 2 grid. -/
theorem C12_index_counterexample : (fun (n1 i j : Nat) => i + j) 2 1 0 ≠ (fun (n1 i j : Nat) => i * n1 + j) 2 1 0 :=
  unflatten_wrong_counterexample

/-! non-vacuity -/
example : Rect 2 3 [[0, 1, 2], [3, 4, 5]] := ⟨rfl, by intro row h; simp at h; rcases h with h | h <;> simp [h]⟩
example : features3d (fun (s o : Nat) => (s, o)) (fun xs o => xs.map fun s => (s, o)) id 0 [] 2 3 [[0, 1, 2], [3, 4, 5]]
    (.many [10, 11, 12, 13, 14, 15]) .a01 = [[(0, 10), (1, 11), (2, 12)], [(3, 13), (4, 14), (5, 15)]] := by decide

/-- the group object's wiring as far as this property reads it (`Routing.groupObject`, extracted from the source on every run): the stored array, rate, band,
axis, sample switch, number of jobs and ONE option dictionary built from the stored settings reach the group analysis; every model is built with the group's settings. -/
theorem C12_group_routing : ∀ r ∈ Routing.groupObject, r.2.1 != "compute_features_2d" → Routing.holdsAll Slots.routes r = true := by decide +kernel

end Bycycle
