import Proofs.Phase
/-!
# C17 — interpolated phase is anchored at cyclepoints and monotone between them

`interpolatedPhase` transcribes `extrema_interpolated_phase` in units of π/2 over ℚ (np.interp as exact
clamped linear interpolation). Statements are about the anchor array `arr` the routine builds
(`anchorArray`: midpoints first, extrema overwrite), for every array length and every anchor set;
`validAnchors` says consecutive anchors advance trough → rise → peak → decay → trough by one or two quarter
cycles, which is what alternating extrema with midpoints inside their flanks produce.
-/
namespace Bycycle

theorem C17_array (n : Nat) (peaks troughs : List Nat) (rises decays : Option (List Nat)) (arr : List (Option Int))
    (h : anchorArray n peaks troughs rises decays = .ok arr) (t : Nat) (ht : t < n) :
    arr.length = n ∧
    (t ∈ troughs → arr[t]? = some (some (-2))) ∧
    (t ∉ troughs → t ∈ peaks → arr[t]? = some (some 0)) ∧
    (t ∉ troughs → t ∉ peaks → t ∈ decays.getD [] → arr[t]? = some (some 1)) ∧
    (t ∉ troughs → t ∉ peaks → t ∉ decays.getD [] → t ∈ rises.getD [] → arr[t]? = some (some (-1))) ∧
    (t ∉ troughs → t ∉ peaks → t ∉ decays.getD [] → t ∉ rises.getD [] → arr[t]? = some none) :=
  anchorArray_values n peaks troughs rises decays arr h t ht

/-- 0 at peaks, ±π at troughs, −π/2 at rise and +π/2 at decay midpoints. -/
theorem C17_anchors (arr : List (Option Int)) (pha : List (Option Rat)) (h : phaseOfArray arr = .ok pha)
    (t : Nat) (v : Int) (ha : arr[t]? = some (some v)) :
    ∃ q, pha[t]? = some (some q) ∧ (q = (v : Rat) ∨ (v = -2 ∧ q = 2)) := phase_anchor arr pha h t v ha

theorem C17_range (arr : List (Option Int)) (pha : List (Option Rat)) (h : phaseOfArray arr = .ok pha)
    (hc : ∀ (i : Nat) (v : Int), arr[i]? = some (some v) → -2 ≤ v ∧ v ≤ 1) (t : Nat) (q : Rat) (hq : pha[t]? = some (some q)) :
    -2 ≤ q ∧ q ≤ 2 := phase_range arr pha h hc t q hq

/-- finite on the whole span from the first to the last supplied cyclepoint and NaN outside it. -/
theorem C17_span (arr : List (Option Int)) (pha : List (Option Rat)) (h : phaseOfArray arr = .ok pha)
    (t : Nat) (ht : t < arr.length) :
    pha.length = arr.length ∧
    ((pha.getD t none).isNone = true ↔
      (∀ (i : Nat) (v : Int), i ≤ t → arr[i]? ≠ some (some v)) ∨ (∀ (i : Nat) (v : Int), t ≤ i → arr[i]? ≠ some (some v))) :=
  ⟨phase_length arr pha h, phase_span arr pha h t ht⟩

theorem C17_monotone (arr : List (Option Int)) (pha : List (Option Rat)) (h : phaseOfArray arr = .ok pha)
    (hv : validAnchors (anchorList arr) = true) (t : Nat) (a b : Rat)
    (ha : pha[t]? = some (some a)) (hb : pha[t + 1]? = some (some b)) :
    a ≤ b ∨ arr[t + 1]? = some (some (-2)) := phase_monotone arr pha h hv t a b ha hb

theorem C17_interp (anchors : List (Nat × Rat)) (hs : (anchors.map (·.1)).Pairwise (· < ·)) (hne : anchors ≠ [])
    (lo hi : Rat) (hb : ∀ p ∈ anchors, lo ≤ p.2 ∧ p.2 ≤ hi) (t : Nat) :
    (lo ≤ interpAt anchors t ∧ interpAt anchors t ≤ hi) ∧ ∀ x v, (x, v) ∈ anchors → interpAt anchors x = v :=
  ⟨interpAt_bounds anchors hs hne lo hi hb t, fun x v hm => interpAt_anchor anchors hs x v hm⟩

theorem C17_no_cyclepoints (arr : List (Option Int)) (h : anchorList arr = []) : phaseOfArray arr = .error .valueError :=
  phase_no_anchor arr h

/-! non-vacuity -/
example : interpolatedPhase 12 [2, 8] [5, 10] (some [7]) (some [3, 9]) =
    .ok [none, none, some 0, some 1, some (3/2), some (-2), some (-3/2), some (-1), some 0, some 1, some (-2), none] := by decide +kernel
example : validAnchors (anchorList [none, none, some 0, some 1, none, some (-2), none, some (-1), some 0, some 1, some (-2), none]) = true := by decide

end Bycycle
