import Proofs.Frames
/-!
# C18 — table and signal windowing utilities are lossless selections

`limitDf`, `limitSignal` transcribe bycycle/utils (comparators regenerated from /repo); rows are abstract
(`payload` = every non-sample column). `fsStart = start·fs`, `fsStop = stop·fs`, `off = int(fs·start)` are
inputs, so the statements are about the selection and the shift, for every table and every window.
-/
namespace Bycycle

theorem C18_limit_rule {P} (rows : List (FRow P)) (a : Rat) (b : Option Rat) (off : Int) (reset : Bool) :
    limitDf rows a b off reset = limitSpec rows a b off reset := limitDf_eq_spec rows a b off reset

/-- in order, with unchanged values. -/
theorem C18_limit_sublist {P} (rows : List (FRow P)) (a : Rat) (b : Option Rat) (off : Int) :
    (limitSpec rows a b off false).Sublist rows := limitSpec_sublist rows a b off

/-- every cycle entirely inside is kept; nothing else. -/
theorem C18_limit_membership {P} (rows : List (FRow P)) (a : Rat) (b : Option Rat) (off : Int) (r : FRow P) :
    r ∈ limitSpec rows a b off false ↔
      (r ∈ rows ∧ a ≤ (r.s.lastTrough : Rat) ∧ ∀ st, b = some st → (r.s.nextTrough : Rat) ≤ st) :=
  mem_limitSpec rows a b off r

theorem C18_limit_outside {P} (rows : List (FRow P)) (a st : Rat) (off : Int) (r : FRow P)
    (hr : r ∈ limitSpec rows a (some st) off false) (hord : r.s.lastTrough < r.s.nextTrough) :
    ¬ ((r.s.nextTrough : Rat) < a) ∧ ¬ (st < (r.s.lastTrough : Rat)) := limitSpec_outside rows a st off r hr hord

theorem C18_limit_reset {P} (rows : List (FRow P)) (a : Rat) (b : Option Rat) (off : Int) :
    limitSpec rows a b off true = (limitSpec rows a b off false).map (·.shift off) ∧
    ∀ r : SampleRow, (r.shift off).peak = r.peak - off ∧ (r.shift off).lastZeroxDecay = r.lastZeroxDecay - off ∧
      (r.shift off).zeroxDecay = r.zeroxDecay - off ∧ (r.shift off).zeroxRise = r.zeroxRise - off ∧
      (r.shift off).lastTrough = r.lastTrough - off ∧ (r.shift off).nextTrough = r.nextTrough - off :=
  limitSpec_reset rows a b off

/-- limit_signal returns exactly the samples with start ≤ t < stop (either limit optional). -/
theorem C18_limit_signal (times : List Rat) (a b : Option Rat) (i : Nat) :
    limitSignal times a b = limitSignalSpec times a b ∧
    (i ∈ limitSignalSpec times a b ↔
      (i < times.length ∧ (∀ x, a = some x → x ≤ times.getD i 0) ∧ (∀ y, b = some y → times.getD i 0 < y))) :=
  ⟨limitSignal_eq_spec times a b, mem_limitSignalSpec times a b i⟩

theorem C18_split_drop (cols : List String) :
    (splitSamples cols).1 = dropSamples cols ∧
    (∀ c, c ∈ (splitSamples cols).1 ↔ (c ∈ cols ∧ c.startsWith "sample_" = false)) ∧
    (∀ c, c ∈ (splitSamples cols).2 ↔ (c ∈ cols ∧ c.startsWith "sample_" = true)) ∧
    (splitSamples cols).1.length + (splitSamples cols).2.length = cols.length := splitSamples_partition cols

theorem C18_flatten {α L} (tables : List (List α)) (labels : List L) :
    (labels.length ≠ tables.length → flattenDfs tables labels = .error .valueError) ∧
    (labels.length = tables.length → ∃ out, flattenDfs tables labels = .ok out ∧ out.map (·.1) = tables.flatten ∧
      out.length = (tables.map List.length).sum) := flattenDfs_spec tables labels

theorem C18_flatten_labels {α L} (tables : List (List α)) (labels : List L) (out : List (α × L))
    (h : flattenDfs tables labels = .ok out) (p : α × L) (hp : p ∈ out) :
    ∃ (i : Nat) (t : List α) (l : L), tables[i]? = some t ∧ labels[i]? = some l ∧ p.1 ∈ t ∧ p.2 = l := flattenDfs_labels tables labels out h p hp

/-! non-vacuity -/
example : (limitSpec ([⟨⟨5, 1, 6, 4, 3, 8⟩, 0⟩, ⟨⟨12, 6, 14, 10, 8, 20⟩, 1⟩, ⟨⟨25, 14, 27, 23, 20, 29⟩, 2⟩] : List (FRow Nat)) 8 (some 29) 8 true).map
    (fun r => (r.payload, r.s.lastTrough, r.s.nextTrough)) = [(1, 0, 12), (2, 12, 21)] := by decide +kernel
example : limitSignalSpec [0, 1/4, 1/2, 3/4, 1] (some (1/4)) (some 1) = [1, 2, 3] := by decide +kernel

end Bycycle
