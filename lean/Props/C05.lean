import BycycleModel.Routing
import Proofs.BurstFeatures
/-!
# C05 — burst features equal their documented definitions

`ampConsistency`, `periodConsistency`, `monotonicity`/`stepFraction`, `ampFraction` transcribe
bycycle/features/burst.py (neighbour offsets of the two centring branches and the strict comparators are
regenerated from /repo). The specification is centring-free: it speaks about the temporal flank sequence.
-/
namespace Bycycle

/-- amp_consistency of an interior cycle is the smallest min/max ratio among the three adjacent rise/decay
pairs that include one of the cycle's flanks, clamped at 0 — for peak- and trough-centred tables alike —
and NaN for the first and last cycle. -/
theorem C05_ampcons (pc : Bool) (rises decays : List Rat) (hlen : rises.length = decays.length)
    (hn : 0 < rises.length) :
    ampConsistency pc .both rises decays =
      .ok ((List.range rises.length).map fun c =>
        if c = 0 ∨ c + 1 = rises.length then F.nan else ampConsSpec (flankSeq pc rises decays) c) :=
  ampConsistency_eq_spec pc rises decays hlen hn

/-- the directional variants (direction = 'next' / 'last', used by edge recomputation) likewise. -/
theorem C05_ampcons_dir (pc : Bool) (dir : Direction) (rises decays : List Rat)
    (hlen : rises.length = decays.length) (hn : 0 < rises.length) :
    ampConsistency pc dir rises decays =
      .ok ((List.range rises.length).map fun c =>
        if c = 0 ∨ c + 1 = rises.length then F.nan else ampConsSpecDir dir (flankSeq pc rises decays) c) :=
  ampConsistency_dir_eq_spec pc dir rises decays hlen hn

theorem C05_ampcons_dir_both (fl : List Rat) (c : Nat) : ampConsSpecDir .both fl c = ampConsSpec fl c :=
  ampConsSpecDir_both fl c

theorem C05_flank_sequence (pc : Bool) (rises decays : List Rat) (c : Nat) (hc : c < rises.length) :
    (flankSeq pc rises decays).getD (2 * c) 0 = (if pc then rises.getD c 0 else decays.getD c 0) ∧
    (flankSeq pc rises decays).getD (2 * c + 1) 0 = (if pc then decays.getD c 0 else rises.getD c 0) :=
  flankSeq_get pc rises decays c hc

theorem C05_ampcons_range (fl : List Rat) (c : Nat) (hc : 1 ≤ c)
    (hpos : 0 < fl.getD (2*c - 1) 0 ∧ 0 < fl.getD (2*c) 0 ∧ 0 < fl.getD (2*c + 1) 0 ∧ 0 < fl.getD (2*c + 2) 0) :
    ∃ q, ampConsSpec fl c = .fin q ∧ 0 < q ∧ q ≤ 1 := ampConsSpec_range fl c hc hpos

theorem C05_ampcons_clamped (fl : List Rat) (c : Nat) : (ampConsSpec fl c).neg? = false := ampConsSpec_nonneg fl c

theorem C05_empty_table (pc : Bool) (dir : Direction) (decays : List Rat) :
    ampConsistency pc dir [] decays = .error .indexError := ampConsistency_empty pc dir decays

theorem C05_percons (periods : List Rat) (hn : 0 < periods.length) (hpos : ∀ p ∈ periods, 0 < p) :
    periodConsistency .both periods =
      .ok ((List.range periods.length).map fun c =>
        if c = 0 ∨ c + 1 = periods.length then F.nan
        else F.fin (min (min (periods.getD c 0) (periods.getD (c - 1) 0) / max (periods.getD c 0) (periods.getD (c - 1) 0))
                        (min (periods.getD (c + 1) 0) (periods.getD c 0) / max (periods.getD (c + 1) 0) (periods.getD c 0)))) :=
  periodConsistency_spec periods hn hpos

/-- ... and the one-sided variants (`direction='next'` / `'last'`, the values edge recomputation writes): the ratio with the following / the preceding period only. -/
theorem C05_percons_dir (periods : List Rat) (hn : 0 < periods.length) (hpos : ∀ p ∈ periods, 0 < p) :
    periodConsistency .next periods =
      .ok ((List.range periods.length).map fun c =>
        if c = 0 ∨ c + 1 = periods.length then F.nan
        else F.fin (min (periods.getD (c + 1) 0) (periods.getD c 0) / max (periods.getD (c + 1) 0) (periods.getD c 0))) ∧
    periodConsistency .last periods =
      .ok ((List.range periods.length).map fun c =>
        if c = 0 ∨ c + 1 = periods.length then F.nan
        else F.fin (min (periods.getD c 0) (periods.getD (c - 1) 0) / max (periods.getD c 0) (periods.getD (c - 1) 0))) :=
  periodConsistency_dir_spec periods hn hpos

example : periodConsistency .next [4, 2, 8, 8] = .ok [.nan, .fin (1/4), .fin 1, .nan] ∧ periodConsistency .last [4, 2, 8, 8] = .ok [.nan, .fin (1/2), .fin (1/4), .nan] := by
  decide +kernel

theorem C05_ratio_range (a b : Rat) (ha : 0 < a) (hb : 0 < b) : 0 < min a b / max a b ∧ min a b / max a b ≤ 1 :=
  ratio_pos_range a b ha hb

/-- monotonicity counts strictly increasing steps in the rise and strictly decreasing steps in the decay. -/
theorem C05_mono_steps (up : Bool) (w : List Rat) : stepFraction up w = stepFractionSpec up w :=
  stepFraction_eq_spec up w

theorem C05_mono_range (up up' : Bool) (w w' : List Rat) (q : Rat)
    (h : meanF2 (stepFraction up w) (stepFraction up' w') = .fin q) : 0 ≤ q ∧ q ≤ 1 :=
  meanF2_range _ _ q
    (fun x hx => stepFractionSpec_range up w x (by rw [← stepFraction_eq_spec]; exact hx))
    (fun x hx => stepFractionSpec_range up' w' x (by rw [← stepFraction_eq_spec]; exact hx)) h

/-- amp_fraction is the average rank of volt_amp divided by the number of cycles. -/
theorem C05_rank (va : List Rat) (i : Nat) (hi : i < va.length) :
    (ampFraction va).getD i 0 =
      (((va.filter fun y => decide (y < va.getD i 0)).length : Rat) +
        (((va.filter fun y => decide (y = va.getD i 0)).length : Rat) + 1) / 2) / (va.length : Rat) := by
  rw [ampFraction_get va i hi, rankAvg_def]

/-- … also when some amplitudes are undefined (NaN): a defined amplitude is ranked among the DEFINED ones, the divisor is still the number
of cycles of the table, an undefined amplitude stays undefined; without undefined entries this is `ampFraction`. -/
theorem C05_rank_undefined (va : List (Option Rat)) :
    ampFractionN va = va.map (fun x => x.map fun v => rankAvg (va.filterMap id) v / (va.length : Rat)) ∧
    (∀ xs : List Rat, ampFractionN (xs.map some) = (ampFraction xs).map some) := by
  refine ⟨rfl, ?_⟩
  intro xs
  simp [ampFractionN, ampFraction, List.filterMap_map, Function.comp_def]

theorem C05_rank_range (xs : List Rat) (x : Rat) (hx : x ∈ xs) :
    0 < rankAvg xs x / (xs.length : Rat) ∧ rankAvg xs x / (xs.length : Rat) ≤ 1 := ampFraction_range xs x hx

theorem C05_rank_order (xs : List Rat) (x y : Rat) (hx : x ∈ xs) (hy : y ∈ xs) (h : x < y) :
    rankAvg xs x < rankAvg xs y := rankAvg_strictMono xs x y hx hy h

/-! non-vacuity -/
example : ampFractionN [some 1, none, some 3, some 2] = [some (1/4), none, some (3/4), some (1/2)] := by decide +kernel
example : ampConsistency true .both [1, 2, 4, 1] [2, 2, 1, 3] = .ok [.nan, .fin (1/2), .fin (1/4), .nan] := by decide +kernel
example : ampConsistency false .both [1, 2, 4, 1] [2, 2, 1, 3] = .ok [.nan, .fin (1/2), .fin (1/4), .nan] := by decide +kernel
example : ampFraction [3, 1, 3, 2] = [7/8, 1/4, 7/8, 1/2] := by decide +kernel

/-- the wiring of the burst-feature stage read off the source: the four features are computed from the one table the stage was given, monotonicity and
the amplitude detector also get the signal, the detector the caller's burst options, the run filter the caller's `min_n_cycles`. -/
theorem C05_routing : ∀ r ∈ Routing.burstFeatures, Routing.holds Slots.routes r = true := by decide +kernel

end Bycycle
