import BycycleModel.Routing
import Proofs.Group
/-!
# C11 — 2-D group analysis equals per-signal analysis, in order

`features2d` transcribes `compute_features_2d(axis=0)`; the pool method, the zip condition are regenerated
from /repo. Generic in the per-signal analysis `analyse` (any function), the option type and the
`return_samples` override `setRS`; `σ` is an ARBITRARY completion order of the worker tasks.
-/
namespace Bycycle

/-- for every completion order the result list is positionally the per-row analysis with the row's options. -/
theorem C11_positional {S O R} (analyse : S → O → R) (setRS : O → O) (dflt : O) (σ : List Nat)
    (sigs : List S) (kw : Kw O) (hk : ∀ os, kw = .many os → os.length = sigs.length)
    (i : Nat) (hi : i < sigs.length) :
    (features2d analyse setRS dflt σ sigs kw)[i]? = some (analyse sigs[i] (setRS (optAt dflt kw i))) := by
  rw [features2d_eq_spec analyse setRS dflt σ sigs kw hk]
  exact features2dSpec_get analyse setRS dflt sigs kw hk i hi

theorem C11_length {S O R} (analyse : S → O → R) (setRS : O → O) (dflt : O) (σ : List Nat)
    (sigs : List S) (kw : Kw O) (hk : ∀ os, kw = .many os → os.length = sigs.length) :
    (features2d analyse setRS dflt σ sigs kw).length = sigs.length := by
  rw [features2d_eq_spec analyse setRS dflt σ sigs kw hk]
  exact features2dSpec_length analyse setRS dflt sigs kw hk

/-- independence of scheduling: two completion orders give the same list. -/
theorem C11_schedule_independent {S O R} (analyse : S → O → R) (setRS : O → O) (dflt : O) (σ σ' : List Nat)
    (sigs : List S) (kw : Kw O) (hk : ∀ os, kw = .many os → os.length = sigs.length) :
    features2d analyse setRS dflt σ sigs kw = features2d analyse setRS dflt σ' sigs kw := by
  rw [features2d_eq_spec analyse setRS dflt σ sigs kw hk, features2d_eq_spec analyse setRS dflt σ' sigs kw hk]

theorem C11_imap_ordered {α β} (σ : List Nat) (f : α → β) (xs : List α) :
    poolRun .imap σ f xs = xs.map f ∧ poolRun .map σ f xs = xs.map f := poolRun_imap σ f xs

/-- the pool method matters: the same statement is false for `imap_unordered`. -/
theorem C11_unordered_counterexample :
    poolRun .imapUnordered [1, 0] (fun x : Nat => x + 10) [1, 2] ≠ [1, 2].map (fun x : Nat => x + 10) :=
  poolRun_unordered_counterexample

/-! non-vacuity -/
example : features2d (fun (s o : Nat) => (s, o)) id 0 [2, 0, 1] [10, 20, 30] (.many [1, 2, 3]) = [(10, 1), (20, 2), (30, 3)] := by decide

/-- the wiring of the group functions read off the source: rate, band and the sample switch reach every per-signal analysis (direct, through `partial`, or
through the proxies), the flattened analysis keeps its samples, the 3-D analysis delegates with axis 0 / None. -/
theorem C11_routing : ∀ r ∈ Routing.group, Routing.holds Slots.routes r = true := by decide +kernel

/-- the group object's wiring as far as this property reads it (`Routing.groupObject`, extracted from the source on every run): the stored array, rate, band,
axis, sample switch, number of jobs and ONE option dictionary built from the stored settings reach the group analysis; every model is built with the group's settings. -/
theorem C11_group_routing : ∀ r ∈ Routing.groupObject, r.2.1 != "compute_features_3d" → Routing.holdsAll Slots.routes r = true := by decide +kernel

end Bycycle
