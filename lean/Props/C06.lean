import Proofs.Detect
import Proofs.Pipeline
/-!
# C06 — consistency burst labels follow the threshold-and-run rule

`detectCycles` is the transcription of `detect_bursts_cycles` whose comparators, conjunction and
forced-False indices are regenerated from /repo (`Generated/SlotsDetect.lean`); `cyclesSpec` is the
statement of the property. Quantified over every table (any length, NaNs anywhere), every threshold
vector and every `min_n_cycles`.
-/
namespace Bycycle

/-- for valid thresholds the implementation's labels are exactly the rule's labels. -/
theorem C06_rule (rows : List CycRow) (th : CycThresh) (hv : th.valid) (hk : rows = [] ∨ 0 ≤ th.minN) :
    detectCycles rows th = .ok (cyclesSpec rows th) :=
  detectCycles_eq_spec rows th hv hk

theorem C06_length (rows : List CycRow) (th : CycThresh) : (cyclesSpec rows th).length = rows.length :=
  cyclesSpec_length rows th

/-- a cycle is labelled exactly when it qualifies (interior, all four strictly above threshold) and its
maximal run of qualifying cycles has at least `min_n_cycles` members. -/
theorem C06_pointwise (rows : List CycRow) (th : CycThresh) (i : Nat) :
    (cyclesSpec rows th).getD i false =
      (qualifies rows th i && decide (th.minN ≤ ((runLenAt (qualMask rows th) i : Nat) : Rat))) :=
  cyclesSpec_getD rows th i

/-- no other cycle is labelled. -/
theorem C06_sound (rows : List CycRow) (th : CycThresh) (i : Nat)
    (h : (cyclesSpec rows th).getD i false = true) :
    qualifies rows th i = true ∧ th.minN ≤ ((runLenAt (qualMask rows th) i : Nat) : Rat) :=
  cyclesSpec_sound rows th i h

/-- none that qualifies is missed. -/
theorem C06_complete (rows : List CycRow) (th : CycThresh) (i : Nat)
    (hq : qualifies rows th i = true) (hr : th.minN ≤ ((runLenAt (qualMask rows th) i : Nat) : Rat)) :
    (cyclesSpec rows th).getD i false = true :=
  cyclesSpec_complete rows th i hq hr

/-- the first and last cycle never qualify. -/
theorem C06_ends (rows : List CycRow) (th : CycThresh) :
    (cyclesSpec rows th).getD 0 false = false ∧ (cyclesSpec rows th).getD (rows.length - 1) false = false :=
  cyclesSpec_ends rows th

/-- equality with a threshold does not qualify (strictness), NaN does not qualify. -/
theorem C06_strict (rows : List CycRow) (th : CycThresh) (i : Nat) (r : CycRow) (hr : rows[i]? = some r)
    (h : r.ampFraction = some th.ampFraction ∨ r.ampConsistency = some th.ampConsistency ∨
         r.periodConsistency = some th.periodConsistency ∨ r.monotonicity = some th.monotonicity ∨
         r.ampFraction = none ∨ r.ampConsistency = none ∨ r.periodConsistency = none ∨ r.monotonicity = none) :
    (cyclesSpec rows th).getD i false = false :=
  cyclesSpec_strict rows th i r hr h

/-- raising any threshold or `min_n_cycles` on a fixed table only removes labels. -/
theorem C06_antitone (rows : List CycRow) (a b : CycThresh) (h : a.le b) :
    maskLe (cyclesSpec rows b) (cyclesSpec rows a) :=
  cyclesSpec_antitone rows a b h

/-- a threshold outside [0, 1] is rejected. -/
theorem C06_rejects_threshold (rows : List CycRow) (th : CycThresh) (h : ¬ th.valid) :
    detectCycles rows th = .error .valueError :=
  detectCycles_rejects rows th h

/-- a negative `min_n_cycles` is rejected (on a non-empty table). -/
theorem C06_rejects_minN (rows : List CycRow) (th : CycThresh) (hv : th.valid) (hne : rows ≠ [])
    (hk : th.minN < 0) : detectCycles rows th = .error .valueError :=
  detectCycles_rejects_minN rows th hv hne hk

/-- end to end: in every table returned by the (modelled) consistency-method pipeline the labels are the
threshold-and-run rule applied to that table's own features. -/
theorem C06_pipeline (c : Centre) (x : List Rat) (pad : Nat) (b : List Bool) (amp : List Rat) (bd : Int) (th : CycThresh)
    (o : PipeOut) (h : pipelineCycles c x pad b amp bd th = .ok o) (hv : th.valid) (hk : 0 ≤ th.minN) :
    o.labels = cyclesSpec o.feats th ∧ o.feats.length = o.samples.length ∧ o.shape.length = o.samples.length :=
  pipeline_labels c x pad b amp bd th o h hv hk

/-! non-vacuity -/
example : (⟨0, 1/2, 1/2, 4/5, 3⟩ : CycThresh).valid := by decide +kernel
example : CycThresh.le ⟨0, 1/2, 1/2, 4/5, 3⟩ ⟨1/10, 1/2, 3/5, 4/5, 4⟩ := by decide +kernel
example :
    let r : CycRow := ⟨some 1, some 1, some 1, some 1⟩
    cyclesSpec [r, r, r, r, r] ⟨0, 1/2, 1/2, 4/5, 3⟩ = [false, true, true, true, false] := by decide +kernel

/-- THE FILTER AS THIS DETECTOR USES IT: whatever the table and the (valid) thresholds, the labels `detect_bursts_cycles` returns are a fixed point of the
minimum-run filter - no run of labelled cycles shorter than `min_n_cycles` survives in the detector's OUTPUT (it clears the table's first and last cycle BEFORE it
filters, and keeps what the filter returns). -/
theorem C06_filter_fixed_point (rows : List CycRow) (th : CycThresh) (labels : List Bool) (hv : th.valid) (hk : rows = [] ∨ 0 ≤ th.minN)
    (h : detectCycles rows th = .ok labels) : minRun labels th.minN = labels := by
  rw [detectCycles_eq_spec rows th hv hk] at h
  injection h with h
  subst h
  unfold cyclesSpec
  rw [← minRun_eq_spec, minRun_idem]

end Bycycle
