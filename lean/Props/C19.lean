import BycycleModel.Validate
import Proofs.Detect
import Proofs.Runs
/-!
# C19 — invalid settings are rejected, never silently analysed

`checkKwargsShape` wraps the decision chain TRANSLATED from bycycle/group/utils.py on every run;
`Documented` is the documented table of valid (array shape, axis, option-list shape) combinations.
The theorem is for ALL extents (no bound on the dimensions).
-/
namespace Bycycle

/-- an ndarray option list is accepted exactly for the documented combinations. -/
theorem C19_shape (k : KwShape) (hwf : k.wf) :
    checkKwargsShape false k = .ok () ↔ Documented k := by
  obtain ⟨hnd, hd1⟩ := hwf
  rcases k with ⟨s0, s1, nd, k0, k1, ax⟩
  simp only at hnd hd1
  unfold checkKwargsShape Documented Slots.checkKwargsChain
  cases s1 <;> cases k1 <;> cases ax <;> simp at hd1 ⊢ <;> grind

/-- rejection is always a ValueError. -/
theorem C19_shape_error_type (b : Bool) (k : KwShape) :
    checkKwargsShape b k = .ok () ∨ checkKwargsShape b k = .error .valueError := by
  unfold checkKwargsShape
  by_cases h1 : b = true
  · simp [h1]
  · by_cases h2 : (k.kwNdim == 3) = true
    · simp [h1, h2]
    · by_cases h3 : Slots.checkKwargsChain k = true <;> simp [h1, h2, h3]

/-- None or a single dict is always a valid option argument as far as shapes go. -/
theorem C19_shape_dict (k : KwShape) : checkKwargsShape true k = .ok () := by
  simp [checkKwargsShape]

/-- acceptance by the group functions: dict/None with a valid axis, or a documented list combination;
everything else raises ValueError. -/
theorem C19_group (b : Bool) (k : KwShape) (hwf : k.wf) :
    groupGuard b k = .ok () ↔ ((b = true ∧ axisValid k = true) ∨ (b = false ∧ Documented k)) := by
  cases b
  · have h := C19_shape k hwf
    unfold groupGuard
    by_cases hd : Documented k
    · have hc := h.mpr hd
      have hax : axisValid k = true := by
        unfold Documented at hd; unfold axisValid
        rcases k with ⟨s0, s1, nd, k0, k1, ax⟩
        cases s1 <;> simp at hd ⊢
        · rcases hd with ⟨h1 | h1, _⟩ <;> simp [h1]
        · rcases hd with ⟨h1, _⟩ | ⟨h1, _⟩ | ⟨h1, _⟩ <;> simp [h1]
      simp [hc, hax, hd, bind, Except.bind]
    · have hc : checkKwargsShape false k = .error .valueError := by
        rcases C19_shape_error_type false k with h' | h'
        · exact absurd (h.mp h') hd
        · exact h'
      simp [hc, hd, bind, Except.bind]
  · unfold groupGuard
    simp [C19_shape_dict, bind, Except.bind]

theorem C19_group_error_type (b : Bool) (k : KwShape) :
    groupGuard b k = .ok () ∨ groupGuard b k = .error .valueError := by
  unfold groupGuard
  rcases C19_shape_error_type b k with h | h <;> simp [h, bind, Except.bind]

/-- `check_param_range`: rejected iff outside the closed range. -/
theorem C19_param_range (x lo hi : Rat) : paramInRange x lo hi = false ↔ (x < lo ∨ hi < x) := by
  simp only [paramInRange, Bool.not_eq_false', Bool.or_eq_true, decide_eq_true_eq]

/-- thresholds outside [0, 1] (consistency method) raise ValueError. -/
theorem C19_thresholds_cycles (rows : List CycRow) (th : CycThresh) (h : ¬ th.valid) :
    detectCycles rows th = .error .valueError := detectCycles_rejects rows th h

/-- negative min_n_cycles raises ValueError (non-empty table). -/
theorem C19_min_n_cycles (m : List Bool) (k : Rat) (hm : m ≠ []) (hk : k < 0) :
    checkMinBurstCycles m k = .error .valueError := by
  rw [checkMin_spec]; simp [hm, hk]

/-- burst_fraction_threshold outside [0, 1] raises ValueError. -/
theorem C19_threshold_amp (fracs : List (Option Rat)) (thr minN : Rat) (h : thr < 0 ∨ 1 < thr) :
    detectAmp fracs thr minN = .error .valueError := detectAmp_rejects fracs thr minN h

/-- reversed amplitude thresholds / negative lower threshold / negative fs raise ValueError. -/
theorem C19_amp_threshes (fs lo hi : Rat) (h : fs < 0 ∨ lo < 0 ∨ hi < lo) :
    burstFractionGuard fs lo hi = .error .valueError := by
  rw [burstFractionGuard_spec]; simp [h]

/-- an unknown first_extrema raises ValueError. -/
theorem C19_first_extrema (P T : List Int) : trimFirst .invalid P T = .error .valueError := rfl

/-- unknown enumerated options raise ValueError; known ones pass. -/
theorem C19_options (x : String) (opts : List String) :
    checkParamOptions x opts = (if x ∈ opts then .ok () else .error .valueError) := by
  unfold checkParamOptions; by_cases h : x ∈ opts <;> simp [h]

/-- a negative sampling rate is rejected by bycycle's own guard. (fs = 0 passes this guard —
`check_param_range(fs, (0, inf))` is inclusive — and is rejected by the filter kernel, which is a
parameter of the model; the run checks it on the implementation.) -/
theorem C19_fs (fs : Rat) : fsGuard fs = (if fs < 0 then .error .valueError else .ok ()) := rfl

/-! non-vacuity -/
example : (⟨3, none, 1, 3, none, .a0⟩ : KwShape).wf ∧ Documented ⟨3, none, 1, 3, none, .a0⟩ :=
  ⟨⟨by decide, by decide⟩, by decide⟩
example : (⟨2, some 3, 2, 2, some 3, .a01⟩ : KwShape).wf ∧ Documented ⟨2, some 3, 2, 2, some 3, .a01⟩ :=
  ⟨⟨by decide, by decide⟩, by decide⟩
example : (⟨2, some 3, 2, 2, some 3, .a0⟩ : KwShape).wf ∧ ¬ Documented ⟨2, some 3, 2, 2, some 3, .a0⟩ :=
  ⟨⟨by decide, by decide⟩, by decide⟩

end Bycycle
