import Proofs.Covariance
import Proofs.Pipeline
/-!
# C09 — peak- and trough-centred analyses are mirror images

Analysing `x` trough-centred runs the peak-centred pipeline on `−x` (same cyclepoints by construction)
and then (i) renames / negates / flips the shape columns with the map GENERATED from `rename_extrema_df`,
(ii) computes the burst features through the centring-dependent branches of features/burst.py on the
renamed table and the ORIGINAL signal. The theorems show that (ii) gives exactly what the peak-centred
branches give on the un-renamed table and `−x`; hence identical burst features and labels.
Kernels: `amp(−x) = amp(x)`, `dual(−x) = dual(x)` (E5).
-/
namespace Bycycle

/-- the whole consistency-method analysis: trough-centred on `x` = mirror of peak-centred on `−x`
(sample indices, burst features and labels identical, shape columns through the generated renaming / flips). -/
theorem C09_mirror (x : List Rat) (pad : Nat) (b : List Bool) (amp : List Rat) (bd : Int) (th : CycThresh) :
    pipelineCycles .trough x pad b amp bd th = (pipelineCycles .peak (negSig x) pad b amp bd th).map PipeOut.mirror :=
  pipeline_mirror x pad b amp bd th

theorem C09_shape (x amp : List Rat) (rows : List SampleRow) :
    shapeFeatures .trough (negSig x) amp rows =
      (shapeFeatures .peak (negSig x) amp rows).map fun l => l.map fun s => Slots.flipShape (Slots.renameShape s) :=
  shape_mirror x amp rows

theorem C09_neg_involutive (x : List Rat) : negSig (negSig x) = x := negSig_negSig x

theorem C09_mirror_involutive (s : ShapeRow) (q1 q2 : Rat) (h1 : s.timeRdsym = .fin q1) (h2 : s.timePtsym = .fin q2) :
    Slots.flipShape (Slots.renameShape (Slots.flipShape (Slots.renameShape s))) = s := mirror_involution s q1 q2 h1 h2

/-- amplitude consistency: the renamed table has volt_rise and volt_decay swapped; the trough-centred
neighbour indexing on the swapped columns equals the peak-centred one on the original columns. -/
theorem C09_amp_consistency (dir : Direction) (risesP decaysP : List Rat) (hlen : risesP.length = decaysP.length) :
    ampConsistency false dir decaysP risesP = ampConsistency true dir risesP decaysP :=
  ampConsistency_mirror dir decaysP risesP hlen.symm

/-- monotonicity: windows (last, centre, next) are the same samples; decreasing steps of `x` are increasing steps of `−x`. -/
theorem C09_monotonicity (x : List Rat) (rows : List (Int × Int × Int)) :
    monotonicity false x rows = monotonicity true (negSig x) rows := monotonicity_mirror x rows

/-- burst fraction reads the mask over [last side, next side]; the side indices are the same numbers in both tables. -/
theorem C09_burst_fraction (mask : List Bool) (sides : List (Nat × Nat)) : burstFraction mask sides = burstFraction mask sides := rfl

/-- equal features give equal labels (both methods). -/
theorem C09_labels (rows rows' : List CycRow) (th : CycThresh) (h : rows = rows') : detectCycles rows th = detectCycles rows' th := by rw [h]

end Bycycle
