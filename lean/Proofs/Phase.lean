import BycycleModel.Phase
import Proofs.PhaseAux
/-!
# Helper lemmas for C17 (interpolated phase)
-/
namespace Bycycle

theorem phase_length (arr : List (Option Int)) (pha : List (Option Rat)) (h : phaseOfArray arr = .ok pha) :
    pha.length = arr.length := by
  rw [(phaseOfArray_ok arr pha h).2]; simp

/-- without any cyclepoint the routine raises (np.interp on empty anchors). -/
theorem phase_no_anchor (arr : List (Option Int)) (h : anchorList arr = []) : phaseOfArray arr = .error .valueError := by
  unfold phaseOfArray
  rw [h]

/-- finite exactly on the span from the first to the last anchor, NaN outside. -/
theorem phase_span (arr : List (Option Int)) (pha : List (Option Rat)) (h : phaseOfArray arr = .ok pha)
    (t : Nat) (ht : t < arr.length) :
    (pha.getD t none).isNone = true ↔
      (∀ (i : Nat) (v : Int), i ≤ t → arr[i]? ≠ some (some v)) ∨ (∀ (i : Nat) (v : Int), t ≤ i → arr[i]? ≠ some (some v)) := by
  have hne := (phaseOfArray_ok arr pha h).1
  have e : pha.getD t none = phaseVal arr t := by
    rw [List.getD_eq_getElem?_getD, pha_getElem? arr pha h t, if_pos ht]; rfl
  rw [e, phaseVal_isNone, lt_firstPos_iff arr hne, lastPos_lt_iff arr hne]

/-- linear interpolation between anchors reproduces the anchor values. -/
theorem interpAt_anchor (anchors : List (Nat × Rat)) (hs : (anchors.map (·.1)).Pairwise (· < ·)) (x : Nat) (v : Rat)
    (hm : (x, v) ∈ anchors) : interpAt anchors x = v :=
  interpAt_anchor' anchors hs x v hm

/-- … and stays between the smallest and largest anchor value. -/
theorem interpAt_bounds (anchors : List (Nat × Rat)) (hs : (anchors.map (·.1)).Pairwise (· < ·)) (hne : anchors ≠ [])
    (lo hi : Rat) (hb : ∀ p ∈ anchors, lo ≤ p.2 ∧ p.2 ≤ hi) (t : Nat) : lo ≤ interpAt anchors t ∧ interpAt anchors t ≤ hi :=
  interpAt_bounds' anchors hs hne lo hi hb t

theorem anchorList_sorted (arr : List (Option Int)) : ((anchorList arr).map (·.1)).Pairwise (· < ·) :=
  anchorList_sorted' arr

theorem mem_anchorList (arr : List (Option Int)) (i : Nat) (v : Int) : (i, v) ∈ anchorList arr ↔ arr[i]? = some (some v) :=
  mem_anchorList' arr i v

/-- anchors: the phase at an anchored sample is that anchor's code (0 at peaks, −1 / +1 at rise / decay
midpoints, ±2 at troughs). -/
theorem phase_anchor (arr : List (Option Int)) (pha : List (Option Rat)) (h : phaseOfArray arr = .ok pha)
    (t : Nat) (v : Int) (ha : arr[t]? = some (some v)) :
    ∃ q, pha[t]? = some (some q) ∧ (q = (v : Rat) ∨ (v = -2 ∧ q = 2)) := by
  have ht : t < arr.length := by
    by_contra hc
    rw [List.getElem?_eq_none (by omega)] at ha
    exact absurd ha (by simp)
  rw [pha_getElem? arr pha h t, if_pos ht]
  rcases phaseVal_cases arr t (anchor_in_span arr t v ha) with e | e
  · refine ⟨_, by rw [e], Or.inl ?_⟩
    rw [interpAt_An arr _ t v ha]
    unfold recode
    split
    · rename_i hv; subst hv; norm_num
    · rfl
  · refine ⟨_, by rw [e], ?_⟩
    rw [interpAt_An arr _ t v ha]
    unfold recode
    split
    · rename_i hv; exact Or.inr ⟨hv, rfl⟩
    · exact Or.inl rfl

/-- the phase stays within [−π, π] (codes in {−2, −1, 0, 1}). -/
theorem phase_range (arr : List (Option Int)) (pha : List (Option Rat)) (h : phaseOfArray arr = .ok pha)
    (hc : ∀ (i : Nat) (v : Int), arr[i]? = some (some v) → -2 ≤ v ∧ v ≤ 1) (t : Nat) (q : Rat) (hq : pha[t]? = some (some q)) :
    -2 ≤ q ∧ q ≤ 2 := by
  have hne := (phaseOfArray_ok arr pha h).1
  rw [pha_getElem? arr pha h t] at hq
  split at hq
  · have hq' : phaseVal arr t = some q := Option.some.inj hq
    have hb : ∀ tv : Rat, (-2 ≤ tv ∧ tv ≤ 2) → -2 ≤ interpAt (An arr tv) t ∧ interpAt (An arr tv) t ≤ 2 := by
      intro tv htv
      apply interpAt_bounds' _ (An_sorted arr tv) (An_ne arr tv hne)
      intro p hp
      unfold An at hp
      obtain ⟨⟨i, v⟩, hm, rfl⟩ := List.mem_map.1 hp
      exact recode_bounds tv htv v (hc i v ((mem_anchorList' arr i v).1 hm))
    have hmask : ¬ (t < firstPos arr ∨ lastPos arr < t) := by
      intro hm
      have := (phaseVal_isNone arr t).2 hm
      rw [hq'] at this
      simp at this
    rcases phaseVal_cases arr t hmask with e | e
    · rw [e] at hq'
      rw [← Option.some.inj hq']
      exact hb (-2) (by norm_num)
    · rw [e] at hq'
      rw [← Option.some.inj hq']
      exact hb 2 (by norm_num)
  · simp at hq

/-- between consecutive cyclepoints the phase advances monotonically; the only decrease is the wrap
from +π to −π AT a trough. -/
theorem phase_monotone (arr : List (Option Int)) (pha : List (Option Rat)) (h : phaseOfArray arr = .ok pha)
    (hv : validAnchors (anchorList arr) = true) (t : Nat) (a b : Rat)
    (ha : pha[t]? = some (some a)) (hb : pha[t + 1]? = some (some b)) :
    a ≤ b ∨ arr[t + 1]? = some (some (-2)) := by
  rw [pha_getElem? arr pha h] at ha hb
  have ht1 : t + 1 < arr.length := by
    by_contra hc; rw [if_neg hc] at hb; simp at hb
  rw [if_pos (by omega)] at ha
  rw [if_pos ht1] at hb
  replace ha : phaseVal arr t = some a := Option.some.inj ha
  replace hb : phaseVal arr (t + 1) = some b := Option.some.inj hb
  have hma : ¬ (t < firstPos arr ∨ lastPos arr < t) := by
    intro hm; unfold phaseVal at ha; rw [if_pos hm] at ha; simp at ha
  have hmb : ¬ (t + 1 < firstPos arr ∨ lastPos arr < t + 1) := by
    intro hm; unfold phaseVal at hb; rw [if_pos hm] at hb; simp at hb
  obtain ⟨l1, x, c, x', c', l2, hL, hx, hx'⟩ := exists_segment (anchorList arr) t
    (by show firstPos arr ≤ t; omega) (by show t + 1 ≤ lastPos arr; omega)
  have hstep := validAnchors_segment l1 x c x' c' l2 (by rw [← hL]; exact hv)
  have hx'n : x' < arr.length := by
    have hm : (x', c') ∈ anchorList arr := by rw [hL]; simp
    have := (mem_anchorList' arr x' c').1 hm
    by_contra hc
    rw [List.getElem?_eq_none (by omega)] at this
    simp at this
  have hxx' : (x : Rat) < x' := by exact_mod_cast (show x < x' by omega)
  have hd : (0 : Rat) < (x' : Rat) - x := by linarith
  have seg := fun tv s hx hx' => An_segment arr tv l1 x c x' c' l2 hL s hx hx'
  -- forward differences inside the segment
  have diff : ∀ tv (s : Nat), x ≤ s → s + 1 ≤ x' →
      interpAt (An arr tv) (s + 1) - interpAt (An arr tv) s = (recode tv c' - recode tv c) / ((x' : Rat) - x) := by
    intro tv s h1 h2
    rw [seg tv (s + 1) (by omega) h2, seg tv s h1 (by omega)]
    push_cast
    exact lin_step _ _ _ _ _ hxx'
  unfold phaseVal at ha hb
  rw [if_neg hma, if_pos ht1, diff (-2) t hx hx'] at ha
  rw [if_neg hmb] at hb
  rcases stepOk_cases c c' hstep with ⟨hne, hle, heq⟩ | ⟨he, hlt, hle⟩
  · -- increasing −π branch
    have hslope : ¬ ((recode (-2) c' - recode (-2) c) / ((x' : Rat) - x) < 0) := by
      have : 0 ≤ (recode (-2) c' - recode (-2) c) / ((x' : Rat) - x) := div_nonneg (by linarith) hd.le
      linarith
    rw [if_neg hslope] at ha
    have ha' : a = interpAt (An arr (-2)) t := (Option.some.inj ha).symm
    have hstepN : interpAt (An arr (-2)) t ≤ interpAt (An arr (-2)) (t + 1) := by
      have := diff (-2) t hx hx'
      have h0 : 0 ≤ (recode (-2) c' - recode (-2) c) / ((x' : Rat) - x) := div_nonneg (by linarith) hd.le
      linarith
    left
    rcases Nat.lt_or_ge (t + 1) x' with hlt | hge
    · rw [if_pos (by omega), diff (-2) (t + 1) (by omega) (by omega), if_neg hslope] at hb
      rw [ha', ← Option.some.inj hb]
      exact hstepN
    · have hteq : t + 1 = x' := by omega
      have hbN : interpAt (An arr (-2)) (t + 1) = recode (-2) c' := by
        rw [seg (-2) (t + 1) (by omega) (by omega), hteq]
        field_simp
        ring
      have hbP : interpAt (An arr 2) (t + 1) = recode (-2) c' := by
        rw [seg 2 (t + 1) (by omega) (by omega), hteq, ← heq]
        field_simp
        ring
      have hb' : b = recode (-2) c' := by
        split at hb
        · split at hb
          · rw [← Option.some.inj hb, hbP]
          · rw [← Option.some.inj hb, hbN]
        · rw [← Option.some.inj hb, hbN]
      rw [ha', hb', ← hbN]
      exact hstepN
  · -- decreasing −π branch: the +π branch is used; the wrap happens at the trough `x'`
    rcases Nat.lt_or_ge (t + 1) x' with hlt' | hge
    · left
      have hslope : (recode (-2) c' - recode (-2) c) / ((x' : Rat) - x) < 0 := div_neg_of_neg_of_pos (by linarith) hd
      rw [if_pos hslope] at ha
      rw [if_pos (by omega), diff (-2) (t + 1) (by omega) (by omega), if_pos hslope] at hb
      rw [← Option.some.inj ha, ← Option.some.inj hb]
      have := diff 2 t hx hx'
      have h0 : 0 ≤ (recode 2 c' - recode 2 c) / ((x' : Rat) - x) := div_nonneg (by linarith) hd.le
      linarith
    · right
      have hteq : t + 1 = x' := by omega
      rw [hteq, ← he]
      exact (mem_anchorList' arr x' c').1 (by rw [hL]; simp)

/-- extrema overwrite midpoints that coincide with them; troughs are written last. -/
theorem anchorArray_values (n : Nat) (peaks troughs : List Nat) (rises decays : Option (List Nat)) (arr : List (Option Int))
    (h : anchorArray n peaks troughs rises decays = .ok arr) (t : Nat) (ht : t < n) :
    arr.length = n ∧
    (t ∈ troughs → arr[t]? = some (some (-2))) ∧
    (t ∉ troughs → t ∈ peaks → arr[t]? = some (some 0)) ∧
    (t ∉ troughs → t ∉ peaks → t ∈ decays.getD [] → arr[t]? = some (some 1)) ∧
    (t ∉ troughs → t ∉ peaks → t ∉ decays.getD [] → t ∈ rises.getD [] → arr[t]? = some (some (-1))) ∧
    (t ∉ troughs → t ∉ peaks → t ∉ decays.getD [] → t ∉ rises.getD [] → arr[t]? = some none) := by
  have key : ∃ a1 a2 a3, (match rises with | some r => setAll (List.replicate n none) r (-1) | none => Except.ok (List.replicate n none)) = .ok a1 ∧
      (match decays with | some d => setAll a1 d 1 | none => Except.ok a1) = .ok a2 ∧
      setAll a2 peaks 0 = .ok a3 ∧ setAll a3 troughs (-2) = .ok arr := by
    unfold anchorArray at h
    cases rises <;> cases decays <;> dsimp only at h
    all_goals
      obtain ⟨a1, h1, h⟩ := except_bind_ok _ _ _ h
      obtain ⟨a2, h2, h⟩ := except_bind_ok _ _ _ h
      obtain ⟨a3, h3, h⟩ := except_bind_ok _ _ _ h
      exact ⟨a1, a2, a3, h1, h2, h3, h⟩
  obtain ⟨a1, a2, a3, h1, h2, h3, h⟩ := key
  obtain ⟨l1, s1⟩ := optSet_spec rises (-1) _ a1 h1
  obtain ⟨l2, s2⟩ := optSet_spec decays 1 _ a2 h2
  obtain ⟨l3, s3⟩ := setAll_spec peaks 0 _ a3 h3
  obtain ⟨l4, s4⟩ := setAll_spec troughs (-2) _ arr h
  rw [List.length_replicate] at l1
  have ht1 : t < a1.length := by omega
  have ht2 : t < a2.length := by omega
  have ht3 : t < a3.length := by omega
  have r1 := s1 t (by simpa using ht)
  have r2 := s2 t ht1
  have r3 := s3 t ht2
  have r4 := s4 t ht3
  refine ⟨by omega, r4.1, ?_, ?_, ?_, ?_⟩
  · intro a b; rw [r4.2 a]; exact r3.1 b
  · intro a b c; rw [r4.2 a, r3.2 b]; exact r2.1 c
  · intro a b c d; rw [r4.2 a, r3.2 b, r2.2 c]; exact r1.1 d
  · intro a b c d; rw [r4.2 a, r3.2 b, r2.2 c, r1.2 d]; simp [ht]

end Bycycle
