import BycycleModel.Effects
import BycycleModel.EffectPrograms
/-!
# Soundness of the effect analysis (C15)

Invariant of the simulation between the dynamic semantics and the static analysis (`n` = number of
parameters): every variable bound to a caller object `o < n` has `o` in its abstract alias set, and the
fresh-object counter is `≥ n` (so fresh objects are never caller objects).
-/
namespace Bycycle.Eff

/-! ## association-list lemmas -/

theorem find_set {β : Type} (l : List (Var × β)) (x y : Var) (v : β) :
    ((x, v) :: l.filter (·.1 != x)).find? (·.1 == y) = if x = y then some (x, v) else l.find? (·.1 == y) := by
  rw [List.find?_cons]
  by_cases h : x = y
  · simp [h]
  · have hxy : (x == y) = false := by simpa using h
    simp only [hxy, if_neg h]
    rw [List.find?_filter]
    congr 1
    funext a
    by_cases ha : a.1 = y
    · subst ha; simp [Ne.symm h]
    · simp [ha]

theorem AEnv.get_set (e : AEnv) (x y : Var) (v : List Nat) :
    (e.set x v).get y = if x = y then v else e.get y := by
  unfold AEnv.get AEnv.set
  rw [find_set]
  split <;> rfl

theorem St.get_bind (s : St) (x y : Var) (o : Nat) :
    (s.bind x o).get y = if x = y then some o else s.get y := by
  unfold St.get St.bind
  dsimp only
  rw [find_set]
  split <;> rfl

theorem find_keys_map {β : Type} (f : Var → β) (keys : List Var) (k : Var) (hk : k ∈ keys) :
    (keys.map fun k => (k, f k)).find? (·.1 == k) = some (k, f k) := by
  induction keys with
  | nil => cases hk
  | cons a t ih =>
    rw [List.map_cons, List.find?_cons]
    by_cases h : a = k
    · subst h; simp
    · have : (a == k) = false := by simpa using h
      simp only [this]
      rcases List.mem_cons.mp hk with h1 | h1
      · exact absurd h1.symm h
      · exact ih h1

theorem AEnv.key_of_mem_get (a : AEnv) (k : Var) (o : Nat) (h : o ∈ a.get k) : k ∈ a.map (·.1) := by
  unfold AEnv.get at h
  cases hf : a.find? (·.1 == k) with
  | none => rw [hf] at h; simp at h
  | some p =>
    have h1 := List.find?_some hf
    have h2 := List.mem_of_find?_eq_some hf
    have : p.1 = k := by simpa using h1
    exact List.mem_map.mpr ⟨p, h2, this⟩

theorem AEnv.get_join (a b : AEnv) (k : Var) (hk : k ∈ a.map (·.1) ++ b.map (·.1)) :
    (a.join b).get k = (a.get k ++ b.get k).eraseDups := by
  unfold AEnv.join
  dsimp only
  show ((List.find? (·.1 == k) (List.map (fun k => (k, (a.get k ++ b.get k).eraseDups)) _)).map (·.2)).getD [] = _
  rw [find_keys_map (fun k => (a.get k ++ b.get k).eraseDups) _ k (List.mem_eraseDups.mpr hk)]
  rfl

theorem AEnv.mem_join_left (a b : AEnv) (k : Var) (o : Nat) (h : o ∈ a.get k) : o ∈ (a.join b).get k := by
  rw [AEnv.get_join _ _ _ (List.mem_append_left _ (AEnv.key_of_mem_get a k o h))]
  exact List.mem_eraseDups.mpr (List.mem_append_left _ h)

theorem AEnv.mem_join_right (a b : AEnv) (k : Var) (o : Nat) (h : o ∈ b.get k) : o ∈ (a.join b).get k := by
  rw [AEnv.get_join _ _ _ (List.mem_append_right _ (AEnv.key_of_mem_get b k o h))]
  exact List.mem_eraseDups.mpr (List.mem_append_right _ h)

/-! ## the invariant and its preservation -/

def Inv (n : Nat) (s : St) (e : AEnv) : Prop :=
  (∀ x o, s.get x = some o → o < n → o ∈ e.get x) ∧ n ≤ s.next

def Post (n : Nat) (s : St) (s' : St) (e' : AEnv) (w : List Nat) : Prop :=
  Inv n s' e' ∧ ∀ o ∈ s'.written, o < n → o ∈ s.written ∨ o ∈ w

theorem Inv.freshBind {n : Nat} {s : St} {e : AEnv} (h : Inv n s e) (x : Var) (v : List Nat) :
    Inv n { (s.bind x s.next) with next := s.next + 1 } (e.set x v) := by
  refine ⟨?_, Nat.le_succ_of_le h.2⟩
  intro y o hy ho
  have hy' : (s.bind x s.next).get y = some o := hy
  rw [St.get_bind] at hy'
  rw [AEnv.get_set]
  by_cases hxy : x = y
  · rw [if_pos hxy] at hy'
    injection hy' with hy'
    subst hy'
    exact absurd ho (Nat.not_lt.mpr h.2)
  · rw [if_neg hxy] at hy' ⊢
    exact h.1 y o hy' ho

theorem Inv.aliasBind {n : Nat} {s : St} {e : AEnv} (h : Inv n s e) (x y : Var) (o : Nat) (hy : s.get y = some o) :
    Inv n (s.bind x o) (e.set x (e.get y)) := by
  refine ⟨?_, h.2⟩
  intro z o' hz ho
  rw [St.get_bind] at hz
  rw [AEnv.get_set]
  by_cases hxz : x = z
  · rw [if_pos hxz] at hz ⊢
    injection hz with hz
    subst hz
    exact h.1 y o hy ho
  · rw [if_neg hxz] at hz ⊢
    exact h.1 z o' hz ho

theorem Inv.alias {n : Nat} {s : St} {e : AEnv} (h : Inv n s e) (x y : Var) :
    Inv n (match s.get y with | some o => s.bind x o | none => { (s.bind x s.next) with next := s.next + 1 })
      (e.set x (e.get y)) := by
  cases hy : s.get y with
  | some o => exact h.aliasBind x y o hy
  | none => exact h.freshBind x _

theorem mem_alias_written (s : St) (x y : Var) (o : Nat)
    (h : o ∈ (match s.get y with | some o => s.bind x o | none => { (s.bind x s.next) with next := s.next + 1 } : St).written) :
    o ∈ s.written := by
  cases hy : s.get y <;> rw [hy] at h <;> exact h

theorem Inv.join_left {n : Nat} {s : St} {a : AEnv} (h : Inv n s a) (b : AEnv) : Inv n s (a.join b) :=
  ⟨fun x o hx ho => AEnv.mem_join_left a b x o (h.1 x o hx ho), h.2⟩

theorem Inv.join_right {n : Nat} {s : St} {b : AEnv} (h : Inv n s b) (a : AEnv) : Inv n s (a.join b) :=
  ⟨fun x o hx ho => AEnv.mem_join_right a b x o (h.1 x o hx ho), h.2⟩

mutual
  theorem stmt_post (summ : Summ) (n : Nat) : (st : Stmt) → (s : St) → (e : AEnv) → (oracle : List Bool) → Inv n s e →
      Post n s (execStmt summ s oracle st).1 (analyseStmt summ e st).1 (analyseStmt summ e st).2
    | .fresh x, s, e, oracle, h => by
      rw [execStmt, analyseStmt]
      exact ⟨h.freshBind x [], fun o ho _ => Or.inl ho⟩
    | .alias x y, s, e, oracle, h => by
      rw [execStmt, analyseStmt]
      refine ⟨h.alias x y, fun o ho _ => Or.inl ?_⟩
      exact mem_alias_written s x y o ho
    | .copyIf g x y, s, e, oracle, h => by
      rw [execStmt, analyseStmt]
      cases g with
      | true => exact ⟨h.freshBind x [], fun o ho _ => Or.inl ho⟩
      | false =>
        refine ⟨h.alias x y, fun o ho _ => Or.inl ?_⟩
        exact mem_alias_written s x y o ho
    | .write x, s, e, oracle, h => by
      rw [execStmt, analyseStmt]
      dsimp only
      cases hx : s.get x with
      | none => exact ⟨h, fun o ho _ => Or.inl ho⟩
      | some ox =>
        refine ⟨⟨h.1, h.2⟩, fun o ho hon => ?_⟩
        rcases List.mem_cons.mp ho with h1 | h1
        · subst h1; exact Or.inr (h.1 x o hx hon)
        · exact Or.inl h1
    | .call f args, s, e, oracle, h => by
      rw [execStmt, analyseStmt]
      refine ⟨⟨h.1, h.2⟩, fun o ho hon => ?_⟩
      rcases List.mem_append.mp ho with h1 | h1
      · right
        obtain ⟨p, hp, hpo⟩ := List.mem_filterMap.mp h1
        refine List.mem_flatMap.mpr ⟨p, hp, ?_⟩
        cases ha : args[p]? with
        | none => rw [ha] at hpo; cases hpo
        | some a =>
          rw [ha] at hpo
          exact h.1 a o hpo hon
      · exact Or.inl h1
    | .ite a b, s, e, oracle, h => by
      rw [analyseStmt]
      dsimp only
      have ha := fun orc => list_post summ n a s e orc h
      have hb := fun orc => list_post summ n b s e orc h
      match oracle with
      | true :: rest =>
        rw [execStmt]
        exact ⟨(ha rest).1.join_left _, fun o ho hon => ((ha rest).2 o ho hon).imp id (List.mem_append_left _)⟩
      | false :: rest =>
        simp only [execStmt]
        exact ⟨(hb rest).1.join_right _, fun o ho hon => ((hb rest).2 o ho hon).imp id (List.mem_append_right _)⟩
      | [] =>
        rw [execStmt]
        exact ⟨(hb []).1.join_right _, fun o ho hon => ((hb []).2 o ho hon).imp id (List.mem_append_right _)⟩
  theorem list_post (summ : Summ) (n : Nat) : (l : List Stmt) → (s : St) → (e : AEnv) → (oracle : List Bool) → Inv n s e →
      Post n s (execList summ s oracle l).1 (analyseList summ e l).1 (analyseList summ e l).2
    | [], s, e, oracle, h => by
      rw [execList, analyseList]
      exact ⟨h, fun o ho _ => Or.inl ho⟩
    | st :: rest, s, e, oracle, h => by
      rw [execList, analyseList]
      dsimp only
      have h1 := stmt_post summ n st s e oracle h
      have h2 := list_post summ n rest _ _ (execStmt summ s oracle st).2 h1.1
      refine ⟨h2.1, fun o ho hon => ?_⟩
      rcases h2.2 o ho hon with h3 | h3
      · rcases h1.2 o h3 hon with h4 | h4
        · exact Or.inl h4
        · exact Or.inr (List.mem_append_left _ h4)
      · exact Or.inr (List.mem_append_right _ h3)
end

/-! ## initial state and the theorems -/

theorem find_of_mem_nodup {β : Type} (l : List (Var × β)) (hnd : (l.map (·.1)).Nodup) (x : Var) (v : β)
    (h : (x, v) ∈ l) : l.find? (·.1 == x) = some (x, v) := by
  induction l with
  | nil => cases h
  | cons a t ih =>
    rw [List.map_cons, List.nodup_cons] at hnd
    rw [List.find?_cons]
    rcases List.mem_cons.mp h with h1 | h1
    · subst h1; simp
    · have hne : a.1 ≠ x := by
        intro hax
        exact hnd.1 (List.mem_map.mpr ⟨(x, v), h1, hax.symm⟩)
      have : (a.1 == x) = false := by simpa using hne
      simp only [this]
      exact ih hnd.2 h1

theorem initInv (params : List Var) (hnd : params.Nodup) : Inv params.length (initSt params) (initAEnv params) := by
  refine ⟨?_, Nat.le_refl _⟩
  intro x o hx _
  unfold St.get initSt at hx
  dsimp only at hx
  cases hf : (List.map (fun x : Var × Nat => match x with | (p, i) => (p, i)) params.zipIdx).reverse.find? (·.1 == x) with
  | none => rw [hf] at hx; cases hx
  | some q =>
    rw [hf] at hx
    have hq1 : q.1 = x := by simpa using List.find?_some hf
    have hq2 : q.2 = o := by simpa using hx
    have hmem := List.mem_of_find?_eq_some hf
    rw [List.mem_reverse, List.mem_map] at hmem
    obtain ⟨⟨p, i⟩, hpi, hq⟩ := hmem
    dsimp only at hq
    subst hq
    dsimp only at hq1 hq2
    subst hq1 hq2
    have hmem2 : (p, [i]) ∈ initAEnv params := List.mem_map.mpr ⟨(p, i), hpi, rfl⟩
    have hkeys : (initAEnv params).map (·.1) = params := by
      unfold initAEnv
      rw [List.map_map]
      have : ((fun x : Var × List Nat => x.1) ∘ fun x : Var × Nat => match x with | (p, i) => (p, [i])) = Prod.fst := by
        funext ⟨a, b⟩; rfl
      rw [this, List.zipIdx_map_fst]
    have := find_of_mem_nodup (initAEnv params) (by rw [hkeys]; exact hnd) p [i] hmem2
    unfold AEnv.get
    rw [this]
    simp

/-- SOUNDNESS: whatever branches are taken (any oracle), every caller-owned object written by the body
is at a parameter position the static analysis reports. -/
theorem sound (summ : Summ) (f : Fn) (hnd : f.params.Nodup) (oracle : List Bool) (o : Nat) (ho : o ∈ f.run summ oracle) :
    o ∈ f.mayWrite summ := by
  unfold Fn.run at ho
  rw [List.mem_filter] at ho
  have hon : o < f.params.length := by simpa using ho.2
  have hp := list_post summ f.params.length f.body (initSt f.params) (initAEnv f.params) oracle (initInv f.params hnd)
  unfold Fn.mayWrite
  rw [List.mem_eraseDups]
  rcases hp.2 o ho.1 hon with h | h
  · cases h
  · exact h

/-- hence a function the analysis calls pure never writes a caller-owned object. -/
theorem pure_sound (summ : Summ) (f : Fn) (hnd : f.params.Nodup) (hp : f.pure summ = true) (oracle : List Bool) :
    f.run summ oracle = [] := by
  unfold Fn.pure at hp
  rw [List.isEmpty_iff] at hp
  apply List.eq_nil_iff_forall_not_mem.mpr
  intro o ho
  have := sound summ f hnd oracle o ho
  rw [hp] at this
  cases this

/-- and a function that respects its summary writes only at the summary's positions. -/
theorem respects_sound (summ : Summ) (f : Fn) (hnd : f.params.Nodup) (hr : f.respects summ = true) (oracle : List Bool)
    (o : Nat) (ho : o ∈ f.run summ oracle) : o ∈ summ.get f.name := by
  unfold Fn.respects at hr
  have := List.all_eq_true.mp hr o (sound summ f hnd oracle o ho)
  simpa using this

theorem static_ok : pureFns.all (fun f => f.pure summaries && f.respects summaries && decide f.params.Nodup) = true := by decide

theorem C15_frame' (f : Fn) (hf : f ∈ pureFns) (oracle : List Bool) : f.run summaries oracle = [] := by
  have h := List.all_eq_true.mp static_ok f hf
  simp only [Bool.and_eq_true, decide_eq_true_eq] at h
  exact pure_sound summaries f h.2 h.1.1 oracle

end Bycycle.Eff
