import Proofs.Generated.EffTAll
/-! # The TRANSLATED effect programs (regenerated from /repo on every run) are pure

`Proofs/Generated/EffT*.lean` (generated) evaluate, in the kernel, the static analysis on every translated body;
here the interprocedural soundness theorem turns that into the run-time statement. -/
namespace Bycycle.Eff.T
open Bycycle.Eff

theorem lookupFn_mem {prog : List Fn} {n : String} {f : Fn} (h : lookupFn prog n = some f) : f ∈ prog ∧ f.name = n := by
  unfold lookupFn at h
  have h1 := List.mem_of_find?_eq_some h
  have h2 := List.find?_some h
  exact ⟨h1, by simpa using h2⟩

/-- for every branch resolution and every step budget, the translated body of a listed function - with the calls
among the translated functions EXECUTED - writes no caller-owned object (no parameter and no contents of one). -/
theorem frame (n : String) (hn : n ∈ pure) (f : Fn) (hf : lookupFn fns n = some f) (fuel : Nat) (oracle : List Bool) :
    f.runFull fns summ fuel oracle = [] := by
  obtain ⟨hmem, hname⟩ := lookupFn_mem hf
  have hp := List.all_eq_true.mp pure_listed n hn
  simp only [Bool.and_eq_true, List.isEmpty_iff] at hp
  apply List.eq_nil_iff_forall_not_mem.mpr
  intro o ho
  have := sound_full fns summ fns_wellSummarised f hmem fuel oracle o ho
  rw [hname, hp.1] at this
  exact absurd this (by simp)

end Bycycle.Eff.T

namespace Bycycle.Eff.T
open Bycycle.Eff
/-- the translated `Bycycle.fit`, `recompute_edges`, `load`, `reduce_thresholds`, `__getattr__` write, at most, attribute
slots of `self` (caller-owned position 0): never an object held in the instance (option dictionaries, signal, table) and
never another argument or its contents. -/
theorem selfOnly_frame (n : String) (hn : n ∈ selfOnly) (f : Fn) (hf : lookupFn fns n = some f) (fuel : Nat) (oracle : List Bool)
    (o : Nat) (ho : o ∈ f.runFull fns summ fuel oracle) : o = 0 := by
  obtain ⟨hmem, hname⟩ := lookupFn_mem hf
  have hp := List.all_eq_true.mp selfOnly_listed n hn
  simp only [Bool.and_eq_true] at hp
  have := sound_full fns summ fns_wellSummarised f hmem fuel oracle o ho
  rw [hname] at this
  have h0 := List.all_eq_true.mp hp.1 o this
  simpa using h0
end Bycycle.Eff.T
