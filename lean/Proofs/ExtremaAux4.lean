import Proofs.ExtremaAux3
/-!
# Auxiliary lemmas for C02, part 4: alternation survives the boundary window; `first_extrema` trimming
-/
namespace Bycycle

theorem altS_lb (lo : Option Int) (P T : List Int) (h : altS lo P T = true) :
    ∀ l, lo = some l → (∀ x ∈ P, l < x) ∧ (∀ x ∈ T, l < x) := by
  fun_induction altS lo P T with
  | case1 lo T =>
    intro l _
    simp at h
    subst h
    simp
  | case2 lo p P T ih =>
    rw [← altS_cons, altS_cons_iff] at h
    intro l hl
    have hp := h.1 l hl
    obtain ⟨i1, i2⟩ := ih h.2 p rfl
    refine ⟨?_, ?_⟩
    · intro x hx
      rcases List.mem_cons.1 hx with e | e
      · omega
      · have := i2 x e; omega
    · intro x hx
      have := i1 x hx; omega

theorem altS_weaken (lo : Option Int) (P T : List Int) (h : altS lo P T = true) : altS none P T = true := by
  cases P with
  | nil => rw [altS_nil] at *; exact h
  | cons p P =>
    rw [altS_cons_iff] at h ⊢
    exact ⟨fun l hl => (by cases hl), h.2⟩

theorem altS_shift (c : Int) (lo : Option Int) (P T : List Int) (h : altS lo P T = true) :
    altS (lo.map (· - c)) (P.map (· - c)) (T.map (· - c)) = true := by
  fun_induction altS lo P T with
  | case1 lo T =>
    simp at h
    subst h
    simp [altS_nil]
  | case2 lo p P T ih =>
    rw [← altS_cons, altS_cons_iff] at h
    rw [List.map_cons, altS_cons_iff]
    refine ⟨?_, ih h.2⟩
    intro l hl
    cases lo with
    | none => simp at hl
    | some l0 =>
      simp at hl
      have := h.1 l0 rfl
      omega

/-- the boundary window. -/
def win (lb ub : Int) : Int → Bool := fun x => decide (lb < x) && decide (x < ub)

theorem altS_filter_in (lb ub : Int) (lo : Option Int) (P T : List Int) (h : altS lo P T = true)
    (hP : ∀ x ∈ P, lb < x) (hT : ∀ x ∈ T, lb < x) :
    altS lo (P.filter (win lb ub)) (T.filter (win lb ub)) = true := by
  fun_induction altS lo P T with
  | case1 lo T =>
    simp at h
    subst h
    simp [altS_nil]
  | case2 lo p P T ih =>
    rw [← altS_cons, altS_cons_iff] at h
    by_cases hw : win lb ub p = true
    · rw [List.filter_cons_of_pos hw, altS_cons_iff]
      exact ⟨h.1, ih h.2 hT (fun x hx => hP x (List.mem_cons_of_mem _ hx))⟩
    · have hp : ub ≤ p := by
        have := hP p (by simp)
        simp [win] at hw
        omega
      have hlb := altS_lb _ _ _ h.2 p rfl
      have e1 : (p :: P).filter (win lb ub) = [] := by
        rw [List.filter_eq_nil_iff]
        intro x hx
        rcases List.mem_cons.1 hx with e | e
        · rw [e]; exact hw
        · have := hlb.2 x e
          simp [win]; omega
      have e2 : T.filter (win lb ub) = [] := by
        rw [List.filter_eq_nil_iff]
        intro x hx
        have := hlb.1 x hx
        simp [win]; omega
      rw [e1, e2, altS_nil]; rfl

theorem altS_filter (lb ub : Int) (lo : Option Int) (P T : List Int) (h : altS lo P T = true) :
    altS none (P.filter (win lb ub)) (T.filter (win lb ub)) = true ∨
    altS none (T.filter (win lb ub)) (P.filter (win lb ub)) = true := by
  fun_induction altS lo P T with
  | case1 lo T =>
    simp at h
    subst h
    left; simp [altS_nil]
  | case2 lo p P T ih =>
    have h0 := h
    rw [← altS_cons] at h0
    rw [← altS_cons, altS_cons_iff] at h
    by_cases hp : lb < p
    · left
      have hlb := altS_lb _ _ _ h.2 p rfl
      apply altS_weaken lo
      apply altS_filter_in lb ub lo _ _ h0
      · intro x hx
        rcases List.mem_cons.1 hx with e | e
        · omega
        · have := hlb.2 x e; omega
      · intro x hx
        have := hlb.1 x hx; omega
    · have hw : ¬ win lb ub p = true := by simp [win]; omega
      rw [List.filter_cons_of_neg hw]
      exact (ih h.2).symm

theorem boundarySpec_eq (xs : List Nat) (pad n : Nat) (bd : Int) :
    boundarySpec xs pad n bd =
      (((xs.map Int.ofNat).map (· - (pad : Int))).filter (win bd ((n : Int) - bd))) := by
  unfold boundarySpec
  rw [List.map_map]
  rfl

theorem boundary_alternating_aux (P T : List Nat) (pad n : Nat) (bd : Int)
    (h : StrictAlt (P.map Int.ofNat) (T.map Int.ofNat)) :
    StrictAlt (boundarySpec P pad n bd) (boundarySpec T pad n bd) := by
  rw [StrictAlt_iff] at *
  rw [boundarySpec_eq, boundarySpec_eq]
  rcases h with h | h
  · exact altS_filter _ _ _ _ _ (altS_shift (pad : Int) _ _ _ h)
  · exact (altS_filter _ _ _ _ _ (altS_shift (pad : Int) _ _ _ h)).symm

/-! ## trimming -/

theorem altS_end (P : List Int) : ∀ (lo : Option Int) (T : List Int), altS lo P T = true → T ≠ [] →
    ∃ pl tl, P.getLast? = some pl ∧ T.getLast? = some tl ∧
      P.filter (fun p => decide (p < tl)) = (if tl < pl then P.dropLast else P) ∧
      altS lo (P.filter (fun p => decide (p < tl))) T = true ∧
      (P.filter (fun p => decide (p < tl))).length = T.length := by
  induction P with
  | nil =>
    intro lo T h hT
    rw [altS_nil_iff] at h
    exact absurd h hT
  | cons p P' ih =>
    intro lo T h hT
    cases T with
    | nil => exact absurd rfl hT
    | cons t T' =>
      rw [altS_cons_iff, altS_cons_iff] at h
      obtain ⟨hlo, hpt, h3⟩ := h
      have hpt' : p < t := hpt p rfl
      cases P' with
      | nil =>
        rw [altS_nil_iff] at h3
        subst h3
        refine ⟨p, t, rfl, rfl, ?_, ?_, ?_⟩
        · have : ¬ t < p := by omega
          simp [hpt', this]
        · simp only [hpt', decide_true, List.filter_cons_of_pos, List.filter_nil]
          rw [altS_cons_iff, altS_cons_iff, altS_nil_iff]
          exact ⟨hlo, hpt, rfl⟩
        · simp [hpt']
      | cons p1 P'' =>
        cases T' with
        | nil =>
          rw [altS_cons_iff, altS_nil_iff] at h3
          obtain ⟨htp, h4⟩ := h3
          subst h4
          have htp' : t < p1 := htp t rfl
          have hn : ¬ p1 < t := by omega
          refine ⟨p1, t, rfl, rfl, ?_, ?_, ?_⟩
          · simp [hpt', htp', hn]
          · simp only [hpt', hn, decide_true, decide_false, List.filter_cons_of_pos, List.filter_nil,
              List.filter_cons_of_neg, Bool.false_eq_true, not_false_eq_true]
            rw [altS_cons_iff, altS_cons_iff, altS_nil_iff]
            exact ⟨hlo, hpt, rfl⟩
          · simp [hpt', hn]
        | cons t1 T'' =>
          obtain ⟨pl, tl, e1, e2, e3, e4, e5⟩ := ih (some t) (t1 :: T'') h3 (by simp)
          have hlb := altS_lb _ _ _ h3 t rfl
          have htl : tl ∈ t1 :: T'' := List.mem_of_getLast? e2
          have hptl : p < tl := by have := hlb.2 tl htl; omega
          refine ⟨pl, tl, by rw [List.getLast?_cons_cons]; exact e1, by rw [List.getLast?_cons_cons]; exact e2,
            ?_, ?_, ?_⟩
          · rw [List.filter_cons_of_pos (by simpa using hptl), e3]
            split
            · rfl
            · rfl
          · rw [List.filter_cons_of_pos (by simpa using hptl), altS_cons_iff, altS_cons_iff]
            exact ⟨hlo, hpt, e4⟩
          · rw [List.filter_cons_of_pos (by simpa using hptl)]
            simp only [List.length_cons] at e5 ⊢
            omega

/-- the code of both `first_extrema` branches: `A` is the requested kind. -/
def trimImpl (A B : List Int) : Except Err (List Int × List Int) := do
  let a0 ← headE A; let b0 ← headE B
  let B1 := if Cmp.gt.evalInt a0 b0 then B.drop 1 else B
  let al ← lastE A; let bl ← lastE B1
  let A1 := if Cmp.gt.evalInt al bl then A.dropLast else A
  .ok (A1, B1)

/-- the specification of both branches. -/
def trimCore (A B : List Int) : Except Err (List Int × List Int) :=
  match A.head?, B.head? with
  | some a0, some _ =>
    let B' := B.filter fun t => decide (a0 < t)
    match B'.getLast? with
    | none => .error .indexError
    | some bl => .ok (A.filter fun p => decide (p < bl), B')
  | _, _ => .error .indexError

theorem trimImpl_of_end (a0 b0 : Int) (A B B1 : List Int) (lo : Option Int)
    (hA : A.head? = some a0) (hB : B.head? = some b0)
    (hB1 : (if Cmp.gt.evalInt a0 b0 then B.drop 1 else B) = B1)
    (hf : B.filter (fun t => decide (a0 < t)) = B1)
    (hB1ne : B1 ≠ []) (h : altS lo A B1 = true) (hsub : B1.Sublist B) :
    trimImpl A B = trimCore A B ∧
    ∀ A' B', trimCore A B = .ok (A', B') →
      altS none A' B' = true ∧ A'.length = B'.length ∧ A'.Sublist A ∧ B'.Sublist B := by
  obtain ⟨pl, tl, e1, e2, e3, e4, e5⟩ := altS_end A lo B1 h hB1ne
  have hcore : trimCore A B = .ok (A.filter (fun p => decide (p < tl)), B1) := by
    unfold trimCore
    rw [hA, hB]
    simp only [hf, e2]
  constructor
  · rw [hcore]
    unfold trimImpl
    simp only [Cmp.evalInt, decide_eq_true_eq] at hB1
    simp only [headE, hA, hB, bind, Except.bind, hB1, lastE, e1, e2, e3, Cmp.evalInt, decide_eq_true_eq]
  · intro A' B' hc
    rw [hcore] at hc
    simp only [Except.ok.injEq, Prod.mk.injEq] at hc
    obtain ⟨rfl, rfl⟩ := hc
    exact ⟨altS_weaken _ _ _ e4, e5, List.filter_sublist, hsub⟩

theorem trim_main (A B : List Int) (h : altS none A B = true ∨ altS none B A = true) :
    trimImpl A B = trimCore A B ∧
    ∀ A' B', trimCore A B = .ok (A', B') →
      altS none A' B' = true ∧ A'.length = B'.length ∧ A'.Sublist A ∧ B'.Sublist B := by
  cases A with
  | nil =>
    constructor
    · simp [trimImpl, trimCore, headE, bind, Except.bind]
    · intro A' B' hc; simp [trimCore] at hc
  | cons a0 A' =>
    cases B with
    | nil =>
      constructor
      · simp [trimImpl, trimCore, headE, bind, Except.bind]
      · intro A' B' hc; simp [trimCore] at hc
    | cons b0 B' =>
      rcases h with h | h
      · have h' := h
        rw [altS_cons_iff] at h'
        have hlb := altS_lb _ _ _ h'.2 a0 rfl
        have hab : a0 < b0 := hlb.1 b0 (by simp)
        have hn : ¬ b0 < a0 := by omega
        apply trimImpl_of_end a0 b0 _ _ (b0 :: B') none rfl rfl
        · simp [Cmp.evalInt, hn]
        · rw [List.filter_eq_self]
          intro x hx
          simpa using hlb.1 x hx
        · simp
        · exact h
        · exact List.Sublist.refl _
      · have h' := h
        rw [altS_cons_iff, altS_cons_iff] at h'
        obtain ⟨_, hba, h3⟩ := h'
        have hba' : b0 < a0 := hba b0 rfl
        have hn : ¬ a0 < b0 := by omega
        have hlb := altS_lb _ _ _ h3 a0 rfl
        have hf : (b0 :: B').filter (fun t => decide (a0 < t)) = B' := by
          rw [List.filter_cons_of_neg (by simpa using hn), List.filter_eq_self]
          intro x hx
          simpa using hlb.1 x hx
        by_cases hB' : B' = []
        · subst hB'
          constructor
          · unfold trimImpl trimCore
            simp [headE, lastE, bind, Except.bind, Cmp.evalInt, hba', hn]
            cases (a0 :: A').getLast? <;> rfl
          · intro A'' B'' hc
            unfold trimCore at hc
            simp [hn] at hc
        · apply trimImpl_of_end a0 b0 _ _ B' (some b0) rfl rfl
          · simp [Cmp.evalInt, hba']
          · exact hf
          · exact hB'
          · rw [altS_cons_iff]; exact ⟨hba, h3⟩
          · exact List.sublist_cons_self _ _

theorem trimFirst_peak_eq (P T : List Int) : trimFirst .peak P T = trimImpl P T := rfl
theorem trimSpec_peak_eq (P T : List Int) : trimSpec .peak P T = trimCore P T := rfl

theorem trimFirst_trough_eq (P T : List Int) :
    trimFirst .trough P T = (trimImpl T P).map Prod.swap := by
  unfold trimFirst trimImpl
  delta Slots.trimFirstCmpTrough Slots.trimLastCmpTrough
  cases headE T with
  | error e => rfl
  | ok t0 =>
    cases headE P with
    | error e => rfl
    | ok p0 =>
      simp only [bind, Except.bind]
      cases lastE T with
      | error e => rfl
      | ok tl =>
        simp only
        generalize (if Cmp.gt.evalInt t0 p0 = true then List.drop 1 P else P) = P1
        cases lastE P1 with
        | error e => rfl
        | ok pl => rfl

theorem trimSpec_trough_eq (P T : List Int) :
    trimSpec .trough P T = (trimCore T P).map Prod.swap := by
  unfold trimSpec trimCore
  cases P with
  | nil => cases T <;> rfl
  | cons p0 P' =>
    cases T with
    | nil => rfl
    | cons t0 T' =>
      simp only [List.head?_cons]
      cases ((p0 :: P').filter fun p => decide (t0 < p)).getLast? <;> rfl

end Bycycle
