import BycycleModel.Group
/-!
# Helper lemmas for C11 / C12 (group plumbing)
-/
namespace Bycycle

/-- `Pool.imap` / `Pool.map`: the result does not depend on the completion order. -/
theorem poolRun_imap {α β} (σ : List Nat) (f : α → β) (xs : List α) :
    poolRun .imap σ f xs = xs.map f ∧ poolRun .map σ f xs = xs.map f := by
  exact ⟨rfl, rfl⟩

/-- with `imap_unordered` the statement would be false: a concrete completion order permutes the results. -/
theorem poolRun_unordered_counterexample :
    poolRun .imapUnordered [1, 0] (fun x : Nat => x + 10) [1, 2] ≠ [1, 2].map (fun x : Nat => x + 10) := by
  decide

theorem features2d_eq_spec {S O R} (analyse : S → O → R) (setRS : O → O) (dflt : O) (σ : List Nat)
    (sigs : List S) (kw : Kw O) (hk : ∀ os, kw = .many os → os.length = sigs.length) :
    features2d analyse setRS dflt σ sigs kw = features2dSpec analyse setRS dflt sigs kw := by
  unfold features2d features2dSpec
  cases kw with
  | none => simp [Kw.toList, Slots.zipCmp, Slots.zipLen, Cmp.evalInt, Slots.poolMethod2d, poolRun]
  | one o => simp [Kw.toList, Slots.zipCmp, Slots.zipLen, Cmp.evalInt, Slots.poolMethod2d, poolRun]
  | many os =>
    have h := hk os rfl
    simp only [Kw.toList, Slots.zipCmp, Slots.zipLen, Cmp.evalInt, Slots.poolMethod2d, poolRun, List.length_map]
    split
    · rw [List.zip_map_right, List.map_map]; rfl
    · rename_i hlt
      match os, sigs, h with
      | [], [], _ => rfl
      | [o], [s], _ => rfl
      | _ :: _ :: _, _, _ => simp at hlt; omega

theorem features2dSpec_get {S O R} (analyse : S → O → R) (setRS : O → O) (dflt : O)
    (sigs : List S) (kw : Kw O) (hk : ∀ os, kw = .many os → os.length = sigs.length) (i : Nat) (hi : i < sigs.length) :
    (features2dSpec analyse setRS dflt sigs kw)[i]? = some (analyse sigs[i] (setRS (optAt dflt kw i))) := by
  unfold features2dSpec optAt
  cases kw with
  | none => simp [hi]
  | one o => simp [hi]
  | many os =>
    have h := hk os rfl
    have hi' : i < os.length := by omega
    simp [List.getElem?_zip_eq_some, hi, hi']
    exact ⟨_, _, ⟨rfl, rfl⟩, rfl⟩

theorem features2dSpec_length {S O R} (analyse : S → O → R) (setRS : O → O) (dflt : O)
    (sigs : List S) (kw : Kw O) (hk : ∀ os, kw = .many os → os.length = sigs.length) :
    (features2dSpec analyse setRS dflt sigs kw).length = sigs.length := by
  unfold features2dSpec
  cases kw with
  | none => simp
  | one o => simp
  | many os =>
    have h := hk os rfl
    simp [h]

/-! ## auxiliary list lemmas -/

theorem filterMap_get_of_all_some {α} (n1 j : Nat) (hj : j < n1) (x : List (List α))
    (h : ∀ row ∈ x, row.length = n1) (i : Nat) :
    (x.filterMap (·[j]?))[i]? = x[i]?.bind (·[j]?) := by
  induction x generalizing i with
  | nil => simp
  | cons row rest ih =>
    have hr : row.length = n1 := h row (by simp)
    have hj' : j < row.length := by omega
    have ih' := ih (fun r hr => h r (by simp [hr]))
    rw [List.filterMap_cons]
    simp only [List.getElem?_eq_getElem hj']
    cases i with
    | zero => simp [hj']
    | succ i => simp [ih']

theorem filterMap_length_of_all_some {α} (n1 j : Nat) (hj : j < n1) (x : List (List α))
    (h : ∀ row ∈ x, row.length = n1) :
    (x.filterMap (·[j]?)).length = x.length := by
  induction x with
  | nil => simp
  | cons row rest ih =>
    have hr : row.length = n1 := h row (by simp)
    have hj' : j < row.length := by omega
    have ih' := ih (fun r hr => h r (by simp [hr]))
    rw [List.filterMap_cons]
    simp only [List.getElem?_eq_getElem hj']
    simp [ih']

theorem flatten_get_rect {α} (n1 j : Nat) (hj : j < n1) (x : List (List α))
    (h : ∀ row ∈ x, row.length = n1) (i : Nat) :
    x.flatten[i * n1 + j]? = x[i]?.bind (·[j]?) := by
  induction x generalizing i with
  | nil => simp
  | cons row rest ih =>
    have hr : row.length = n1 := h row (by simp)
    have hj' : j < row.length := by omega
    have ih' := ih (fun r hr => h r (by simp [hr]))
    rw [List.flatten_cons]
    cases i with
    | zero => simp [List.getElem?_append_left hj']
    | succ i =>
      have : row.length ≤ (i + 1) * n1 + j := by rw [Nat.succ_mul]; omega
      rw [List.getElem?_append_right this]
      have e : (i + 1) * n1 + j - row.length = i * n1 + j := by rw [Nat.succ_mul]; omega
      rw [e, ih']; simp

theorem flatten_length_rect {α} (n1 : Nat) (x : List (List α))
    (h : ∀ row ∈ x, row.length = n1) : x.flatten.length = x.length * n1 := by
  induction x with
  | nil => simp
  | cons row rest ih =>
    have hr : row.length = n1 := h row (by simp)
    have ih' := ih (fun r hr => h r (by simp [hr]))
    simp [ih', hr, Nat.succ_mul, Nat.add_comm]


theorem transposeL_getRow {α} (n1 : Nat) (x : List (List α)) (j : Nat) (hj : j < n1) :
    (transposeL n1 x)[j]? = some (x.filterMap (·[j]?)) := by
  simp [transposeL, hj]

theorem transposeL_length {α} (n1 : Nat) (x : List (List α)) : (transposeL n1 x).length = n1 := by
  simp [transposeL]



theorem zipmap_get {α β γ} (f : α × β → γ) (xs : List α) (ys : List β) (i : Nat) (x : α) (y : β)
    (hx : xs[i]? = some x) (hy : ys[i]? = some y) : ((xs.zip ys).map f)[i]? = some (f (x, y)) := by
  have : (xs.zip ys)[i]? = some (x, y) := List.getElem?_zip_eq_some.mpr ⟨hx, hy⟩
  rw [List.getElem?_map, this]; rfl

theorem ksFix_get {O} (dflt : O) (kw : Kw O) (n i : Nat) (hi : i < n)
    (hk : ∀ os, kw = .many os → os.length = n) :
    (if (kw.toList dflt).length = 1 then List.replicate n ((kw.toList dflt).headD dflt)
      else kw.toList dflt)[i]? = some (optAt dflt kw i) := by
  cases kw with
  | none => simp [Kw.toList, optAt, hi]
  | one o => simp [Kw.toList, optAt, hi]
  | many os =>
    have h := hk os rfl
    change (if os.length = 1 then List.replicate n (os.headD dflt) else os)[i]? = some (os.getD i dflt)
    by_cases h1 : os.length = 1
    · rw [if_pos h1]
      match os, h1 with
      | [o], _ =>
        have : i = 0 := by simp at h; omega
        subst this; simp [hi]
    · rw [if_neg h1]
      have : i < os.length := by omega
      simp [this]

theorem kw2_prop {O} (dflt : O) (kw : Kw O) (n k : Nat) (hkn : k < n)
    (hk : ∀ os, kw = .many os → os.length = n) :
    (∀ os, (if (kw.toList dflt).length = 1 then Kw.one ((kw.toList dflt).headD dflt)
        else Kw.many (kw.toList dflt)) = .many os → os.length = n) ∧
    optAt dflt (if (kw.toList dflt).length = 1 then Kw.one ((kw.toList dflt).headD dflt)
        else Kw.many (kw.toList dflt)) k = optAt dflt kw k := by
  cases kw with
  | none => simp [Kw.toList, optAt]
  | one o => simp [Kw.toList, optAt]
  | many os =>
    have h := hk os rfl
    change (∀ os', (if os.length = 1 then Kw.one (os.headD dflt) else Kw.many os) = .many os' → os'.length = n) ∧
      optAt dflt (if os.length = 1 then Kw.one (os.headD dflt) else Kw.many os) k = optAt dflt (.many os) k
    by_cases h1 : os.length = 1
    · rw [if_pos h1]
      match os, h1 with
      | [o], _ =>
        have : k = 0 := by simp at h; omega
        subst this; simp [optAt]
    · rw [if_neg h1]
      refine ⟨?_, rfl⟩
      intro os' e
      cases e; exact h

theorem range_filterMap_all_some {β} (f : Nat → Option β) (n : Nat) (h : ∀ j < n, (f j).isSome) :
    ((List.range n).filterMap f).length = n ∧ ∀ j < n, ((List.range n).filterMap f)[j]? = f j := by
  induction n with
  | zero => simp
  | succ n ih =>
    obtain ⟨il, ig⟩ := ih (fun j hj => h j (by omega))
    obtain ⟨v, hv⟩ := Option.isSome_iff_exists.mp (h n (by omega))
    rw [List.range_succ, List.filterMap_append]
    refine ⟨by simp [il, hv], ?_⟩
    intro j hj
    by_cases hjn : j < n
    · rw [List.getElem?_append_left (by omega)]; exact ig j hjn
    · have : j = n := by omega
      subst this
      rw [List.getElem?_append_right (by omega)]
      simp [il, hv]

theorem rect_of_get {β} (l : List β) (n : Nat) (g : Nat → β) (hle : l.length ≤ n)
    (h : ∀ j < n, l[j]? = some (g j)) : l.length = n ∧ ∀ r ∈ l, ∃ j < n, r = g j := by
  have hlen : l.length = n := by
    refine Nat.le_antisymm hle (Nat.le_of_not_lt fun hlt => ?_)
    have := h l.length hlt
    simp at this
  refine ⟨hlen, ?_⟩
  intro r hr
  obtain ⟨k, hk, rfl⟩ := List.mem_iff_getElem.mp hr
  refine ⟨k, by omega, ?_⟩
  have := h k (by omega)
  rw [List.getElem?_eq_getElem hk] at this
  exact Option.some.inj this

theorem features3d_a0_eq {S O R} (analyse : S → O → R) (analyseEpochs : List S → O → List R) (setRS : O → O) (dflt : O)
    (σ : List Nat) (n0 n1 : Nat) (sigs : List (List S)) (kw : Kw O) :
    features3d analyse analyseEpochs setRS dflt σ n0 n1 sigs kw .a0 =
      (sigs.zip (if (kw.toList dflt).length = 1 then List.replicate sigs.length ((kw.toList dflt).headD dflt)
        else kw.toList dflt)).map (fun p : List S × O => analyseEpochs p.1 p.2) := by
  cases kw <;> rfl

theorem features3d_a1_eq {S O R} (analyse : S → O → R) (analyseEpochs : List S → O → List R) (setRS : O → O) (dflt : O)
    (σ : List Nat) (n0 n1 : Nat) (sigs : List (List S)) (kw : Kw O) :
    features3d analyse analyseEpochs setRS dflt σ n0 n1 sigs kw .a1 =
      transposeL n0 (((transposeL n1 sigs).zip (if (kw.toList dflt).length = 1 then
          List.replicate (transposeL n1 sigs).length ((kw.toList dflt).headD dflt)
        else kw.toList dflt)).map (fun p : List S × O => analyseEpochs p.1 p.2)) := by
  cases kw <;> rfl

theorem features3d_a01_eq {S O R} (analyse : S → O → R) (analyseEpochs : List S → O → List R) (setRS : O → O) (dflt : O)
    (σ : List Nat) (n0 n1 : Nat) (sigs : List (List S)) (kw : Kw O) :
    features3d analyse analyseEpochs setRS dflt σ n0 n1 sigs kw .a01 =
      (List.range n0).map fun i => (List.range n1).filterMap fun j =>
        (features2d analyse setRS dflt σ sigs.flatten
          (if (kw.toList dflt).length = 1 then Kw.one ((kw.toList dflt).headD dflt)
            else Kw.many (kw.toList dflt)))[i * n1 + j]? := by
  cases kw <;> rfl

theorem transposeL_get {α} (n0 n1 : Nat) (x : List (List α)) (h : Rect n0 n1 x) (i j : Nat) (hi : i < n0) (hj : j < n1) :
    ((transposeL n1 x)[j]?.bind (·[i]?)) = (x[i]?.bind (·[j]?)) := by
  have _ := hi
  rw [transposeL_getRow n1 x j hj]
  simpa using filterMap_get_of_all_some n1 j hj x h.2 i

theorem transposeL_rect {α} (n0 n1 : Nat) (x : List (List α)) (h : Rect n0 n1 x) : Rect n1 n0 (transposeL n1 x) := by
  refine ⟨transposeL_length n1 x, ?_⟩
  intro row hrow
  simp only [transposeL, List.mem_map, List.mem_range] at hrow
  obtain ⟨j, hj, rfl⟩ := hrow
  rw [filterMap_length_of_all_some n1 j hj x h.2, h.1]

/-- axis = (0, 1): entry [i][j] is the analysis of signal [i, j] alone with the options at [i][j]. -/
theorem features3d_a01_get {S O R} (analyse : S → O → R) (analyseEpochs : List S → O → List R) (setRS : O → O) (dflt : O)
    (σ : List Nat) (n0 n1 : Nat) (sigs : List (List S)) (kw : Kw O) (hrect : Rect n0 n1 sigs)
    (hk : ∀ os, kw = .many os → os.length = n0 * n1) (i j : Nat) (hi : i < n0) (hj : j < n1) :
    ∃ row s, (features3d analyse analyseEpochs setRS dflt σ n0 n1 sigs kw .a01)[i]? = some row ∧
      (sigs[i]?.bind (·[j]?)) = some s ∧
      row[j]? = some (analyse s (setRS (optAt dflt kw (i * n1 + j)))) ∧ row.length = n1 := by
  obtain ⟨hl, hrow⟩ := hrect
  rw [features3d_a01_eq]
  have hkn : i * n1 + j < n0 * n1 := by
    have : (i + 1) * n1 ≤ n0 * n1 := Nat.mul_le_mul_right n1 hi
    rw [Nat.succ_mul] at this; omega
  have hfl : sigs.flatten.length = n0 * n1 := by rw [flatten_length_rect n1 sigs hrow, hl]
  have hk2 : ∀ os, kw = .many os → os.length = sigs.flatten.length := by rw [hfl]; exact hk
  -- every entry of row `i` is present
  have hall : ∀ (j' : Nat) (hj' : j' < n1), ((features2d analyse setRS dflt σ sigs.flatten
      (if (kw.toList dflt).length = 1 then Kw.one ((kw.toList dflt).headD dflt)
        else Kw.many (kw.toList dflt)))[i * n1 + j']?) =
      some (analyse (sigs.flatten[i * n1 + j']'(by
          have : (i + 1) * n1 ≤ n0 * n1 := Nat.mul_le_mul_right n1 hi
          rw [Nat.succ_mul] at this; omega))
        (setRS (optAt dflt kw (i * n1 + j')))) := by
    intro j' hj'
    have hkn' : i * n1 + j' < sigs.flatten.length := by
      have : (i + 1) * n1 ≤ n0 * n1 := Nat.mul_le_mul_right n1 hi
      rw [Nat.succ_mul] at this; omega
    obtain ⟨h2a, h2b⟩ := kw2_prop dflt kw sigs.flatten.length (i * n1 + j') hkn' hk2
    rw [features2d_eq_spec analyse setRS dflt σ sigs.flatten _ h2a,
      features2dSpec_get analyse setRS dflt sigs.flatten _ h2a _ hkn', h2b]
  obtain ⟨rlen, rget⟩ := range_filterMap_all_some (fun j' => (features2d analyse setRS dflt σ sigs.flatten
      (if (kw.toList dflt).length = 1 then Kw.one ((kw.toList dflt).headD dflt)
        else Kw.many (kw.toList dflt)))[i * n1 + j']?) n1 (fun j' hj' => by simp only [hall j' hj']; rfl)
  have hkn' : i * n1 + j < sigs.flatten.length := by omega
  refine ⟨_, sigs.flatten[i * n1 + j], ?_, ?_, ?_, rlen⟩
  · rw [List.getElem?_map, List.getElem?_range hi]; rfl
  · rw [← flatten_get_rect n1 j hj sigs hrow i, List.getElem?_eq_getElem hkn']
  · rw [rget j hj]; exact hall j hj

/-- axis = 0: row i is the flattened-epoch analysis of sigs[i] with the options of slice i. -/
theorem features3d_a0_get {S O R} (analyse : S → O → R) (analyseEpochs : List S → O → List R) (setRS : O → O) (dflt : O)
    (σ : List Nat) (n0 n1 : Nat) (sigs : List (List S)) (kw : Kw O) (hrect : Rect n0 n1 sigs)
    (hk : ∀ os, kw = .many os → os.length = n0) (i : Nat) (hi : i < n0) :
    ∃ s, sigs[i]? = some s ∧
      (features3d analyse analyseEpochs setRS dflt σ n0 n1 sigs kw .a0)[i]? = some (analyseEpochs s (optAt dflt kw i)) := by
  obtain ⟨hl, hrow⟩ := hrect
  have hi' : i < sigs.length := by omega
  refine ⟨sigs[i], List.getElem?_eq_getElem hi', ?_⟩
  rw [features3d_a0_eq]
  exact zipmap_get _ _ _ i _ _ (List.getElem?_eq_getElem hi')
    (ksFix_get dflt kw sigs.length i hi' (by rw [hl]; exact hk))

/-- axis = 1: column j is the flattened-epoch analysis of sigs[:, j] with the options of slice j. -/
theorem features3d_a1_get {S O R} (analyse : S → O → R) (analyseEpochs : List S → O → List R) (setRS : O → O) (dflt : O)
    (σ : List Nat) (n0 n1 : Nat) (sigs : List (List S)) (kw : Kw O) (hrect : Rect n0 n1 sigs)
    (hk : ∀ os, kw = .many os → os.length = n1)
    (hlen : ∀ xs o, (analyseEpochs xs o).length = xs.length) (i j : Nat) (hi : i < n0) (hj : j < n1) :
    ∃ row, (features3d analyse analyseEpochs setRS dflt σ n0 n1 sigs kw .a1)[i]? = some row ∧
      row[j]? = (analyseEpochs (sigs.filterMap (·[j]?)) (optAt dflt kw j))[i]? ∧
      (sigs.filterMap (·[j]?)).length = n0 := by
  obtain ⟨hl, hrow⟩ := hrect
  rw [features3d_a1_eq]
  have hcol : (sigs.filterMap (·[j]?)).length = n0 := by
    rw [filterMap_length_of_all_some n1 j hj sigs hrow, hl]
  have hTl : (transposeL n1 sigs).length = n1 := transposeL_length n1 sigs
  -- row `j` of the intermediate (transposed) result
  have hres : ∀ j' < n1, (((transposeL n1 sigs).zip (if (kw.toList dflt).length = 1 then
          List.replicate (transposeL n1 sigs).length ((kw.toList dflt).headD dflt)
        else kw.toList dflt)).map (fun p : List S × O => analyseEpochs p.1 p.2))[j']? =
      some (analyseEpochs (sigs.filterMap (·[j']?)) (optAt dflt kw j')) := by
    intro j' hj'
    exact zipmap_get _ _ _ j' _ _ (transposeL_getRow n1 sigs j' hj')
      (ksFix_get dflt kw _ j' (by omega) (by rw [hTl]; exact hk))
  have hle : (((transposeL n1 sigs).zip (if (kw.toList dflt).length = 1 then
          List.replicate (transposeL n1 sigs).length ((kw.toList dflt).headD dflt)
        else kw.toList dflt)).map (fun p : List S × O => analyseEpochs p.1 p.2)).length ≤ n1 := by
    rw [List.length_map, List.length_zip, hTl]; exact Nat.min_le_left _ _
  obtain ⟨_, hmem⟩ := rect_of_get _ n1 _ hle hres
  have hrows : ∀ row ∈ (((transposeL n1 sigs).zip (if (kw.toList dflt).length = 1 then
          List.replicate (transposeL n1 sigs).length ((kw.toList dflt).headD dflt)
        else kw.toList dflt)).map (fun p : List S × O => analyseEpochs p.1 p.2)), row.length = n0 := by
    intro row hr
    obtain ⟨j', hj', rfl⟩ := hmem row hr
    rw [hlen, filterMap_length_of_all_some n1 j' hj' sigs hrow, hl]
  refine ⟨_, transposeL_getRow n0 _ i hi, ?_, hcol⟩
  rw [filterMap_get_of_all_some n0 i hi _ hrows j, hres j hj]
  rfl

/-- non-vacuity of the index slot: with `i + j` instead of `i * n1 + j` a 2 × 2 grid is already wrong. -/
theorem unflatten_wrong_counterexample : (fun (n1 i j : Nat) => i + j) 2 1 0 ≠ (fun (n1 i j : Nat) => i * n1 + j) 2 1 0 := by
  decide

end Bycycle
