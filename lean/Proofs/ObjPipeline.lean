import BycycleModel.ObjPipeline
import Proofs.ObjMachine
import Proofs.GroupMachine
import Proofs.Pipeline
import Proofs.PipelineAmp
import Proofs.Edges
/-! Composition lemmas: object / group histories over the modelled pipeline. -/
namespace Bycycle.Obj
variable {S T : Type}

theorem fit_is_pipeline (o : Obj Recording Table) (ops : List (Op Recording Table)) (r : Recording)
    (hdone : (step pipelineApi (run pipelineApi o ops) (.fit r)).2 = .done) :
    let cur := ops.foldl editSettings o.st
    ∃ t, (step pipelineApi (run pipelineApi o ops) (.fit r)).1.df = some t ∧
      ((cur.cycles = true ∧ ∃ oc, t = .cycles oc (cur.peak && cur.returnSamples) ∧
          pipelineCycles (centreOf cur) r.x (r.pad cur.fek) (r.b cur.fek (centreOf cur)) r.amp (r.bd cur.fek) (cycThreshOf cur.thresholds) = .ok oc) ∨
       (cur.cycles = false ∧ ∃ oa, t = .amp oa ∧
          pipelineAmp (centreOf cur) r.x (r.pad cur.fek) (r.b cur.fek (centreOf cur)) r.amp (r.bd cur.fek) (cur.burstKwargs.lookup "min_n_cycles")
            (cur.thresholds.lookup "min_n_cycles") (cur.burstKwargs.lookup "min_burst_duration") (r.detMask cur.burstKwargs)
            (lookupD cur.thresholds "burst_fraction_threshold" Slots.ampDefaultThreshold) = .ok oa)) ∧
      ((r.b cur.fek (centreOf cur)).length = r.x.length + 2 * r.pad cur.fek → wellFormed t.samples r.x.length (r.bd cur.fek)) := by
  intro cur
  have h := fit_after_history pipelineApi o ops r
  simp only [] at h
  obtain ⟨h1, h2⟩ := h
  rw [h1] at hdone
  obtain ⟨_, _, t, hcf, hdf⟩ := h2 hdone
  refine ⟨t, hdf, ?_⟩
  have hcf' : pipelineCf cur r = .ok t := hcf
  unfold pipelineCf at hcf'
  by_cases hc : cur.cycles = true
  · simp only [hc, if_true] at hcf'
    cases hp : pipelineCycles (centreOf cur) r.x (r.pad cur.fek) (r.b cur.fek (centreOf cur)) r.amp (r.bd cur.fek) (cycThreshOf cur.thresholds) with
    | error e => rw [hp] at hcf'; simp [Except.map] at hcf'
    | ok oc =>
      rw [hp] at hcf'
      simp only [Except.map, Except.ok.injEq] at hcf'
      subst hcf'
      exact ⟨Or.inl ⟨hc, oc, rfl, rfl⟩, fun hlen => pipeline_wellFormed _ _ _ _ _ _ _ oc hlen hp⟩
  · have hc' : cur.cycles = false := by simpa using hc
    simp only [hc', Bool.false_eq_true, if_false] at hcf'
    cases hp : pipelineAmp (centreOf cur) r.x (r.pad cur.fek) (r.b cur.fek (centreOf cur)) r.amp (r.bd cur.fek) (cur.burstKwargs.lookup "min_n_cycles")
            (cur.thresholds.lookup "min_n_cycles") (cur.burstKwargs.lookup "min_burst_duration") (r.detMask cur.burstKwargs)
            (lookupD cur.thresholds "burst_fraction_threshold" Slots.ampDefaultThreshold) with
    | error e => rw [hp] at hcf'; simp [Except.map] at hcf'
    | ok oa =>
      rw [hp] at hcf'
      simp only [Except.map, Except.ok.injEq] at hcf'
      subst hcf'
      exact ⟨Or.inr ⟨hc', oa, rfl, rfl⟩, fun hlen => (pipelineAmp_spec _ _ _ _ _ _ _ _ _ _ _ oa hlen hp).1⟩

/-- `Bycycle.recompute_edges(r)` on an object holding a consistency-method pipeline table: the stored table becomes the same table with its two consistency columns and
its labels replaced by `recomputeEdges` - evaluated with the centring the code SEES and the stored thresholds lowered by `r` - and nothing else (samples, shape,
amplitude fraction, monotonicity) changes; the settings are untouched. -/
theorem edges_on_pipeline (o : Obj Recording Table) (oc : PipeOut) (pk : Bool) (r : Option Rat) (hdf : o.df = some (.cycles oc pk))
    (hdone : (step pipelineApi o (.edges r)).2 = .done) :
    ∃ rows, recomputeEdges pk (edgeRowsOf oc) (cycThreshOf (reduceThresholds o.st.thresholds r)) = .ok rows ∧
      (step pipelineApi o (.edges r)).1.df = some (.cycles (withEdges oc rows) pk) ∧
      (withEdges oc rows).samples = oc.samples ∧ (withEdges oc rows).shape = oc.shape ∧
      (step pipelineApi o (.edges r)).1.st = o.st := by
  simp only [step, hdf] at hdone ⊢
  cases hrc : (pipelineApi.rc (.cycles oc pk) (reduceThresholds o.st.thresholds r) : Except Err Table) with
  | error e => rw [hrc] at hdone; simp at hdone
  | ok t' =>
    have hrc' : rcPipeline (.cycles oc pk) (reduceThresholds o.st.thresholds r) = .ok t' := hrc
    simp only [rcPipeline] at hrc'
    cases hre : recomputeEdges pk (edgeRowsOf oc) (cycThreshOf (reduceThresholds o.st.thresholds r)) with
    | error e => rw [hre] at hrc'; simp [Except.map] at hrc'
    | ok rows =>
      rw [hre] at hrc'
      simp only [Except.map, Except.ok.injEq] at hrc'
      subst hrc'
      refine ⟨rows, rfl, ?_, rfl, rfl, ?_⟩
      · simp
      · simp

theorem mapExcept_ok {α β : Type} (f : α → Except Err β) (xs : List α) (ts : List β) (h : mapExcept f xs = .ok ts) :
    ts.length = xs.length ∧ ∀ (i : Nat) (x : α), xs[i]? = some x → ∃ t, ts[i]? = some t ∧ f x = .ok t := by
  induction xs generalizing ts with
  | nil =>
    simp only [mapExcept, Except.ok.injEq] at h
    subst h
    exact ⟨rfl, fun i x hx => by simp at hx⟩
  | cons a rest ih =>
    simp only [mapExcept] at h
    split at h
    · simp at h
    · rename_i b hb
      split at h
      · simp at h
      · rename_i bs hbs
        simp only [Except.ok.injEq] at h
        subst h
        obtain ⟨hl, hi⟩ := ih bs hbs
        refine ⟨by simp [hl], ?_⟩
        intro i x hx
        cases i with
        | zero =>
          simp only [List.getElem?_cons_zero, Option.some.injEq] at hx
          subst hx
          exact ⟨b, by simp, hb⟩
        | succ j =>
          simp only [List.getElem?_cons_succ] at hx ⊢
          exact hi j x hx

/-- a group fit that succeeds: at every position the group's table and its model's table are the analysis of the signal at that position with the
group's settings, and the model holds that signal and those settings. -/
theorem group_fit_per_signal (A : Api S T) (g : GObj S T) (xs : List S)
    (hdone : (gstep A (perSignal A.cf) g (.fit xs)).2 = .done) :
    ∀ (i : Nat) (x : S), xs[i]? = some x →
      ∃ (t : T) (m : Obj S T), A.cf g.st x = .ok t ∧ (gstep A (perSignal A.cf) g (.fit xs)).1.dfs[i]? = some t ∧
        (gstep A (perSignal A.cf) g (.fit xs)).1.models[i]? = some m ∧ m.df = some t ∧ m.sig = some x ∧ m.st = g.st := by
  intro i x hx
  simp only [gstep] at hdone ⊢
  split at hdone
  · simp at hdone
  · rename_i ts heq
    split at hdone
    · rename_i hlen
      obtain ⟨_, hi⟩ := mapExcept_ok (A.cf g.st) xs ts heq
      obtain ⟨t, ht, hcf⟩ := hi i x hx
      simp only [hlen, if_true]
      refine ⟨t, { st := g.st, sig := some x, df := some t }, hcf, ht, ?_, rfl, rfl, rfl⟩
      simp only [List.getElem?_map, Option.map_eq_some_iff]
      exact ⟨(x, t), by rw [List.getElem?_zip_eq_some]; exact ⟨hx, ht⟩, rfl⟩
    · simp at hdone

end Bycycle.Obj
