import BycycleModel.Runs
import Mathlib.Data.List.Forall2
import Mathlib.Data.Rat.Cast.Order
/-!
# Helper lemmas for C08 (minimum-run filter)

Route: computation rules for `minRun` and `minRunSpec` on the run decomposition
(`false :: bs`, `replicate (n+1) true`, `replicate (n+1) true ++ false :: rest`),
an induction principle over that decomposition (`run_induction`), and from these
`minRun_eq_spec`; the remaining facts follow from the spec or the rules.
-/
namespace Bycycle
open List

theorem transAux_shift (prev : Bool) (s d : Nat) (m : List Bool) :
    transAux prev (s + d) m = (transAux prev s m).map (· + d) := by
  induction m generalizing prev s with
  | nil => simp only [transAux]; split <;> simp
  | cons b bs ih =>
    simp only [transAux]
    have : s + d + 1 = (s + 1) + d := by omega
    rw [this, ih]
    split <;> simp

theorem onOffPairs_map (d : Nat) (l : List Nat) :
    onOffPairs (l.map (· + d)) = (onOffPairs l).map (fun p => (p.1 + d, p.2 + d)) := by
  fun_induction onOffPairs l with
  | case1 on off rest ih => simp [onOffPairs, ih]
  | case2 l h =>
    match l, h with
    | [], _ => simp [onOffPairs]
    | [a], _ => simp [onOffPairs]
    | a :: b :: r, h => exact absurd rfl (h a b r)

theorem transAux_true_run (s n : Nat) (rest : List Bool) :
    transAux true s (replicate n true ++ false :: rest) = (s + n) :: transAux false (s + n + 1) rest := by
  induction n generalizing s with
  | zero => simp [transAux]
  | succ n ih =>
    simp only [replicate_succ, cons_append, transAux]
    rw [ih]
    have e : s + 1 + n = s + (n + 1) := by omega
    simp [e]

theorem transAux_true_end (s n : Nat) :
    transAux true s (replicate n true) = [s + n] := by
  induction n generalizing s with
  | zero => simp [transAux]
  | succ n ih =>
    simp only [replicate_succ, transAux]
    rw [ih]
    have e : s + 1 + n = s + (n + 1) := by omega
    simp [e]


/-- fold of the clears over the short pairs. -/
def clr (k : Rat) (m : List Bool) (ps : List (Nat × Nat)) : List Bool :=
  (ps.filter fun p => decide (((p.2 - p.1 : Nat) : Rat) < k)).foldl
    (fun acc p => clearRange acc p.1 p.2) m

theorem minRun_eq_clr (m : List Bool) (k : Rat) :
    minRun m k = clr k m (onOffPairs (transAux false 0 m)) := rfl

theorem clr_nil (k : Rat) (m : List Bool) : clr k m [] = m := rfl

theorem clr_cons (k : Rat) (m : List Bool) (p : Nat × Nat) (ps : List (Nat × Nat)) :
    clr k m (p :: ps) =
      clr k (if ((p.2 - p.1 : Nat) : Rat) < k then clearRange m p.1 p.2 else m) ps := by
  unfold clr
  by_cases h : ((p.2 - p.1 : Nat) : Rat) < k <;> simp [h]

theorem clearRange_append_shift (pre m : List Bool) (on off : Nat) :
    clearRange (pre ++ m) (on + pre.length) (off + pre.length) = pre ++ clearRange m on off := by
  unfold clearRange
  rw [List.mapIdx_append]
  congr 1
  · apply List.ext_getElem
    · simp
    · intro i h1 h2
      simp at h1
      simp
      intro h; omega
  · simp

theorem clr_append_shift (k : Rat) (pre m : List Bool) (ps : List (Nat × Nat)) :
    clr k (pre ++ m) (ps.map fun p => (p.1 + pre.length, p.2 + pre.length)) =
      pre ++ clr k m ps := by
  induction ps generalizing m with
  | nil => rfl
  | cons p ps ih =>
    rw [List.map_cons, clr_cons, clr_cons]
    have e : p.2 + pre.length - (p.1 + pre.length) = p.2 - p.1 := by omega
    simp only [e]
    split
    · rw [clearRange_append_shift, ih]
    · rw [ih]

theorem minRun_nil (k : Rat) : minRun [] k = [] := rfl

theorem minRun_cons_false (bs : List Bool) (k : Rat) :
    minRun (false :: bs) k = false :: minRun bs k := by
  rw [minRun_eq_clr, minRun_eq_clr]
  have : transAux false 0 (false :: bs) = transAux false (0 + 1) bs := by simp [transAux]
  rw [this, transAux_shift, onOffPairs_map]
  exact clr_append_shift k [false] bs _

theorem minRun_replicate_false (n : Nat) (bs : List Bool) (k : Rat) :
    minRun (replicate n false ++ bs) k = replicate n false ++ minRun bs k := by
  induction n with
  | zero => simp
  | succ n ih => simp [replicate_succ, minRun_cons_false, ih]

theorem clearRange_run (n : Nat) (tl : List Bool) :
    clearRange (replicate n true ++ tl) 0 n = replicate n false ++ tl := by
  unfold clearRange
  rw [List.mapIdx_append]
  congr 1
  · apply List.ext_getElem
    · simp
    · intro i h1 h2
      simp at h1
      simp [h1]
  · apply List.ext_getElem <;> simp

theorem minRun_run_false (n : Nat) (rest : List Bool) (k : Rat) :
    minRun (replicate (n+1) true ++ false :: rest) k =
      replicate (n+1) (decide (k ≤ ((n+1 : Nat) : Rat))) ++ false :: minRun rest k := by
  rw [minRun_eq_clr, minRun_eq_clr]
  have : transAux false 0 (replicate (n+1) true ++ false :: rest)
      = 0 :: (n+1) :: transAux false (0 + (n+2)) rest := by
    simp only [replicate_succ, cons_append, transAux]
    rw [transAux_true_run]
    have e1 : 0 + 1 + n = n + 1 := by omega
    rw [e1]; simp
  rw [this, transAux_shift, onOffPairs, onOffPairs_map, clr_cons]
  simp only [Nat.sub_zero]
  by_cases h : ((n+1 : Nat) : Rat) < k
  · have h' : ¬ k ≤ ((n+1 : Nat) : Rat) := Rat.not_le.mpr h
    rw [if_pos h, clearRange_run]
    simp only [h', decide_false]
    have := clr_append_shift k (replicate (n+1) false ++ [false]) rest (onOffPairs (transAux false 0 rest))
    simpa using this
  · have h' : k ≤ ((n+1 : Nat) : Rat) := Rat.not_lt.mp h
    rw [if_neg h]
    simp only [h', decide_true]
    have := clr_append_shift k (replicate (n+1) true ++ [false]) rest (onOffPairs (transAux false 0 rest))
    simpa using this

theorem minRun_run_end (n : Nat) (k : Rat) :
    minRun (replicate (n+1) true) k = replicate (n+1) (decide (k ≤ ((n+1 : Nat) : Rat))) := by
  rw [minRun_eq_clr]
  have : transAux false 0 (replicate (n+1) true) = [0, n+1] := by
    simp only [replicate_succ, transAux]
    rw [transAux_true_end]
    have e1 : 0 + 1 + n = n + 1 := by omega
    rw [e1]; simp
  have e : onOffPairs [0, n+1] = [(0, n+1)] := rfl
  rw [this, e, clr_cons, clr_nil]
  simp only [Nat.sub_zero]
  by_cases h : ((n+1 : Nat) : Rat) < k
  · have h' : ¬ k ≤ ((n+1 : Nat) : Rat) := Rat.not_le.mpr h
    rw [if_pos h]
    have := clearRange_run (n+1) []
    simp only [append_nil] at this
    rw [this]; simp only [h', decide_false]
  · have h' : k ≤ ((n+1 : Nat) : Rat) := Rat.not_lt.mp h
    rw [if_neg h]; simp only [h', decide_true]


/-! ## leadTrue / runLenAt -/

theorem leadTrue_append_false (l x : List Bool) : leadTrue (l ++ false :: x) = leadTrue l := by
  induction l with
  | nil => simp [leadTrue]
  | cons b bs ih => cases b <;> simp [leadTrue, ih]

theorem leadTrue_replicate_append (a : Nat) (tl : List Bool) :
    leadTrue (replicate a true ++ tl) = a + leadTrue tl := by
  induction a with
  | zero => simp
  | succ a ih => simp only [replicate_succ, cons_append, leadTrue, ih]; omega

theorem leadTrue_replicate (a : Nat) : leadTrue (replicate a true) = a := by
  have := leadTrue_replicate_append a []
  simpa [leadTrue] using this

theorem runLenAt_after_false (pre rest : List Bool) (j : Nat) :
    runLenAt (pre ++ false :: rest) (j + 1 + pre.length) = runLenAt rest j := by
  unfold runLenAt
  have e : pre ++ false :: rest = (pre ++ [false]) ++ rest := by simp
  have el : j + 1 + pre.length = (pre ++ [false]).length + j := by simp; omega
  have h1 : (pre ++ false :: rest).getD (j + 1 + pre.length) false = rest.getD j false := by
    rw [e, el, List.getD_eq_getElem?_getD, List.getElem?_append_right (Nat.le_add_right _ _)]
    simp [List.getD_eq_getElem?_getD]
  have h2 : (pre ++ false :: rest).take (j + 1 + pre.length) = pre ++ false :: rest.take j := by
    rw [e, el, List.take_length_add_append]; simp
  have h3 : (pre ++ false :: rest).drop (j + 1 + pre.length) = rest.drop j := by
    rw [e, el, List.drop_length_add_append]
  rw [h1, h2, h3]
  simp [leadTrue_append_false]

theorem runLenAt_in_run (n j : Nat) (hj : j < n) (tl : List Bool) (htl : leadTrue tl = 0) :
    runLenAt (replicate n true ++ tl) j = n := by
  unfold runLenAt
  have h1 : (replicate n true ++ tl).getD j false = true := by
    simp [List.getD_eq_getElem?_getD, List.getElem?_append_left, hj]
  have h2 : (replicate n true ++ tl).take j = replicate j true := by
    rw [List.take_append_of_le_length (by simp; omega)]
    simp [List.take_replicate]; omega
  have h3 : (replicate n true ++ tl).drop j = replicate (n - j) true ++ tl := by
    rw [List.drop_append_of_le_length (by simp; omega)]
    simp [List.drop_replicate]
  rw [h1, h2, h3]
  simp [leadTrue_replicate, leadTrue_replicate_append, htl]; omega


/-! ## computation rules for the spec -/

theorem spec_cons_false (bs : List Bool) (k : Rat) :
    minRunSpec (false :: bs) k = false :: minRunSpec bs k := by
  unfold minRunSpec
  rw [List.mapIdx_cons]
  simp only [Bool.false_and]
  congr 1
  have : ∀ i, runLenAt (false :: bs) (i + 1) = runLenAt bs i := fun i =>
    runLenAt_after_false [] bs i
  simp only [this]

theorem spec_run_prefix (n : Nat) (tl : List Bool) (htl : leadTrue tl = 0) (k : Rat) :
    List.mapIdx (fun i b => b && decide (k ≤ ((runLenAt (replicate n true ++ tl) i : Nat) : Rat)))
      (replicate n true) = replicate n (decide (k ≤ ((n : Nat) : Rat))) := by
  apply List.ext_getElem
  · simp
  · intro i h1 h2
    simp only [List.length_mapIdx, List.length_replicate] at h1
    simp only [List.getElem_mapIdx, List.getElem_replicate, Bool.true_and]
    rw [runLenAt_in_run n i h1 tl htl]

theorem spec_run_false (n : Nat) (rest : List Bool) (k : Rat) :
    minRunSpec (replicate (n+1) true ++ false :: rest) k =
      replicate (n+1) (decide (k ≤ ((n+1 : Nat) : Rat))) ++ false :: minRunSpec rest k := by
  unfold minRunSpec
  rw [List.mapIdx_append, List.mapIdx_cons, spec_run_prefix (n+1) (false :: rest) rfl]
  simp only [Bool.false_and]
  congr 2
  have : ∀ i, runLenAt (replicate (n+1) true ++ false :: rest) (i + 1 + (replicate (n+1) true).length)
      = runLenAt rest i := fun i => runLenAt_after_false _ rest i
  simp only [this]

theorem spec_run_end (n : Nat) (k : Rat) :
    minRunSpec (replicate (n+1) true) k = replicate (n+1) (decide (k ≤ ((n+1 : Nat) : Rat))) := by
  have := spec_run_prefix (n+1) [] rfl k
  simp only [List.append_nil] at this
  exact this

/-! ## induction by runs -/

theorem run_decomp (l : List Bool) :
    l = replicate (leadTrue l) true ∨ ∃ rest, l = replicate (leadTrue l) true ++ false :: rest := by
  induction l with
  | nil => left; rfl
  | cons b bs ih =>
    cases b with
    | false => right; exact ⟨bs, rfl⟩
    | true =>
      rcases ih with h | ⟨rest, h⟩
      · left; simp only [leadTrue, replicate_succ]; rw [← h]
      · right; refine ⟨rest, ?_⟩
        simp only [leadTrue, replicate_succ, cons_append]; rw [← h]

theorem run_induction {motive : List Bool → Prop} (nil : motive [])
    (cf : ∀ bs, motive bs → motive (false :: bs))
    (rend : ∀ n, motive (replicate (n+1) true))
    (rf : ∀ n rest, motive rest → motive (replicate (n+1) true ++ false :: rest)) :
    ∀ m, motive m := by
  intro m
  induction hlen : m.length using Nat.strong_induction_on generalizing m with
  | _ N ih =>
    match m, hlen with
    | [], _ => exact nil
    | false :: bs, hlen => exact cf bs (ih bs.length (by simp at hlen; omega) bs rfl)
    | true :: bs, hlen =>
      have hl : leadTrue (true :: bs) = leadTrue bs + 1 := rfl
      rcases run_decomp (true :: bs) with h | ⟨rest, h⟩
      · rw [h, hl]; exact rend _
      · rw [hl] at h
        have hlen' : rest.length < N := by
          have := congrArg List.length h
          simp at this hlen; omega
        rw [h]; exact rf _ rest (ih rest.length hlen' rest rfl)

theorem minRun_eq_spec (m : List Bool) (k : Rat) : minRun m k = minRunSpec m k := by
  induction m using run_induction with
  | nil => rfl
  | cf bs ih => rw [minRun_cons_false, spec_cons_false, ih]
  | rend n => rw [minRun_run_end, spec_run_end]
  | rf n rest ih => rw [minRun_run_false, spec_run_false, ih]


theorem spec_getD (m : List Bool) (k : Rat) (i : Nat) :
    (minRunSpec m k).getD i false
      = (m.getD i false && decide (k ≤ ((runLenAt m i : Nat) : Rat))) := by
  unfold minRunSpec
  simp only [List.getD_eq_getElem?_getD, List.getElem?_mapIdx]
  cases m[i]? <;> simp

theorem minRun_length (m : List Bool) (k : Rat) : (minRun m k).length = m.length := by
  rw [minRun_eq_spec]; simp [minRunSpec]

theorem minRun_kept (m : List Bool) (k : Rat) (i : Nat)
    (hi : m.getD i false = true) (hk : k ≤ ((runLenAt m i : Nat) : Rat)) :
    (minRun m k).getD i false = true := by
  rw [minRun_eq_spec, spec_getD, hi]; simp [hk]

theorem minRun_cleared (m : List Bool) (k : Rat) (i : Nat)
    (hk : ((runLenAt m i : Nat) : Rat) < k) :
    (minRun m k).getD i false = false := by
  rw [minRun_eq_spec, spec_getD]
  have : ¬ k ≤ ((runLenAt m i : Nat) : Rat) := Rat.not_le.mpr hk
  simp [this]

theorem getD_true_lt {m : List Bool} {i : Nat} (h : m.getD i false = true) : i < m.length := by
  by_contra hn
  rw [List.getD_eq_getElem?_getD, List.getElem?_eq_none (by omega)] at h
  simp at h

theorem runLenAt_step (m : List Bool) (i : Nat) (h0 : m.getD i false = true)
    (h1 : m.getD (i+1) false = true) : runLenAt m i = runLenAt m (i+1) := by
  have hi1 : i + 1 < m.length := getD_true_lt h1
  have hi : i < m.length := by omega
  have hmi : m[i] = true := by
    rw [List.getD_eq_getElem?_getD, List.getElem?_eq_getElem hi] at h0; simpa using h0
  unfold runLenAt
  rw [h0, h1, if_pos rfl, if_pos rfl, List.take_add_one, List.getElem?_eq_getElem hi,
    List.drop_eq_getElem_cons hi, hmi]
  simp [leadTrue]; omega

theorem runLenAt_const (m : List Bool) (i j : Nat) (hij : i ≤ j)
    (h : ∀ t, i ≤ t → t ≤ j → m.getD t false = true) : runLenAt m i = runLenAt m j := by
  induction j, hij using Nat.le_induction with
  | base => rfl
  | succ j hij ih =>
    rw [ih (fun t h1 h2 => h t h1 (by omega))]
    exact runLenAt_step m j (h j hij (by omega)) (h (j+1) (by omega) (by omega))

theorem minRun_le (m : List Bool) (k : Rat) : maskLe (minRun m k) m := by
  refine ⟨minRun_length m k, ?_⟩
  intro i hi
  rw [minRun_eq_spec, spec_getD] at hi
  simp at hi; exact hi.1

theorem minRun_idem (m : List Bool) (k : Rat) : minRun (minRun m k) k = minRun m k := by
  induction m using run_induction with
  | nil => rfl
  | cf bs ih => rw [minRun_cons_false, minRun_cons_false, ih]
  | rend n =>
    rw [minRun_run_end]
    by_cases h : k ≤ ((n+1 : Nat) : Rat)
    · simp only [h, decide_true]; rw [minRun_run_end]; simp only [h, decide_true]
    · simp only [h, decide_false]
      have := minRun_replicate_false (n+1) [] k
      simpa [minRun_nil] using this
  | rf n rest ih =>
    rw [minRun_run_false]
    by_cases h : k ≤ ((n+1 : Nat) : Rat)
    · simp only [h, decide_true]; rw [minRun_run_false, ih]; simp only [h, decide_true]
    · simp only [h, decide_false]
      rw [minRun_replicate_false, minRun_cons_false, ih]

theorem minRun_append_false (m : List Bool) (k : Rat) :
    minRun (m ++ [false]) k = minRun m k ++ [false] := by
  induction m using run_induction with
  | nil => exact minRun_cons_false [] k
  | cf bs ih => rw [List.cons_append, minRun_cons_false, minRun_cons_false, ih, List.cons_append]
  | rend n => rw [minRun_run_false, minRun_run_end, minRun_nil]
  | rf n rest ih =>
    rw [List.append_assoc, List.cons_append, minRun_run_false, minRun_run_false, ih]
    simp

theorem minRun_pad (m : List Bool) (k : Rat) :
    minRun (false :: m ++ [false]) k = false :: minRun m k ++ [false] := by
  rw [List.cons_append, minRun_cons_false, minRun_append_false, List.cons_append]

theorem minRun_antitone (m : List Bool) (k k' : Rat) (h : k ≤ k') :
    maskLe (minRun m k') (minRun m k) := by
  refine ⟨by rw [minRun_length, minRun_length], ?_⟩
  intro i hi
  rw [minRun_eq_spec, spec_getD] at hi ⊢
  simp at hi ⊢
  exact ⟨hi.1, Rat.le_trans h hi.2⟩

theorem leadTrue_mono {a b : List Bool} (h : List.Forall₂ (fun x y => x = true → y = true) a b) :
    leadTrue a ≤ leadTrue b := by
  induction h with
  | nil => exact Nat.le_refl _
  | @cons x y l₁ l₂ hxy _ ih =>
    cases x with
    | false => simp [leadTrue]
    | true => rw [hxy rfl]; simp only [leadTrue]; omega

theorem maskLe_forall₂ {a b : List Bool} (h : maskLe a b) :
    List.Forall₂ (fun x y => x = true → y = true) a b := by
  rw [List.forall₂_iff_get]
  refine ⟨h.1, ?_⟩
  intro i h1 h2 hx
  have := h.2 i
  rw [List.getD_eq_getElem?_getD, List.getD_eq_getElem?_getD,
    List.getElem?_eq_getElem h1, List.getElem?_eq_getElem h2] at this
  simp at this hx ⊢
  exact this hx

theorem runLenAt_mono {m m' : List Bool} (h : maskLe m m') (i : Nat)
    (hi : m.getD i false = true) : runLenAt m i ≤ runLenAt m' i := by
  have hf := maskLe_forall₂ h
  unfold runLenAt
  rw [hi, h.2 i hi, if_pos rfl, if_pos rfl]
  have h1 := leadTrue_mono (List.forall₂_reverse_iff.mpr (List.forall₂_take i hf))
  have h2 := leadTrue_mono (List.forall₂_drop i hf)
  omega

theorem minRun_mono (m m' : List Bool) (k : Rat) (h : maskLe m m') :
    maskLe (minRun m k) (minRun m' k) := by
  refine ⟨by rw [minRun_length, minRun_length, h.1], ?_⟩
  intro i hi
  rw [minRun_eq_spec, spec_getD] at hi ⊢
  simp at hi ⊢
  refine ⟨h.2 i hi.1, Rat.le_trans hi.2 ?_⟩
  exact_mod_cast runLenAt_mono h i hi.1

theorem checkMin_spec (m : List Bool) (k : Rat) :
    checkMinBurstCycles m k =
      if m = [] then .ok [] else if k < 0 then .error .valueError else .ok (minRunSpec m k) := by
  unfold checkMinBurstCycles
  cases m with
  | nil => simp
  | cons b bs => simp [minRun_eq_spec]

theorem minRun_small (m : List Bool) (k : Rat) (h : k ≤ 1) : minRun m k = m := by
  have hk : ∀ n : Nat, k ≤ ((n+1 : Nat) : Rat) := by
    intro n
    have : (1:Rat) ≤ ((n+1 : Nat) : Rat) := by exact_mod_cast Nat.succ_le_succ (Nat.zero_le n)
    exact Rat.le_trans h this
  induction m using run_induction with
  | nil => rfl
  | cf bs ih => rw [minRun_cons_false, ih]
  | rend n => rw [minRun_run_end]; simp only [hk n, decide_true]
  | rf n rest ih => rw [minRun_run_false, ih]; simp only [hk n, decide_true]

end Bycycle
