import BycycleModel.EffectsFull
import BycycleModel.EffectPrograms
import Proofs.Effects
import Proofs.EffectsFullAux
/-!
# Interprocedural soundness of the effect analysis
-/
namespace Bycycle.Eff

/-- a program is well-summarised: every function has distinct parameters, distinct names, and its body respects
its own summary (checked by the static analysis against the summaries of its callees). -/
def wellSummarised (prog : List Fn) (summ : Summ) : Bool :=
  prog.all (fun f => f.respects summ && decide f.params.Nodup) && decide ((prog.map (·.name)).Nodup)

/-- INTERPROCEDURAL SOUNDNESS: in a well-summarised program, executing any function with REAL calls (callee
bodies run on the shared object store, any branch resolution, any step budget) writes caller-owned objects
only at the parameter positions listed in that function's summary. -/
theorem sound_full (prog : List Fn) (summ : Summ) (hw : wellSummarised prog summ = true)
    (f : Fn) (hf : f ∈ prog) (fuel : Nat) (oracle : List Bool) (o : Nat) (ho : o ∈ f.runFull prog summ fuel oracle) :
    o ∈ summ.get f.name := by
  unfold wellSummarised at hw
  rw [Bool.and_eq_true, List.all_eq_true] at hw
  refine sound_full_aux prog summ (fun g hg => ?_) f hf fuel oracle o ho
  have := hw.1 g hg
  simpa using this

/-- the program made of the functions C15 lists: the bodies of the listed functions plus nothing else (every other
callee keeps the contract semantics of `summaries`). -/
theorem pureFns_wellSummarised : wellSummarised pureFns summaries = true := by decide

/-- every listed function has the empty summary. -/
theorem pureFns_emptySummary : pureFns.all (fun f => (summaries.get f.name).isEmpty) = true := by decide

/-- hence, with real calls among the listed functions, none of them writes a caller-owned object. -/
theorem frame_full (f : Fn) (hf : f ∈ pureFns) (fuel : Nat) (oracle : List Bool) : f.runFull pureFns summaries fuel oracle = [] := by
  apply List.eq_nil_iff_forall_not_mem.mpr
  intro o ho
  have h1 := sound_full pureFns summaries pureFns_wellSummarised f hf fuel oracle o ho
  have h2 := List.all_eq_true.mp pureFns_emptySummary f hf
  rw [List.isEmpty_iff] at h2
  rw [h2] at h1
  cases h1

end Bycycle.Eff
