import Proofs.ExtremaAux1
/-!
# Auxiliary lemmas for C02, part 2: the advancing scans compute the specification
-/
namespace Bycycle

theorem scanNext_gt (xs : List Nat) (v : Nat) :
    scanNext .gt xs v =
      match xs.dropWhile (fun x => !decide (v < x)) with
      | [] => xs
      | ys => ys := by
  unfold scanNext
  simp only [Cmp.evalInt, Int.ofNat_eq_natCast, Int.ofNat_lt]
  rfl

theorem dropWhile_dropWhile_of_imp {α} (p q : α → Bool) (h : ∀ x, p x = true → q x = true) (l : List α) :
    (l.dropWhile p).dropWhile q = l.dropWhile q := by
  induction l with
  | nil => rfl
  | cons a t ih =>
    by_cases hp : p a = true
    · simp [hp, h a hp, ih]
    · simp [hp]

theorem head?_dropWhile_not' {α} (p : α → Bool) (l : List α) :
    (l.dropWhile (fun x => !p x)).head? = l.find? p := by
  induction l with
  | nil => rfl
  | cons a t ih =>
    by_cases hp : p a = true
    · simp [hp]
    · simp [hp, ih]

/-- what one loop iteration contributes for the start crossing `s`. -/
def stepF (sig : List Rat) (pick : List Rat → Option Nat) (O : List Nat) (s : Nat) : Option Nat :=
  (O.find? (fun e => decide (s < e))).bind fun e => (pick (slice sig s e)).map (· + s)

theorem go_eq (sig : List Rat) (pick : List Rat → Option Nat) (starts O : List Nat)
    (hs : starts.Pairwise (· < ·)) :
    ∀ (k i : Nat) (others acc : List Nat),
      i + k ≤ starts.length →
      (∀ j (hj : j < starts.length), i ≤ j →
        others.dropWhile (fun x => !decide (starts[j] < x)) = O.dropWhile (fun x => !decide (starts[j] < x))) →
      (∀ j (hj : j < starts.length), i ≤ j → j < i + k → (stepF sig pick O starts[j]).isSome = true) →
      extremaLoop.go sig pick .gt starts k i others acc =
        .ok (acc.reverse ++ ((starts.drop i).take k).filterMap (stepF sig pick O)) := by
  intro k
  induction k with
  | zero => intro i others acc _ _ _; simp [extremaLoop.go]
  | succ k ih =>
    intro i others acc hik hinv hsome
    have hi : i < starts.length := by omega
    unfold extremaLoop.go
    rw [List.getElem?_eq_getElem hi]
    simp only
    have hs1 := hsome i hi (Nat.le_refl _) (by omega)
    unfold stepF at hs1
    cases hfind : O.find? (fun e => decide (starts[i] < e)) with
    | none => rw [hfind] at hs1; simp at hs1
    | some e =>
      rw [hfind] at hs1
      simp only [Option.bind_some, Option.isSome_map] at hs1
      have hd := hinv i hi (Nat.le_refl _)
      have hhead : (O.dropWhile (fun x => !decide (starts[i] < x))).head? = some e := by
        rw [head?_dropWhile_not' (fun x => decide (starts[i] < x))]; exact hfind
      have hscan : scanNext .gt others starts[i] = O.dropWhile (fun x => !decide (starts[i] < x)) := by
        rw [scanNext_gt, hd]
        cases hO : O.dropWhile (fun x => !decide (starts[i] < x)) with
        | nil => rw [hO] at hhead; simp at hhead
        | cons y ys => rfl
      rw [hscan, hhead]
      simp only
      cases hp : pick (slice sig starts[i] e) with
      | none => rw [hp] at hs1; simp at hs1
      | some j =>
        simp only
        rw [ih (i + 1) _ _ (by omega) ?_ ?_]
        · rw [List.drop_eq_getElem_cons hi, List.take_succ_cons, List.filterMap_cons]
          have : stepF sig pick O starts[i] = some (j + starts[i]) := by
            unfold stepF; rw [hfind]; simp [hp]
          rw [this]
          simp
        · intro j' hj' hij'
          apply dropWhile_dropWhile_of_imp
          intro x hx
          have := (List.pairwise_iff_getElem.1 hs) i j' hi hj' (by omega)
          simp only [Bool.not_eq_eq_eq_not, Bool.not_true, decide_eq_false_iff_not] at hx ⊢
          omega
        · intro j' hj' hij' hlt
          exact hsome j' hj' (by omega) (by omega)

theorem loop_eq (sig : List Rat) (pick : List Rat → Option Nat) (A O : List Nat)
    (hA : A.Pairwise (· < ·)) (n : Nat) (hn : n ≤ A.length)
    (h1 : ∀ i (hi : i < A.length), i < n → (stepF sig pick O A[i]).isSome = true)
    (h2 : ∀ i (hi : i < A.length), n ≤ i → stepF sig pick O A[i] = none) :
    extremaLoop sig pick .gt A n O = .ok (A.filterMap (stepF sig pick O)) := by
  unfold extremaLoop
  rw [go_eq sig pick A O hA n 0 O [] (by omega) (fun _ _ _ => rfl)
    (fun j hj _ hlt => h1 j hj (by omega))]
  simp only [List.reverse_nil, List.nil_append, List.drop_zero]
  congr 1
  conv => rhs; rw [← List.take_append_drop n A]
  rw [List.filterMap_append]
  have : (A.drop n).filterMap (stepF sig pick O) = [] := by
    rw [List.filterMap_eq_nil_iff]
    intro a ha
    obtain ⟨j, hj, rfl⟩ := List.mem_drop_iff_getElem.1 ha
    exact h2 _ _ (by omega)
  rw [this, List.append_nil]

theorem sorted_le_getLast (l : List Nat) (hl : l.Pairwise (· < ·)) (h : l ≠ []) (i : Nat) (hi : i < l.length) :
    l[i] ≤ l.getLast h ∧ (i + 1 < l.length → l[i] < l.getLast h) := by
  rw [List.getLast_eq_getElem]
  have hp := List.pairwise_iff_getElem.1 hl
  rcases Nat.lt_or_ge (i + 1) l.length with h' | h'
  · have := hp i (l.length - 1) hi (by omega) (by omega)
    exact ⟨by omega, fun _ => this⟩
  · have : i = l.length - 1 := by omega
    subst this
    exact ⟨Nat.le_refl _, fun h'' => by omega⟩

theorem loop_eq' (sig : List Rat) (pick : List Rat → Option Nat) (A O : List Nat)
    (hA : A.Pairwise (· < ·)) (hO : O.Pairwise (· < ·)) (hA0 : A ≠ []) (hO0 : O ≠ [])
    (halt : ∀ a a', a ∈ A → a' ∈ A → a < a' → ∃ o ∈ O, a < o)
    (hne : ∀ a ∈ A, ∀ o ∈ O, a ≠ o)
    (hpick : ∀ s ∈ A, ∀ e ∈ O, s < e → (pick (slice sig s e)).isSome = true) :
    extremaLoop sig pick .gt A (if O.getLastD 0 < A.getLastD 0 then A.length - 1 else A.length) O =
      .ok (A.filterMap (stepF sig pick O)) := by
  have hlA : A.getLastD 0 = A.getLast hA0 := by
    rw [List.getLastD_eq_getLast?, List.getLast?_eq_some_getLast hA0]; rfl
  have hlO : O.getLastD 0 = O.getLast hO0 := by
    rw [List.getLastD_eq_getLast?, List.getLast?_eq_some_getLast hO0]; rfl
  rw [hlA, hlO]
  have hApos : 0 < A.length := List.length_pos_iff.2 hA0
  -- a start with a later crossing of the other kind contributes
  have hsome : ∀ s ∈ A, (∃ o ∈ O, s < o) → (stepF sig pick O s).isSome = true := by
    intro s hs hex
    unfold stepF
    have : (O.find? (fun e => decide (s < e))).isSome = true := by
      rw [List.find?_isSome]
      obtain ⟨o, ho, hso⟩ := hex
      exact ⟨o, ho, by simpa using hso⟩
    cases hf : O.find? (fun e => decide (s < e)) with
    | none => rw [hf] at this; simp at this
    | some e =>
      have he := List.mem_of_find?_eq_some hf
      have hse := List.find?_some hf
      simp only [Option.bind_some, Option.isSome_map]
      exact hpick s hs e he (by simpa using hse)
  apply loop_eq sig pick A O hA
  · split <;> omega
  · intro i hi hin
    apply hsome _ (List.getElem_mem hi)
    split at hin
    · exact halt A[i] A[i + 1] (List.getElem_mem hi) (List.getElem_mem (by omega))
        ((List.pairwise_iff_getElem.1 hA) i (i + 1) hi (by omega) (by omega))
    · rename_i hlt
      refine ⟨O.getLast hO0, List.getLast_mem hO0, ?_⟩
      have h1 := (sorted_le_getLast A hA hA0 i hi).1
      have h2 := hne _ (List.getLast_mem hA0) _ (List.getLast_mem hO0)
      omega
  · intro i hi hin
    split at hin
    · rename_i hlt
      have hi' : i = A.length - 1 := by omega
      unfold stepF
      have : O.find? (fun e => decide (A[i] < e)) = none := by
        rw [List.find?_eq_none]
        intro x hx
        obtain ⟨j, hj, rfl⟩ := List.mem_iff_getElem.1 hx
        have h1 := (sorted_le_getLast O hO hO0 j hj).1
        have h2 : A[i] = A.getLast hA0 := by
          rw [List.getLast_eq_getElem]; congr
        simp only [decide_eq_true_eq]
        omega
      rw [this]; rfl
    · omega

theorem riseXs_eq (b : List Bool) (hr : risingX b ≠ []) : riseXs b = risingX b := by
  unfold riseXs risingX at *
  simp [List.isEmpty_iff, hr]

theorem decayXs_eq (b : List Bool) (hd : decayingX b ≠ []) : decayXs b = decayingX b := by
  unfold decayXs decayingX at *
  simp [List.isEmpty_iff, hd]

theorem peaksSpec_eq_stepF (sig : List Rat) (b : List Bool) :
    peaksSpec sig b = (risingX b).filterMap (stepF sig argmaxFirst (decayingX b)) := by
  unfold peaksSpec closedPos
  rw [List.filterMap_filterMap]
  congr 1
  funext r
  unfold stepF
  cases (decayingX b).find? (fun d => decide (r < d)) <;> rfl

theorem troughsSpec_eq_stepF (sig : List Rat) (b : List Bool) :
    troughsSpec sig b = (decayingX b).filterMap (stepF sig argminFirst (risingX b)) := by
  unfold troughsSpec closedNeg
  rw [List.filterMap_filterMap]
  congr 1
  funext r
  unfold stepF
  cases (risingX b).find? (fun d => decide (r < d)) <;> rfl

theorem slice_ne_nil (sig : List Rat) (s e : Nat) (h : s < e) (he : e ≤ sig.length) : slice sig s e ≠ [] := by
  intro h0
  have : (slice sig s e).length = 0 := by rw [h0]; rfl
  unfold slice at this
  simp at this
  omega

theorem rising_ne_decaying (b : List Bool) (r d : Nat) (hr : r ∈ risingX b) (hd : d ∈ decayingX b) : r ≠ d := by
  intro e
  subst e
  have h1 := (mem_risingX_aux b r).1 hr
  have h2 := (mem_decayingX_aux b r).1 hd
  rw [h1.2.1] at h2
  cases h2.2.1

theorem rawExtrema_eq_spec_aux (sig : List Rat) (b : List Bool) (hlen : sig.length = b.length)
    (hr : risingX b ≠ []) (hd : decayingX b ≠ []) :
    rawExtrema sig b = .ok (peaksSpec sig b, troughsSpec sig b) := by
  unfold rawExtrema
  simp only [riseXs_eq b hr, decayXs_eq b hd, Slots.lastCrossingCmp, Slots.scanDecayCmp, Slots.scanRiseCmp,
    Cmp.evalInt, Int.ofNat_lt, decide_eq_true_eq]
  have hne := rising_ne_decaying b
  have hP := loop_eq' sig argmaxFirst (risingX b) (decayingX b) (risingX_sorted_aux b) (decayingX_sorted_aux b)
    hr hd (fun a a' ha ha' hlt => by
      obtain ⟨d, hd, h1, _⟩ := alt_rd_aux b a a' ha ha' hlt
      exact ⟨d, hd, h1⟩)
    (fun a ha o ho => hne a o ha ho)
    (fun s hs e he hse => argmaxFirst_isSome_aux _ (slice_ne_nil sig s e hse (by
      have := ((mem_decayingX_aux b e).1 he).1; omega)))
  have hT := loop_eq' sig argminFirst (decayingX b) (risingX b) (decayingX_sorted_aux b) (risingX_sorted_aux b)
    hd hr (fun a a' ha ha' hlt => by
      obtain ⟨d, hd, h1, _⟩ := alt_dr_aux b a a' ha ha' hlt
      exact ⟨d, hd, h1⟩)
    (fun a ha o ho => (hne o a ho ha).symm)
    (fun s hs e he hse => argminFirst_isSome_aux _ (slice_ne_nil sig s e hse (by
      have := ((mem_risingX_aux b e).1 he).1; omega)))
  have hlast : (risingX b).getLastD 0 ≠ (decayingX b).getLastD 0 := by
    rw [List.getLastD_eq_getLast?, List.getLast?_eq_some_getLast hr,
      List.getLastD_eq_getLast?, List.getLast?_eq_some_getLast hd]
    exact hne _ _ (List.getLast_mem hr) (List.getLast_mem hd)
  rw [hP]
  have hT' : extremaLoop sig argminFirst Cmp.gt (decayingX b)
      (if (decayingX b).getLastD 0 < (risingX b).getLastD 0 then (decayingX b).length else (decayingX b).length - 1)
      (risingX b) = .ok ((decayingX b).filterMap (stepF sig argminFirst (risingX b))) := by
    rw [← hT]
    congr 1
    split <;> split <;> omega
  simp only [bind, Except.bind]
  rw [hT', peaksSpec_eq_stepF, troughsSpec_eq_stepF]

end Bycycle
