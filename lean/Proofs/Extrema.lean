import Proofs.ExtremaAux4
/-!
# Helper lemmas for C02 (extrema of narrow-band half-waves)
-/
namespace Bycycle

theorem mem_risingX (b : List Bool) (i : Nat) :
    i ∈ risingX b ↔ (i + 1 < b.length ∧ b.getD i false = false ∧ b.getD (i + 1) false = true) := by
  exact mem_risingX_aux b i

theorem mem_decayingX (b : List Bool) (i : Nat) :
    i ∈ decayingX b ↔ (i + 1 < b.length ∧ b.getD i false = true ∧ b.getD (i + 1) false = false) := by
  exact mem_decayingX_aux b i

theorem risingX_sorted (b : List Bool) : (risingX b).Pairwise (· < ·) := by
  exact risingX_sorted_aux b

theorem decayingX_sorted (b : List Bool) : (decayingX b).Pairwise (· < ·) := by
  exact decayingX_sorted_aux b

/-- discrete intermediate value: between two rising crossings there is a decaying one. -/
theorem crossings_alternate_rd (b : List Bool) (r r' : Nat) (hr : r ∈ risingX b) (hr' : r' ∈ risingX b)
    (h : r < r') : ∃ d ∈ decayingX b, r < d ∧ d < r' := by
  exact alt_rd_aux b r r' hr hr' h

theorem crossings_alternate_dr (b : List Bool) (d d' : Nat) (hd : d ∈ decayingX b) (hd' : d' ∈ decayingX b)
    (h : d < d') : ∃ r ∈ risingX b, d < r ∧ r < d' := by
  exact alt_dr_aux b d d' hd hd' h

theorem mem_closedPos (b : List Bool) (r d : Nat) :
    (r, d) ∈ closedPos b ↔
      (r < d ∧ d + 1 < b.length ∧ b.getD r false = false ∧
       (∀ j, r < j → j ≤ d → b.getD j false = true) ∧ b.getD (d + 1) false = false) := by
  exact mem_closedPos_aux b r d

theorem mem_closedNeg (b : List Bool) (d r : Nat) :
    (d, r) ∈ closedNeg b ↔
      (d < r ∧ r + 1 < b.length ∧ b.getD d false = true ∧
       (∀ j, d < j → j ≤ r → b.getD j false = false) ∧ b.getD (r + 1) false = true) := by
  exact mem_closedNeg_aux b d r

theorem argmaxFirst_spec (l : List Rat) (i : Nat) (h : argmaxFirst l = some i) :
    i < l.length ∧ (∀ j, j < l.length → l.getD j 0 ≤ l.getD i 0) ∧ (∀ j, j < i → l.getD j 0 < l.getD i 0) := by
  exact argmaxFirst_spec_aux l i h

theorem argminFirst_spec (l : List Rat) (i : Nat) (h : argminFirst l = some i) :
    i < l.length ∧ (∀ j, j < l.length → l.getD i 0 ≤ l.getD j 0) ∧ (∀ j, j < i → l.getD i 0 < l.getD j 0) := by
  exact argminFirst_spec_aux l i h

theorem argmaxFirst_isSome (l : List Rat) (h : l ≠ []) : (argmaxFirst l).isSome = true := by
  exact argmaxFirst_isSome_aux l h

theorem argminFirst_isSome (l : List Rat) (h : l ≠ []) : (argminFirst l).isSome = true := by
  exact argminFirst_isSome_aux l h

/-- the two advancing scans report exactly one extremum per closed half-wave and nothing else. -/
theorem rawExtrema_eq_spec (sig : List Rat) (b : List Bool) (hlen : sig.length = b.length)
    (hr : risingX b ≠ []) (hd : decayingX b ≠ []) :
    rawExtrema sig b = .ok (peaksSpec sig b, troughsSpec sig b) := by
  exact rawExtrema_eq_spec_aux sig b hlen hr hd

theorem unpadFilter_eq_spec (xs : List Nat) (pad n : Nat) (bd : Int) :
    unpadFilter Slots.boundaryLoCmp Slots.boundaryHiCmp xs pad n bd = boundarySpec xs pad n bd ∧
    unpadFilter Slots.boundaryLoCmpTroughs Slots.boundaryHiCmpTroughs xs pad n bd = boundarySpec xs pad n bd := by
  constructor <;>
  · unfold unpadFilter boundarySpec
    simp only [Slots.boundaryLoCmp, Slots.boundaryHiCmp, Slots.boundaryLoCmpTroughs, Slots.boundaryHiCmpTroughs,
      Cmp.evalInt]

theorem mem_boundarySpec (xs : List Nat) (pad n : Nat) (bd x : Int) :
    x ∈ boundarySpec xs pad n bd ↔ ∃ y ∈ xs, x = (y : Int) - (pad : Int) ∧ bd < x ∧ x < (n : Int) - bd := by
  unfold boundarySpec
  simp only [List.mem_filter, List.mem_map, Bool.and_eq_true, decide_eq_true_eq, Int.ofNat_eq_natCast]
  constructor
  · rintro ⟨⟨y, hy, rfl⟩, h1, h2⟩
    exact ⟨y, hy, rfl, h1, h2⟩
  · rintro ⟨y, hy, rfl, h1, h2⟩
    exact ⟨⟨y, hy, rfl⟩, h1, h2⟩

/-- peaks and troughs of the specification strictly alternate. -/
theorem spec_alternating (sig : List Rat) (b : List Bool) (hlen : sig.length = b.length) :
    StrictAlt ((peaksSpec sig b).map Int.ofNat) ((troughsSpec sig b).map Int.ofNat) := by
  exact spec_alternating_aux sig b hlen

/-- un-padding and the boundary window keep a contiguous stretch, hence alternation. -/
theorem boundary_alternating (P T : List Nat) (pad n : Nat) (bd : Int)
    (h : StrictAlt (P.map Int.ofNat) (T.map Int.ofNat)) :
    StrictAlt (boundarySpec P pad n bd) (boundarySpec T pad n bd) := by
  exact boundary_alternating_aux P T pad n bd h

theorem trimFirst_eq_spec (fe : FirstExt) (P T : List Int) (h : StrictAlt P T) :
    trimFirst fe P T = trimSpec fe P T := by
  rw [StrictAlt_iff] at h
  cases fe with
  | peak => rw [trimFirst_peak_eq, trimSpec_peak_eq]; exact (trim_main P T h).1
  | trough => rw [trimFirst_trough_eq, trimSpec_trough_eq, (trim_main T P h.symm).1]
  | none => rfl
  | invalid => rfl

theorem trimSpec_peak_props (P T P' T' : List Int) (h : StrictAlt P T) (hr : trimSpec .peak P T = .ok (P', T')) :
    altFrom true none P' T' = true ∧ P'.length = T'.length ∧ P'.Sublist P ∧ T'.Sublist T := by
  rw [StrictAlt_iff] at h
  rw [trimSpec_peak_eq] at hr
  have := (trim_main P T h).2 P' T' hr
  rw [altFrom_eq_altS]
  exact this

theorem trimSpec_trough_props (P T P' T' : List Int) (h : StrictAlt P T) (hr : trimSpec .trough P T = .ok (P', T')) :
    altFrom false none P' T' = true ∧ P'.length = T'.length ∧ P'.Sublist P ∧ T'.Sublist T := by
  rw [StrictAlt_iff] at h
  rw [trimSpec_trough_eq] at hr
  have hc : trimCore T P = .ok (T', P') := by
    cases hx : trimCore T P with
    | error e => rw [hx] at hr; cases hr
    | ok v =>
      rw [hx] at hr
      obtain ⟨v1, v2⟩ := v
      simp only [Except.map, Prod.swap, Except.ok.injEq, Prod.mk.injEq] at hr
      obtain ⟨rfl, rfl⟩ := hr
      rfl
  have := (trim_main T P h.symm).2 T' P' hc
  rw [altFrom_eq_altS]
  exact ⟨this.1, this.2.1.symm, this.2.2.2, this.2.2.1⟩

theorem findExtrema_eq_spec (sig : List Rat) (pad : Nat) (b : List Bool) (bd : Int) (fe : FirstExt)
    (hlen : b.length = sig.length + 2 * pad) (hr : risingX b ≠ []) (hd : decayingX b ≠ []) :
    findExtrema sig pad b bd fe = findExtremaSpec sig pad b bd fe := by
  unfold findExtrema findExtremaSpec
  have hlen' : (List.replicate pad (0 : Rat) ++ sig ++ List.replicate pad 0).length = b.length := by
    simp only [List.length_append, List.length_replicate]; omega
  simp only [rawExtrema_eq_spec _ b hlen' hr hd, bind, Except.bind]
  rw [(unpadFilter_eq_spec _ pad sig.length bd).1, (unpadFilter_eq_spec _ pad sig.length bd).2]
  exact trimFirst_eq_spec fe _ _ (boundary_alternating _ _ pad sig.length bd (spec_alternating _ b hlen'))

end Bycycle
